(** C18, pointer level: the heap model of LfuHeapModel.v refines the bucket-list
    model of LfuModel.v.  [heap_repr h s]: walking [h] from freq_link_head yields
    exactly the bucket list of [s]; pre pointers are the inverse of nxt; every
    cache node's freq_node is its bucket; cache_head/cache_tail are the ends of
    the bucket's list; the dict maps each key to its node; nothing else is linked.
    Every heap-level operation on a heap representing [s] never hits the error
    value and yields a heap representing [step s op], with the same output. *)
From Coq Require Import List ZArith Bool Arith Lia Permutation.
Import ListNotations.
From DD Require Import Lfu.LfuModel Lfu.LfuSpec Lfu.LfuInv Lfu.LfuSpecProps Lfu.LfuProofs Lfu.LfuHeapModel.

(* ------------------------------------------------------------------ *)
(** * Finite maps *)

Lemma mget_mset {N} (m : list (id * N)) i x j :
  mget (mset m i x) j = if Nat.eqb i j then Some x else mget m j.
Proof.
  induction m as [|[a y] r IH]; cbn [mset mget].
  - reflexivity.
  - destruct (Nat.eqb_spec a i) as [E|NE]; cbn [mget].
    + subst a. destruct (Nat.eqb i j); reflexivity.
    + rewrite IH. destruct (Nat.eqb_spec a j) as [E2|NE2]; [|reflexivity].
      subst a. destruct (Nat.eqb_spec i j) as [E3|_]; [congruence|reflexivity].
Qed.

Ltac eqb_simp :=
  repeat match goal with
  | |- context [Nat.eqb ?a ?a] => rewrite (Nat.eqb_refl a)
  | H : ?a <> ?b |- context [Nat.eqb ?a ?b] => rewrite (proj2 (Nat.eqb_neq a b) H)
  | H : ?b <> ?a |- context [Nat.eqb ?a ?b] => rewrite (proj2 (Nat.eqb_neq a b) (not_eq_sym H))
  end.

(* ------------------------------------------------------------------ *)
(** * Doubly linked segments (generic in the entry type) *)

Section Seg.
Context {A : Type} (idof : A -> id).

Definition hdid (l : list A) (d : option id) : option id :=
  match l with [] => d | a :: _ => Some (idof a) end.
Fixpoint lastid (l : list A) (d : option id) : option id :=
  match l with [] => d | a :: r => lastid r (Some (idof a)) end.

(** [dseg P p l n]: the entries of [l] are linked in this order; the first has
    predecessor [p], the last has successor [n]; [P a pre nxt] describes node [a] *)
Fixpoint dseg (P : A -> option id -> option id -> Prop) (p : option id) (l : list A) (n : option id) : Prop :=
  match l with
  | [] => True
  | a :: r => P a p (hdid r n) /\ dseg P (Some (idof a)) r n
  end.

Lemma hdid_app l1 l2 d : hdid (l1 ++ l2) d = hdid l1 (hdid l2 d).
Proof. destruct l1; reflexivity. Qed.
Lemma lastid_app l1 l2 d : lastid (l1 ++ l2) d = lastid l2 (lastid l1 d).
Proof. revert d. induction l1 as [|a r IH]; intros d; [reflexivity|]. cbn [app lastid]. apply IH. Qed.

Lemma hdid_nonnil l d d' : l <> [] -> hdid l d = hdid l d'.
Proof. destruct l; [congruence|reflexivity]. Qed.
Lemma lastid_nonnil l d d' : l <> [] -> lastid l d = lastid l d'.
Proof. destruct l; [congruence|reflexivity]. Qed.
Lemma snoc_nonnil (l : list A) x : l ++ [x] <> [].
Proof. intros C. apply app_eq_nil in C. destruct C; discriminate. Qed.

Lemma hdid_in l d : l <> [] -> exists x, hdid l d = Some x /\ In x (map idof l).
Proof. destruct l as [|a r]; [congruence|]. intros _. exists (idof a). split; [reflexivity|left; reflexivity]. Qed.
Lemma lastid_in l d : l <> [] -> exists x, lastid l d = Some x /\ In x (map idof l).
Proof.
  revert d. induction l as [|a r IH]; intros d H; [congruence|]. cbn [lastid].
  destruct r as [|b r'].
  - exists (idof a). split; [reflexivity|left; reflexivity].
  - destruct (IH (Some (idof a)) ltac:(discriminate)) as (x & E & Hx). exists x. split; [exact E|right; exact Hx].
Qed.

Lemma dseg_app P p l1 l2 n :
  dseg P p (l1 ++ l2) n <-> dseg P p l1 (hdid l2 n) /\ dseg P (lastid l1 p) l2 n.
Proof.
  revert p. induction l1 as [|a r IH]; intros p; cbn [app dseg lastid].
  - tauto.
  - rewrite hdid_app, IH. tauto.
Qed.

Lemma dseg_ext (P Q : A -> option id -> option id -> Prop) p l n :
  (forall a p' n', In a l -> P a p' n' -> Q a p' n') -> dseg P p l n -> dseg Q p l n.
Proof.
  revert p. induction l as [|a r IH]; intros p H; cbn [dseg]; [tauto|]. intros [H1 H2]. split.
  - apply H; [left; reflexivity|exact H1].
  - apply IH; [|exact H2]. intros x p' n' Hx. apply H. right. exact Hx.
Qed.
End Seg.

(* ------------------------------------------------------------------ *)
Section Gen.
Variable val : Type.
Local Notation cnode := (cnode val).
Local Notation heap := (heap val).
Local Notation bucket := (bucket val).
Local Notation lfu := (lfu val).
Local Notation op := (op val).

Definition cget (h : heap) (i : id) : option cnode := mget (cns h) i.
Definition fget (h : heap) (i : id) : option fnode := mget (fns h) i.

Definition same_rest (h h' : heap) : Prop :=
  dict h' = dict h /\ hhead h' = hhead h /\ hcap h' = hcap h /\ nextc h' = nextc h /\ nextf h' = nextf h.
(** [h'] is [h] with cache node / freq node [i] overwritten *)
Definition cupd (h h' : heap) (i : id) (c : cnode) : Prop :=
  (forall j, cget h' j = if Nat.eqb i j then Some c else cget h j) /\
  (forall j, fget h' j = fget h j) /\ same_rest h h'.
Definition fupd (h h' : heap) (i : id) (f : fnode) : Prop :=
  (forall j, fget h' j = if Nat.eqb i j then Some f else fget h j) /\
  (forall j, cget h' j = cget h j) /\ same_rest h h'.

Lemma same_rest_refl h : same_rest h h.
Proof. repeat split. Qed.
Lemma same_rest_trans h1 h2 h3 : same_rest h1 h2 -> same_rest h2 h3 -> same_rest h1 h3.
Proof. unfold same_rest. intros (A1 & A2 & A3 & A4 & A5) (B1 & B2 & B3 & B4 & B5). repeat split; congruence. Qed.

Lemma getc_some h i : getc h (Some i) = cget h i.
Proof. reflexivity. Qed.
Lemma getf_some h i : getf h (Some i) = fget h i.
Proof. reflexivity. Qed.

Lemma putc_spec h i g c :
  cget h i = Some c -> exists h', putc h (Some i) g = Some h' /\ cupd h h' i (g c).
Proof.
  intros H. unfold putc, bind. unfold cget in H. rewrite H. eexists. split; [reflexivity|].
  split; [|split; [intros j; reflexivity|repeat split]].
  intros j. unfold cget, set_cns. cbn [cns]. apply mget_mset.
Qed.
Lemma putf_spec h i g f :
  fget h i = Some f -> exists h', putf h (Some i) g = Some h' /\ fupd h h' i (g f).
Proof.
  intros H. unfold putf, bind. unfold fget in H. rewrite H. eexists. split; [reflexivity|].
  split; [|split; [intros j; reflexivity|repeat split]].
  intros j. unfold fget, set_fns. cbn [fns]. apply mget_mset.
Qed.

(* ------------------------------------------------------------------ *)
(** * Shapes: the abstract bucket list decorated with node ids *)

Definition centry := (id * (key * val))%type.
Definition cid (a : centry) : id := fst a.
Definition akey (a : centry) : key := fst (snd a).
Definition aval (a : centry) : val := snd (snd a).
Definition fentry := (id * (nat * list centry))%type.
Definition fid (e : fentry) : id := fst e.
Definition ffr (e : fentry) : nat := fst (snd e).
Definition fits (e : fentry) : list centry := snd (snd e).

(** cache node [a] of bucket [fi], with neighbours [p] and [n] *)
Definition cP (h : heap) (fi : id) (a : centry) (p n : option id) : Prop :=
  cget h (cid a) = Some (mkC (akey a) (aval a) (Some fi) p n).
(** the cache list of a bucket *)
Definition clist (h : heap) (fi : id) (its : list centry) : Prop := dseg cid (cP h fi) None its None.
(** freq node [fi] with frequency [f], neighbours [p], [n], and cache list [its] *)
Definition bucket_ok (h : heap) (fi : id) (f : nat) (its : list centry) (p n : option id) : Prop :=
  fget h fi = Some (mkF f p n (hdid cid its None) (lastid cid its None)) /\ clist h fi its.
Definition fP (h : heap) (e : fentry) (p n : option id) : Prop := bucket_ok h (fid e) (ffr e) (fits e) p n.
Definition flist (h : heap) (sh : list fentry) : Prop := dseg fid (fP h) None sh None.

Lemma clist_frame h h' fi its :
  (forall a, In a its -> cget h' (cid a) = cget h (cid a)) -> clist h fi its -> clist h' fi its.
Proof.
  intros H. unfold clist. apply dseg_ext. intros a p n Ha. unfold cP. rewrite (H a Ha). tauto.
Qed.

Lemma in_cids a its : In a its -> In (cid a) (map cid its).
Proof. apply in_map. Qed.

(* ------------------------------------------------------------------ *)
(** * CacheNode.free_myself *)

Lemma oid_eqb_refl x : oid_eqb x x = true.
Proof. destruct x; cbn; [apply Nat.eqb_refl|reflexivity]. Qed.
Lemma oid_eqb_neq x y : x <> y -> oid_eqb (Some x) (Some y) = false.
Proof. intros H. cbn. apply Nat.eqb_neq. exact H. Qed.

(** The node [a] sits in bucket [fi] between [l1] and [l2].  Afterwards the bucket's
    list is [l1 ++ l2] (head and tail pointers adjusted), [a] is detached with all
    three pointers None, and nothing else changed. *)
Lemma free_myself_spec h fi f p n l1 a l2 :
  bucket_ok h fi f (l1 ++ a :: l2) p n ->
  NoDup (map cid (l1 ++ a :: l2)) ->
  exists h',
    free_myself h (cid a) = Some h' /\
    bucket_ok h' fi f (l1 ++ l2) p n /\
    cget h' (cid a) = Some (mkC (akey a) (aval a) None None None) /\
    (forall j, ~ In j (map cid (l1 ++ a :: l2)) -> cget h' j = cget h j) /\
    (forall j, j <> fi -> fget h' j = fget h j) /\
    same_rest h h'.
Proof.
  intros [HF HL] Hnd. unfold clist in HL.
  apply dseg_app in HL. destruct HL as [HL1 HL2]. cbn [dseg hdid] in HL1, HL2. destruct HL2 as [Ha HL2].
  rewrite map_app in Hnd. cbn [map] in Hnd.
  pose proof (NoDup_remove_2 _ _ _ Hnd) as Hna.
  assert (Hna1 : ~ In (cid a) (map cid l1)) by (intros C; apply Hna; apply in_or_app; left; exact C).
  assert (Hna2 : ~ In (cid a) (map cid l2)) by (intros C; apply Hna; apply in_or_app; right; exact C).
  destruct (NoDup_app_inv _ _ Hnd) as (Hnd1 & Hnd2' & Hdisj).
  apply NoDup_cons_iff in Hnd2'. destruct Hnd2' as [_ Hnd2].
  rewrite hdid_app, lastid_app in HF. cbn [hdid lastid] in HF.
  unfold cP in Ha.
  unfold free_myself. rewrite getc_some, Ha. cbn [bind cfn]. rewrite getf_some, HF. cbn [bind fhead ftail cnxt cpre].
  (* a generic finisher: the three final writes on [a] *)
  assert (Fin : forall h1 ca,
    cget h1 (cid a) = Some ca -> ckey ca = akey a -> ccont ca = aval a ->
    exists h4, (do h2 <- putc h1 (Some (cid a)) (with_cpre None);
                do h3 <- putc h2 (Some (cid a)) (with_cnxt None);
                putc h3 (Some (cid a)) (with_cfn None)) = Some h4 /\
               cupd h1 h4 (cid a) (mkC (akey a) (aval a) None None None)).
  { intros h1 ca G Ek Ev.
    destruct (putc_spec h1 (cid a) (with_cpre None) ca G) as (h2 & E2 & (U2 & F2 & R2)). rewrite E2. cbn [bind].
    assert (G2 : cget h2 (cid a) = Some (with_cpre None ca)) by (rewrite U2, Nat.eqb_refl; reflexivity).
    destruct (putc_spec h2 (cid a) (with_cnxt None) _ G2) as (h3 & E3 & (U3 & F3 & R3)). rewrite E3. cbn [bind].
    assert (G3 : cget h3 (cid a) = Some (with_cnxt None (with_cpre None ca))) by (rewrite U3, Nat.eqb_refl; reflexivity).
    destruct (putc_spec h3 (cid a) (with_cfn None) _ G3) as (h4 & E4 & (U4 & F4 & R4)). rewrite E4.
    exists h4. split; [reflexivity|]. split; [|split].
    - intros j. rewrite U4. destruct (Nat.eqb_spec (cid a) j) as [E|NE].
      + unfold with_cfn, with_cnxt, with_cpre. cbn. rewrite Ek, Ev. reflexivity.
      + rewrite U3, U2. eqb_simp. reflexivity.
    - intros j. rewrite F4, F3, F2. reflexivity.
    - exact (same_rest_trans _ _ _ (same_rest_trans _ _ _ R2 R3) R4). }
  destruct l1 as [|b0 l1'] using rev_ind; [|clear IHl1'].
  - cbn [app hdid lastid map] in *. destruct l2 as [|c l2'].
    + (* the only node of the bucket *)
      cbn [lastid hdid] in *. rewrite oid_eqb_refl.
      destruct (putf_spec h fi (with_fhead None) _ HF) as (h1 & E1 & (U1 & C1 & R1)). rewrite E1. cbn [bind].
      assert (G1 : fget h1 fi = Some (with_fhead None (mkF f p n (Some (cid a)) (Some (cid a))))) by (rewrite U1, Nat.eqb_refl; reflexivity).
      destruct (putf_spec h1 fi (with_ftail None) _ G1) as (h2 & E2 & (U2 & C2 & R2)). rewrite E2. cbn [bind].
      destruct (Fin h2 _ ltac:(rewrite C2, C1; exact Ha) eq_refl eq_refl) as (h4 & E4 & (U4 & F4 & R4)). rewrite E4.
      exists h4. split; [reflexivity|]. split; [|split; [|split; [|split]]].
      * split; [|exact I]. rewrite F4, U2, Nat.eqb_refl. reflexivity.
      * rewrite U4, Nat.eqb_refl. reflexivity.
      * intros j Hj. rewrite U4. destruct (Nat.eqb_spec (cid a) j) as [E|NE]; [exfalso; apply Hj; left; exact E|].
        rewrite C2, C1. reflexivity.
      * intros j Hj. rewrite F4, U2, U1. eqb_simp. reflexivity.
      * exact (same_rest_trans _ _ _ (same_rest_trans _ _ _ R1 R2) R4).
    + (* head of the list, successor [c] *)
      cbn [dseg hdid lastid map] in *. destruct HL2 as [Hc HL2'].
      destruct (lastid_in cid (c :: l2') (Some (cid a)) ltac:(discriminate)) as (tl & Etl & Htl).
      cbn [lastid] in Etl, HF. rewrite Etl in HF |- *.
      assert (Ntl : tl <> cid a) by (intros E; apply Hna2; rewrite <- E; exact Htl).
      assert (Nc : cid c <> cid a) by (intros E; apply Hna2; left; exact E).
      rewrite (oid_eqb_neq _ _ (not_eq_sym Ntl)), oid_eqb_refl.
      unfold cP in Hc.
      destruct (putc_spec h (cid c) (with_cpre None) _ Hc) as (h1 & E1 & (U1 & F1 & R1)). rewrite E1. cbn [bind].
      rewrite getc_some, U1. eqb_simp. rewrite Ha. cbn [bind cfn cnxt].
      destruct (putf_spec h1 fi (with_fhead (Some (cid c))) _ ltac:(rewrite F1; exact HF)) as (h2 & E2 & (U2 & C2 & R2)).
      rewrite E2. cbn [bind].
      destruct (Fin h2 _ ltac:(rewrite C2, U1; eqb_simp; exact Ha) eq_refl eq_refl) as (h4 & E4 & (U4 & F4 & R4)). rewrite E4.
      exists h4. split; [reflexivity|]. split; [|split; [|split; [|split]]].
      * split.
        -- rewrite F4, U2, Nat.eqb_refl. unfold with_fhead. cbn. rewrite Etl. reflexivity.
        -- unfold clist. cbn [dseg]. split.
           ++ unfold cP. rewrite U4. eqb_simp. rewrite C2, U1, Nat.eqb_refl. reflexivity.
           ++ eapply dseg_ext; [|exact HL2']. intros x p' n' Hx. unfold cP.
              assert (Nx : cid x <> cid a) by (intros E; apply Hna2; right; rewrite <- E; apply in_map; exact Hx).
              assert (Nxc : cid x <> cid c).
              { intros E. cbn [map] in Hnd2. apply NoDup_cons_iff in Hnd2. apply (proj1 Hnd2). rewrite <- E. apply in_map. exact Hx. }
              rewrite U4. eqb_simp. rewrite C2, U1. eqb_simp. tauto.
      * rewrite U4, Nat.eqb_refl. reflexivity.
      * intros j Hj. rewrite U4. destruct (Nat.eqb_spec (cid a) j) as [E|NE]; [exfalso; apply Hj; left; exact E|].
        rewrite C2, U1. destruct (Nat.eqb_spec (cid c) j) as [E|NE2]; [exfalso; apply Hj; right; left; exact E|reflexivity].
      * intros j Hj. rewrite F4, U2, F1. eqb_simp. reflexivity.
      * exact (same_rest_trans _ _ _ (same_rest_trans _ _ _ R1 R2) R4).
  - (* there is a predecessor [b0] *)
    apply dseg_app in HL1. destruct HL1 as [HL1' Hb]. cbn [dseg hdid] in Hb. destruct Hb as [Hb _].
    rewrite lastid_app in Ha |- *. cbn [lastid hdid] in Ha, Hb, HL1' |- *. unfold cP in Hb.
    rewrite map_app in Hna1, Hnd1, Hdisj. cbn [map] in Hna1, Hnd1, Hdisj.
    assert (Nb : cid b0 <> cid a) by (intros E; apply Hna1; apply in_or_app; right; left; exact E).
    destruct (hdid_in cid (l1' ++ [b0]) (Some (cid a)) (snoc_nonnil l1' b0)) as (hd0 & Ehd & Hhd).
    rewrite map_app in Hhd. cbn [map] in Hhd.
    assert (Nhd : hd0 <> cid a) by (intros E; apply Hna1; rewrite <- E; exact Hhd).
    rewrite Ehd in HF |- *.
    destruct l2 as [|c l2'].
    + (* tail of the list *)
      cbn [lastid hdid] in *.
      rewrite !(oid_eqb_neq _ _ Nhd), oid_eqb_refl.
      destruct (putc_spec h (cid b0) (with_cnxt None) _ Hb) as (h1 & E1 & (U1 & F1 & R1)). rewrite E1. cbn [bind].
      rewrite getc_some, U1. eqb_simp. rewrite Ha. cbn [bind cfn cpre].
      destruct (putf_spec h1 fi (with_ftail (Some (cid b0))) _ ltac:(rewrite F1; exact HF)) as (h2 & E2 & (U2 & C2 & R2)).
      rewrite E2. cbn [bind].
      destruct (Fin h2 _ ltac:(rewrite C2, U1; eqb_simp; exact Ha) eq_refl eq_refl) as (h4 & E4 & (U4 & F4 & R4)). rewrite E4.
      exists h4. split; [reflexivity|]. rewrite !app_nil_r. split; [|split; [|split; [|split]]].
      * split.
        -- rewrite F4, U2, Nat.eqb_refl. unfold with_ftail. cbn. rewrite lastid_app. cbn [lastid].
           rewrite hdid_app in Ehd. rewrite hdid_app. cbn [hdid] in Ehd |- *.
           destruct l1'; cbn [hdid] in Ehd |- *; congruence.
        -- unfold clist. apply dseg_app. split.
           ++ eapply dseg_ext; [|exact HL1']. intros x p' n' Hx. unfold cP.
              assert (Nx : cid x <> cid a) by (intros E; apply Hna1; apply in_or_app; left; rewrite <- E; apply in_map; exact Hx).
              assert (Nxb : cid x <> cid b0).
              { intros E. apply (NoDup_remove_2 _ _ _ Hnd1). rewrite app_nil_r, <- E. apply in_map. exact Hx. }
              rewrite U4. eqb_simp. rewrite C2, U1. eqb_simp. tauto.
           ++ cbn [dseg hdid]. split; [|exact I]. unfold cP. rewrite U4. eqb_simp. rewrite C2, U1, Nat.eqb_refl. reflexivity.
      * rewrite U4, Nat.eqb_refl. reflexivity.
      * intros j Hj. rewrite U4. rewrite !map_app in Hj. cbn [map] in Hj.
        destruct (Nat.eqb_spec (cid a) j) as [E|NE]; [exfalso; apply Hj; apply in_or_app; right; left; exact E|].
        rewrite C2, U1. destruct (Nat.eqb_spec (cid b0) j) as [E|NE2]; [|reflexivity].
        exfalso. apply Hj. apply in_or_app. left. apply in_or_app. right. left. exact E.
      * intros j Hj. rewrite F4, U2, F1. eqb_simp. reflexivity.
      * exact (same_rest_trans _ _ _ (same_rest_trans _ _ _ R1 R2) R4).
    + (* in the middle: predecessor [b0], successor [c] *)
      cbn [dseg hdid lastid map] in *. destruct HL2 as [Hc HL2']. unfold cP in Hc.
      destruct (lastid_in cid (c :: l2') (Some (cid a)) ltac:(discriminate)) as (tl & Etl & Htl).
      cbn [lastid] in Etl. rewrite Etl in HF |- *.
      assert (Ntl : tl <> cid a) by (intros E; apply Hna2; rewrite <- E; exact Htl).
      assert (Nc : cid c <> cid a) by (intros E; apply Hna2; left; exact E).
      assert (Nhdtl : hd0 <> tl) by (intros E; apply (Hdisj hd0 Hhd); right; rewrite E; exact Htl).
      assert (Nbc : cid b0 <> cid c).
      { intros E. apply (Hdisj (cid b0)); [apply in_or_app; right; left; reflexivity|right; left; symmetry; exact E]. }
      rewrite (oid_eqb_neq _ _ Nhdtl), (oid_eqb_neq _ _ Nhd), (oid_eqb_neq _ _ Ntl).
      destruct (putc_spec h (cid b0) (with_cnxt (Some (cid c))) _ Hb) as (h1 & E1 & (U1 & F1 & R1)). rewrite E1. cbn [bind].
      rewrite getc_some, U1. eqb_simp. rewrite Ha. cbn [bind cnxt cpre].
      destruct (putc_spec h1 (cid c) (with_cpre (Some (cid b0))) _ ltac:(rewrite U1; eqb_simp; exact Hc)) as (h2 & E2 & (U2 & F2 & R2)).
      rewrite E2. cbn [bind].
      destruct (Fin h2 _ ltac:(rewrite U2, U1; eqb_simp; exact Ha) eq_refl eq_refl) as (h4 & E4 & (U4 & F4 & R4)). rewrite E4.
      exists h4. split; [reflexivity|]. split; [|split; [|split; [|split]]].
      * split.
        -- rewrite F4, F2, F1, HF. rewrite hdid_app, lastid_app. cbn [lastid].
           rewrite (hdid_nonnil cid (l1' ++ [b0]) _ (Some (cid a)) (snoc_nonnil l1' b0)), Ehd.
           assert (Etl' : lastid cid l2' (Some (cid c)) = Some tl).
           { destruct l2' as [|d l2'']; cbn [lastid] in Etl |- *; [|exact Etl].
             cbn [map] in Htl. destruct Htl as [Htl|[]]. congruence. }
           rewrite Etl'. reflexivity.
        -- unfold clist. rewrite <- app_assoc. apply dseg_app. split; [|apply dseg_app; split].
           ++ eapply dseg_ext; [|exact HL1']. intros x p' n' Hx. unfold cP.
              assert (Nx : cid x <> cid a) by (intros E; apply Hna1; apply in_or_app; left; rewrite <- E; apply in_map; exact Hx).
              assert (Nxb : cid x <> cid b0).
              { intros E. apply (NoDup_remove_2 _ _ _ Hnd1). rewrite app_nil_r, <- E. apply in_map. exact Hx. }
              assert (Nxc : cid x <> cid c).
              { intros E. apply (Hdisj (cid x)); [apply in_or_app; left; apply in_map; exact Hx|right; left; symmetry; exact E]. }
              rewrite U4. eqb_simp. rewrite U2, U1. eqb_simp. cbn [hdid app]. tauto.
           ++ cbn [dseg hdid app]. split; [|exact I]. unfold cP. rewrite U4. eqb_simp. rewrite U2. eqb_simp.
              rewrite U1, Nat.eqb_refl. reflexivity.
           ++ cbn [lastid dseg hdid]. split.
              ** unfold cP. rewrite U4. eqb_simp. rewrite U2, Nat.eqb_refl. reflexivity.
              ** eapply dseg_ext; [|exact HL2']. intros x p' n' Hx. unfold cP.
                 assert (Nx : cid x <> cid a) by (intros E; apply Hna2; right; rewrite <- E; apply in_map; exact Hx).
                 assert (Nxc : cid x <> cid c).
                 { intros E. cbn [map] in Hnd2. apply NoDup_cons_iff in Hnd2. apply (proj1 Hnd2). rewrite <- E. apply in_map. exact Hx. }
                 assert (Nxb : cid x <> cid b0).
                 { intros E. apply (Hdisj (cid b0)); [apply in_or_app; right; left; reflexivity|right; right; rewrite <- E; apply in_map; exact Hx]. }
                 rewrite U4. eqb_simp. rewrite U2, U1. eqb_simp. tauto.
      * rewrite U4, Nat.eqb_refl. reflexivity.
      * intros j Hj. rewrite U4. rewrite !map_app in Hj. cbn [map] in Hj.
        destruct (Nat.eqb_spec (cid a) j) as [E|NE]; [exfalso; apply Hj; apply in_or_app; right; left; exact E|].
        rewrite U2, U1.
        destruct (Nat.eqb_spec (cid c) j) as [E|NE3]; [exfalso; apply Hj; apply in_or_app; right; right; left; exact E|].
        destruct (Nat.eqb_spec (cid b0) j) as [E|NE2]; [|reflexivity].
        exfalso. apply Hj. apply in_or_app. left. apply in_or_app. right. left. exact E.
      * intros j Hj. rewrite F4, F2, F1. reflexivity.
      * exact (same_rest_trans _ _ _ (same_rest_trans _ _ _ R1 R2) R4).
Qed.

(* ------------------------------------------------------------------ *)
(** * FreqNode.append_cache_to_tail, pop_head_cache, count_caches *)

Lemma hdid_snoc_cid (its : list centry) a : hdid cid (its ++ [a]) None = match its with [] => Some (cid a) | x :: _ => Some (cid x) end.
Proof. destruct its; reflexivity. Qed.

(** a detached node [i] (pre = nxt = None) is appended to bucket [ft] *)
Lemma append_spec h ft f its p n i k v x :
  bucket_ok h ft f its p n ->
  cget h i = Some (mkC k v x None None) ->
  ~ In i (map cid its) -> NoDup (map cid its) ->
  exists h',
    append_cache_to_tail h ft i = Some h' /\
    bucket_ok h' ft f (its ++ [(i, (k, v))]) p n /\
    (forall j, j <> i -> ~ In j (map cid its) -> cget h' j = cget h j) /\
    (forall j, j <> ft -> fget h' j = fget h j) /\
    same_rest h h'.
Proof.
  intros [HF HL] Hi Hni Hnd. unfold clist in HL.
  unfold append_cache_to_tail.
  destruct (putc_spec h i (with_cfn (Some ft)) _ Hi) as (h1 & E1 & (U1 & F1 & R1)). rewrite E1. cbn [bind].
  rewrite getf_some, F1, HF. cbn [bind fhead ftail].
  destruct its as [|b0 its'] using rev_ind; [|clear IHits'].
  - cbn [hdid lastid].
    destruct (putf_spec h1 ft (with_fhead (Some i)) _ ltac:(rewrite F1; exact HF)) as (h2 & E2 & (U2 & C2 & R2)).
    rewrite E2. cbn [bind].
    destruct (putf_spec h2 ft (with_ftail (Some i)) _ ltac:(rewrite U2, Nat.eqb_refl; reflexivity)) as (h3 & E3 & (U3 & C3 & R3)).
    rewrite E3. exists h3. split; [reflexivity|]. split; [|split; [|split]].
    + split.
      * rewrite U3, Nat.eqb_refl. reflexivity.
      * unfold clist. cbn [app dseg hdid]. split; [|exact I]. unfold cP. cbn [cid akey aval fst snd].
        rewrite C3, C2, U1, Nat.eqb_refl. reflexivity.
    + intros j Hj _. rewrite C3, C2, U1. eqb_simp. reflexivity.
    + intros j Hj. rewrite U3, U2, F1. eqb_simp. reflexivity.
    + exact (same_rest_trans _ _ _ (same_rest_trans _ _ _ R1 R2) R3).
  - apply dseg_app in HL. destruct HL as [HL' Hb]. cbn [dseg hdid] in Hb. destruct Hb as [Hb _]. unfold cP in Hb.
    rewrite map_app in Hni, Hnd. cbn [map] in Hni, Hnd.
    assert (Nb : cid b0 <> i) by (intros E; apply Hni; apply in_or_app; right; left; exact E).
    destruct (hdid_in cid (its' ++ [b0]) None (snoc_nonnil its' b0)) as (hd0 & Ehd & _).
    rewrite Ehd in HF |- *. rewrite lastid_app in HF |- *. cbn [lastid] in HF |- *.
    destruct (putc_spec h1 i (with_cpre (Some (cid b0))) _ ltac:(rewrite U1, Nat.eqb_refl; reflexivity)) as (h2 & E2 & (U2 & F2 & R2)).
    rewrite E2. cbn [bind].
    destruct (putc_spec h2 i (with_cnxt None) _ ltac:(rewrite U2, Nat.eqb_refl; reflexivity)) as (h3 & E3 & (U3 & F3 & R3)).
    rewrite E3. cbn [bind].
    rewrite getf_some, F3, F2, F1, HF. cbn [bind ftail].
    destruct (putc_spec h3 (cid b0) (with_cnxt (Some i)) _ ltac:(rewrite U3, U2, U1; eqb_simp; exact Hb)) as (h4 & E4 & (U4 & F4 & R4)).
    rewrite E4. cbn [bind].
    destruct (putf_spec h4 ft (with_ftail (Some i)) _ ltac:(rewrite F4, F3, F2, F1; exact HF)) as (h5 & E5 & (U5 & C5 & R5)).
    rewrite E5. exists h5. split; [reflexivity|]. split; [|split; [|split]].
    + split.
      * rewrite U5, Nat.eqb_refl. unfold with_ftail. cbn.
        rewrite lastid_app. cbn [lastid]. rewrite hdid_app.
        rewrite (hdid_nonnil cid (its' ++ [b0]) _ None (snoc_nonnil its' b0)), Ehd. reflexivity.
      * unfold clist. rewrite <- app_assoc. apply dseg_app. split.
        -- eapply dseg_ext; [|exact HL']. intros y p' n' Hy. unfold cP.
           assert (Ny : cid y <> i) by (intros E; apply Hni; apply in_or_app; left; rewrite <- E; apply in_map; exact Hy).
           assert (Nyb : cid y <> cid b0).
           { intros E. apply (NoDup_remove_2 _ _ _ Hnd). rewrite app_nil_r, <- E. apply in_map. exact Hy. }
           rewrite C5, U4. eqb_simp. rewrite U3, U2, U1. eqb_simp. cbn [hdid app]. tauto.
        -- cbn [app dseg hdid lastid]. split; [|split; [|exact I]]; unfold cP; cbn [cid akey aval fst snd].
           ++ rewrite C5, U4, Nat.eqb_refl. reflexivity.
           ++ rewrite C5, U4. eqb_simp. rewrite U3, Nat.eqb_refl. reflexivity.
    + intros j Hj Hnj. rewrite map_app in Hnj. cbn [map] in Hnj.
      rewrite C5, U4.
      destruct (Nat.eqb_spec (cid b0) j) as [E|NE]; [exfalso; apply Hnj; apply in_or_app; right; left; exact E|].
      rewrite U3, U2, U1. eqb_simp. reflexivity.
    + intros j Hj. rewrite U5, F4, F3, F2, F1. eqb_simp. reflexivity.
    + exact (same_rest_trans _ _ _ (same_rest_trans _ _ _ (same_rest_trans _ _ _ (same_rest_trans _ _ _ R1 R2) R3) R4) R5).
Qed.

(** the head cache node [a] of bucket [fi] is unlinked (its own fields are left alone) *)
Lemma pop_head_spec h fi f a l2 p n :
  bucket_ok h fi f (a :: l2) p n -> NoDup (map cid (a :: l2)) ->
  exists h',
    pop_head_cache h fi = Some h' /\
    bucket_ok h' fi f l2 p n /\
    (forall j, ~ In j (map cid l2) -> cget h' j = cget h j) /\
    (forall j, j <> fi -> fget h' j = fget h j) /\
    same_rest h h'.
Proof.
  intros [HF HL] Hnd. unfold clist in HL. cbn [dseg] in HL. destruct HL as [Ha HL2]. unfold cP in Ha.
  cbn [map] in Hnd. apply NoDup_cons_iff in Hnd. destruct Hnd as [Hna Hnd2].
  unfold pop_head_cache. rewrite getf_some, HF. cbn [bind fhead ftail hdid].
  destruct l2 as [|c l2'].
  - cbn [lastid]. rewrite oid_eqb_refl.
    destruct (putf_spec h fi (with_fhead None) _ HF) as (h1 & E1 & (U1 & C1 & R1)). rewrite E1. cbn [bind].
    destruct (putf_spec h1 fi (with_ftail None) _ ltac:(rewrite U1, Nat.eqb_refl; reflexivity)) as (h2 & E2 & (U2 & C2 & R2)).
    rewrite E2. exists h2. split; [reflexivity|]. split; [|split; [|split]].
    + split; [|exact I]. rewrite U2, Nat.eqb_refl. reflexivity.
    + intros j _. rewrite C2, C1. reflexivity.
    + intros j Hj. rewrite U2, U1. eqb_simp. reflexivity.
    + exact (same_rest_trans _ _ _ R1 R2).
  - cbn [dseg hdid lastid map] in *. destruct HL2 as [Hc HL2']. unfold cP in Hc.
    destruct (lastid_in cid (c :: l2') (Some (cid a)) ltac:(discriminate)) as (tl & Etl & Htl).
    cbn [lastid] in Etl. rewrite Etl in HF |- *.
    assert (Ntl : cid a <> tl) by (intros E; apply Hna; rewrite E; exact Htl).
    assert (Nc : cid c <> cid a) by (intros E; apply Hna; left; exact E).
    rewrite (oid_eqb_neq _ _ Ntl). rewrite getc_some, Ha. cbn [bind cnxt].
    destruct (putc_spec h (cid c) (with_cpre None) _ Hc) as (h1 & E1 & (U1 & F1 & R1)). rewrite E1. cbn [bind].
    rewrite getf_some, F1, HF. cbn [bind fhead]. rewrite getc_some, U1. eqb_simp. rewrite Ha. cbn [bind cnxt].
    destruct (putf_spec h1 fi (with_fhead (Some (cid c))) _ ltac:(rewrite F1; exact HF)) as (h2 & E2 & (U2 & C2 & R2)).
    rewrite E2. exists h2. split; [reflexivity|]. split; [|split; [|split]].
    + split.
      * rewrite U2, Nat.eqb_refl. unfold with_fhead. cbn. rewrite Etl. reflexivity.
      * unfold clist. cbn [dseg]. split.
        -- unfold cP. rewrite C2, U1, Nat.eqb_refl. reflexivity.
        -- eapply dseg_ext; [|exact HL2']. intros y p' n' Hy. unfold cP.
           assert (Nyc : cid y <> cid c).
           { intros E. apply NoDup_cons_iff in Hnd2. apply (proj1 Hnd2). rewrite <- E. apply in_map. exact Hy. }
           rewrite C2, U1. eqb_simp. tauto.
    + intros j Hj. rewrite C2, U1.
      destruct (Nat.eqb_spec (cid c) j) as [E|NE]; [exfalso; apply Hj; left; exact E|reflexivity].
    + intros j Hj. rewrite U2, F1. eqb_simp. reflexivity.
    + exact (same_rest_trans _ _ _ R1 R2).
Qed.

Lemma count_caches_spec h fi f its p n :
  bucket_ok h fi f its p n ->
  exists c, count_caches h fi = Some c /\ (c = 0 <-> its = []).
Proof.
  intros [HF _]. unfold count_caches. rewrite getf_some, HF. cbn [bind fhead ftail].
  destruct its as [|a r].
  - cbn [hdid lastid]. exists 0. split; [reflexivity|tauto].
  - cbn [hdid]. destruct (lastid cid (a :: r) None) as [tl|];
      (eexists; split; [reflexivity|]); (split; [|discriminate]).
    + destruct (oid_eqb (Some (cid a)) (Some tl)); discriminate.
    + cbn [oid_eqb]. discriminate.
Qed.

(* ------------------------------------------------------------------ *)
(** * The list of frequency nodes: remove, insert_after_me, insert_before_me *)

Lemma fP_frame h h' e p n :
  fget h' (fid e) = fget h (fid e) ->
  (forall a, In a (fits e) -> cget h' (cid a) = cget h (cid a)) ->
  fP h e p n -> fP h' e p n.
Proof.
  intros HF HC [H1 H2]. split; [rewrite HF; exact H1|]. exact (clist_frame h h' _ _ HC H2).
Qed.

Lemma fseg_frame h h' p s n :
  (forall j, In j (map fid s) -> fget h' j = fget h j) -> (forall j, cget h' j = cget h j) ->
  dseg fid (fP h) p s n -> dseg fid (fP h') p s n.
Proof.
  intros HF HC. apply dseg_ext. intros e p' n' He. apply fP_frame.
  - apply HF. apply in_map. exact He.
  - intros a _. apply HC.
Qed.

Lemma lastid_notin {A} (idof : A -> id) (l : list A) j : ~ In j (map idof l) -> lastid idof l None <> Some j.
Proof.
  intros H C. destruct l as [|a r]; [discriminate|].
  destruct (lastid_in idof (a :: r) None ltac:(discriminate)) as (x & E & Hx). rewrite E in C. inversion C. subst x. exact (H Hx).
Qed.
Lemma hdid_notin {A} (idof : A -> id) (l : list A) j : ~ In j (map idof l) -> hdid idof l None <> Some j.
Proof. intros H C. destruct l as [|a r]; [discriminate|]. inversion C. apply H. left. assumption. Qed.

(** [x.pre = p'] for the first node of a segment (if any) *)
Lemma relink_first h s2 p0 n0 p' :
  dseg fid (fP h) p0 s2 n0 -> NoDup (map fid s2) ->
  exists h2,
    (match hdid fid s2 None with Some _ => putf h (hdid fid s2 None) (with_fpre p') | None => Some h end) = Some h2 /\
    dseg fid (fP h2) p' s2 n0 /\
    (forall j, cget h2 j = cget h j) /\
    (forall j, hdid fid s2 None <> Some j -> fget h2 j = fget h j) /\
    same_rest h h2.
Proof.
  intros HS Hnd. destruct s2 as [|ec s2'].
  - exists h. cbn [hdid]. split; [reflexivity|]. split; [exact I|]. split; [reflexivity|]. split; [reflexivity|apply same_rest_refl].
  - cbn [hdid dseg map] in *. destruct HS as [[HF HL] HS']. apply NoDup_cons_iff in Hnd. destruct Hnd as [Hn _].
    destruct (putf_spec h (fid ec) (with_fpre p') _ HF) as (h2 & E2 & (U2 & C2 & R2)). exists h2.
    split; [exact E2|]. split; [|split; [exact C2|split; [|exact R2]]].
    + split.
      * split; [rewrite U2, Nat.eqb_refl; reflexivity|]. exact (clist_frame h h2 _ _ (fun a _ => C2 (cid a)) HL).
      * eapply fseg_frame; [| exact C2 | exact HS']. intros j Hj. rewrite U2.
        destruct (Nat.eqb_spec (fid ec) j) as [E|NE]; [exfalso; apply Hn; rewrite E; exact Hj|reflexivity].
    + intros j Hj. rewrite U2. destruct (Nat.eqb_spec (fid ec) j) as [E|NE]; [exfalso; apply Hj; rewrite E; reflexivity|reflexivity].
Qed.

(** [x.nxt = n'] for the last node of a segment (if any) *)
Lemma relink_last h s1 p0 n0 n' :
  dseg fid (fP h) p0 s1 n0 -> NoDup (map fid s1) ->
  exists h1,
    (match lastid fid s1 None with Some _ => putf h (lastid fid s1 None) (with_fnxt n') | None => Some h end) = Some h1 /\
    dseg fid (fP h1) p0 s1 n' /\
    (forall j, cget h1 j = cget h j) /\
    (forall j, lastid fid s1 None <> Some j -> fget h1 j = fget h j) /\
    same_rest h h1.
Proof.
  intros HS Hnd. destruct s1 as [|eb s1'] using rev_ind; [|clear IHs1'].
  - exists h. cbn [lastid]. split; [reflexivity|]. split; [exact I|]. split; [reflexivity|]. split; [reflexivity|apply same_rest_refl].
  - apply dseg_app in HS. destruct HS as [HS' Hb]. cbn [dseg hdid] in Hb, HS'. destruct Hb as [[HF HL] _].
    rewrite map_app in Hnd. cbn [map] in Hnd. pose proof (NoDup_remove_2 _ _ _ Hnd) as Hn. rewrite app_nil_r in Hn.
    rewrite lastid_app. cbn [lastid].
    destruct (putf_spec h (fid eb) (with_fnxt n') _ HF) as (h1 & E1 & (U1 & C1 & R1)). exists h1.
    split; [exact E1|]. split; [|split; [exact C1|split; [|exact R1]]].
    + apply dseg_app. cbn [dseg hdid]. split.
      * eapply fseg_frame; [| exact C1 | exact HS']. intros j Hj. rewrite U1.
        destruct (Nat.eqb_spec (fid eb) j) as [E|NE]; [exfalso; apply Hn; rewrite E; exact Hj|reflexivity].
      * split; [|exact I]. split; [rewrite U1, Nat.eqb_refl; reflexivity|]. exact (clist_frame h h1 _ _ (fun a _ => C1 (cid a)) HL).
    + intros j Hj. rewrite U1. destruct (Nat.eqb_spec (fid eb) j) as [E|NE]; [exfalso; apply Hj; rewrite E; reflexivity|reflexivity].
Qed.

(** an emptied frequency node is unlinked *)
Lemma fremove_spec h s1 e s2 :
  flist h (s1 ++ e :: s2) -> fits e = [] -> NoDup (map fid (s1 ++ e :: s2)) ->
  exists h',
    fremove h (fid e) = Some h' /\
    flist h' (s1 ++ s2) /\
    (forall j, cget h' j = cget h j) /\
    (forall j, ~ In j (map fid (s1 ++ e :: s2)) -> fget h' j = fget h j) /\
    same_rest h h'.
Proof.
  intros HS Hem Hnd. unfold flist in HS. apply dseg_app in HS. destruct HS as [HS1 HS2].
  cbn [dseg hdid] in HS1, HS2. destruct HS2 as [[HF _] HS2]. rewrite Hem in HF. cbn [hdid lastid] in HF.
  rewrite map_app in Hnd. cbn [map] in Hnd.
  pose proof (NoDup_remove_2 _ _ _ Hnd) as Hne.
  assert (Hne1 : ~ In (fid e) (map fid s1)) by (intros C; apply Hne; apply in_or_app; left; exact C).
  assert (Hne2 : ~ In (fid e) (map fid s2)) by (intros C; apply Hne; apply in_or_app; right; exact C).
  destruct (NoDup_app_inv _ _ Hnd) as (Hnd1 & Hnd2' & Hdisj). apply NoDup_cons_iff in Hnd2'. destruct Hnd2' as [_ Hnd2].
  unfold fremove. rewrite getf_some, HF. cbn [bind fpre fnxt].
  destruct (relink_last h s1 None (Some (fid e)) (hdid fid s2 None) HS1 Hnd1) as (h1 & E1 & S1 & C1 & F1 & R1).
  rewrite E1. cbn [bind].
  assert (G1 : fget h1 (fid e) = fget h (fid e)) by (apply F1; apply lastid_notin; exact Hne1).
  rewrite getf_some, G1, HF. cbn [bind fpre fnxt].
  assert (HS2' : dseg fid (fP h1) (Some (fid e)) s2 None).
  { eapply fseg_frame; [| exact C1 | exact HS2]. intros j Hj. apply F1. apply lastid_notin.
    intros C. apply (Hdisj j C). right. exact Hj. }
  destruct (relink_first h1 s2 (Some (fid e)) None (lastid fid s1 None) HS2' Hnd2) as (h2 & E2 & S2 & C2 & F2 & R2).
  rewrite E2. cbn [bind].
  assert (G2 : fget h2 (fid e) = Some (mkF (ffr e) (lastid fid s1 None) (hdid fid s2 None) None None)).
  { rewrite F2; [rewrite G1; exact HF|]. apply hdid_notin. exact Hne2. }
  destruct (putf_spec h2 (fid e) (with_fpre None) _ G2) as (h3 & E3 & (U3 & C3 & R3)). rewrite E3. cbn [bind].
  destruct (putf_spec h3 (fid e) (with_fnxt None) _ ltac:(rewrite U3, Nat.eqb_refl; reflexivity)) as (h4 & E4 & (U4 & C4 & R4)).
  rewrite E4. cbn [bind].
  destruct (putf_spec h4 (fid e) (with_fhead None) _ ltac:(rewrite U4, Nat.eqb_refl; reflexivity)) as (h5 & E5 & (U5 & C5 & R5)).
  rewrite E5. cbn [bind].
  destruct (putf_spec h5 (fid e) (with_ftail None) _ ltac:(rewrite U5, Nat.eqb_refl; reflexivity)) as (h6 & E6 & (U6 & C6 & R6)).
  rewrite E6. exists h6. split; [reflexivity|].
  assert (F6 : forall j, j <> fid e -> fget h6 j = fget h2 j).
  { intros j Hj. rewrite U6, U5, U4, U3. eqb_simp. reflexivity. }
  assert (C6' : forall j, cget h6 j = cget h2 j) by (intros j; rewrite C6, C5, C4, C3; reflexivity).
  split; [|split; [|split]].
  - unfold flist. apply dseg_app. split.
    + eapply fseg_frame; [| exact C6' |].
      * intros j Hj. apply F6. intros E. apply Hne1. rewrite <- E. exact Hj.
      * eapply fseg_frame; [| exact C2 | exact S1]. intros j Hj. apply F2. apply hdid_notin.
        intros C. apply (Hdisj j Hj). right. exact C.
    + eapply fseg_frame; [| exact C6' | exact S2]. intros j Hj. apply F6. intros E. apply Hne2. rewrite <- E. exact Hj.
  - intros j. rewrite C6', C2, C1. reflexivity.
  - intros j Hj. rewrite map_app in Hj. cbn [map] in Hj.
    assert (Nj : j <> fid e) by (intros E; apply Hj; apply in_or_app; right; left; symmetry; exact E).
    rewrite (F6 j Nj). rewrite F2, F1; [reflexivity| |].
    + apply lastid_notin. intros C. apply Hj. apply in_or_app. left. exact C.
    + apply hdid_notin. intros C. apply Hj. apply in_or_app. right. right. exact C.
  - exact (same_rest_trans _ _ _ (same_rest_trans _ _ _ (same_rest_trans _ _ _ (same_rest_trans _ _ _ (same_rest_trans _ _ _ R1 R2) R3) R4) R5) R6).
Qed.

(** a standalone frequency node [ft] (any pre/nxt) is linked in after [e] *)
Lemma insert_after_spec h s1 e s2 ft f' its' x y :
  flist h (s1 ++ e :: s2) -> bucket_ok h ft f' its' x y ->
  ~ In ft (map fid (s1 ++ e :: s2)) -> NoDup (map fid (s1 ++ e :: s2)) ->
  exists h',
    insert_after_me h (fid e) ft = Some h' /\
    flist h' (s1 ++ e :: (ft, (f', its')) :: s2) /\
    (forall j, cget h' j = cget h j) /\
    (forall j, j <> ft -> ~ In j (map fid (s1 ++ e :: s2)) -> fget h' j = fget h j) /\
    same_rest h h'.
Proof.
  intros HS [HT HTL] Hnt Hnd. unfold flist in HS. apply dseg_app in HS. destruct HS as [HS1 HS2].
  cbn [dseg hdid] in HS1, HS2. destruct HS2 as [[HF HL] HS2].
  rewrite map_app in Hnd, Hnt. cbn [map] in Hnd, Hnt.
  pose proof (NoDup_remove_2 _ _ _ Hnd) as Hne.
  assert (Hne1 : ~ In (fid e) (map fid s1)) by (intros C; apply Hne; apply in_or_app; left; exact C).
  assert (Hne2 : ~ In (fid e) (map fid s2)) by (intros C; apply Hne; apply in_or_app; right; exact C).
  destruct (NoDup_app_inv _ _ Hnd) as (Hnd1 & Hnd2' & Hdisj). apply NoDup_cons_iff in Hnd2'. destruct Hnd2' as [_ Hnd2].
  assert (Nte : ft <> fid e) by (intros E; apply Hnt; apply in_or_app; right; left; symmetry; exact E).
  assert (Hnt1 : ~ In ft (map fid s1)) by (intros C; apply Hnt; apply in_or_app; left; exact C).
  assert (Hnt2 : ~ In ft (map fid s2)) by (intros C; apply Hnt; apply in_or_app; right; right; exact C).
  unfold insert_after_me.
  destruct (putf_spec h ft (with_fpre (Some (fid e))) _ HT) as (h1 & E1 & (U1 & C1 & R1)). rewrite E1. cbn [bind].
  rewrite getf_some, U1. eqb_simp. rewrite HF. cbn [bind fnxt].
  destruct (putf_spec h1 ft (with_fnxt (hdid fid s2 None)) _ ltac:(rewrite U1, Nat.eqb_refl; reflexivity)) as (h2 & E2 & (U2 & C2 & R2)).
  rewrite E2. cbn [bind].
  rewrite getf_some, U2. eqb_simp. rewrite U1. eqb_simp. rewrite HF. cbn [bind fnxt].
  assert (F2 : forall j, j <> ft -> fget h2 j = fget h j) by (intros j Hj; rewrite U2, U1; eqb_simp; reflexivity).
  assert (C2' : forall j, cget h2 j = cget h j) by (intros j; rewrite C2, C1; reflexivity).
  assert (HS2' : dseg fid (fP h2) (Some (fid e)) s2 None).
  { eapply fseg_frame; [| exact C2' | exact HS2]. intros j Hj. apply F2. intros E. apply Hnt2. rewrite <- E. exact Hj. }
  destruct (relink_first h2 s2 (Some (fid e)) None (Some ft) HS2' Hnd2) as (h3 & E3 & S3 & C3 & F3 & R3).
  rewrite E3. cbn [bind].
  assert (G3 : fget h3 (fid e) = fget h (fid e)).
  { rewrite F3; [apply F2; apply not_eq_sym; exact Nte|]. apply hdid_notin. exact Hne2. }
  destruct (putf_spec h3 (fid e) (with_fnxt (Some ft)) _ ltac:(rewrite G3; exact HF)) as (h4 & E4 & (U4 & C4 & R4)).
  rewrite E4. exists h4. split; [reflexivity|].
  assert (C4' : forall j, cget h4 j = cget h j) by (intros j; rewrite C4, C3, C2'; reflexivity).
  split; [|split; [exact C4'|split]].
  - unfold flist. apply dseg_app. cbn [dseg hdid lastid]. split; [|split; [|split]].
    + eapply fseg_frame; [| exact C4' | exact HS1]. intros j Hj.
      assert (Nje : j <> fid e) by (intros E; apply Hne1; rewrite <- E; exact Hj).
      rewrite U4. eqb_simp. rewrite F3; [apply F2; intros E; apply Hnt1; rewrite <- E; exact Hj|].
      apply hdid_notin. intros C. apply (Hdisj j Hj). right. exact C.
    + split; [rewrite U4, Nat.eqb_refl; reflexivity|]. exact (clist_frame h h4 _ _ (fun a _ => C4' (cid a)) HL).
    + split.
      * cbn [fid ffr fits fst snd]. rewrite U4. eqb_simp.
        rewrite F3; [|apply hdid_notin; exact Hnt2]. rewrite U2, Nat.eqb_refl. reflexivity.
      * cbn [fid ffr fits fst snd]. exact (clist_frame h h4 _ _ (fun a _ => C4' (cid a)) HTL).
    + cbn [fid fst]. eapply fseg_frame; [| exact C4 | exact S3]. intros j Hj. rewrite U4.
      destruct (Nat.eqb_spec (fid e) j) as [E|NE]; [exfalso; apply Hne2; rewrite E; exact Hj|reflexivity].
  - intros j Hjt Hj. rewrite map_app in Hj. cbn [map] in Hj.
    assert (Nje : j <> fid e) by (intros E; apply Hj; apply in_or_app; right; left; symmetry; exact E).
    rewrite U4. eqb_simp. rewrite F3; [apply F2; exact Hjt|].
    apply hdid_notin. intros C. apply Hj. apply in_or_app. right. right. exact C.
  - exact (same_rest_trans _ _ _ (same_rest_trans _ _ _ (same_rest_trans _ _ _ R1 R2) R3) R4).
Qed.

(** a standalone frequency node [ft] is linked in before the head node [e] *)
Lemma insert_before_spec h e s2 ft f' its' x y :
  flist h (e :: s2) -> bucket_ok h ft f' its' x y ->
  ~ In ft (map fid (e :: s2)) -> NoDup (map fid (e :: s2)) ->
  exists h',
    insert_before_me h (fid e) ft = Some h' /\
    flist h' ((ft, (f', its')) :: e :: s2) /\
    (forall j, cget h' j = cget h j) /\
    (forall j, j <> ft -> j <> fid e -> fget h' j = fget h j) /\
    same_rest h h'.
Proof.
  intros HS [HT HTL] Hnt Hnd. unfold flist in HS. cbn [dseg hdid map] in HS, Hnt, Hnd. destruct HS as [[HF HL] HS2].
  apply NoDup_cons_iff in Hnd. destruct Hnd as [Hne2 _].
  assert (Nte : ft <> fid e) by (intros E; apply Hnt; left; symmetry; exact E).
  unfold insert_before_me. rewrite getf_some, HF. cbn [bind fpre]. rewrite getf_some, HF. cbn [bind fpre].
  destruct (putf_spec h ft (with_fpre None) _ HT) as (h1 & E1 & (U1 & C1 & R1)). rewrite E1. cbn [bind].
  destruct (putf_spec h1 ft (with_fnxt (Some (fid e))) _ ltac:(rewrite U1, Nat.eqb_refl; reflexivity)) as (h2 & E2 & (U2 & C2 & R2)).
  rewrite E2. cbn [bind].
  destruct (putf_spec h2 (fid e) (with_fpre (Some ft)) _ ltac:(rewrite U2, U1; eqb_simp; exact HF)) as (h3 & E3 & (U3 & C3 & R3)).
  rewrite E3. exists h3. split; [reflexivity|].
  assert (C3' : forall j, cget h3 j = cget h j) by (intros j; rewrite C3, C2, C1; reflexivity).
  split; [|split; [exact C3'|split]].
  - unfold flist. cbn [dseg hdid]. split; [|split].
    + split; cbn [fid ffr fits fst snd].
      * rewrite U3. eqb_simp. rewrite U2, Nat.eqb_refl. reflexivity.
      * exact (clist_frame h h3 _ _ (fun a _ => C3' (cid a)) HTL).
    + split; [cbn [fid fst]; rewrite U3, Nat.eqb_refl; reflexivity|]. exact (clist_frame h h3 _ _ (fun a _ => C3' (cid a)) HL).
    + eapply fseg_frame; [| exact C3' | exact HS2]. intros j Hj.
      assert (Nj : j <> ft) by (intros E; apply Hnt; right; rewrite <- E; exact Hj).
      rewrite U3.
      destruct (Nat.eqb_spec (fid e) j) as [E|NE]; [exfalso; apply Hne2; rewrite E; exact Hj|].
      rewrite U2, U1. eqb_simp. reflexivity.
  - intros j Hjt Hje. rewrite U3, U2, U1. eqb_simp. reflexivity.
  - exact (same_rest_trans _ _ _ (same_rest_trans _ _ _ R1 R2) R3).
Qed.

(* ------------------------------------------------------------------ *)
(** * The whole structure *)

Definition all_c (sh : list fentry) : list centry := flat_map fits sh.
Definition pairs (sh : list fentry) : list (key * id) := map (fun a => (akey a, cid a)) (all_c sh).

(** [wf h sh]: the heap [h] holds exactly the linked structure described by the
    decorated bucket list [sh] *)
Definition wf (h : heap) (sh : list fentry) : Prop :=
  flist h sh /\
  hhead h = hdid fid sh None /\
  NoDup (map fid sh) /\
  NoDup (map cid (all_c sh)) /\
  Permutation (dict h) (pairs sh) /\
  (forall j, nextc h <= j -> cget h j = None) /\
  (forall j, nextf h <= j -> fget h j = None) /\
  NoDup (map akey (all_c sh)).

Lemma all_c_app s1 s2 : all_c (s1 ++ s2) = all_c s1 ++ all_c s2.
Proof. unfold all_c. apply flat_map_app. Qed.
Lemma all_c_cons e s : all_c (e :: s) = fits e ++ all_c s.
Proof. reflexivity. Qed.

Lemma in_all_c x a s : In x s -> In a (fits x) -> In a (all_c s).
Proof. intros Hx Ha. unfold all_c. apply in_flat_map. exists x. split; assumption. Qed.

(** cache nodes of other buckets are not in bucket [e] *)
Lemma cids_disjoint s1 e s2 x a :
  NoDup (map cid (all_c (s1 ++ e :: s2))) -> In x (s1 ++ s2) -> In a (fits x) ->
  ~ In (cid a) (map cid (fits e)).
Proof.
  rewrite all_c_app, all_c_cons, !map_app. intros Hnd Hx Ha C.
  apply in_app_or in Hx. destruct Hx as [Hx|Hx].
  - destruct (NoDup_app_inv _ _ Hnd) as (_ & _ & D). apply (D (cid a)).
    + apply in_map. exact (in_all_c x a s1 Hx Ha).
    + apply in_or_app. left. exact C.
  - destruct (NoDup_app_inv _ _ Hnd) as (_ & Hnd' & _). destruct (NoDup_app_inv _ _ Hnd') as (_ & _ & D).
    apply (D (cid a) C). apply in_map. exact (in_all_c x a s2 Hx Ha).
Qed.

Lemma fids_lt h sh : flist h sh -> (forall j, nextf h <= j -> fget h j = None) -> forall x, In x sh -> fid x < nextf h.
Proof.
  intros HS Hfr x Hx. destruct (Nat.lt_ge_cases (fid x) (nextf h)) as [L|G]; [exact L|]. exfalso.
  apply in_split in Hx. destruct Hx as (s1 & s2 & E). subst sh. unfold flist in HS. apply dseg_app in HS.
  destruct HS as [_ HS]. cbn [dseg] in HS. destruct HS as [[HF _] _]. rewrite (Hfr _ G) in HF. discriminate.
Qed.

Lemma cids_lt h sh : flist h sh -> (forall j, nextc h <= j -> cget h j = None) -> forall a, In a (all_c sh) -> cid a < nextc h.
Proof.
  intros HS Hfr a Ha. destruct (Nat.lt_ge_cases (cid a) (nextc h)) as [L|G]; [exact L|]. exfalso.
  unfold all_c in Ha. apply in_flat_map in Ha. destruct Ha as (x & Hx & Ha).
  apply in_split in Hx. destruct Hx as (s1 & s2 & E). subst sh. unfold flist in HS. apply dseg_app in HS.
  destruct HS as [_ HS]. cbn [dseg] in HS. destruct HS as [[_ HL] _].
  apply in_split in Ha. destruct Ha as (l1 & l2 & E). rewrite E in HL. unfold clist in HL. apply dseg_app in HL.
  destruct HL as [_ HL]. cbn [dseg] in HL. destruct HL as [HC _]. unfold cP in HC. rewrite (Hfr _ G) in HC. discriminate.
Qed.

(** a consecutive part [mid] of the frequency list is replaced by [mid'] with the same end ids *)
Lemma flist_replace_seg h h' s1 mid mid' s2 :
  flist h (s1 ++ mid ++ s2) ->
  hdid fid mid' (hdid fid s2 None) = hdid fid mid (hdid fid s2 None) ->
  lastid fid mid' (lastid fid s1 None) = lastid fid mid (lastid fid s1 None) ->
  dseg fid (fP h') (lastid fid s1 None) mid' (hdid fid s2 None) ->
  (forall x, In x (s1 ++ s2) -> fget h' (fid x) = fget h (fid x)) ->
  (forall x a, In x (s1 ++ s2) -> In a (fits x) -> cget h' (cid a) = cget h (cid a)) ->
  flist h' (s1 ++ mid' ++ s2).
Proof.
  intros HS Ehd Elast Hmid HF HC. unfold flist in *.
  apply dseg_app in HS. destruct HS as [HS1 HS2]. apply dseg_app in HS2. destruct HS2 as [_ HS2].
  rewrite hdid_app in HS1.
  apply dseg_app. rewrite hdid_app, Ehd. split.
  - eapply dseg_ext; [|exact HS1]. intros x p n Hx. apply fP_frame.
    + apply HF. apply in_or_app. left. exact Hx.
    + intros a Ha. apply (HC x a); [apply in_or_app; left; exact Hx|exact Ha].
  - apply dseg_app. split; [exact Hmid|]. rewrite Elast.
    eapply dseg_ext; [|exact HS2]. intros x p n Hx. apply fP_frame.
    + apply HF. apply in_or_app. right. exact Hx.
    + intros a Ha. apply (HC x a); [apply in_or_app; right; exact Hx|exact Ha].
Qed.

(** free_myself followed by append_cache_to_tail: the node moves from bucket [fi] to bucket [ft] *)
Lemma free_append_spec h fi f l1 i k v l2 p n ft f' its_t pt nt :
  bucket_ok h fi f (l1 ++ (i, (k, v)) :: l2) p n ->
  bucket_ok h ft f' its_t pt nt ->
  fi <> ft ->
  NoDup (map cid (l1 ++ (i, (k, v)) :: l2)) -> NoDup (map cid its_t) ->
  (forall j, In j (map cid (l1 ++ (i, (k, v)) :: l2)) -> ~ In j (map cid its_t)) ->
  exists h2 h3,
    free_myself h i = Some h2 /\ append_cache_to_tail h2 ft i = Some h3 /\
    bucket_ok h3 fi f (l1 ++ l2) p n /\
    bucket_ok h3 ft f' (its_t ++ [(i, (k, v))]) pt nt /\
    (forall j, ~ In j (map cid (l1 ++ (i, (k, v)) :: l2)) -> ~ In j (map cid its_t) -> cget h3 j = cget h j) /\
    (forall j, j <> fi -> j <> ft -> fget h3 j = fget h j) /\
    same_rest h h3.
Proof.
  intros HB HT Nft Hnd Hndt Hdisj.
  destruct (free_myself_spec h fi f p n l1 (i, (k, v)) l2 HB Hnd) as (h2 & E2 & HB2 & Hi2 & C2 & F2 & R2).
  cbn [cid akey aval fst snd] in E2, Hi2.
  assert (HT2 : bucket_ok h2 ft f' its_t pt nt).
  { destruct HT as [HTF HTL]. split; [rewrite F2; [exact HTF|apply not_eq_sym; exact Nft]|].
    apply (clist_frame h h2); [|exact HTL]. intros a Ha. apply C2. intros C. apply (Hdisj _ C). apply in_map. exact Ha. }
  assert (Hni : ~ In i (map cid its_t)).
  { apply Hdisj. rewrite map_app. apply in_or_app. right. left. reflexivity. }
  destruct (append_spec h2 ft f' its_t pt nt i k v None HT2 Hi2 Hni Hndt) as (h3 & E3 & HT3 & C3 & F3 & R3).
  exists h2, h3. split; [exact E2|]. split; [exact E3|].
  assert (Hil : ~ In i (map cid (l1 ++ l2))).
  { rewrite map_app in Hnd |- *. cbn [map] in Hnd. exact (NoDup_remove_2 _ _ _ Hnd). }
  split; [|split; [exact HT3|split; [|split]]].
  - destruct HB2 as [HBF HBL]. split; [rewrite F3; [exact HBF|exact Nft]|].
    apply (clist_frame h2 h3); [|exact HBL]. intros a Ha. apply C3.
    + intros E. apply Hil. rewrite <- E. apply in_map. exact Ha.
    + apply Hdisj. rewrite map_app. cbn [map]. rewrite map_app in Hil.
      apply in_app_or in Ha. apply in_or_app. destruct Ha as [Ha|Ha]; [left|right; right]; apply in_map; exact Ha.
  - intros j Hj Hjt. rewrite C3; [apply C2; exact Hj| |exact Hjt].
    intros E. apply Hj. rewrite map_app. apply in_or_app. right. left. symmetry. exact E.
  - intros j Hj Hjt. rewrite F3; [apply F2; exact Hj|exact Hjt].
  - exact (same_rest_trans _ _ _ R2 R3).
Qed.

(* ------------------------------------------------------------------ *)
(** * LFUCache.move_forward *)

(* the part of move_forward after the target frequency node has been determined *)
Definition mf_rest (h1 : heap) (cache_node freq_node target : id) (target_empty : bool) : option heap :=
  do h2 <- free_myself h1 cache_node;
  do h3 <- append_cache_to_tail h2 target cache_node;
  do h4 <- (if target_empty then insert_after_me h3 freq_node target else Some h3);
  do n <- count_caches h4 freq_node;
  if Nat.eqb n 0 then
    let h5 := if oid_eqb (hhead h4) (Some freq_node) then set_hhead h4 (Some target) else h4 in
    fremove h5 freq_node
  else Some h4.

Definition keep (e : fentry) : list fentry := match fits e with [] => [] | _ => [e] end.

(** the end of move_forward: the source node is unlinked if it became empty *)
Lemma mf_finish h4 s1 e T ft :
  flist h4 (s1 ++ e :: T) -> hdid fid T None = Some ft ->
  NoDup (map fid (s1 ++ e :: T)) -> hhead h4 = hdid fid (s1 ++ e :: T) None ->
  exists h',
    (do n <- count_caches h4 (fid e);
     if Nat.eqb n 0 then
       let h5 := if oid_eqb (hhead h4) (Some (fid e)) then set_hhead h4 (Some ft) else h4 in
       fremove h5 (fid e)
     else Some h4) = Some h' /\
    flist h' (s1 ++ keep e ++ T) /\
    hhead h' = hdid fid (s1 ++ keep e ++ T) None /\
    (forall j, cget h' j = cget h4 j) /\
    (forall j, ~ In j (map fid (s1 ++ e :: T)) -> fget h' j = fget h4 j) /\
    dict h' = dict h4 /\ hcap h' = hcap h4 /\ nextc h' = nextc h4 /\ nextf h' = nextf h4.
Proof.
  intros HS HT Hnd HH.
  assert (HE : fP h4 e (lastid fid s1 None) (hdid fid T None)).
  { unfold flist in HS. apply dseg_app in HS. destruct HS as [_ HS]. cbn [dseg] in HS. exact (proj1 HS). }
  destruct (count_caches_spec h4 _ _ _ _ _ HE) as (c & Ec & Hc). rewrite Ec. cbn [bind].
  unfold keep. destruct (fits e) as [|a0 r0] eqn:Efits.
  - rewrite (proj2 Hc eq_refl). cbn [Nat.eqb app].
    set (h5 := if oid_eqb (hhead h4) (Some (fid e)) then set_hhead h4 (Some ft) else h4).
    assert (HS5 : flist h5 (s1 ++ e :: T)) by (subst h5; destruct (oid_eqb (hhead h4) (Some (fid e))); exact HS).
    destruct (fremove_spec h5 s1 e T HS5 Efits Hnd) as (h' & E' & S' & C' & F' & (R1 & R2 & R3 & R4 & R5)).
    exists h'. split; [exact E'|]. split; [exact S'|].
    assert (G5 : forall j, cget h5 j = cget h4 j) by (intros j; subst h5; destruct (oid_eqb (hhead h4) (Some (fid e))); reflexivity).
    assert (F5 : forall j, fget h5 j = fget h4 j) by (intros j; subst h5; destruct (oid_eqb (hhead h4) (Some (fid e))); reflexivity).
    split; [|split; [intros j; rewrite C'; apply G5|split; [intros j Hj; rewrite (F' j Hj); apply F5|]]].
    + rewrite R2. subst h5. rewrite HH. destruct s1 as [|x s1'].
      * cbn [app hdid]. rewrite oid_eqb_refl. cbn [hhead set_hhead]. symmetry. exact HT.
      * cbn [app hdid]. rewrite map_app in Hnd. cbn [app map] in Hnd. apply NoDup_cons_iff in Hnd. destruct Hnd as [Hx _].
        assert (Nx : fid x <> fid e) by (intros E; apply Hx; apply in_or_app; right; left; symmetry; exact E).
        rewrite (oid_eqb_neq _ _ Nx). exact HH.
    + subst h5. destruct (oid_eqb (hhead h4) (Some (fid e))); cbn [set_hhead dict hcap nextc nextf] in *; repeat split; assumption.
  - assert (Nc : c <> 0) by (intros E; apply Hc in E; discriminate).
    rewrite (proj2 (Nat.eqb_neq c 0) Nc). exists h4. cbn [app]. split; [reflexivity|]. split; [exact HS|].
    split; [|repeat split; reflexivity].
    rewrite HH. destruct s1; reflexivity.
Qed.

(** the heap after FreqNode(f, None, None) *)
Lemma new_fnode_spec h f :
  let h1 := fst (new_fnode h f) in
  snd (new_fnode h f) = nextf h /\
  (forall j, cget h1 j = cget h j) /\
  (forall j, fget h1 j = if Nat.eqb (nextf h) j then Some (mkF f None None None None) else fget h j) /\
  dict h1 = dict h /\ hhead h1 = hhead h /\ hcap h1 = hcap h /\ nextc h1 = nextc h /\ nextf h1 = S (nextf h).
Proof.
  cbn. repeat split. intros j. unfold fget. cbn [fns]. apply mget_mset.
Qed.

Lemma all_c_keep e : all_c (keep e) = fits e.
Proof. unfold keep. destruct (fits e) eqn:E; [reflexivity|]. cbn [all_c flat_map]. rewrite app_nil_r. exact E. Qed.

Lemma NoDup_keep s1 e T : NoDup (map fid (s1 ++ e :: T)) -> NoDup (map fid (s1 ++ keep e ++ T)).
Proof.
  unfold keep. destruct (fits e); [|exact (fun H => H)]. cbn [app]. rewrite !map_app. cbn [map].
  apply NoDup_remove_1.
Qed.

Lemma NoDup_bucket s1 e s2 : NoDup (map cid (all_c (s1 ++ e :: s2))) -> NoDup (map cid (fits e)).
Proof.
  rewrite all_c_app, all_c_cons, !map_app. intros H.
  destruct (NoDup_app_inv _ _ H) as (_ & H2 & _). destruct (NoDup_app_inv _ _ H2) as (H3 & _ & _). exact H3.
Qed.

(** what move_forward guarantees, before the bookkeeping of [wf] *)
Definition mf_core (h h' : heap) (sh sh' : list fentry) (extra : list id) : Prop :=
  flist h' sh' /\ hhead h' = hdid fid sh' None /\
  (forall j, ~ In j (map cid (all_c sh)) -> cget h' j = cget h j) /\
  (forall j, ~ In j (map fid sh) -> ~ In j extra -> fget h' j = fget h j) /\
  dict h' = dict h /\ hcap h' = hcap h /\ nextc h' = nextc h.

(** the next frequency node [et] exists and is the target *)
Lemma mf_old h s1 fi f l1 a l2 et s2' :
  let sh := s1 ++ (fi, (f, l1 ++ a :: l2)) :: et :: s2' in
  wf h sh ->
  exists h',
    mf_rest h (cid a) fi (fid et) false = Some h' /\
    mf_core h h' sh (s1 ++ keep (fi, (f, l1 ++ l2)) ++ (fid et, (ffr et, fits et ++ [a])) :: s2') [] /\
    nextf h' = nextf h.
Proof.
  intros sh (HS & HH & Hndf & Hndc & HD & Hfc & Hff & Hndk). destruct a as [i [k v]].
  set (e := (fi, (f, l1 ++ (i, (k, v)) :: l2)) : fentry) in *.
  pose proof HS as HS0. unfold flist in HS. subst sh. apply dseg_app in HS. destruct HS as [HS1 HS2].
  cbn [dseg hdid] in HS1, HS2. destruct HS2 as (HE & HT & HS2). unfold fP in HE, HT. cbn [fid ffr fits fst snd] in HE, HT.
  assert (Nft : fi <> fid et).
  { intros E. rewrite map_app in Hndf. cbn [map] in Hndf. apply (NoDup_remove_2 _ _ _ Hndf).
    apply in_or_app. right. left. symmetry. exact E. }
  pose proof (NoDup_bucket s1 e (et :: s2') Hndc) as Hnde. cbn [fits snd] in Hnde.
  pose proof (NoDup_bucket (s1 ++ [e]) et s2' ltac:(rewrite <- app_assoc; exact Hndc)) as Hndt.
  assert (Hdisj : forall j, In j (map cid (l1 ++ (i, (k, v)) :: l2)) -> ~ In j (map cid (fits et))).
  { intros j Hj C. apply in_map_iff in C. destruct C as (a' & Ea & Ha').
    apply (cids_disjoint s1 e (et :: s2') et a' Hndc); [apply in_or_app; right; left; reflexivity|exact Ha'|].
    rewrite Ea. exact Hj. }
  destruct (free_append_spec h fi f l1 i k v l2 _ _ (fid et) (ffr et) (fits et) _ _ HE HT Nft Hnde Hndt Hdisj)
    as (h2 & h3 & E2 & E3 & HE3 & HT3 & C3 & F3 & R3).
  unfold mf_rest. cbn [cid fst]. rewrite E2. cbn [bind]. rewrite E3. cbn [bind].
  set (e' := (fi, (f, l1 ++ l2)) : fentry). set (et' := (fid et, (ffr et, fits et ++ [(i, (k, v))])) : fentry).
  assert (HS3 : flist h3 (s1 ++ [e'; et'] ++ s2')).
  { apply (flist_replace_seg h h3 s1 [e; et] [e'; et'] s2' HS0); [reflexivity|reflexivity| | |].
    - cbn [dseg hdid]. split; [exact HE3|split; [exact HT3|exact I]].
    - intros x Hx. apply F3.
      + intros E. rewrite map_app in Hndf. cbn [map] in Hndf. apply (NoDup_remove_2 _ _ _ Hndf).
        apply in_app_or in Hx. apply in_or_app. destruct Hx as [Hx|Hx]; [left|right; right]; rewrite <- E; exact (in_map fid _ _ Hx).
      + intros E. rewrite map_app in Hndf. cbn [map] in Hndf.
        pose proof (NoDup_remove_2 (map fid s1 ++ [fi]) (map fid s2') (fid et) ltac:(rewrite <- app_assoc; exact Hndf)) as Q.
        apply Q. rewrite <- app_assoc. apply in_app_or in Hx. apply in_or_app.
        destruct Hx as [Hx|Hx]; [left|right; right]; rewrite <- E; exact (in_map fid _ _ Hx).
    - intros x a' Hx Ha'. apply C3.
      + apply (cids_disjoint s1 e (et :: s2') x a' Hndc); [|exact Ha'].
        apply in_app_or in Hx. apply in_or_app. destruct Hx as [Hx|Hx]; [left|right; right]; exact Hx.
      + apply (cids_disjoint (s1 ++ [e]) et s2' x a' ltac:(rewrite <- app_assoc; exact Hndc)); [|exact Ha'].
        apply in_app_or in Hx. apply in_or_app. destruct Hx as [Hx|Hx]; [left; apply in_or_app; left|right]; exact Hx. }
  destruct R3 as (R31 & R32 & R33 & R34 & R35).
  destruct (mf_finish h3 s1 e' (et' :: s2') (fid et) HS3 eq_refl) as (h' & E' & S' & H' & C' & F' & D1 & D2 & D3 & D4).
  { rewrite map_app in Hndf |- *. exact Hndf. }
  { rewrite R32, HH. destruct s1; reflexivity. }
  exists h'. split; [exact E'|]. split; [|rewrite D4; exact R35].
  split; [exact S'|]. split; [exact H'|]. split; [|split; [|split; [rewrite D1; exact R31|split; [rewrite D2; exact R33|rewrite D3; exact R34]]]].
  - intros j Hj. rewrite C'. apply C3.
    + intros C. apply Hj. rewrite all_c_app, all_c_cons, !map_app. apply in_or_app. right. apply in_or_app. left. exact C.
    + intros C. apply Hj. rewrite all_c_app, !all_c_cons, !map_app. apply in_or_app. right. apply in_or_app. right.
      apply in_or_app. left. exact C.
  - intros j Hj _. rewrite map_app in Hj. rewrite F'; [|rewrite map_app; exact Hj]. cbn [map] in Hj. apply F3.
    + intros E. apply Hj. apply in_or_app. right. left. symmetry. exact E.
    + intros E. apply Hj. apply in_or_app. right. right. left. symmetry. exact E.
Qed.

(** a new frequency node is created and linked in after the source node *)
Lemma mf_new h s1 fi f l1 a l2 s2 :
  let sh := s1 ++ (fi, (f, l1 ++ a :: l2)) :: s2 in
  wf h sh ->
  exists h',
    mf_rest (fst (new_fnode h (S f))) (cid a) fi (nextf h) true = Some h' /\
    mf_core h h' sh (s1 ++ keep (fi, (f, l1 ++ l2)) ++ (nextf h, (S f, [a])) :: s2) [nextf h] /\
    nextf h' = S (nextf h).
Proof.
  intros sh (HS & HH & Hndf & Hndc & HD & Hfc & Hff & Hndk). destruct a as [i [k v]].
  set (e := (fi, (f, l1 ++ (i, (k, v)) :: l2)) : fentry) in *.
  set (nf := nextf h). set (h1 := fst (new_fnode h (S f))).
  destruct (new_fnode_spec h (S f)) as (_ & C1 & F1 & D11 & D12 & D13 & D14 & D15). fold h1 in C1, F1, D11, D12, D13, D14, D15. fold nf in F1, D15.
  assert (Nnf : ~ In nf (map fid sh)).
  { intros C. apply in_map_iff in C. destruct C as (x & Ex & Hx). pose proof (fids_lt h sh HS Hff x Hx). unfold nf in Ex. lia. }
  assert (HS1 : flist h1 sh).
  { unfold flist. eapply dseg_ext; [|exact HS]. intros x p n Hx. apply fP_frame.
    - rewrite F1. destruct (Nat.eqb_spec nf (fid x)) as [E|_]; [|reflexivity]. exfalso. apply Nnf. rewrite E. apply in_map. exact Hx.
    - intros a' _. apply C1. }
  pose proof HS1 as HS10. unfold flist in HS1. subst sh. apply dseg_app in HS1. destruct HS1 as [_ HS12].
  cbn [dseg hdid] in HS12. destruct HS12 as (HE & _). unfold fP in HE. cbn [fid ffr fits fst snd] in HE.
  assert (HT1 : bucket_ok h1 nf (S f) [] None None).
  { split; [rewrite F1, Nat.eqb_refl; reflexivity|exact I]. }
  assert (Nft : fi <> nf).
  { intros E. apply Nnf. rewrite map_app. apply in_or_app. right. left. exact E. }
  pose proof (NoDup_bucket s1 e s2 Hndc) as Hnde. cbn [fits snd] in Hnde.
  destruct (free_append_spec h1 fi f l1 i k v l2 _ _ nf (S f) [] None None HE HT1 Nft Hnde ltac:(constructor) ltac:(intros j _ []))
    as (h2 & h3 & E2 & E3 & HE3 & HT3 & C3 & F3 & R3).
  unfold mf_rest. cbn [cid fst]. rewrite E2. cbn [bind]. rewrite E3. cbn [bind app] in HT3 |- *.
  set (e' := (fi, (f, l1 ++ l2)) : fentry).
  assert (HS3 : flist h3 (s1 ++ [e'] ++ s2)).
  { apply (flist_replace_seg h1 h3 s1 [e] [e'] s2 HS10); [reflexivity|reflexivity| | |].
    - cbn [dseg hdid]. split; [exact HE3|exact I].
    - intros x Hx. apply F3.
      + intros E. rewrite map_app in Hndf. cbn [map] in Hndf. apply (NoDup_remove_2 _ _ _ Hndf).
        apply in_app_or in Hx. apply in_or_app. destruct Hx as [Hx|Hx]; [left|right]; rewrite <- E; exact (in_map fid _ _ Hx).
      + intros E. apply Nnf. rewrite <- E. rewrite map_app. cbn [map]. apply in_app_or in Hx. apply in_or_app.
        destruct Hx as [Hx|Hx]; [left|right; right]; exact (in_map fid _ _ Hx).
    - intros x a' Hx Ha'. apply C3; [|intros []].
      exact (cids_disjoint s1 e s2 x a' Hndc Hx Ha'). }
  assert (Hndf' : NoDup (map fid (s1 ++ e' :: s2))) by (rewrite map_app in Hndf |- *; exact Hndf).
  assert (Nnf' : ~ In nf (map fid (s1 ++ e' :: s2))) by (rewrite map_app in Nnf |- *; exact Nnf).
  destruct (insert_after_spec h3 s1 e' s2 nf (S f) [(i, (k, v))] None None HS3 HT3 Nnf' Hndf') as (h4 & E4 & S4 & C4 & F4 & R4).
  change (insert_after_me h3 fi nf = Some h4) in E4. rewrite E4. cbn [bind].
  destruct R3 as (R31 & R32 & R33 & R34 & R35). destruct R4 as (R41 & R42 & R43 & R44 & R45).
  set (en := (nf, (S f, [(i, (k, v))])) : fentry) in *.
  assert (Hndf4 : NoDup (map fid (s1 ++ e' :: en :: s2))).
  { assert (Hperm : Permutation (nf :: map fid (s1 ++ e' :: s2)) (map fid (s1 ++ e' :: en :: s2))).
    { rewrite !map_app. cbn [map].
      pose proof (Permutation_middle (map fid s1 ++ [fid e']) (map fid s2) nf) as P.
      rewrite <- !app_assoc in P. exact P. }
    eapply Permutation_NoDup; [exact Hperm|]. constructor; [exact Nnf'|exact Hndf']. }
  destruct (mf_finish h4 s1 e' (en :: s2) nf S4 eq_refl Hndf4) as (h' & E' & S' & H' & C' & F' & D1 & D2 & D3 & D4).
  { rewrite R42, R32, D12, HH. destruct s1; reflexivity. }
  exists h'. split; [exact E'|]. split; [|rewrite D4, R45, R35; exact D15].
  split; [exact S'|]. split; [exact H'|].
  split; [|split; [|split; [rewrite D1, R41, R31; exact D11|split; [rewrite D2, R43, R33; exact D13|rewrite D3, R44, R34; exact D14]]]].
  - intros j Hj. rewrite C', C4, C3; [apply C1| |intros []].
    intros C. apply Hj. rewrite all_c_app, all_c_cons, !map_app. apply in_or_app. right. apply in_or_app. left. exact C.
  - intros j Hj Hjn. assert (Njn : j <> nf) by (intros E; apply Hjn; left; symmetry; exact E).
    rewrite map_app in Hj. cbn [map] in Hj.
    rewrite F'.
    + rewrite F4; [|exact Njn|rewrite map_app; exact Hj].
      rewrite F3; [|intros E; apply Hj; apply in_or_app; right; left; symmetry; exact E|exact Njn].
      rewrite F1. eqb_simp. reflexivity.
    + rewrite map_app. cbn [map]. intros C. apply in_app_or in C. destruct C as [C|[C|[C|C]]].
      * apply Hj. apply in_or_app. left. exact C.
      * apply Hj. apply in_or_app. right. left. exact C.
      * apply Njn. symmetry. exact C.
      * apply Hj. apply in_or_app. right. right. exact C.
Qed.

(** from the core guarantees back to [wf] *)
Lemma core_wf h h' sh sh' extra :
  wf h sh -> mf_core h h' sh sh' extra ->
  NoDup (map fid sh') -> Permutation (all_c sh') (all_c sh) ->
  nextf h <= nextf h' -> (forall j, In j extra -> j < nextf h') ->
  wf h' sh'.
Proof.
  intros (HS & HH & Hndf & Hndc & HD & Hfc & Hff & Hndk) (S' & H' & C' & F' & D1 & D2 & D3) Hndf' HP Hle Hex.
  split; [exact S'|]. split; [exact H'|]. split; [exact Hndf'|]. split; [|split; [|split; [|split]]].
  5: { eapply Permutation_NoDup; [apply Permutation_map; apply Permutation_sym; exact HP|exact Hndk]. }
  - eapply Permutation_NoDup; [apply Permutation_map; apply Permutation_sym; exact HP|exact Hndc].
  - rewrite D1. eapply perm_trans; [exact HD|]. unfold pairs. apply Permutation_map. apply Permutation_sym. exact HP.
  - intros j Hj. rewrite D3 in Hj. rewrite C'; [exact (Hfc j Hj)|].
    intros C. apply in_map_iff in C. destruct C as (a & Ea & Ha). pose proof (cids_lt h sh HS Hfc a Ha). lia.
  - intros j Hj. rewrite F'; [apply Hff; lia| |].
    + intros C. apply in_map_iff in C. destruct C as (x & Ex & Hx). pose proof (fids_lt h sh HS Hff x Hx). lia.
    + intros C. pose proof (Hex j C). lia.
Qed.

Definition mf_tail (nf : id) (f : nat) (a : centry) (s2 : list fentry) : list fentry :=
  match s2 with
  | et :: s2' => if Nat.eqb (ffr et) (S f)
                 then (fid et, (ffr et, fits et ++ [a])) :: s2'
                 else (nf, (S f, [a])) :: s2
  | [] => [(nf, (S f, [a]))]
  end.

Lemma perm_move (X Y Z R : list centry) a :
  Permutation ((X ++ Y) ++ (Z ++ [a]) ++ R) ((X ++ a :: Y) ++ Z ++ R).
Proof.
  eapply perm_trans; [|apply Permutation_app_tail; apply Permutation_middle].
  cbn [app]. eapply perm_trans; [|apply Permutation_sym; apply Permutation_middle with (l1 := X ++ Y)].
  apply Permutation_app_head. rewrite <- app_assoc. cbn [app].
  apply Permutation_sym. apply Permutation_middle.
Qed.

Theorem move_forward_spec h s1 fi f l1 a l2 s2 :
  wf h (s1 ++ (fi, (f, l1 ++ a :: l2)) :: s2) ->
  exists h',
    move_forward h (cid a) fi = Some h' /\
    wf h' (s1 ++ keep (fi, (f, l1 ++ l2)) ++ mf_tail (nextf h) f a s2) /\
    hcap h' = hcap h.
Proof.
  intros W. pose proof W as (HS & HH & Hndf & Hndc & HD & Hfc & Hff & Hndk).
  set (e := (fi, (f, l1 ++ a :: l2)) : fentry) in *.
  pose proof HS as HS0. unfold flist in HS0. apply dseg_app in HS0. destruct HS0 as [_ HS2].
  cbn [dseg] in HS2. destruct HS2 as ([HF _] & HS2). unfold e in HF. cbn [fid ffr fst snd] in HF.
  unfold move_forward. rewrite getf_some, HF. cbn [bind fnxt ffreq]. rewrite Nat.add_1_r.
  assert (NEW : exists h', mf_rest (fst (new_fnode h (S f))) (cid a) fi (nextf h) true = Some h' /\
                  wf h' (s1 ++ keep (fi, (f, l1 ++ l2)) ++ (nextf h, (S f, [a])) :: s2) /\ hcap h' = hcap h).
  { destruct (mf_new h s1 fi f l1 a l2 s2 W) as (h' & E' & Core & Enf). exists h'. split; [exact E'|].
    split; [|exact (proj1 (proj2 (proj2 (proj2 (proj2 (proj2 Core))))))].
    apply (core_wf h h' _ _ [nextf h] W Core).
    - (* fids *)
      destruct Core as (S' & _). clear - S' Hndf Hff HS.
      assert (Nnf : ~ In (nextf h) (map fid (s1 ++ e :: s2))).
      { intros C. apply in_map_iff in C. destruct C as (x & Ex & Hx). pose proof (fids_lt h _ HS Hff x Hx). lia. }
      apply NoDup_keep.
      assert (Hperm : Permutation (nextf h :: map fid (s1 ++ e :: s2))
                                  (map fid (s1 ++ (fi, (f, l1 ++ l2)) :: (nextf h, (S f, [a])) :: s2))).
      { rewrite !map_app. cbn [map].
        pose proof (Permutation_middle (map fid s1 ++ [fi]) (map fid s2) (nextf h)) as P.
        rewrite <- !app_assoc in P. exact P. }
      eapply Permutation_NoDup; [exact Hperm|]. constructor; [exact Nnf|exact Hndf].
    - rewrite !all_c_app, all_c_keep, !all_c_cons. cbn [fits snd].
      apply Permutation_app_head.
      pose proof (perm_move l1 l2 [] (all_c s2) a) as P. cbn [app] in P. exact P.
    - rewrite Enf. lia.
    - intros j [E|[]]. rewrite Enf. lia. }
  destruct s2 as [|et s2'].
  - cbn [hdid]. destruct NEW as (h' & E' & W' & Ec). exists h'. split; [exact E'|]. split; [exact W'|exact Ec].
  - cbn [hdid]. cbn [dseg] in HS2. destruct HS2 as ([HFt _] & _). rewrite getf_some, HFt. cbn [bind ffreq].
    cbn [mf_tail]. destruct (Nat.eqb_spec (ffr et) (S f)) as [Eq|Ne]; cbn [negb].
    + destruct (mf_old h s1 fi f l1 a l2 et s2' W) as (h' & E' & Core & Enf). exists h'. split; [exact E'|].
      split; [|exact (proj1 (proj2 (proj2 (proj2 (proj2 (proj2 Core))))))].
      apply (core_wf h h' _ _ [] W Core).
      * apply NoDup_keep. rewrite map_app in Hndf |- *. exact Hndf.
      * rewrite !all_c_app, all_c_keep, !all_c_cons. cbn [fits snd].
        apply Permutation_app_head. apply perm_move.
      * rewrite Enf. lia.
      * intros j [].
    + destruct NEW as (h' & E' & W' & Ec). exists h'. split; [exact E'|]. split; [exact W'|exact Ec].
Qed.

(* ------------------------------------------------------------------ *)
(** * LFUCache.dump_cache *)

Lemma perm_filter {A} (f : A -> bool) (l l' : list A) : Permutation l l' -> Permutation (filter f l) (filter f l').
Proof.
  induction 1 as [|x l l' _ IH|x y l|l l' l'' _ IH1 _ IH2]; cbn [filter].
  - constructor.
  - destruct (f x); [constructor|]; exact IH.
  - destruct (f x), (f y); try apply Permutation_refl. apply perm_swap.
  - exact (perm_trans IH1 IH2).
Qed.

Lemma pairs_keys sh : map fst (pairs sh) = map akey (all_c sh).
Proof. unfold pairs. rewrite map_map. reflexivity. Qed.

Lemma dict_keys_nodup h sh : wf h sh -> NoDup (map fst (dict h)).
Proof.
  intros (_ & _ & _ & _ & HD & _ & _ & Hndk).
  eapply Permutation_NoDup; [apply Permutation_map; apply Permutation_sym; exact HD|]. rewrite pairs_keys. exact Hndk.
Qed.

Lemma dict_lookup h sh a : wf h sh -> In a (all_c sh) -> lookup (akey a) (dict h) = Some (cid a).
Proof.
  intros W Ha. apply lookup_in_nodup; [exact (dict_keys_nodup h sh W)|].
  destruct W as (_ & _ & _ & _ & HD & _). eapply Permutation_in; [apply Permutation_sym; exact HD|].
  unfold pairs. apply in_map_iff. exists a. split; [reflexivity|exact Ha].
Qed.

Lemma dict_lookup_none h sh k : wf h sh -> ~ In k (map akey (all_c sh)) -> lookup k (dict h) = None.
Proof.
  intros (_ & _ & _ & _ & HD & _) Hk. apply lookup_none_iff. intros C. apply Hk. rewrite <- pairs_keys.
  eapply Permutation_in; [apply Permutation_map; exact HD|exact C].
Qed.

Theorem dump_cache_spec h fi f a l2 s2 :
  wf h ((fi, (f, a :: l2)) :: s2) ->
  exists h',
    dump_cache h = Some h' /\
    wf h' (keep (fi, (f, l2)) ++ s2) /\
    hcap h' = hcap h.
Proof.
  intros W. pose proof W as (HS & HH & Hndf & Hndc & HD & Hfc & Hff & Hndk).
  set (e := (fi, (f, a :: l2)) : fentry) in *. set (e' := (fi, (f, l2)) : fentry).
  pose proof HS as HS0. unfold flist in HS0. cbn [dseg] in HS0. destruct HS0 as (HE & HS2).
  pose proof HE as [HF HL]. unfold e in HF, HL. cbn [fid ffr fits fst snd hdid] in HF, HL.
  unfold clist in HL. cbn [dseg] in HL. destruct HL as [Ha _]. unfold cP in Ha.
  cbn [hdid] in HH. unfold e in HH. cbn [fid fst] in HH.
  unfold dump_cache. rewrite HH. cbn [bind]. rewrite getf_some, HF. cbn [bind fhead]. rewrite getc_some, Ha. cbn [bind ckey].
  assert (Hina : In a (all_c (e :: s2))) by (rewrite all_c_cons; left; reflexivity).
  pose proof (dict_lookup h _ a W Hina) as Lk.
  unfold dict_pop. rewrite has_key_lookup, Lk. cbn [bind].
  set (h1 := set_dict h (remove_key (akey a) (dict h))).
  pose proof (NoDup_bucket [] e s2 Hndc) as Hnde. unfold e in Hnde. cbn [fits snd] in Hnde.
  assert (HE1 : bucket_ok h1 fi f (a :: l2) None (hdid fid s2 None)) by exact HE.
  destruct (pop_head_spec h1 fi f a l2 _ _ HE1 Hnde) as (h2 & E2 & HE2 & C2 & F2 & (R21 & R22 & R23 & R24 & R25)).
  rewrite E2. cbn [bind].
  cbn [map] in Hndf. pose proof (proj1 (NoDup_cons_iff _ _) Hndf) as [Hfi Hndf2]. unfold e in Hfi. cbn [fid fst] in Hfi.
  assert (HS2' : flist h2 ([] ++ [e'] ++ s2)).
  { apply (flist_replace_seg h1 h2 [] [e] [e'] s2 HS); [reflexivity|reflexivity| | |].
    - cbn [dseg hdid lastid]. split; [exact HE2|exact I].
    - intros x Hx. apply F2. intros E. apply Hfi. rewrite <- E. exact (in_map fid _ _ Hx).
    - intros x a' Hx Ha'. apply C2. intros C.
      apply (cids_disjoint [] e s2 x a' Hndc Hx Ha'). unfold e. cbn [fits snd map]. right. exact C. }
  cbn [app] in HS2'.
  destruct (count_caches_spec h2 _ _ _ _ _ HE2) as (c & Ec & Hc). rewrite Ec. cbn [bind].
  (* the bookkeeping shared by both outcomes *)
  assert (Hndc' : NoDup (map cid (l2 ++ all_c s2))).
  { rewrite all_c_cons in Hndc. unfold e in Hndc. cbn [fits snd app map] in Hndc. exact (proj2 (proj1 (NoDup_cons_iff _ _) Hndc)). }
  assert (Hndk' : NoDup (map akey (l2 ++ all_c s2)) /\ ~ In (akey a) (map akey (l2 ++ all_c s2))).
  { rewrite all_c_cons in Hndk. unfold e in Hndk. cbn [fits snd app map] in Hndk.
    apply NoDup_cons_iff in Hndk. tauto. }
  assert (HD' : Permutation (remove_key (akey a) (dict h)) (map (fun a0 => (akey a0, cid a0)) (l2 ++ all_c s2))).
  { unfold remove_key. eapply perm_trans; [apply perm_filter; exact HD|].
    unfold pairs. rewrite all_c_cons. unfold e. cbn [fits snd app map filter fst]. rewrite Z.eqb_refl. cbn [negb].
    change (Permutation (remove_key (akey a) (map (fun a0 : centry => (akey a0, cid a0)) (l2 ++ all_c s2)))
                        (map (fun a0 : centry => (akey a0, cid a0)) (l2 ++ all_c s2))).
    rewrite remove_key_notin; [apply Permutation_refl|]. rewrite map_map. exact (proj2 Hndk'). }
  assert (Hfc2 : forall j, nextc h2 <= j -> cget h2 j = None).
  { intros j Hj. rewrite R24 in Hj. unfold h1 in Hj. cbn [nextc set_dict] in Hj. rewrite C2; [exact (Hfc j Hj)|].
    intros C. apply in_map_iff in C. destruct C as (a' & Ea & Ha'). 
    pose proof (cids_lt h _ HS Hfc a' ltac:(rewrite all_c_cons; unfold e; cbn [fits snd]; right; apply in_or_app; left; exact Ha')). lia. }
  assert (Hff2 : forall j, nextf h2 <= j -> fget h2 j = None).
  { intros j Hj. rewrite R25 in Hj. unfold h1 in Hj. cbn [nextf set_dict] in Hj. rewrite F2; [exact (Hff j Hj)|].
    intros E. pose proof (fids_lt h _ HS Hff e (or_introl eq_refl)). unfold e in H. cbn [fid fst] in H. lia. }
  unfold keep. cbn [fits snd]. destruct l2 as [|b l2'].
  - rewrite (proj2 Hc eq_refl). cbn [Nat.eqb app]. rewrite getf_some. destruct HE2 as [HF2 _]. rewrite HF2. cbn [bind fnxt].
    set (h3 := set_hhead h2 (hdid fid s2 None)).
    destruct (fremove_spec h3 [] e' s2 HS2' eq_refl) as (h' & E' & S' & C' & F' & (R1 & R2 & R3 & R4 & R5)).
    { exact Hndf. }
    exists h'. split; [exact E'|]. cbn [app] in S'. split; [|rewrite R3; exact R23].
    split; [exact S'|]. split; [rewrite R2; reflexivity|]. split; [exact Hndf2|]. split; [exact Hndc'|].
    split; [rewrite R1; unfold h3; cbn [dict set_hhead]; rewrite R21; exact HD'|].
    split; [|split; [|exact (proj1 Hndk')]].
    + intros j Hj. rewrite R4 in Hj. rewrite C'. exact (Hfc2 j Hj).
    + intros j Hj. rewrite R5 in Hj. rewrite F'; [exact (Hff2 j Hj)|].
      intros C. apply in_map_iff in C. destruct C as (x & Ex & Hx).
      pose proof (fids_lt h2 _ HS2' Hff2 x Hx) as L. unfold h3 in Hj. cbn [nextf set_hhead] in Hj. lia.
  - assert (Nc : c <> 0) by (intros E; apply Hc in E; discriminate).
    rewrite (proj2 (Nat.eqb_neq c 0) Nc). exists h2. split; [reflexivity|]. split; [|exact R23].
    cbn [app]. split; [exact HS2'|]. split; [rewrite R22; exact HH|]. split; [exact Hndf|]. split; [exact Hndc'|].
    split; [rewrite R21; exact HD'|]. split; [exact Hfc2|split; [exact Hff2|exact (proj1 Hndk')]].
Qed.

(* ------------------------------------------------------------------ *)
(** * LFUCache.create_cache_node *)

Definition create_shape (nc nf : id) (k : key) (v : val) (sh : list fentry) : list fentry :=
  match sh with
  | e :: s2 => if Nat.eqb (ffr e) 0
               then (fid e, (ffr e, fits e ++ [(nc, (k, v))])) :: s2
               else (nf, (0, [(nc, (k, v))])) :: sh
  | [] => [(nf, (0, [(nc, (k, v))]))]
  end.

Lemma new_cnode_spec h k v :
  let h1 := fst (new_cnode h k v) in
  snd (new_cnode h k v) = nextc h /\
  (forall j, cget h1 j = if Nat.eqb (nextc h) j then Some (mkC k v None None None) else cget h j) /\
  (forall j, fget h1 j = fget h j) /\
  dict h1 = dict h /\ hhead h1 = hhead h /\ hcap h1 = hcap h /\ nextc h1 = S (nextc h) /\ nextf h1 = nextf h.
Proof.
  cbn. repeat split. intros j. unfold cget. cbn [cns]. apply mget_mset.
Qed.

Lemma create_wf h h' sh sh' k v :
  wf h sh -> ~ In k (map akey (all_c sh)) ->
  flist h' sh' -> hhead h' = hdid fid sh' None -> NoDup (map fid sh') ->
  Permutation (all_c sh') ((nextc h, (k, v)) :: all_c sh) ->
  dict h' = dict h ++ [(k, nextc h)] -> nextc h' = S (nextc h) -> nextf h <= nextf h' ->
  (forall j, S (nextc h) <= j -> cget h' j = cget h j) ->
  (forall j, nextf h' <= j -> fget h' j = fget h j) ->
  wf h' sh'.
Proof.
  intros (HS & HH & Hndf & Hndc & HD & Hfc & Hff & Hndk) Hk S' H' Hndf' HP D' Nc' Nf' C' F'.
  split; [exact S'|]. split; [exact H'|]. split; [exact Hndf'|]. split; [|split; [|split; [|split]]].
  - eapply Permutation_NoDup; [apply Permutation_map; apply Permutation_sym; exact HP|].
    cbn [map cid fst]. constructor; [|exact Hndc].
    intros C. apply in_map_iff in C. destruct C as (a & Ea & Ha). pose proof (cids_lt h sh HS Hfc a Ha). lia.
  - rewrite D'. unfold pairs. eapply perm_trans; [|apply Permutation_map; apply Permutation_sym; exact HP].
    cbn [map akey cid fst snd]. eapply perm_trans; [apply Permutation_sym; apply Permutation_cons_append|].
    apply perm_skip. exact HD.
  - intros j Hj. rewrite Nc' in Hj. rewrite C'; [apply Hfc; lia|exact Hj].
  - intros j Hj. rewrite F'; [apply Hff; lia|exact Hj].
  - eapply Permutation_NoDup; [apply Permutation_map; apply Permutation_sym; exact HP|].
    cbn [map akey fst snd]. constructor; [exact Hk|exact Hndk].
Qed.

Theorem create_spec h sh k v :
  wf h sh -> ~ In k (map akey (all_c sh)) ->
  exists h',
    create_cache_node h k v = Some h' /\
    wf h' (create_shape (nextc h) (nextf h) k v sh) /\
    hcap h' = hcap h.
Proof.
  intros W Hk. pose proof W as (HS & HH & Hndf & Hndc & HD & Hfc & Hff & Hndk).
  set (nc := nextc h). set (nf := nextf h).
  unfold create_cache_node.
  destruct (new_cnode_spec h k v) as (En & C1 & F1 & D11 & D12 & D13 & D14 & D15).
  destruct (new_cnode h k v) as [h1 cn0] eqn:Enew. cbn [fst snd] in *. subst cn0. fold nc in C1, D14 |- *.
  rewrite D11. unfold dict_set. rewrite has_key_lookup, (dict_lookup_none h sh k W Hk).
  set (h2 := set_dict h1 (dict h ++ [(k, nc)])).
  assert (Nnc : forall a, In a (all_c sh) -> cid a <> nc).
  { intros a Ha E. pose proof (cids_lt h sh HS Hfc a Ha). unfold nc in E. lia. }
  assert (Nnf : ~ In nf (map fid sh)).
  { intros C. apply in_map_iff in C. destruct C as (x & Ex & Hx). pose proof (fids_lt h sh HS Hff x Hx). unfold nf in Ex. lia. }
  assert (HS2 : flist h2 sh).
  { unfold flist. eapply dseg_ext; [|exact HS]. intros x p n Hx. apply fP_frame.
    - apply F1.
    - intros a Ha. change (cget h2 (cid a)) with (cget h1 (cid a)). rewrite C1.
      pose proof (Nnc a (in_all_c x a sh Hx Ha)). eqb_simp. reflexivity. }
  assert (Hnew2 : cget h2 nc = Some (mkC k v None None None)).
  { change (cget h2 nc) with (cget h1 nc). rewrite C1, Nat.eqb_refl. reflexivity. }
  assert (HH2 : hhead h2 = hdid fid sh None) by (change (hhead h2) with (hhead h1); rewrite D12; exact HH).
  (* the path that creates a new frequency node 0 *)
  assert (FRESH : exists h',
     (let '(h3, nf0) := new_fnode h2 0 in
      do h4 <- append_cache_to_tail h3 nf0 nc;
      do h5 <- (match hhead h4 with Some hd => insert_before_me h4 hd nf0 | None => Some h4 end);
      Some (set_hhead h5 (Some nf0))) = Some h' /\
     wf h' ((nf, (0, [(nc, (k, v))])) :: sh) /\ hcap h' = hcap h).
  { destruct (new_fnode_spec h2 0) as (Enf & C3 & F3 & D31 & D32 & D33 & D34 & D35).
    destruct (new_fnode h2 0) as [h3 nf0] eqn:Enewf. cbn [fst snd] in *.
    change (nextf h2) with (nextf h1) in Enf, F3, D35. rewrite D15 in Enf, F3, D35. fold nf in Enf, F3, D35. subst nf0.
    assert (HS3 : flist h3 sh).
    { unfold flist. eapply dseg_ext; [|exact HS2]. intros x p n Hx. apply fP_frame.
      - rewrite F3. destruct (Nat.eqb_spec nf (fid x)) as [E|_]; [|reflexivity]. exfalso. apply Nnf. rewrite E. apply in_map. exact Hx.
      - intros a _. apply C3. }
    assert (HT3 : bucket_ok h3 nf 0 [] None None) by (split; [rewrite F3, Nat.eqb_refl; reflexivity|exact I]).
    destruct (append_spec h3 nf 0 [] None None nc k v None HT3 ltac:(rewrite C3; exact Hnew2) ltac:(intros []) ltac:(constructor))
      as (h4 & E4 & HT4 & C4 & F4 & (R41 & R42 & R43 & R44 & R45)).
    rewrite E4. cbn [bind app] in HT4 |- *.
    assert (HS4 : flist h4 sh).
    { unfold flist. eapply dseg_ext; [|exact HS3]. intros x p n Hx. apply fP_frame.
      - apply F4. intros E. apply Nnf. rewrite <- E. apply in_map. exact Hx.
      - intros a Ha. apply C4; [exact (Nnc a (in_all_c x a sh Hx Ha))|intros []]. }
    assert (HH4 : hhead h4 = hdid fid sh None) by (rewrite R42, D32; exact HH2).
    assert (Cfr : forall h5, (forall j, cget h5 j = cget h4 j) -> forall j, S (nextc h) <= j -> cget h5 j = cget h j).
    { intros h5 C5 j Hj. rewrite C5, C4; [|unfold nc; lia|intros []]. rewrite C3. change (cget h2 j) with (cget h1 j).
      rewrite C1. destruct (Nat.eqb_spec nc j) as [E|_]; [unfold nc in E; lia|reflexivity]. }
    rewrite HH4. destruct sh as [|e s2].
    - cbn [hdid]. eexists. split; [reflexivity|]. split; [|cbn [hcap set_hhead]; rewrite R43, D33; exact D13].
      apply (create_wf h _ [] _ k v W Hk).
      + unfold flist. cbn [dseg hdid]. split; [exact HT4|exact I].
      + reflexivity.
      + cbn. constructor; [intros []|constructor].
      + apply Permutation_refl.
      + cbn [dict set_hhead]. rewrite R41, D31. reflexivity.
      + cbn [nextc set_hhead]. rewrite R44, D34. exact D14.
      + cbn [nextf set_hhead]. rewrite R45, D35. unfold nf. lia.
      + intros j Hj. exact (Cfr h4 (fun _ => eq_refl) j Hj).
      + intros j Hj. cbn [nextf set_hhead] in Hj. rewrite R45, D35 in Hj.
        change (fget (set_hhead h4 (Some nf)) j) with (fget h4 j).
        rewrite F4; [|lia]. rewrite F3. destruct (Nat.eqb_spec nf j) as [E|_]; [lia|]. apply F1.
    - cbn [hdid].
      destruct (insert_before_spec h4 e s2 nf 0 [(nc, (k, v))] None None HS4 HT4 Nnf Hndf) as (h5 & E5 & S5 & C5 & F5 & (R51 & R52 & R53 & R54 & R55)).
      rewrite E5. cbn [bind]. eexists. split; [reflexivity|]. split; [|cbn [hcap set_hhead]; rewrite R53, R43, D33; exact D13].
      apply (create_wf h _ (e :: s2) _ k v W Hk).
      + exact S5.
      + reflexivity.
      + cbn [map fid fst]. constructor; [exact Nnf|exact Hndf].
      + apply Permutation_refl.
      + cbn [dict set_hhead]. rewrite R51, R41, D31. reflexivity.
      + cbn [nextc set_hhead]. rewrite R54, R44, D34. exact D14.
      + cbn [nextf set_hhead]. rewrite R55, R45, D35. unfold nf. lia.
      + intros j Hj. exact (Cfr h5 C5 j Hj).
      + intros j Hj. cbn [nextf set_hhead] in Hj. rewrite R55, R45, D35 in Hj.
        change (fget (set_hhead h5 (Some nf)) j) with (fget h5 j).
        pose proof (fids_lt h _ HS Hff e (or_introl eq_refl)) as Le.
        rewrite F5; [|lia|unfold nf in Hj; lia]. rewrite F4; [|lia]. rewrite F3.
        destruct (Nat.eqb_spec nf j) as [E|_]; [lia|]. apply F1. }
  rewrite HH2. destruct sh as [|e s2].
  - cbn [hdid create_shape]. exact FRESH.
  - cbn [hdid create_shape]. pose proof HS2 as HS20. unfold flist in HS20. cbn [dseg] in HS20. destruct HS20 as ([HF HL] & _).
    rewrite getf_some, HF. cbn [bind ffreq].
    destruct (Nat.eqb_spec (ffr e) 0) as [Ez|Nz]; cbn [negb]; [|exact FRESH].
    pose proof (NoDup_bucket [] e s2 Hndc) as Hnde.
    assert (Hnce : ~ In nc (map cid (fits e))).
    { intros C. apply in_map_iff in C. destruct C as (a & Ea & Ha). apply (Nnc a); [|exact Ea].
      rewrite all_c_cons. apply in_or_app. left. exact Ha. }
    destruct (append_spec h2 (fid e) (ffr e) (fits e) None (hdid fid s2 None) nc k v None (conj HF HL) Hnew2 Hnce Hnde)
      as (h' & E' & HT' & C' & F' & (R1 & R2 & R3 & R4 & R5)).
    exists h'. split; [exact E'|]. split; [|rewrite R3; exact D13].
    cbn [map] in Hndf. pose proof (proj1 (NoDup_cons_iff _ _) Hndf) as [Hfe _].
    apply (create_wf h _ (e :: s2) _ k v W Hk).
    + apply (flist_replace_seg h2 h' [] [e] [(fid e, (ffr e, fits e ++ [(nc, (k, v))]))] s2 HS2); [reflexivity|reflexivity| | |].
      * cbn [dseg hdid lastid]. split; [exact HT'|exact I].
      * intros x Hx. apply F'. intros E. apply Hfe. rewrite <- E. exact (in_map fid _ _ Hx).
      * intros x a Hx Ha. apply C'.
        -- apply Nnc. rewrite all_c_cons. apply in_or_app. right. exact (in_all_c x a s2 Hx Ha).
        -- exact (cids_disjoint [] e s2 x a Hndc Hx Ha).
    + rewrite R2. exact HH2.
    + exact Hndf.
    + rewrite !all_c_cons. cbn [fits snd]. rewrite <- app_assoc. cbn [app].
      apply Permutation_sym. apply Permutation_middle.
    + rewrite R1. reflexivity.
    + rewrite R4. exact D14.
    + rewrite R5. change (nextf h2) with (nextf h1). rewrite D15. lia.
    + intros j Hj. rewrite C'.
      * change (cget h2 j) with (cget h1 j). rewrite C1. destruct (Nat.eqb_spec nc j) as [E|_]; [unfold nc in E; lia|reflexivity].
      * unfold nc. lia.
      * intros C. apply in_map_iff in C. destruct C as (a & Ea & Ha).
        pose proof (cids_lt h _ HS Hfc a ltac:(rewrite all_c_cons; apply in_or_app; left; exact Ha)). lia.
    + intros j Hj. rewrite R5 in Hj. change (nextf h2) with (nextf h1) in Hj. rewrite D15 in Hj.
      rewrite F'; [apply F1|]. pose proof (fids_lt h _ HS Hff e (or_introl eq_refl)). lia.
Qed.

(* ------------------------------------------------------------------ *)
(** * cache_node.content = value *)

Theorem set_content_spec h s1 fi f l1 a l2 s2 v' :
  wf h (s1 ++ (fi, (f, l1 ++ a :: l2)) :: s2) ->
  exists h',
    putc h (Some (cid a)) (with_ccont v') = Some h' /\
    wf h' (s1 ++ (fi, (f, l1 ++ (cid a, (akey a, v')) :: l2)) :: s2) /\
    hcap h' = hcap h.
Proof.
  intros W. pose proof W as (HS & HH & Hndf & Hndc & HD & Hfc & Hff & Hndk).
  set (e := (fi, (f, l1 ++ a :: l2)) : fentry) in *. set (a' := (cid a, (akey a, v')) : centry).
  set (e' := (fi, (f, l1 ++ a' :: l2)) : fentry).
  pose proof HS as HS0. unfold flist in HS0. apply dseg_app in HS0. destruct HS0 as [_ HS2].
  cbn [dseg] in HS2. destruct HS2 as ([HF HL] & _). unfold e in HF, HL. cbn [fid ffr fits fst snd] in HF, HL.
  pose proof HL as HL0. unfold clist in HL0. apply dseg_app in HL0. destruct HL0 as [HL1 HL2].
  cbn [dseg hdid] in HL1, HL2. destruct HL2 as [Ha HL2]. unfold cP in Ha.
  destruct (putc_spec h (cid a) (with_ccont v') _ Ha) as (h' & E' & (U' & F' & (R1 & R2 & R3 & R4 & R5))).
  exists h'. split; [exact E'|]. split; [|exact R3].
  pose proof (NoDup_bucket s1 e s2 Hndc) as Hnde. unfold e in Hnde. cbn [fits snd] in Hnde.
  rewrite map_app in Hnde. cbn [map] in Hnde. pose proof (NoDup_remove_2 _ _ _ Hnde) as Hna.
  assert (Eall : forall g : centry -> id + key, True) by (intros; exact I). clear Eall.
  assert (Ecid : map cid (all_c (s1 ++ e' :: s2)) = map cid (all_c (s1 ++ e :: s2))).
  { rewrite !all_c_app, !all_c_cons, !map_app. unfold e, e'. cbn [fits snd]. rewrite !map_app. reflexivity. }
  assert (Ekey : map akey (all_c (s1 ++ e' :: s2)) = map akey (all_c (s1 ++ e :: s2))).
  { rewrite !all_c_app, !all_c_cons, !map_app. unfold e, e'. cbn [fits snd]. rewrite !map_app. reflexivity. }
  assert (Epairs : pairs (s1 ++ e' :: s2) = pairs (s1 ++ e :: s2)).
  { unfold pairs. rewrite !all_c_app, !all_c_cons, !map_app. unfold e, e'. cbn [fits snd]. rewrite !map_app. reflexivity. }
  split; [|split; [|split; [|split; [|split; [|split; [|split]]]]]].
  - apply (flist_replace_seg h h' s1 [e] [e'] s2 HS); [reflexivity|reflexivity| | |].
    + cbn [dseg hdid]. split; [|exact I]. split.
      * unfold e'. cbn [fid ffr fits fst snd]. rewrite F', HF. rewrite !hdid_app, !lastid_app. reflexivity.
      * unfold e'. cbn [fid fits fst snd]. unfold clist. apply dseg_app. cbn [dseg hdid]. split; [|split].
        -- eapply dseg_ext; [|exact HL1]. intros x p n Hx. unfold cP. rewrite U'.
           assert (Nx : cid a <> cid x) by (intros E; apply Hna; apply in_or_app; left; rewrite E; apply in_map; exact Hx).
           eqb_simp. tauto.
        -- unfold cP. cbn [cid akey aval a' fst snd]. rewrite U', Nat.eqb_refl. reflexivity.
        -- eapply dseg_ext; [|exact HL2]. intros x p n Hx. unfold cP. rewrite U'.
           assert (Nx : cid a <> cid x) by (intros E; apply Hna; apply in_or_app; right; rewrite E; apply in_map; exact Hx).
           eqb_simp. tauto.
    + intros x _. apply F'.
    + intros x a0 Hx Ha0. rewrite U'.
      destruct (Nat.eqb_spec (cid a) (cid a0)) as [E|_]; [|reflexivity]. exfalso.
      apply (cids_disjoint s1 e s2 x a0 Hndc Hx Ha0). unfold e. cbn [fits snd]. rewrite <- E, map_app.
      apply in_or_app. right. left. reflexivity.
  - rewrite R2, HH. rewrite !hdid_app. reflexivity.
  - rewrite map_app in Hndf |- *. exact Hndf.
  - change (NoDup (map cid (all_c (s1 ++ e' :: s2)))). rewrite Ecid. exact Hndc.
  - change (Permutation (dict h') (pairs (s1 ++ e' :: s2))). rewrite R1, Epairs. exact HD.
  - intros j Hj. rewrite R4 in Hj. rewrite U'. destruct (Nat.eqb_spec (cid a) j) as [E|_]; [|exact (Hfc j Hj)].
    exfalso. rewrite <- E in Hj. rewrite (Hfc _ Hj) in Ha. discriminate.
  - intros j Hj. rewrite R5 in Hj. rewrite F'. exact (Hff j Hj).
  - change (NoDup (map akey (all_c (s1 ++ e' :: s2)))). rewrite Ekey. exact Hndk.
Qed.

(* ------------------------------------------------------------------ *)
(** * The abstraction: erase the node ids *)

Definition erase_c (a : centry) : key * val := (akey a, aval a).
Definition erase_f (e : fentry) : bucket := mkB (ffr e) (map erase_c (fits e)).
Definition erase (sh : list fentry) : list bucket := map erase_f sh.

(** [h] represents the abstract state [s] *)
Definition heap_repr (h : heap) (s : lfu) : Prop :=
  exists sh, wf h sh /\ erase sh = buckets s /\ hcap h = cap s.

Lemma all_items_erase sh : all_items (erase sh) = map erase_c (all_c sh).
Proof.
  induction sh as [|e r IH]; [reflexivity|]. cbn [erase map]. rewrite all_items_cons, all_c_cons, map_app.
  fold (erase r). rewrite IH. reflexivity.
Qed.
Lemma keys_erase sh : map fst (all_items (erase sh)) = map akey (all_c sh).
Proof. rewrite all_items_erase, map_map. reflexivity. Qed.

Lemma lookup_split k (l : list centry) v :
  lookup k (map erase_c l) = Some v ->
  exists l1 a l2, l = l1 ++ a :: l2 /\ akey a = k /\ aval a = v /\ lookup k (map erase_c l1) = None.
Proof.
  induction l as [|a r IH]; [discriminate|]. cbn [map erase_c lookup].
  destruct (Z.eqb_spec (akey a) k) as [E|NE]; intros H.
  - inversion H. exists [], a, r. repeat split. exact E.
  - destruct (IH H) as (l1 & a0 & l2 & El & Ek & Ev & Ln). exists (a :: l1), a0, l2. subst r.
    split; [reflexivity|]. split; [exact Ek|]. split; [exact Ev|].
    cbn [map erase_c lookup]. rewrite (proj2 (Z.eqb_neq _ _) NE). exact Ln.
Qed.

Lemma find_key_split k sh u v :
  find_key k (erase sh) = Some (u, v) ->
  exists s1 fi f l1 a l2 s2,
    sh = s1 ++ (fi, (f, l1 ++ a :: l2)) :: s2 /\ akey a = k /\ aval a = v /\ u = f /\
    find_key k (erase s1) = None /\ lookup k (map erase_c l1) = None.
Proof.
  induction sh as [|e r IH]; [discriminate|]. cbn [erase map find_key]. fold (erase r).
  cbn [erase_f items freq]. destruct (lookup k (map erase_c (fits e))) as [v'|] eqn:L; intros H.
  - inversion H; subst u v'. destruct (lookup_split k _ v L) as (l1 & a & l2 & El & Ek & Ev & Ln).
    exists [], (fid e), (ffr e), l1, a, l2, r. split; [|repeat split; assumption].
    cbn [app]. rewrite <- El. destruct e as [fi [f its]]. reflexivity.
  - destruct (IH H) as (s1 & fi & f & l1 & a & l2 & s2 & Es & Ek & Ev & Eu & Fn & Ln).
    exists (e :: s1), fi, f, l1, a, l2, s2. subst r. split; [reflexivity|]. repeat split; try assumption.
    cbn [erase map find_key]. cbn [erase_f items]. rewrite L. exact Fn.
Qed.

Lemma find_key_none_cons k (b : bucket) r : find_key k (b :: r) = None -> lookup k (items b) = None /\ find_key k r = None.
Proof. cbn [find_key]. destruct (lookup k (items b)); [discriminate|]. intros H. split; [reflexivity|exact H]. Qed.

(** the abstract operations on a state split at the bucket that holds the key *)
Lemma amf_split k (B1 : list bucket) b r v :
  find_key k B1 = None -> lookup k (items b) = Some v ->
  LfuModel.move_forward k (B1 ++ b :: r) =
  B1 ++ match remove_key k (items b) with
        | [] => push_next (freq b) k v r
        | _ => mkB (freq b) (remove_key k (items b)) :: push_next (freq b) k v r
        end.
Proof.
  intros HN HL. induction B1 as [|b0 B IH]; cbn [app].
  - exact (move_forward_hit k v b r HL).
  - destruct (find_key_none_cons k b0 B HN) as [L0 HN']. rewrite (move_forward_miss k b0 _ L0), (IH HN'). reflexivity.
Qed.

Lemma aset_split k v (B1 : list bucket) b r v0 :
  find_key k B1 = None -> lookup k (items b) = Some v0 ->
  set_present k v (B1 ++ b :: r) = B1 ++ mkB (freq b) (replace_val k v (items b)) :: r.
Proof.
  intros HN HL. induction B1 as [|b0 B IH]; cbn [app set_present].
  - rewrite has_key_lookup, HL. reflexivity.
  - destruct (find_key_none_cons k b0 B HN) as [L0 HN']. rewrite has_key_lookup, L0, (IH HN'). reflexivity.
Qed.

Lemma remove_key_mid k (l1 l2 : list centry) a :
  akey a = k -> ~ In k (map akey l1) -> ~ In k (map akey l2) ->
  remove_key k (map erase_c (l1 ++ a :: l2)) = map erase_c (l1 ++ l2).
Proof.
  intros Ek H1 H2. rewrite !map_app. cbn [map]. rewrite remove_key_app.
  unfold erase_c at 2. rewrite Ek. rewrite remove_key_head.
  - rewrite remove_key_notin; [reflexivity|]. rewrite map_map. exact H1.
  - rewrite map_map. exact H2.
Qed.

Lemma replace_val_mid k v (l1 l2 : list centry) a :
  akey a = k -> ~ In k (map akey l1) ->
  replace_val k v (map erase_c (l1 ++ a :: l2)) = map erase_c (l1 ++ (cid a, (akey a, v)) :: l2).
Proof.
  destruct a as [i [k0 v0]]. cbn [akey cid fst snd]. intros Ek H1. subst k0.
  induction l1 as [|x l1 IH]; cbn [app map].
  - unfold erase_c at 1 3. cbn [akey aval fst snd replace_val]. rewrite Z.eqb_refl. reflexivity.
  - cbn [map] in H1. unfold erase_c at 1 3. cbn [replace_val].
    destruct (Z.eqb_spec (akey x) k) as [E|NE]; [exfalso; apply H1; left; exact E|].
    f_equal. apply IH. intros C. apply H1. right. exact C.
Qed.

Lemma erase_keep e : erase (keep e) = match map erase_c (fits e) with [] => [] | _ => [erase_f e] end.
Proof. unfold keep. destruct (fits e); reflexivity. Qed.

Lemma erase_mf_tail nf f a s2 : erase (mf_tail nf f a s2) = push_next f (akey a) (aval a) (erase s2).
Proof.
  unfold mf_tail, push_next. destruct s2 as [|et s2']; [reflexivity|]. cbn [erase map]. cbn [erase_f freq items] .
  destruct (Nat.eqb (ffr et) (S f)); [|reflexivity].
  unfold erase. cbn [map]. unfold erase_f at 1. cbn [ffr fits fid fst snd]. rewrite map_app. reflexivity.
Qed.

Lemma erase_create nc nf k v sh : erase (create_shape nc nf k v sh) = create_node k v (erase sh).
Proof.
  unfold create_shape, create_node. destruct sh as [|e s2]; [reflexivity|]. cbn [erase map]. cbn [erase_f freq items].
  destruct (Nat.eqb (ffr e) 0) eqn:E; [|reflexivity].
  unfold erase. cbn [map]. unfold erase_f at 1. cbn [ffr fits fid fst snd]. rewrite map_app.
  apply Nat.eqb_eq in E. rewrite E. reflexivity.
Qed.

(* ------------------------------------------------------------------ *)
(** * Refinement: every heap operation realises the abstract operation *)

Lemma not_in_keys_of_lookup k (l : list centry) : lookup k (map erase_c l) = None -> ~ In k (map akey l).
Proof. intros H. apply lookup_none_iff in H. rewrite map_map in H. exact H. Qed.

Lemma find_key_none_keys k sh : find_key k (erase sh) = None -> ~ In k (map akey (all_c sh)).
Proof. intros H. apply find_key_none_iff in H. rewrite keys_erase in H. exact H. Qed.

Lemma size_repr h s sh : wf h sh -> erase sh = buckets s -> length (dict h) = size s.
Proof.
  intros (_ & _ & _ & _ & HD & _) E. rewrite (Permutation_length HD). unfold pairs. rewrite map_length.
  rewrite size_all_items, <- E, all_items_erase, map_length. reflexivity.
Qed.

Theorem hget_refines h s k :
  heap_repr h s ->
  exists h', hget h k = Some (h', snd (get s k)) /\ heap_repr h' (fst (get s k)).
Proof.
  intros (sh & W & E & Ec). unfold hget, get. rewrite <- E.
  destruct (find_key k (erase sh)) as [[u v]|] eqn:FK.
  - destruct (find_key_split k sh u v FK) as (s1 & fi & f & l1 & a & l2 & s2 & Es & Ek & Ev & Eu & Fn & Ln).
    subst sh u. pose proof W as (HS & _ & _ & _ & _ & _ & _ & Hndk).
    assert (Hina : In a (all_c (s1 ++ (fi, (f, l1 ++ a :: l2)) :: s2))).
    { rewrite all_c_app, all_c_cons. apply in_or_app. right. apply in_or_app. left. cbn [fits snd]. apply in_or_app. right. left. reflexivity. }
    pose proof (dict_lookup h _ a W Hina) as Lk. rewrite Ek in Lk. rewrite Lk.
    (* the node's record *)
    pose proof HS as HS0. unfold flist in HS0. apply dseg_app in HS0. destruct HS0 as [_ HS2]. cbn [dseg] in HS2.
    destruct HS2 as ([_ HL] & _). cbn [fid fits fst snd] in HL. unfold clist in HL. apply dseg_app in HL.
    destruct HL as [_ HL2]. cbn [dseg] in HL2. destruct HL2 as [Ha _]. unfold cP in Ha.
    rewrite getc_some, Ha. cbn [bind cfn ccont].
    destruct (move_forward_spec h s1 fi f l1 a l2 s2 W) as (h' & E' & W' & Ec').
    rewrite E'. cbn [bind]. exists h'. cbn [snd fst]. rewrite Ev. split; [reflexivity|].
    exists (s1 ++ keep (fi, (f, l1 ++ l2)) ++ mf_tail (nextf h) f a s2). split; [exact W'|]. split; [|rewrite Ec'; exact Ec].
    cbn [buckets]. unfold erase at 2. rewrite map_app. cbn [map]. fold (erase s1) (erase s2).
    assert (La : lookup k (items (erase_f (fi, (f, l1 ++ a :: l2)))) = Some v).
    { cbn [erase_f items fits snd]. rewrite map_app. cbn [map]. 
      assert (Q : forall (x : list (key * val)) y, lookup k x = None -> lookup k (x ++ y) = lookup k y).
      { induction x as [|[k0 v0] x IHx]; intros y Hx; [reflexivity|]. cbn [app lookup] in *.
        destruct (Z.eqb k0 k); [discriminate|]. apply IHx. exact Hx. }
      rewrite (Q _ _ Ln). unfold erase_c at 1. cbn [lookup]. rewrite Ek, Z.eqb_refl, Ev. reflexivity. }
    change (erase (s1 ++ keep (fi, (f, l1 ++ l2)) ++ mf_tail (nextf h) f a s2) =
            LfuModel.move_forward k (erase s1 ++ erase_f (fi, (f, l1 ++ a :: l2)) :: erase s2)).
    rewrite (amf_split k (erase s1) _ (erase s2) v Fn La).
    assert (Eapp : forall x y, erase (x ++ y) = erase x ++ erase y) by (intros; apply map_app).
    rewrite !Eapp. f_equal.
    rewrite erase_keep, erase_mf_tail, Ek, Ev. cbn [erase_f freq items ffr fits fst snd].
    assert (Hk2 : ~ In k (map akey l2)).
    { rewrite all_c_app, all_c_cons, !map_app in Hndk. cbn [fits snd] in Hndk. rewrite map_app in Hndk. cbn [map] in Hndk.
      destruct (NoDup_app_inv _ _ Hndk) as (_ & H2 & _). destruct (NoDup_app_inv _ _ H2) as (H3 & _ & _).
      pose proof (NoDup_remove_2 _ _ _ H3) as H4. rewrite Ek in H4. intros C. apply H4. apply in_or_app. right. exact C. }
    rewrite (remove_key_mid k l1 l2 a Ek (not_in_keys_of_lookup k l1 Ln) Hk2).
    destruct (map erase_c (l1 ++ l2)) eqn:Em; [reflexivity|].
    cbn [app]. unfold erase_f. cbn [ffr fits fst snd]. rewrite Em. reflexivity.
  - rewrite (dict_lookup_none h sh k W (find_key_none_keys k sh FK)).
    exists h. cbn [snd fst]. split; [reflexivity|]. exists sh. rewrite E. split; [exact W|]. split; [reflexivity|exact Ec].
Qed.

Theorem hset_refines h s k v :
  1 <= cap s -> nonempty (buckets s) -> heap_repr h s ->
  exists h', hset h k v = Some h' /\ heap_repr h' (set s k v).
Proof.
  intros Hcap Hne (sh & W & E & Ec). unfold hset, set, contains. rewrite <- E.
  destruct (find_key k (erase sh)) as [[u v0]|] eqn:FK.
  - destruct (find_key_split k sh u v0 FK) as (s1 & fi & f & l1 & a & l2 & s2 & Es & Ek & Ev & Eu & Fn & Ln).
    subst sh u.
    assert (Hina : In a (all_c (s1 ++ (fi, (f, l1 ++ a :: l2)) :: s2))).
    { rewrite all_c_app, all_c_cons. apply in_or_app. right. apply in_or_app. left. cbn [fits snd]. apply in_or_app. right. left. reflexivity. }
    pose proof (dict_lookup h _ a W Hina) as Lk. rewrite Ek in Lk. rewrite Lk.
    destruct (set_content_spec h s1 fi f l1 a l2 s2 v W) as (h' & E' & W' & Ec'). exists h'. split; [exact E'|].
    eexists. split; [exact W'|]. split; [|rewrite Ec'; exact Ec]. cbn [buckets].
    assert (Eapp : forall x y, erase (x ++ y) = erase x ++ erase y) by (intros; apply map_app).
    rewrite !Eapp. change (erase (?x :: ?y)) with (erase_f x :: erase y).
    assert (La : lookup k (items (erase_f (fi, (f, l1 ++ a :: l2)))) = Some v0).
    { cbn [erase_f items fits snd]. rewrite map_app. cbn [map].
      assert (Q : forall (x : list (key * val)) y, lookup k x = None -> lookup k (x ++ y) = lookup k y).
      { induction x as [|[k0 v1] x IHx]; intros y Hx; [reflexivity|]. cbn [app lookup] in *.
        destruct (Z.eqb k0 k); [discriminate|]. apply IHx. exact Hx. }
      rewrite (Q _ _ Ln). unfold erase_c at 1. cbn [lookup]. rewrite Ek, Z.eqb_refl, Ev. reflexivity. }
    rewrite (aset_split k v (erase s1) _ (erase s2) v0 Fn La). f_equal.
    unfold erase_f. cbn [freq items ffr fits fst snd]. f_equal. f_equal.
    symmetry. exact (replace_val_mid k v l1 l2 a Ek (not_in_keys_of_lookup k l1 Ln)).
  - pose proof (find_key_none_keys k sh FK) as Hk.
    rewrite (dict_lookup_none h sh k W Hk). rewrite (size_repr h s sh W E), Ec.
    assert (FIN : forall h1 sh1, wf h1 sh1 -> hcap h1 = hcap h -> ~ In k (map akey (all_c sh1)) ->
              exists h', create_cache_node h1 k v = Some h' /\ heap_repr h' (mkL (cap s) (create_node k v (erase sh1)))).
    { intros h1 sh1 W1 Ec1 Hk1. destruct (create_spec h1 sh1 k v W1 Hk1) as (h' & E' & W' & Ec').
      exists h'. split; [exact E'|]. eexists. split; [exact W'|]. split; [apply erase_create|].
      cbn [cap]. rewrite Ec', Ec1. exact Ec. }
    destruct (Nat.leb_spec (cap s) (size s)) as [Hfull|Hroom].
    + (* full: evict first *)
      rewrite <- E in Hne. rewrite size_all_items, <- E, all_items_erase, map_length in Hfull.
      destruct sh as [|[fi [f its]] s2]; [cbn in Hfull; lia|].
      unfold nonempty in Hne. cbn [erase map] in Hne. inversion Hne as [|? ? Hb _]; subst. cbn [erase_f items fits snd] in Hb.
      destruct its as [|a l2]; [exfalso; apply Hb; reflexivity|].
      destruct (dump_cache_spec h fi f a l2 s2 W) as (h1 & E1 & W1 & Ec1). rewrite E1. cbn [bind].
      assert (Hk1 : ~ In k (map akey (all_c (keep (fi, (f, l2)) ++ s2)))).
      { rewrite all_c_app, all_c_keep. cbn [fits snd]. intros C. apply Hk. rewrite all_c_cons. cbn [fits snd app map]. right. exact C. }
      destruct (FIN h1 _ W1 Ec1 Hk1) as (h' & E' & R'). exists h'. split; [exact E'|].
      assert (Ed : LfuModel.dump_cache (erase ((fi, (f, a :: l2)) :: s2)) = erase (keep (fi, (f, l2)) ++ s2)).
      { unfold LfuModel.dump_cache. cbn [erase map]. cbn [erase_f items freq ffr fits fst snd map]. fold (erase s2).
        destruct l2 as [|b l2']; reflexivity. }
      rewrite <- Ed in R'. exact R'.
    + destruct (FIN h sh W eq_refl Hk) as (h' & E' & R'). exists h'. split; [exact E'|exact R'].
Qed.

Theorem hstep_refines h s o :
  1 <= cap s -> nonempty (buckets s) -> heap_repr h s ->
  exists h', hstep h o = Some (h', snd (step s o)) /\ heap_repr h' (fst (step s o)).
Proof.
  intros Hc Hne HR. destruct o as [k|k v]; cbn [hstep step].
  - exact (hget_refines h s k HR).
  - destruct (hset_refines h s k v Hc Hne HR) as (h' & E' & R'). rewrite E'. cbn [bind fst snd].
    exists h'. split; [reflexivity|exact R'].
Qed.

Lemma hempty_repr c : heap_repr (hempty c) (empty c).
Proof.
  exists []. split; [|split; reflexivity].
  split; [exact I|]. split; [reflexivity|]. split; [constructor|]. split; [constructor|]. split; [apply Permutation_refl|].
  split; [intros j _; reflexivity|]. split; [intros j _; reflexivity|constructor].
Qed.

(** all operation sequences: the heap model never raises, produces the outputs of
    the bucket-list model, and ends in a heap representing its final state *)
Theorem hrun_refines ops : forall h s,
  1 <= cap s -> inv s -> heap_repr h s ->
  exists h', hrun h ops = Some (h', snd (run s ops)) /\ heap_repr h' (fst (run s ops)).
Proof.
  induction ops as [|o r IH]; intros h s Hc Hinv HR.
  - exists h. split; [reflexivity|exact HR].
  - destruct (hstep_refines h s o Hc (proj1 (proj2 Hinv)) HR) as (h1 & E1 & R1).
    destruct (IH h1 (fst (step s o))) as (h' & E' & R').
    + rewrite step_cap. exact Hc.
    + exact (step_inv s o Hc Hinv).
    + exact R1.
    + exists h'. rewrite run_cons. cbn [hrun fst snd]. rewrite E1. cbn [bind fst snd]. rewrite E'. cbn [bind fst snd].
      split; [|exact R']. destruct o; reflexivity.
Qed.

Theorem heap_refines c ops : 1 <= c ->
  exists h', hrun (hempty c) ops = Some (h', snd (run (empty c) ops)) /\ heap_repr h' (state_of c ops).
Proof. intros Hc. exact (hrun_refines ops (hempty c) (empty c) Hc (empty_inv c) (hempty_repr c)). Qed.

(** composed with the refinement of LfuProofs.v: the outputs of the abstract specification *)
Theorem heap_meets_spec c (ops : list op) : 1 <= c ->
  exists h', hrun (hempty c) ops = Some (h', snd (srun (sempty c) ops)).
Proof.
  intros Hc. destruct (heap_refines c ops Hc) as (h' & E & _).
  exists h'. rewrite E, (proj1 (lfu_refines_spec c ops Hc)). reflexivity.
Qed.

End Gen.
Arguments heap_repr {val}. Arguments wf {val}. Arguments bucket_ok {val}. Arguments cget {val}. Arguments fget {val}.
Arguments same_rest {val}. Arguments cid {val}. Arguments akey {val}. Arguments aval {val}. Arguments keep {val}.
Arguments mf_tail {val}. Arguments create_shape {val}. Arguments all_c {val}. Arguments erase {val}.

(* ------------------------------------------------------------------ *)
(** Non-vacuity: the heap model runs the example trace of LfuProofs.v without
    error, with the outputs of the bucket-list model *)
Local Open Scope Z_scope.
Example ex_heap_run :
  option_map snd (hrun (hempty 2) [OSet 1 10; OSet 2 20; OGet 1; OSet 3 30; OGet 2; OGet 1; OSet 1 11; OGet 1; OGet 3]) =
  Some [Some 10; None; Some 10; Some 11; Some 30].
Proof. vm_compute. reflexivity. Qed.


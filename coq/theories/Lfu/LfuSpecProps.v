(** C18, part 2: facts about the abstract specification (LfuSpec.v) alone.
    These make the words of the property explicit: what a get returns, the
    bound on the number of entries, the counting of uses, the eviction victim.
    They are transferred to the model of the code by the refinement theorem
    of LfuProofs.v. *)
From Coq Require Import List ZArith Bool Arith Lia.
Import ListNotations.
From DD Require Import Lfu.LfuModel Lfu.LfuSpec.

Notation ekeys l := (map ekey l).

(** * Generic list facts *)

Lemma find_split {A} (p : A -> bool) l e :
  find p l = Some e ->
  exists l1 l2, l = l1 ++ e :: l2 /\ p e = true /\ (forall x, In x l1 -> p x = false).
Proof.
  induction l as [|a r IH]; cbn [find]; [discriminate|].
  destruct (p a) eqn:Pa; intros H.
  - inversion H; subst a. exists [], r. split; [reflexivity|]. split; [exact Pa|intros x []].
  - destruct (IH H) as (l1 & l2 & El & Pe & Hl1). exists (a :: l1), l2.
    split; [rewrite El; reflexivity|]. split; [exact Pe|].
    intros x [E|Hx]; [subst x; exact Pa|exact (Hl1 x Hx)].
Qed.

Lemma find_hd_filter {A} (p : A -> bool) l : find p l = hd_error (filter p l).
Proof.
  induction l as [|a r IH]; [reflexivity|]. cbn [find filter].
  destruct (p a); [reflexivity|exact IH].
Qed.

Lemma NoDup_snoc {A} (l : list A) (a : A) : NoDup l -> ~ In a l -> NoDup (l ++ [a]).
Proof.
  induction l as [|b l IH]; cbn [app]; intros Hnd Hn.
  - constructor; [intros []|constructor].
  - apply NoDup_cons_iff in Hnd. destruct Hnd as [Hb Hnd]. constructor.
    + intros C. apply in_app_or in C. destruct C as [C|[C|[]]]; [exact (Hb C)|].
      apply Hn. left. symmetry. exact C.
    + apply IH; [exact Hnd|]. intros C. apply Hn. right. exact C.
Qed.

Section Gen.
Variable val : Type.
Local Notation entry := (entry val).
Local Notation spec := (spec val).
Local Notation op := (op val).
Implicit Types (v : val) (e a x : entry) (l r : list entry) (s : spec) (o : op) (ops : list op).

(* ------------------------------------------------------------------ *)
(** * Unfolding equations *)

Lemma sfind_cons k e r : sfind k (e :: r) = if Z.eqb (ekey e) k then Some e else sfind k r.
Proof. reflexivity. Qed.

Lemma sremove_cons k e r :
  sremove k (e :: r) = if Z.eqb (ekey e) k then sremove k r else e :: sremove k r.
Proof. unfold sremove. cbn [filter]. destruct (Z.eqb (ekey e) k); reflexivity. Qed.

Lemma sremove_app k l l' : sremove k (l ++ l') = sremove k l ++ sremove k l'.
Proof. unfold sremove. apply filter_app. Qed.

(* ------------------------------------------------------------------ *)
(** * sfind *)

Lemma sfind_none_iff k l : sfind k l = None <-> ~ In k (ekeys l).
Proof.
  induction l as [|e r IH]; [cbn; tauto|].
  rewrite sfind_cons. cbn [map In]. destruct (Z.eqb_spec (ekey e) k) as [E|NE].
  - split; [discriminate|]. intros H. exfalso. apply H. left. exact E.
  - rewrite IH. split; intros H.
    + intros [C|C]; [exact (NE C)|exact (H C)].
    + intros C. apply H. right. exact C.
Qed.

Lemma sfind_some k l e : sfind k l = Some e -> In e l /\ ekey e = k.
Proof.
  unfold sfind. intros H. apply find_some in H. destruct H as [H1 H2].
  split; [exact H1|]. apply Z.eqb_eq. exact H2.
Qed.

Lemma sfind_in_nodup k l e : NoDup (ekeys l) -> In e l -> ekey e = k -> sfind k l = Some e.
Proof.
  induction l as [|a r IH]; intros Hnd Hin Hk; [destruct Hin|].
  cbn [map] in Hnd. apply NoDup_cons_iff in Hnd. destruct Hnd as [Hna Hnd].
  rewrite sfind_cons. destruct Hin as [E|Hin].
  - subst a. rewrite (proj2 (Z.eqb_eq _ _) Hk). reflexivity.
  - destruct (Z.eqb_spec (ekey a) k) as [E|NE]; [|exact (IH Hnd Hin Hk)].
    exfalso. apply Hna. rewrite E, <- Hk. apply in_map. exact Hin.
Qed.

Lemma sfind_app k l l' :
  sfind k (l ++ l') = match sfind k l with Some e => Some e | None => sfind k l' end.
Proof.
  induction l as [|a r IH]; [reflexivity|]. cbn [app]. rewrite !sfind_cons.
  destruct (Z.eqb (ekey a) k); [reflexivity|exact IH].
Qed.

(* ------------------------------------------------------------------ *)
(** * sremove *)

Lemma sremove_keys k k' l : In k' (ekeys (sremove k l)) <-> k' <> k /\ In k' (ekeys l).
Proof.
  induction l as [|e r IH]; [cbn; tauto|].
  rewrite sremove_cons. cbn [map In]. destruct (Z.eqb_spec (ekey e) k) as [E|NE]; cbn [map In]; rewrite IH.
  - split; [intros [H1 H2]; split; [exact H1|right; exact H2]|].
    intros [H1 [H2|H2]]; [congruence|split; assumption].
  - split.
    + intros [E|[H1 H2]]; [split; [congruence|left; exact E]|split; [exact H1|right; exact H2]].
    + intros [H1 [H2|H2]]; [left; exact H2|right; split; assumption].
Qed.

Lemma sremove_notin k l : ~ In k (ekeys l) -> sremove k l = l.
Proof.
  induction l as [|e r IH]; intros H; [reflexivity|].
  rewrite sremove_cons. cbn [map In] in H. destruct (Z.eqb_spec (ekey e) k) as [E|NE].
  - exfalso. apply H. left. exact E.
  - f_equal. apply IH. intros C. apply H. right. exact C.
Qed.

Lemma sremove_nodup k l : NoDup (ekeys l) -> NoDup (ekeys (sremove k l)).
Proof.
  induction l as [|e r IH]; intros H; [constructor|].
  cbn [map] in H. apply NoDup_cons_iff in H. destruct H as [Hna Hnd].
  rewrite sremove_cons. destruct (Z.eqb (ekey e) k); [exact (IH Hnd)|].
  cbn [map]. constructor; [|exact (IH Hnd)].
  intros C. apply Hna. apply sremove_keys in C. exact (proj2 C).
Qed.

Lemma sremove_in k l x : In x (sremove k l) <-> In x l /\ ekey x <> k.
Proof.
  unfold sremove. rewrite filter_In. rewrite negb_true_iff, Z.eqb_neq. tauto.
Qed.

Lemma sfind_sremove_same k l : sfind k (sremove k l) = None.
Proof. apply sfind_none_iff. intros C. apply sremove_keys in C. destruct C as [C _]. congruence. Qed.

Lemma sfind_sremove_other k k' l : k' <> k -> sfind k' (sremove k l) = sfind k' l.
Proof.
  intros NE. induction l as [|e r IH]; [reflexivity|].
  rewrite sremove_cons, sfind_cons. destruct (Z.eqb_spec (ekey e) k) as [E|NE2].
  - destruct (Z.eqb_spec (ekey e) k') as [E2|_]; [congruence|exact IH].
  - rewrite sfind_cons. destruct (Z.eqb (ekey e) k'); [reflexivity|exact IH].
Qed.

(** with unique keys, removing the key of an entry removes that entry only *)
Lemma sremove_split l1 e l2 :
  NoDup (ekeys (l1 ++ e :: l2)) -> sremove (ekey e) (l1 ++ e :: l2) = l1 ++ l2.
Proof.
  intros Hnd. rewrite map_app in Hnd. cbn [map] in Hnd.
  pose proof (NoDup_remove_2 _ _ _ Hnd) as Hn.
  rewrite sremove_app, sremove_cons, Z.eqb_refl.
  rewrite (sremove_notin (ekey e) l1), (sremove_notin (ekey e) l2); [reflexivity| |].
  - intros C. apply Hn. apply in_or_app. right. exact C.
  - intros C. apply Hn. apply in_or_app. left. exact C.
Qed.

Lemma sremove_length k l e :
  NoDup (ekeys l) -> sfind k l = Some e -> S (length (sremove k l)) = length l.
Proof.
  intros Hnd H. destruct (sfind_some k l e H) as [Hin Hk].
  apply in_split in Hin. destruct Hin as (l1 & l2 & El). subst l k.
  rewrite (sremove_split l1 e l2 Hnd), !app_length. cbn [length]. lia.
Qed.

Lemma sremove_length_le k l : length (sremove k l) <= length l.
Proof.
  induction l as [|e r IH]; [apply Nat.le_refl|]. rewrite sremove_cons.
  destruct (Z.eqb (ekey e) k); cbn [length]; lia.
Qed.

Lemma sremove_length_lt k l : In k (ekeys l) -> length (sremove k l) < length l.
Proof.
  induction l as [|e r IH]; intros H; [destruct H|].
  rewrite sremove_cons. cbn [map In] in H.
  pose proof (sremove_length_le k r) as Hle.
  destruct (Z.eqb_spec (ekey e) k) as [E|NE]; cbn [length]; [lia|].
  destruct H as [H|H]; [congruence|]. specialize (IH H). lia.
Qed.

(* ------------------------------------------------------------------ *)
(** * sreplace *)

Lemma sreplace_keys k v l : ekeys (sreplace k v l) = ekeys l.
Proof.
  induction l as [|e r IH]; [reflexivity|]. cbn [sreplace].
  destruct (Z.eqb (ekey e) k); cbn [map ekey]; [reflexivity|]. f_equal. exact IH.
Qed.

Lemma sreplace_length k v l : length (sreplace k v l) = length l.
Proof. rewrite <- (map_length ekey), sreplace_keys, map_length. reflexivity. Qed.

Lemma sfind_sreplace_same k v l e :
  sfind k l = Some e -> sfind k (sreplace k v l) = Some (mkE (ekey e) v (euses e)).
Proof.
  induction l as [|a r IH]; [discriminate|]. rewrite sfind_cons. cbn [sreplace].
  destruct (Z.eqb_spec (ekey a) k) as [E|NE]; intros H.
  - inversion H; subst a. rewrite sfind_cons. cbn [ekey]. rewrite (proj2 (Z.eqb_eq _ _) E). reflexivity.
  - rewrite sfind_cons. rewrite (proj2 (Z.eqb_neq _ _) NE). exact (IH H).
Qed.

Lemma sfind_sreplace_other k k' v l : k' <> k -> sfind k' (sreplace k v l) = sfind k' l.
Proof.
  intros NE. induction l as [|a r IH]; [reflexivity|]. cbn [sreplace].
  destruct (Z.eqb_spec (ekey a) k) as [E|NE2]; rewrite !sfind_cons; cbn [ekey].
  - destruct (Z.eqb_spec (ekey a) k') as [E2|_]; [congruence|reflexivity].
  - destruct (Z.eqb (ekey a) k'); [reflexivity|exact IH].
Qed.

(* ------------------------------------------------------------------ *)
(** * min_uses and the victim *)

Lemma min_uses_cons e r : r <> [] -> min_uses (e :: r) = Nat.min (euses e) (min_uses r).
Proof. destruct r; [congruence|reflexivity]. Qed.

Lemma min_uses_le l e : In e l -> min_uses l <= euses e.
Proof.
  induction l as [|a r IH]; intros H; [destruct H|].
  destruct r as [|b r'].
  - destruct H as [E|[]]. subst a. cbn. lia.
  - rewrite min_uses_cons by discriminate. destruct H as [E|H]; [subst a; lia|].
    specialize (IH H). lia.
Qed.

Lemma min_uses_attained l : l <> [] -> exists e, In e l /\ euses e = min_uses l.
Proof.
  induction l as [|a r IH]; intros H; [congruence|].
  destruct r as [|b r'].
  - exists a. split; [left; reflexivity|reflexivity].
  - rewrite min_uses_cons by discriminate.
    destruct (IH ltac:(discriminate)) as (e & He & Ee).
    destruct (Nat.le_gt_cases (euses a) (min_uses (b :: r'))) as [Hle|Hgt].
    + exists a. split; [left; reflexivity|lia].
    + exists e. split; [right; exact He|lia].
Qed.

Lemma victim_some l : l <> [] -> exists e, victim l = Some e.
Proof.
  intros H. destruct (min_uses_attained l H) as (e & He & Ee).
  unfold victim. destruct (find (fun e0 => Nat.eqb (euses e0) (min_uses l)) l) as [x|] eqn:F.
  - exists x. reflexivity.
  - pose proof (find_none _ _ F e He) as C. cbn beta in C.
    apply Nat.eqb_neq in C. congruence.
Qed.

(** the victim has the fewest uses and is the first entry with that many *)
Lemma victim_spec l e :
  victim l = Some e ->
  exists l1 l2, l = l1 ++ e :: l2 /\
                (forall x, In x l -> euses e <= euses x) /\
                (forall x, In x l1 -> euses e < euses x).
Proof.
  unfold victim. intros H. apply find_split in H. destruct H as (l1 & l2 & El & Pe & Hl1).
  apply Nat.eqb_eq in Pe. exists l1, l2. split; [exact El|]. split.
  - intros x Hx. rewrite Pe. exact (min_uses_le l x Hx).
  - intros x Hx. specialize (Hl1 x Hx). cbn beta in Hl1. apply Nat.eqb_neq in Hl1.
    assert (Hin : In x l) by (rewrite El; apply in_or_app; left; exact Hx).
    pose proof (min_uses_le l x Hin). lia.
Qed.

(* ------------------------------------------------------------------ *)
(** * Observers and the spec invariant *)

Definition sval (s : spec) (k : key) : option val := option_map evalue (sfind k (entries s)).
Definition suses (s : spec) (k : key) : option nat := option_map euses (sfind k (entries s)).

Definition sinv (s : spec) : Prop :=
  NoDup (ekeys (entries s)) /\ length (entries s) <= scap s.

(** the key that [set k _] evicts, if any *)
Definition evicted_by_set (s : spec) (k : key) : option key :=
  match sfind k (entries s) with
  | Some _ => None
  | None => if Nat.leb (scap s) (length (entries s))
            then option_map ekey (victim (entries s)) else None
  end.

Lemma sget_cap s k : scap (fst (sget s k)) = scap s.
Proof. unfold sget. destruct (sfind k (entries s)); reflexivity. Qed.
Lemma sset_cap s k v : scap (sset s k v) = scap s.
Proof. unfold sset. destruct (sfind k (entries s)); reflexivity. Qed.
Lemma sstep_cap s o : scap (fst (sstep s o)) = scap s.
Proof. destruct o; [apply sget_cap|apply sset_cap]. Qed.

Lemma evict_nodup l : NoDup (ekeys l) -> NoDup (ekeys (evict l)).
Proof. unfold evict. intros H. destruct (victim l); [apply sremove_nodup|]; exact H. Qed.

Lemma evict_keys k l : In k (ekeys (evict l)) -> In k (ekeys l).
Proof.
  unfold evict. destruct (victim l); [|tauto]. intros H. apply sremove_keys in H. exact (proj2 H).
Qed.

Lemma evict_length l : l <> [] -> length (evict l) < length l.
Proof.
  intros H. unfold evict. destruct (victim_some l H) as (e & E). rewrite E.
  apply sremove_length_lt. unfold victim in E. apply find_some in E. apply in_map. exact (proj1 E).
Qed.

Lemma sget_sinv s k : sinv s -> sinv (fst (sget s k)).
Proof.
  intros [Hnd Hlen]. unfold sget. destruct (sfind k (entries s)) as [e|] eqn:F; [|exact (conj Hnd Hlen)].
  unfold sinv. cbn [fst entries scap]. split.
  - rewrite map_app. cbn [map ekey]. apply NoDup_snoc; [apply sremove_nodup; exact Hnd|].
    intros C. apply sremove_keys in C. destruct C as [C _]. congruence.
  - rewrite app_length. cbn [length]. pose proof (sremove_length k _ e Hnd F). lia.
Qed.

Lemma sset_sinv s k v : 1 <= scap s -> sinv s -> sinv (sset s k v).
Proof.
  intros Hc [Hnd Hlen]. unfold sset. destruct (sfind k (entries s)) as [e|] eqn:F.
  - unfold sinv. cbn [entries scap]. rewrite sreplace_keys, sreplace_length. exact (conj Hnd Hlen).
  - apply sfind_none_iff in F. unfold sinv. cbn [entries scap].
    destruct (Nat.leb_spec (scap s) (length (entries s))) as [Hfull|Hroom].
    + split.
      * rewrite map_app. cbn [map ekey]. apply NoDup_snoc; [exact (evict_nodup _ Hnd)|].
        intros C. apply F. exact (evict_keys k _ C).
      * rewrite app_length. cbn [length].
        assert (Hne : entries s <> []) by (destruct (entries s); [cbn [length] in Hfull; lia|discriminate]).
        pose proof (evict_length _ Hne). lia.
    + split.
      * rewrite map_app. cbn [map ekey]. apply NoDup_snoc; [exact Hnd|exact F].
      * rewrite app_length. cbn [length]. lia.
Qed.

Lemma sstep_sinv s o : 1 <= scap s -> sinv s -> sinv (fst (sstep s o)).
Proof. intros Hc H. destruct o as [k|k v]; [exact (sget_sinv s k H)|exact (sset_sinv s k v Hc H)]. Qed.

Lemma srun_cons s o (r : list op) :
  srun s (o :: r) =
  (fst (srun (fst (sstep s o)) r),
   match o with OGet _ => snd (sstep s o) :: snd (srun (fst (sstep s o)) r)
              | OSet _ _ => snd (srun (fst (sstep s o)) r) end).
Proof.
  cbn [srun]. destruct (sstep s o) as [s1 out]. cbn [fst snd].
  destruct (srun s1 r) as [s2 outs]. reflexivity.
Qed.

Lemma srun_app s ops1 ops2 :
  srun s (ops1 ++ ops2) =
  (fst (srun (fst (srun s ops1)) ops2), snd (srun s ops1) ++ snd (srun (fst (srun s ops1)) ops2)).
Proof.
  revert s. induction ops1 as [|o r IH]; intros s.
  - cbn [app srun fst snd]. destruct (srun s ops2); reflexivity.
  - cbn [app]. rewrite !srun_cons, IH. cbn [fst snd]. destruct o; reflexivity.
Qed.

(** (b) the number of entries never exceeds the capacity (and keys stay unique) *)
Lemma srun_sinv ops : forall s, 1 <= scap s -> sinv s ->
  sinv (fst (srun s ops)) /\ scap (fst (srun s ops)) = scap s.
Proof.
  induction ops as [|o r IH]; intros s Hc H; [split; [exact H|reflexivity]|].
  rewrite srun_cons. cbn [fst].
  destruct (IH (fst (sstep s o))) as [I1 I2].
  - rewrite sstep_cap. exact Hc.
  - exact (sstep_sinv s o Hc H).
  - split; [exact I1|]. rewrite I2. apply sstep_cap.
Qed.

Lemma sempty_sinv c : sinv (sempty c).
Proof. split; cbn; [constructor|lia]. Qed.

Theorem spec_bounded c ops : 1 <= c ->
  let s := fst (srun (sempty c) ops) in
  length (entries s) <= c /\ NoDup (ekeys (entries s)).
Proof.
  intros Hc s. destruct (srun_sinv ops (sempty c) Hc (sempty_sinv c)) as [[H1 H2] H3].
  subst s. cbn [scap sempty] in H3. rewrite H3 in H2. split; [exact H2|exact H1].
Qed.

(* ------------------------------------------------------------------ *)
(** * (a) what a get returns; values change only by a set of that key or by eviction *)

Lemma sget_value s k : snd (sget s k) = sval s k.
Proof. unfold sget, sval. destruct (sfind k (entries s)); reflexivity. Qed.

Lemma sget_miss s k : sval s k = None -> sget s k = (s, None).
Proof. unfold sget, sval. destruct (sfind k (entries s)); [discriminate|reflexivity]. Qed.

(** the entry found for [k'] after [get k] *)
Lemma sfind_sget s k k' :
  sfind k' (entries (fst (sget s k))) =
  match sfind k (entries s) with
  | Some e => if Z.eqb k k' then Some (mkE k (evalue e) (S (euses e))) else sfind k' (entries s)
  | None => sfind k' (entries s)
  end.
Proof.
  unfold sget. destruct (sfind k (entries s)) as [e|] eqn:F; [|reflexivity].
  cbn [fst entries]. rewrite sfind_app. destruct (Z.eqb_spec k k') as [E|NE].
  - subst k'. rewrite sfind_sremove_same. rewrite sfind_cons. cbn [ekey]. rewrite Z.eqb_refl. reflexivity.
  - rewrite (sfind_sremove_other k k' _ (not_eq_sym NE)).
    destruct (sfind k' (entries s)); [reflexivity|].
    rewrite sfind_cons. cbn [ekey]. rewrite (proj2 (Z.eqb_neq _ _) NE). reflexivity.
Qed.

Lemma sget_keeps_values s k k' : sval (fst (sget s k)) k' = sval s k'.
Proof.
  unfold sval. rewrite sfind_sget. destruct (sfind k (entries s)) as [e|] eqn:F; [|reflexivity].
  destruct (Z.eqb_spec k k') as [E|NE]; [|reflexivity]. subst k'. rewrite F. reflexivity.
Qed.

(** (c) a successful get counts one use for that key and for no other *)
Lemma sget_hit_uses s k u :
  suses s k = Some u ->
  suses (fst (sget s k)) k = Some (S u) /\
  (forall k', k' <> k -> suses (fst (sget s k)) k' = suses s k').
Proof.
  unfold suses. intros H. destruct (sfind k (entries s)) as [e|] eqn:F; [|discriminate].
  cbn [option_map] in H. inversion H; subst u. split.
  - rewrite sfind_sget, F, Z.eqb_refl. reflexivity.
  - intros k' NE. rewrite sfind_sget, F. rewrite (proj2 (Z.eqb_neq _ _) (not_eq_sym NE)). reflexivity.
Qed.

Lemma sget_miss_uses s k : suses s k = None -> fst (sget s k) = s.
Proof. unfold suses, sget. destruct (sfind k (entries s)); [discriminate|reflexivity]. Qed.

(** the entry found for [k'] after [set k v] *)
Lemma sfind_sset s k v k' :
  sfind k' (entries (sset s k v)) =
  if Z.eqb k k'
  then Some (mkE k v (match sfind k (entries s) with Some e => euses e | None => 0 end))
  else match evicted_by_set s k with
       | Some x => if Z.eqb x k' then None else sfind k' (entries s)
       | None => sfind k' (entries s)
       end.
Proof.
  unfold sset, evicted_by_set. destruct (sfind k (entries s)) as [e|] eqn:F.
  - cbn [entries]. destruct (Z.eqb_spec k k') as [E|NE].
    + subst k'. rewrite (sfind_sreplace_same k v _ e F).
      destruct (sfind_some k _ e F) as [_ Ek]. rewrite Ek. reflexivity.
    + apply sfind_sreplace_other. congruence.
  - cbn [entries]. rewrite sfind_app.
    assert (Hk : forall l, (forall x : key, In x (ekeys l) -> In x (ekeys (entries s))) -> sfind k l = None).
    { intros l Hl. apply sfind_none_iff. intros C. apply sfind_none_iff in F. exact (F (Hl k C)). }
    destruct (Z.eqb_spec k k') as [E|NE].
    + subst k'. rewrite Hk.
      * rewrite sfind_cons. cbn [ekey]. rewrite Z.eqb_refl. reflexivity.
      * intros x. destruct (Nat.leb (scap s) (length (entries s))); [apply evict_keys|tauto].
    + assert (Hlast : forall o : option entry,
                match o with Some e => Some e | None => sfind k' [mkE k v 0] end = o).
      { intros [x|]; [reflexivity|]. rewrite sfind_cons. cbn [ekey].
        rewrite (proj2 (Z.eqb_neq _ _) NE). reflexivity. }
      rewrite Hlast. destruct (Nat.leb (scap s) (length (entries s))); [|reflexivity].
      unfold evict. destruct (victim (entries s)) as [x|]; [|reflexivity]. cbn [option_map].
      destruct (Z.eqb_spec (ekey x) k') as [E2|NE2].
      * subst k'. apply sfind_sremove_same.
      * apply sfind_sremove_other. congruence.
Qed.

Lemma sset_same s k v : sval (sset s k v) k = Some v.
Proof. unfold sval. rewrite sfind_sset, Z.eqb_refl. reflexivity. Qed.

Lemma sset_other s k v k' :
  k' <> k ->
  sval (sset s k v) k' = if match evicted_by_set s k with Some x => Z.eqb x k' | None => false end
                         then None else sval s k'.
Proof.
  intros NE. unfold sval. rewrite sfind_sset. rewrite (proj2 (Z.eqb_neq _ _) (not_eq_sym NE)).
  destruct (evicted_by_set s k) as [x|]; [|reflexivity]. destruct (Z.eqb x k'); reflexivity.
Qed.

(** a set of a present key evicts nothing; nor does a set into a cache with room *)
Lemma no_eviction_present s k : sval s k <> None -> evicted_by_set s k = None.
Proof.
  unfold sval, evicted_by_set. destruct (sfind k (entries s)); [reflexivity|].
  cbn [option_map]. intros H. exfalso. apply H. reflexivity.
Qed.
Lemma no_eviction_room s k : length (entries s) < scap s -> evicted_by_set s k = None.
Proof.
  intros H. unfold evicted_by_set. destruct (sfind k (entries s)); [reflexivity|].
  destruct (Nat.leb_spec (scap s) (length (entries s))); [lia|reflexivity].
Qed.

(** uses are untouched by a set, except that a new key starts at 0 *)
Lemma sset_uses s k v k' :
  suses (sset s k v) k' =
  if Z.eqb k k' then Some (match suses s k with Some u => u | None => 0 end)
  else if match evicted_by_set s k with Some x => Z.eqb x k' | None => false end
       then None else suses s k'.
Proof.
  unfold suses. rewrite sfind_sset. destruct (Z.eqb k k').
  - destruct (sfind k (entries s)); reflexivity.
  - destruct (evicted_by_set s k) as [x|]; [|reflexivity]. destruct (Z.eqb x k'); reflexivity.
Qed.

Lemma sget_miss_nothing s k : suses s k = None -> sget s k = (s, None).
Proof. unfold suses, sget. destruct (sfind k (entries s)); [discriminate|reflexivity]. Qed.

Lemma sget_returns s k k' :
  snd (sget s k) = sval s k /\ sval (fst (sget s k)) k' = sval s k'.
Proof. exact (conj (sget_value s k) (sget_keeps_values s k k')). Qed.

Lemma sset_values s k v k' :
  sval (sset s k v) k = Some v /\
  (k' <> k ->
   sval (sset s k v) k' =
   if match evicted_by_set s k with Some x => Z.eqb x k' | None => false end then None else sval s k').
Proof. exact (conj (sset_same s k v) (sset_other s k v k')). Qed.

Lemma no_eviction_otherwise s k :
  (sval s k <> None -> evicted_by_set s k = None) /\
  (length (entries s) < scap s -> evicted_by_set s k = None).
Proof. exact (conj (no_eviction_present s k) (no_eviction_room s k)). Qed.

(* the "last value set, unless evicted" statement over traces *)
Definition evicts (s : spec) (o : op) (k : key) : Prop :=
  match o with OGet _ => False | OSet k' _ => evicted_by_set s k' = Some k end.

Fixpoint undisturbed (s : spec) (k : key) (ops : list op) : Prop :=
  match ops with
  | [] => True
  | o :: r => (forall v, o <> OSet k v) /\ ~ evicts s o k /\ undisturbed (fst (sstep s o)) k r
  end.

Lemma sstep_keeps_value s o k :
  (forall v, o <> OSet k v) -> ~ evicts s o k -> sval (fst (sstep s o)) k = sval s k.
Proof.
  destruct o as [k0|k0 v0]; cbn [sstep fst evicts]; intros Hns Hne.
  - apply sget_keeps_values.
  - assert (NE : k <> k0) by (intros E; subst k0; exact (Hns v0 eq_refl)).
    rewrite (sset_other s k0 v0 k NE).
    destruct (evicted_by_set s k0) as [x|]; [|reflexivity].
    destruct (Z.eqb_spec x k) as [E|_]; [|reflexivity]. subst x. exfalso. apply Hne. reflexivity.
Qed.

Lemma sstep_evicted_gone s o k : evicts s o k -> sval (fst (sstep s o)) k = None.
Proof.
  destruct o as [k0|k0 v0]; cbn [sstep fst evicts]; intros H; [destruct H|].
  assert (NE : k <> k0).
  { intros E. subst k0. unfold evicted_by_set in H.
    destruct (sfind k (entries s)) eqn:F; [discriminate|].
    destruct (Nat.leb (scap s) (length (entries s))); [|discriminate].
    destruct (victim (entries s)) as [x|] eqn:V; [|discriminate]. cbn [option_map] in H.
    inversion H as [Ek]. unfold victim in V. apply find_some in V. destruct V as [V _].
    apply sfind_none_iff in F. apply F. rewrite <- Ek. apply in_map. exact V. }
  rewrite (sset_other s k0 v0 k NE), H, Z.eqb_refl. reflexivity.
Qed.

Theorem spec_last_value ops : forall s k v,
  sval s k = Some v -> undisturbed s k ops -> sval (fst (srun s ops)) k = Some v.
Proof.
  induction ops as [|o r IH]; intros s k v Hv Hu; [exact Hv|].
  destruct Hu as (Hns & Hne & Hr). rewrite srun_cons. cbn [fst].
  apply IH; [|exact Hr]. rewrite (sstep_keeps_value s o k Hns Hne). exact Hv.
Qed.

(* ------------------------------------------------------------------ *)
(** * (d) eviction *)

Theorem sset_evicts s k v :
  NoDup (ekeys (entries s)) -> sval s k = None -> 1 <= scap s <= length (entries s) ->
  exists l1 e l2,
    entries s = l1 ++ e :: l2 /\
    (forall x, In x (entries s) -> euses e <= euses x) /\
    (forall x, In x l1 -> euses e < euses x) /\
    evicted_by_set s k = Some (ekey e) /\
    entries (sset s k v) = l1 ++ l2 ++ [mkE k v 0].
Proof.
  intros Hnd Hk [Hc Hfull]. unfold sval in Hk.
  destruct (sfind k (entries s)) eqn:F; [discriminate|].
  assert (Hne : entries s <> []) by (destruct (entries s); [cbn [length] in Hfull; lia|discriminate]).
  destruct (victim_some _ Hne) as (e & V).
  destruct (victim_spec _ e V) as (l1 & l2 & El & Hmin & Hfirst).
  exists l1, e, l2. split; [exact El|]. split; [exact Hmin|]. split; [exact Hfirst|].
  unfold evicted_by_set, sset. rewrite F. rewrite (proj2 (Nat.leb_le _ _) Hfull).
  split; [rewrite V; reflexivity|].
  cbn [entries]. unfold evict. rewrite V. rewrite El in *. rewrite (sremove_split l1 e l2 Hnd).
  rewrite app_assoc. reflexivity.
Qed.

(** a set that does not evict only appends (new key) or replaces a value in place *)
Lemma sset_no_evict_entries s k v :
  evicted_by_set s k = None -> scap s <> 0 ->
  entries (sset s k v) = match sfind k (entries s) with
                         | Some _ => sreplace k v (entries s)
                         | None => entries s ++ [mkE k v 0]
                         end.
Proof.
  unfold evicted_by_set, sset. destruct (sfind k (entries s)); [reflexivity|].
  destruct (Nat.leb_spec (scap s) (length (entries s))) as [Hfull|Hroom]; [|reflexivity].
  intros H Hc. destruct (victim_some (entries s)) as (e & V).
  - destruct (entries s); [cbn [length] in Hfull; lia|discriminate].
  - rewrite V in H. discriminate.
Qed.

End Gen.
Arguments sfind_cons {val}.
Arguments sremove_cons {val}.
Arguments sremove_app {val}.
Arguments sfind_none_iff {val}.
Arguments sfind_some {val}.
Arguments sfind_in_nodup {val}.
Arguments sfind_app {val}.
Arguments sremove_keys {val}.
Arguments sremove_notin {val}.
Arguments sremove_nodup {val}.
Arguments sremove_in {val}.
Arguments sfind_sremove_same {val}.
Arguments sfind_sremove_other {val}.
Arguments sremove_split {val}.
Arguments sremove_length {val}.
Arguments sremove_length_le {val}.
Arguments sremove_length_lt {val}.
Arguments sreplace_keys {val}.
Arguments sreplace_length {val}.
Arguments sfind_sreplace_same {val}.
Arguments sfind_sreplace_other {val}.
Arguments min_uses_cons {val}.
Arguments min_uses_le {val}.
Arguments min_uses_attained {val}.
Arguments victim_some {val}.
Arguments victim_spec {val}.
Arguments sval {val}.
Arguments suses {val}.
Arguments sinv {val}.
Arguments evicted_by_set {val}.
Arguments sget_cap {val}.
Arguments sset_cap {val}.
Arguments sstep_cap {val}.
Arguments evict_nodup {val}.
Arguments evict_keys {val}.
Arguments evict_length {val}.
Arguments sget_sinv {val}.
Arguments sset_sinv {val}.
Arguments sstep_sinv {val}.
Arguments srun_cons {val}.
Arguments srun_app {val}.
Arguments srun_sinv {val}.
Arguments sempty_sinv {val}.
Arguments spec_bounded {val}.
Arguments sget_value {val}.
Arguments sget_miss {val}.
Arguments sfind_sget {val}.
Arguments sget_keeps_values {val}.
Arguments sget_hit_uses {val}.
Arguments sget_miss_uses {val}.
Arguments sfind_sset {val}.
Arguments sset_same {val}.
Arguments sset_other {val}.
Arguments no_eviction_present {val}.
Arguments no_eviction_room {val}.
Arguments sset_uses {val}.
Arguments sget_miss_nothing {val}.
Arguments sget_returns {val}.
Arguments sset_values {val}.
Arguments no_eviction_otherwise {val}.
Arguments evicts {val}.
Arguments undisturbed {val}.
Arguments sstep_keeps_value {val}.
Arguments sstep_evicted_gone {val}.
Arguments spec_last_value {val}.
Arguments sset_evicts {val}.
Arguments sset_no_evict_entries {val}.

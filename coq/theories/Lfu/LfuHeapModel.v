(** Pointer-level model of deepdiff/lfucache.py: the objects CacheNode,
    FreqNode and LFUCache as records in a heap (finite maps from node ids to
    records whose pointer fields are [option id], None = Python's None).
    Every method is transcribed statement by statement: each assignment
    [x.f = e] reads [x] and [e] from the CURRENT heap and writes one field;
    an attribute access on None (AttributeError) or a missing dict key
    (KeyError) is the error value [None] of the option monad.
    Unreferenced objects simply stay in the maps (no garbage collection).
    Generic in the content type [val], like LfuModel.v.  Definitions only. *)
From Coq Require Import List ZArith Bool Arith.
Import ListNotations.
From DD Require Import Lfu.LfuModel.

Definition id := nat.

Definition bind {A B} (o : option A) (f : A -> option B) : option B :=
  match o with Some a => f a | None => None end.
Notation "'do' x <- e ; k" := (bind e (fun x => k))
  (at level 200, x name, e at level 100, k at level 200).

Definition oid_eqb (a b : option id) : bool :=      (* [==] on objects / None: identity *)
  match a, b with
  | None, None => true
  | Some x, Some y => Nat.eqb x y
  | _, _ => false
  end.

(* finite maps: association lists, update replaces in place *)
Fixpoint mget {N} (m : list (id * N)) (i : id) : option N :=
  match m with
  | [] => None
  | (j, x) :: r => if Nat.eqb j i then Some x else mget r i
  end.
Fixpoint mset {N} (m : list (id * N)) (i : id) (x : N) : list (id * N) :=
  match m with
  | [] => [(i, x)]
  | (j, y) :: r => if Nat.eqb j i then (j, x) :: r else (j, y) :: mset r i x
  end.

Set Implicit Arguments.
Set Maximal Implicit Insertion.
Section Gen.
Variable val : Type.

Record cnode := mkC { ckey : key; ccont : val; cfn : option id; cpre : option id; cnxt : option id }.
Record fnode := mkF { ffreq : nat; fpre : option id; fnxt : option id; fhead : option id; ftail : option id }.
Record heap := mkH {
  cns : list (id * cnode);        (* CacheNode objects *)
  fns : list (id * fnode);        (* FreqNode objects *)
  dict : list (key * id);         (* LFUCache.cache *)
  hhead : option id;              (* LFUCache.freq_link_head *)
  hcap : nat;                     (* LFUCache.capacity *)
  nextc : id; nextf : id }.       (* allocation counters *)

Definition hempty (c : nat) : heap := mkH [] [] [] None c 0 0.

(* field writes on records *)
Definition with_ccont v (c : cnode) := mkC (ckey c) v (cfn c) (cpre c) (cnxt c).
Definition with_cfn x (c : cnode) := mkC (ckey c) (ccont c) x (cpre c) (cnxt c).
Definition with_cpre x (c : cnode) := mkC (ckey c) (ccont c) (cfn c) x (cnxt c).
Definition with_cnxt x (c : cnode) := mkC (ckey c) (ccont c) (cfn c) (cpre c) x.
Definition with_fpre x (f : fnode) := mkF (ffreq f) x (fnxt f) (fhead f) (ftail f).
Definition with_fnxt x (f : fnode) := mkF (ffreq f) (fpre f) x (fhead f) (ftail f).
Definition with_fhead x (f : fnode) := mkF (ffreq f) (fpre f) (fnxt f) x (ftail f).
Definition with_ftail x (f : fnode) := mkF (ffreq f) (fpre f) (fnxt f) (fhead f) x.

Definition set_cns (h : heap) m := mkH m (fns h) (dict h) (hhead h) (hcap h) (nextc h) (nextf h).
Definition set_fns (h : heap) m := mkH (cns h) m (dict h) (hhead h) (hcap h) (nextc h) (nextf h).
Definition set_dict (h : heap) d := mkH (cns h) (fns h) d (hhead h) (hcap h) (nextc h) (nextf h).
Definition set_hhead (h : heap) x := mkH (cns h) (fns h) (dict h) x (hcap h) (nextc h) (nextf h).

(* [x.<field>] : the object behind an optional pointer; None raises *)
Definition getc (h : heap) (x : option id) : option cnode := do i <- x; mget (cns h) i.
Definition getf (h : heap) (x : option id) : option fnode := do i <- x; mget (fns h) i.
(* [x.<field> = ...] : one field write *)
Definition putc (h : heap) (x : option id) (g : cnode -> cnode) : option heap :=
  do i <- x; do c <- mget (cns h) i; Some (set_cns h (mset (cns h) i (g c))).
Definition putf (h : heap) (x : option id) (g : fnode -> fnode) : option heap :=
  do i <- x; do f <- mget (fns h) i; Some (set_fns h (mset (fns h) i (g f))).

(* CacheNode(key, None, value, None, None, None) / FreqNode(freq, None, None) *)
Definition new_cnode (h : heap) (k : key) (v : val) : heap * id :=
  (mkH (mset (cns h) (nextc h) (mkC k v None None None)) (fns h) (dict h) (hhead h) (hcap h)
       (S (nextc h)) (nextf h), nextc h).
Definition new_fnode (h : heap) (f : nat) : heap * id :=
  (mkH (cns h) (mset (fns h) (nextf h) (mkF f None None None None)) (dict h) (hhead h) (hcap h)
       (nextc h) (S (nextf h)), nextf h).

(* ---------------- CacheNode.free_myself ---------------- *)
Definition free_myself (h : heap) (self : id) : option heap :=
  let me := Some self in
  do c <- getc h me;
  do f <- getf h (cfn c);
  do h1 <-
    (if oid_eqb (fhead f) (ftail f) then
       (* self.freq_node.cache_head = self.freq_node.cache_tail = None *)
       do h1 <- putf h (cfn c) (with_fhead None);
       putf h1 (cfn c) (with_ftail None)
     else if oid_eqb (fhead f) me then
       do h1 <- putc h (cnxt c) (with_cpre None);             (* self.nxt.pre = None *)
       do c1 <- getc h1 me;
       putf h1 (cfn c1) (with_fhead (cnxt c1))                (* self.freq_node.cache_head = self.nxt *)
     else if oid_eqb (ftail f) me then
       do h1 <- putc h (cpre c) (with_cnxt None);             (* self.pre.nxt = None *)
       do c1 <- getc h1 me;
       putf h1 (cfn c1) (with_ftail (cpre c1))                (* self.freq_node.cache_tail = self.pre *)
     else
       do h1 <- putc h (cpre c) (with_cnxt (cnxt c));         (* self.pre.nxt = self.nxt *)
       do c1 <- getc h1 me;
       putc h1 (cnxt c1) (with_cpre (cpre c1)));              (* self.nxt.pre = self.pre *)
  do h2 <- putc h1 me (with_cpre None);                       (* self.pre = None *)
  do h3 <- putc h2 me (with_cnxt None);                       (* self.nxt = None *)
  putc h3 me (with_cfn None).                                 (* self.freq_node = None *)

(* ---------------- FreqNode ---------------- *)
(* count_caches: 0, 1, or 2 for '2+' *)
Definition count_caches (h : heap) (self : id) : option nat :=
  do f <- getf h (Some self);
  Some (match fhead f, ftail f with
        | None, None => 0
        | _, _ => if oid_eqb (fhead f) (ftail f) then 1 else 2
        end).

Definition fremove (h : heap) (self : id) : option heap :=
  let me := Some self in
  do f <- getf h me;
  do h1 <- (match fpre f with
            | Some _ => putf h (fpre f) (with_fnxt (fnxt f))  (* self.pre.nxt = self.nxt *)
            | None => Some h end);
  do f1 <- getf h1 me;
  do h2 <- (match fnxt f1 with
            | Some _ => putf h1 (fnxt f1) (with_fpre (fpre f1)) (* self.nxt.pre = self.pre *)
            | None => Some h1 end);
  (* self.pre = self.nxt = self.cache_head = self.cache_tail = None *)
  do h3 <- putf h2 me (with_fpre None);
  do h4 <- putf h3 me (with_fnxt None);
  do h5 <- putf h4 me (with_fhead None);
  putf h5 me (with_ftail None).

Definition pop_head_cache (h : heap) (self : id) : option heap :=
  let me := Some self in
  do f <- getf h me;
  match fhead f, ftail f with
  | None, None => Some h
  | _, _ =>
      if oid_eqb (fhead f) (ftail f) then
        do h1 <- putf h me (with_fhead None);                 (* self.cache_head = self.cache_tail = None *)
        putf h1 me (with_ftail None)
      else
        do hc <- getc h (fhead f);
        do h1 <- putc h (cnxt hc) (with_cpre None);           (* self.cache_head.nxt.pre = None *)
        do f1 <- getf h1 me;
        do hc1 <- getc h1 (fhead f1);
        putf h1 me (with_fhead (cnxt hc1))                    (* self.cache_head = self.cache_head.nxt *)
  end.

Definition append_cache_to_tail (h : heap) (self : id) (node : id) : option heap :=
  let me := Some self in
  do h1 <- putc h (Some node) (with_cfn me);                  (* cache_node.freq_node = self *)
  do f <- getf h1 me;
  match fhead f, ftail f with
  | None, None =>
      do h2 <- putf h1 me (with_fhead (Some node));           (* self.cache_head = self.cache_tail = cache_node *)
      putf h2 me (with_ftail (Some node))
  | _, _ =>
      do h2 <- putc h1 (Some node) (with_cpre (ftail f));     (* cache_node.pre = self.cache_tail *)
      do h3 <- putc h2 (Some node) (with_cnxt None);          (* cache_node.nxt = None *)
      do f3 <- getf h3 me;
      do h4 <- putc h3 (ftail f3) (with_cnxt (Some node));    (* self.cache_tail.nxt = cache_node *)
      putf h4 me (with_ftail (Some node))                     (* self.cache_tail = cache_node *)
  end.

Definition insert_after_me (h : heap) (self : id) (fnd : id) : option heap :=
  let me := Some self in
  do h1 <- putf h (Some fnd) (with_fpre me);                  (* freq_node.pre = self *)
  do f1 <- getf h1 me;
  do h2 <- putf h1 (Some fnd) (with_fnxt (fnxt f1));          (* freq_node.nxt = self.nxt *)
  do f2 <- getf h2 me;
  do h3 <- (match fnxt f2 with
            | Some _ => putf h2 (fnxt f2) (with_fpre (Some fnd))  (* self.nxt.pre = freq_node *)
            | None => Some h2 end);
  putf h3 me (with_fnxt (Some fnd)).                          (* self.nxt = freq_node *)

Definition insert_before_me (h : heap) (self : id) (fnd : id) : option heap :=
  let me := Some self in
  do f <- getf h me;
  do h1 <- (match fpre f with
            | Some _ => putf h (fpre f) (with_fnxt (Some fnd))    (* self.pre.nxt = freq_node *)
            | None => Some h end);
  do f1 <- getf h1 me;
  do h2 <- putf h1 (Some fnd) (with_fpre (fpre f1));          (* freq_node.pre = self.pre *)
  do h3 <- putf h2 (Some fnd) (with_fnxt me);                 (* freq_node.nxt = self *)
  putf h3 me (with_fpre (Some fnd)).                          (* self.pre = freq_node *)

(* ---------------- LFUCache ---------------- *)
Definition move_forward (h : heap) (cache_node freq_node : id) : option heap :=
  do f <- getf h (Some freq_node);
  do tgt <-
    (match fnxt f with
     | None => let '(h1, t) := new_fnode h (ffreq f + 1) in Some (h1, t, true)
     | Some nx =>
         do fx <- getf h (Some nx);
         if negb (Nat.eqb (ffreq fx) (ffreq f + 1))
         then let '(h1, t) := new_fnode h (ffreq f + 1) in Some (h1, t, true)
         else Some (h, nx, false)
     end);
  let '(h1, target, target_empty) := tgt in
  do h2 <- free_myself h1 cache_node;
  do h3 <- append_cache_to_tail h2 target cache_node;
  do h4 <- (if target_empty then insert_after_me h3 freq_node target else Some h3);
  do n <- count_caches h4 freq_node;
  if Nat.eqb n 0 then
    let h5 := if oid_eqb (hhead h4) (Some freq_node) then set_hhead h4 (Some target) else h4 in
    fremove h5 freq_node
  else Some h4.

(* self.cache.pop(key): KeyError when absent *)
Definition dict_pop (d : list (key * id)) (k : key) : option (list (key * id)) :=
  if has_key k d then Some (remove_key k d) else None.
(* self.cache[key] = node *)
Definition dict_set (d : list (key * id)) (k : key) (i : id) : list (key * id) :=
  if has_key k d then replace_val k i d else d ++ [(k, i)].

Definition dump_cache (h : heap) : option heap :=
  do hfid <- hhead h;                                         (* head_freq_node = self.freq_link_head *)
  do hf <- getf h (Some hfid);
  do hc <- getc h (fhead hf);
  do d <- dict_pop (dict h) (ckey hc);                        (* self.cache.pop(head_freq_node.cache_head.key) *)
  let h1 := set_dict h d in
  do h2 <- pop_head_cache h1 hfid;
  do n <- count_caches h2 hfid;
  if Nat.eqb n 0 then
    do f2 <- getf h2 (Some hfid);
    let h3 := set_hhead h2 (fnxt f2) in                       (* self.freq_link_head = head_freq_node.nxt *)
    fremove h3 hfid
  else Some h2.

Definition create_cache_node (h : heap) (k : key) (v : val) : option heap :=
  let '(h1, cnid) := new_cnode h k v in
  let h2 := set_dict h1 (dict_set (dict h1) k cnid) in        (* self.cache[key] = cache_node *)
  let fresh :=
    let '(h3, nf) := new_fnode h2 0 in
    do h4 <- append_cache_to_tail h3 nf cnid;
    do h5 <- (match hhead h4 with
              | Some hd => insert_before_me h4 hd nf
              | None => Some h4 end);
    Some (set_hhead h5 (Some nf)) in
  match hhead h2 with
  | None => fresh
  | Some hd =>
      do f <- getf h2 (Some hd);
      if negb (Nat.eqb (ffreq f) 0) then fresh
      else append_cache_to_tail h2 hd cnid
  end.

Definition hget (h : heap) (k : key) : option (heap * option val) :=
  match lookup k (dict h) with                                (* key in self.cache *)
  | Some nid =>
      do c <- getc h (Some nid);
      do fid <- cfn c;                                        (* freq_node = cache_node.freq_node *)
      do h1 <- move_forward h nid fid;
      Some (h1, Some (ccont c))
  | None => Some (h, None)
  end.

Definition hset (h : heap) (k : key) (v : val) : option heap :=
  match lookup k (dict h) with
  | Some nid => putc h (Some nid) (with_ccont v)              (* cache_node.content = value *)
  | None =>
      do h1 <- (if Nat.leb (hcap h) (length (dict h)) then dump_cache h else Some h);
      create_cache_node h1 k v
  end.

Definition hstep (h : heap) (o : op val) : option (heap * option val) :=
  match o with
  | OGet k => hget h k
  | OSet k v => do h1 <- hset h k v; Some (h1, None)
  end.

Fixpoint hrun (h : heap) (ops : list (op val)) : option (heap * list (option val)) :=
  match ops with
  | [] => Some (h, [])
  | o :: r =>
      do so <- hstep h o;
      do rr <- hrun (fst so) r;
      Some (fst rr, match o with OGet _ => snd so :: snd rr | OSet _ _ => snd rr end)
  end.

End Gen.
Arguments hempty {val} c.

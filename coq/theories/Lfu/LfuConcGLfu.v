(** C18: the LFUCache instance of the generic interleaving theorem (LfuConcGLin.v): calls
    get / set(key, report_type, value) under the lock and the LOCK-FREE [key in cache]. *)
From Coq Require Import List ZArith Bool Arith Lia Permutation.
Import ListNotations.
From DD Require Import Lfu.LfuModel Lfu.LfuSpec Lfu.LfuInv Lfu.LfuSpecProps Lfu.LfuProofs Lfu.LfuRtModel Lfu.LfuRtProofs.
From DD Require Import Lfu.LfuHeapModel Lfu.LfuHeapProofs Lfu.LfuConcModel Lfu.LfuConcProofs Lfu.LfuConcLin.
From DD Require Import Lfu.LfuAuxModel Lfu.LfuAuxProofs Lfu.LfuConcGModel Lfu.LfuConcGLin Lfu.LfuConcDict.

Lemma hset_rt_p_ok k rt v (h : heap content) :
  interp (hset_rt_p k rt v) h = hset_rt h k rt v.
Proof.
  unfold hset_rt_p, hset_rt. rewrite lookup_bind. destruct (lookup k (dict h)) as [nid|].
  - destruct rt as [r|].
    + rewrite getc_bind. destruct (getc h (Some nid)) as [c|]; [|reflexivity]. cbn [bind].
      destruct (ccont c) as [x|d]; [reflexivity|]. rewrite putc_bind. destruct (putc h (Some nid) _); reflexivity.
    + rewrite putc_bind. destruct (putc h (Some nid) _); reflexivity.
  - rewrite cap_bind, dictlen_bind. destruct (Nat.leb (hcap h) (length (dict h))).
    + rewrite dump_cache_seq. destruct (dump_cache h) as [h1|]; [|reflexivity]. cbn [bind].
      rewrite interp_bind, create_ok. destruct (create_cache_node h1 k (new_content rt v)); reflexivity.
    + rewrite skip_bind. cbn [bind]. rewrite interp_bind, create_ok. destruct (create_cache_node h k (new_content rt v)); reflexivity.
Qed.

Lemma call_body_ok o (h : heap content) : interp (call_body o) h = call_step h o.
Proof.
  destruct o as [k|k rt v|k]; cbn [call_body call_step].
  - rewrite interp_bind. unfold hget_p. rewrite lookup_bind, hget_rest_ok. destruct (hget h k) as [[h1 r]|]; reflexivity.
  - rewrite interp_bind, hset_rt_p_ok. destruct (hset_rt h k rt v) as [[h1 b]|]; reflexivity.
  - reflexivity.
Qed.

Definition key_of (o : call) : key := match o with CGet k => k | CSet k _ _ => k | CContains k => k end.
Definition rfun_of (o : call) (r : option id) : cres := XBool (match r with Some _ => true | None => false end).

Lemma call_locked o : is_reader o = false ->
  call_impl o = glocked (call_body o) /\ forall h, interp (call_body o) h = call_step h o.
Proof. intros E. split; [destruct o; [reflexivity|reflexivity|discriminate]|intros h; apply call_body_ok]. Qed.
Lemma call_reader o : is_reader o = true ->
  call_impl o = GAct (PLookup content (key_of o)) (fun b => GDone content (rfun_of o b)) /\
  forall h : heap content, exists b, sem (PLookup content (key_of o)) h = Some (h, b).
Proof. intros E. destruct o; try discriminate. split; [reflexivity|]. intros h. eexists. reflexivity. Qed.

(** sequential executions from a represented state never raise and stay represented *)
Lemma glrun_repr (L : list (tid * call)) : forall (h : heap content) (s : lfu content),
  1 <= cap s -> inv s -> heap_repr h s ->
  exists h' res, glrun call_step h L = Some (h', res) /\ heap_repr h' (fst (rrun s (rops_of L))).
Proof.
  induction L as [|[t o] L IH]; intros h s Hc Hi HR.
  - exists h, []. split; [reflexivity|exact HR].
  - destruct o as [k|k rt v|k]; cbn [glrun call_step rops_of rrun fst snd].
    + destruct (hrstep_refines h s (RGet k) Hc (proj1 (proj2 Hi)) HR) as (h1 & E1 & R1). cbn [hrstep rstep] in E1.
      destruct (hget h k) as [[hh r]|]; cbn [bind fst snd] in E1; [|discriminate]. inversion E1; subst hh. cbn [bind fst snd].
      destruct (IH h1 (fst (rstep s (RGet k)))) as (h' & res & E' & R').
      * rewrite rstep_cap. exact Hc.
      * exact (rstep_inv s (RGet k) Hc Hi).
      * exact R1.
      * cbn [rstep fst] in E', R'. rewrite E'. cbn [bind fst snd]. eauto.
    + destruct (hrstep_refines h s (RSet k rt v) Hc (proj1 (proj2 Hi)) HR) as (h1 & E1 & R1). cbn [hrstep rstep] in E1.
      destruct (hset_rt h k rt v) as [[hh r]|]; cbn [bind fst snd] in E1; [|discriminate]. inversion E1; subst hh. cbn [bind fst snd].
      destruct (IH h1 (fst (rstep s (RSet k rt v)))) as (h' & res & E' & R').
      * rewrite rstep_cap. exact Hc.
      * exact (rstep_inv s (RSet k rt v) Hc Hi).
      * exact R1.
      * cbn [rstep fst] in E', R'. rewrite E'. cbn [bind fst snd]. eauto.
    + cbn [bind fst snd]. destruct (IH h s Hc Hi HR) as (h' & res & E' & R'). rewrite E'. cbn [bind fst snd]. eauto.
Qed.

Lemma call_safe c : 1 <= c -> forall L, glrun call_step (hempty c) L <> None.
Proof.
  intros Hc L E. destruct (glrun_repr L (hempty c) (empty c) Hc (empty_inv c) (hempty_repr content c)) as (h' & res & E' & _).
  congruence.
Qed.

Local Notation cexec := (gexec is_reader call_impl).
Local Notation cexplained c progs := (gexplained content call cres is_reader call_impl call_step Qd (hempty c) progs).

Lemma reach c (progs : list (list call)) sch cfg : 1 <= c ->
  cexec (ginit cres (hempty c) progs) sch = Some cfg -> cexplained c progs cfg.
Proof.
  intros Hc Hx.
  exact (gexec_explained content call cres is_reader call_impl call_step call_body call_locked (fun _ => option id)
           (fun o => PLookup content (key_of o)) rfun_of call_reader Qd Qd_init Qd_step (hempty c) progs (call_safe c Hc) sch _ cfg
           (gexplained_init content call cres is_reader call_impl call_step Qd (hempty c) progs) Hx).
Qed.

(** EVERY schedule of get / set(key, report_type, value) / [key in cache] calls: no call raises
    an internal error; the configuration is explained by the sequential execution of the
    LOCKING calls in lock-acquisition order; the lock-free readers disturb nothing *)
Theorem gconc_every_state c (progs : list (list call)) sch cfg : 1 <= c ->
  cexec (ginit cres (hempty c) progs) sch = Some cfg ->
  gany_crashed cfg = false /\
  exists Ld hs res,
    glrun call_step (hempty c) Ld = Some (hs, res) /\
    heap_repr hs (rstate_of c (rops_of Ld)) /\
    match glock cfg with
    | None => glog cfg = Ld /\ gheap cfg = hs
    | Some t => exists th o p,
        nth_error (gthreads cfg) t = Some th /\ is_reader o = false /\
        gcur th = Some (o, gembed p (@gfin content cres)) /\
        glog cfg = Ld ++ [(t, o)] /\ interp p (gheap cfg) = call_step hs o
    end.
Proof.
  intros Hc Hx.
  pose proof (reach c progs sch cfg Hc Hx) as HE.
  split; [exact (gexplained_no_crash _ _ _ _ _ _ _ _ _ cfg HE)|].
  destruct HE as (Ld & hs & res & HL & _ & _ & HK). exists Ld, hs, res. split; [exact HL|]. split.
  2:{ destruct (glock cfg) as [u|]; [|exact HK]. destruct HK as (th & o & p0 & A & B & C & D & E & _). exists th, o, p0. auto. }
  destruct (glrun_repr Ld (hempty c) (empty c) Hc (empty_inv c) (hempty_repr content c)) as (h' & res' & E' & R').
  rewrite HL in E'. inversion E'; subst h'. exact R'.
Qed.

(** linearizability of the locking calls, lock acquisitions as linearization points *)
Theorem gconc_linearizable c (progs : list (list call)) sch cfg : 1 <= c ->
  cexec (ginit cres (hempty c) progs) sch = Some cfg -> gall_done cfg = true ->
  exists res,
    glrun call_step (hempty c) (glog cfg) = Some (gheap cfg, res) /\
    Forall (fun x => fst x < length progs) (glog cfg) /\
    (forall t th P, nth_error (gthreads cfg) t = Some th -> nth_error progs t = Some P ->
       proj t (glog cfg) = lk_ops is_reader P /\ gouts th = proj t res /\ gcrashed th = false) /\
    heap_repr (gheap cfg) (rstate_of c (rops_of (glog cfg))).
Proof.
  intros Hc Hx Hd.
  pose proof (reach c progs sch cfg Hc Hx) as HE.
  destruct (gexplained_done _ _ _ _ _ _ _ _ _ cfg HE Hd) as (res & HL & Hlog & HT). exists res.
  split; [exact HL|]. split; [exact Hlog|]. split; [exact HT|].
  destruct (glrun_repr (glog cfg) (hempty c) (empty c) Hc (empty_inv c) (hempty_repr content c)) as (h' & res' & E' & R').
  rewrite HL in E'. inversion E'; subst h'. exact R'.
Qed.

(** what a lock-free [key in cache] observes while the lock is free: exactly the key table of
    the state after the logged calls *)
Theorem gconc_contains_quiescent c (progs : list (list call)) sch cfg k : 1 <= c ->
  cexec (ginit cres (hempty c) progs) sch = Some cfg -> glock cfg = None ->
  (match lookup k (dict (gheap cfg)) with Some _ => true | None => false end) =
  contains (rstate_of c (rops_of (glog cfg))) k.
Proof.
  intros Hc Hx Hl. destruct (gconc_every_state c progs sch cfg Hc Hx) as (_ & Ld & hs & res & _ & HR & HK).
  rewrite Hl in HK. destruct HK as [E1 E2]. rewrite E1, E2.
  pose proof (repr_find content hs _ k HR) as F. unfold contains.
  destruct (find_key k (buckets (rstate_of c (rops_of Ld)))) as [[u v]|].
  - destruct F as (nid & cn & Lk & _). rewrite Lk. reflexivity.
  - rewrite F. reflexivity.
Qed.

Lemma mem_repr (h : heap content) (s : lfu content) q : heap_repr h s -> mem q (dict h) = contains s q.
Proof.
  intros HR. pose proof (repr_find content h s q HR) as F. unfold contains, mem.
  destruct (find_key q (buckets s)) as [[u v]|].
  - destruct F as (nid & cn & Lk & _). rewrite Lk. reflexivity.
  - rewrite F. reflexivity.
Qed.

(** ... and while the lock is HELD (another thread is in the middle of its critical section on
    the call [o], logged last): for every key, one lookup sees the key as it is in the state
    BEFORE that call or as it is in the state AFTER it - nothing else *)
Theorem gconc_contains_midsection c (progs : list (list call)) sch cfg t : 1 <= c ->
  cexec (ginit cres (hempty c) progs) sch = Some cfg -> glock cfg = Some t ->
  exists Ld o, glog cfg = Ld ++ [(t, o)] /\
    forall q,
      mem q (dict (gheap cfg)) = contains (rstate_of c (rops_of Ld)) q \/
      mem q (dict (gheap cfg)) = contains (rstate_of c (rops_of (Ld ++ [(t, o)]))) q.
Proof.
  intros Hc Hx Hl. pose proof (reach c progs sch cfg Hc Hx) as (Ld & hs & res & HL & _ & _ & HK).
  rewrite Hl in HK. destruct HK as (th & o & p & _ & Er & _ & ELd & Hint & (done & HA & HT)).
  exists Ld, o. split; [exact ELd|]. intros q.
  (* the states before and after *)
  destruct (glrun_repr Ld (hempty c) (empty c) Hc (empty_inv c) (hempty_repr content c)) as (h1 & res1 & E1 & R1).
  rewrite HL in E1. inversion E1; subst h1 res1. clear E1.
  destruct (glrun_repr (Ld ++ [(t, o)]) (hempty c) (empty c) Hc (empty_inv c) (hempty_repr content c)) as (h2 & res2 & E2 & R2).
  rewrite (glrun_snoc content call cres call_step), HL in E2.
  destruct (call_step hs o) as [[h' r]|] eqn:Es; [|discriminate]. inversion E2; subst h2. clear E2.
  fold (rstate_of c (rops_of Ld)) in R1. fold (rstate_of c (rops_of (Ld ++ [(t, o)]))) in R2.
  rewrite <- (mem_repr hs _ q R1), <- (mem_repr h' _ q R2).
  pose proof (call_body_ok o hs) as Eb. rewrite Es in Eb.
  apply (prefix_mem (dict hs) (dict (gheap cfg)) (dict h') (trace content (call_body o) hs) done (trace content p (gheap cfg)) q).
  - symmetry. exact HT.
  - exact HA.
  - exact (interp_trace content cres (call_body o) hs h' r Eb).
  - exact (body_trace o hs h' r Er Eb).
Qed.

(* ------------------------------------------------------------------ *)
(** * ... but SEVERAL lock-free lookups are not one atomic snapshot: capacity 1, the reader
      thread sets key 1 and then asks for key 1 and for key 2 while the writer's [set 2] is
      between its pop of key 1 and its insertion of key 2: both answers are False, which no
      sequential order of the four calls respecting program order produces *)
Local Open Scope Z_scope.
Definition nl_progs : list (list call) := [[CSet 2 None 20]; [CSet 1 None 10; CContains 1; CContains 2]].
Definition nl_sched : list tid := repeat 1%nat 17 ++ repeat 0%nat 9 ++ repeat 1%nat 6 ++ repeat 0%nat 24.

Fixpoint merges {A} (l1 : list A) : list A -> list (list A) :=
  fix aux (l2 : list A) : list (list A) :=
    match l1, l2 with
    | [], _ => [l2]
    | _, [] => [l1]
    | a :: r1, b :: r2 => map (cons a) (merges r1 l2) ++ map (cons b) (aux r2)
    end.
Definition tagged (t : tid) (l : list call) : list (tid * call) := map (fun o => (t, o)) l.
(* the reader's results in the sequential execution of one total order of the calls *)
Definition seq_reader_results (L : list (tid * call)) : option (list cres) :=
  option_map (fun r => proj 1%nat (snd r)) (glrun call_step (hempty 1) L).

Theorem contains_not_linearizable :
  exists cfg,
    gexec is_reader call_impl (ginit cres (hempty 1) nl_progs) nl_sched = Some cfg /\
    gall_done cfg = true /\ gany_crashed cfg = false /\
    option_map (@gobs content call cres) (nth_error (gthreads cfg) 1) = Some [XBool false; XBool false] /\
    Forall (fun L => seq_reader_results L <> Some [XDone; XBool false; XBool false])
           (merges (tagged 0%nat [CSet 2 None 20]) (tagged 1%nat [CSet 1 None 10; CContains 1; CContains 2])).
Proof.
  eexists. split; [vm_compute; reflexivity|]. split; [reflexivity|]. split; [reflexivity|]. split; [reflexivity|].
  apply Forall_forall. intros L H. vm_compute in H.
  repeat (destruct H as [<-|H]; [vm_compute; discriminate|]). destruct H.
Qed.

(** non-vacuity: report-type sets, gets and lock-free lookups interleaved to completion *)
Example ex_gconc :
  let cfg := gexec_skip is_reader call_impl
               (ginit cres (hempty 2) [[CSet 1 (Some 7) 10; CSet 1 (Some 7) 11; CGet 1]; [CSet 1 None 5; CContains 1; CSet 1 (Some 8) 3]])
               (repeat 0%nat 20 ++ repeat 1%nat 4 ++ repeat 0%nat 60 ++ repeat 1%nat 60) in
  gall_done cfg = true /\ gany_crashed cfg = false /\
  map (@gouts content call cres) (gthreads cfg) = [[XDone; XDone; XContent (CRep [(7, [10; 11])])]; [XDone; XRaised]] /\
  map (@gobs content call cres) (gthreads cfg) = [[]; [XBool true]].
Proof. vm_compute. repeat split; reflexivity. Qed.

(** C18, part 3: the model of lfucache.py (LfuModel.v) refines the abstract
    bounded-LFU specification (LfuSpec.v), for every operation sequence; the
    corollaries of LfuSpecProps.v transferred to the model; non-vacuity
    examples. *)
From Coq Require Import List ZArith Bool Arith Lia Permutation Sorted.
Import ListNotations.
From DD Require Import Lfu.LfuModel Lfu.LfuSpec Lfu.LfuInv Lfu.LfuSpecProps.

Section Gen.
Variable val : Type.
Local Notation bucket := (bucket val).
Local Notation lfu := (lfu val).
Local Notation entry := (entry val).
Local Notation spec := (spec val).
Local Notation op := (op val).
Implicit Types (v : val) (e : entry) (l r : list entry) (s : lfu) (sp : spec) (b : bucket) (o : op)
  (ops pre mid : list op).

(* ------------------------------------------------------------------ *)
(** * [of_uses]: the spec's entries with [f] uses, as (key, value) pairs *)

Lemma of_uses_cons f e r :
  of_uses f (e :: r) =
  if Nat.eqb (euses e) f then (ekey e, evalue e) :: of_uses f r else of_uses f r.
Proof. unfold of_uses. cbn [filter]. destruct (Nat.eqb (euses e) f); reflexivity. Qed.

Lemma of_uses_app f l l' : of_uses f (l ++ l') = of_uses f l ++ of_uses f l'.
Proof. unfold of_uses. rewrite filter_app, map_app. reflexivity. Qed.

Lemma of_uses_snoc f l e :
  of_uses f (l ++ [e]) =
  of_uses f l ++ (if Nat.eqb (euses e) f then [(ekey e, evalue e)] else []).
Proof. rewrite of_uses_app, of_uses_cons. destruct (Nat.eqb (euses e) f); reflexivity. Qed.

Lemma remove_key_cons k k' v' (r : list (key * val)) :
  remove_key k ((k', v') :: r) = if Z.eqb k' k then remove_key k r else (k', v') :: remove_key k r.
Proof. unfold remove_key. cbn [filter fst]. destruct (Z.eqb k' k); reflexivity. Qed.

Lemma of_uses_keys_in f k l : In k (keys (of_uses f l)) -> In k (ekeys l).
Proof.
  induction l as [|e r IH]; [intros []|]. rewrite of_uses_cons. cbn [map In].
  destruct (Nat.eqb (euses e) f); cbn [map fst In].
  - intros [E|H]; [left; exact E|right; exact (IH H)].
  - intros H. right. exact (IH H).
Qed.

Lemma of_uses_sremove f k l : of_uses f (sremove k l) = remove_key k (of_uses f l).
Proof.
  induction l as [|e r IH]; [reflexivity|]. rewrite sremove_cons, of_uses_cons.
  destruct (Z.eqb (ekey e) k) eqn:Ek; destruct (Nat.eqb (euses e) f) eqn:Eu.
  - rewrite remove_key_cons, Ek. exact IH.
  - exact IH.
  - rewrite of_uses_cons, Eu, remove_key_cons, Ek, IH. reflexivity.
  - rewrite of_uses_cons, Eu. exact IH.
Qed.

Lemma of_uses_sreplace f k v l :
  NoDup (ekeys l) -> of_uses f (sreplace k v l) = replace_val k v (of_uses f l).
Proof.
  induction l as [|e r IH]; intros Hnd; [reflexivity|].
  cbn [map] in Hnd. apply NoDup_cons_iff in Hnd. destruct Hnd as [Hna Hnd].
  cbn [sreplace]. destruct (Z.eqb_spec (ekey e) k) as [Ek|NEk].
  - rewrite !of_uses_cons. cbn [ekey evalue euses].
    destruct (Nat.eqb (euses e) f).
    + cbn [replace_val]. rewrite (proj2 (Z.eqb_eq _ _) Ek). reflexivity.
    + symmetry. apply replace_val_notin. intros C. apply Hna. rewrite Ek.
      exact (of_uses_keys_in f k r C).
  - rewrite !of_uses_cons. destruct (Nat.eqb (euses e) f).
    + cbn [replace_val]. rewrite (proj2 (Z.eqb_neq _ _) NEk), (IH Hnd). reflexivity.
    + exact (IH Hnd).
Qed.

Lemma lookup_of_uses k l e :
  sfind k l = Some e -> lookup k (of_uses (euses e) l) = Some (evalue e).
Proof.
  induction l as [|a r IH]; [discriminate|]. rewrite sfind_cons, of_uses_cons.
  destruct (Z.eqb_spec (ekey a) k) as [Ek|NEk]; intros H.
  - inversion H; subst a. rewrite Nat.eqb_refl. cbn [lookup]. rewrite (proj2 (Z.eqb_eq _ _) Ek). reflexivity.
  - destruct (Nat.eqb (euses a) (euses e)); [|exact (IH H)].
    cbn [lookup]. rewrite (proj2 (Z.eqb_neq _ _) NEk). exact (IH H).
Qed.

Lemma lookup_of_uses_inv k u v l :
  lookup k (of_uses u l) = Some v ->
  exists e, In e l /\ ekey e = k /\ evalue e = v /\ euses e = u.
Proof.
  induction l as [|a r IH]; [discriminate|]. rewrite of_uses_cons.
  destruct (Nat.eqb_spec (euses a) u) as [Eu|NEu].
  - cbn [lookup]. destruct (Z.eqb_spec (ekey a) k) as [Ek|NEk]; intros H.
    + inversion H. exists a. repeat split; [left; reflexivity|exact Ek|exact Eu].
    + destruct (IH H) as (e & He & P). exists e. split; [right; exact He|exact P].
  - intros H. destruct (IH H) as (e & He & P). exists e. split; [right; exact He|exact P].
Qed.

Lemma of_uses_nonnil l e : In e l -> of_uses (euses e) l <> [].
Proof.
  induction l as [|a r IH]; intros H; [destruct H|]. rewrite of_uses_cons.
  destruct H as [E|H].
  - subst a. rewrite Nat.eqb_refl. discriminate.
  - destruct (Nat.eqb (euses a) (euses e)); [discriminate|exact (IH H)].
Qed.

Lemma of_uses_hd f l :
  hd_error (of_uses f l) =
  option_map (fun e => (ekey e, evalue e)) (find (fun e => Nat.eqb (euses e) f) l).
Proof.
  induction l as [|a r IH]; [reflexivity|]. rewrite of_uses_cons. cbn [find].
  destruct (Nat.eqb (euses a) f); [reflexivity|exact IH].
Qed.

(* ------------------------------------------------------------------ *)
(** * The refinement relation *)

(** Bucket [f] of the model holds exactly the spec's entries with [f] uses, in
    the spec's order; same capacity; same number of keys; spec keys unique.
    (With the invariant, no bucket is "stray": lemma [R_no_stray].) *)
Definition R (s : lfu) (sp : spec) : Prop :=
  cap s = scap sp /\
  (forall f, bucket_items f (buckets s) = of_uses f (entries sp)) /\
  NoDup (ekeys (entries sp)) /\
  size s = length (entries sp).

Lemma R_empty c : R (empty c) (sempty c).
Proof. unfold R, empty, sempty. cbn. repeat split. constructor. Qed.

Lemma R_sinv s sp : inv s -> R s sp -> sinv sp.
Proof. intros (_ & _ & _ & Hsz) (Hc & _ & Hnd & Hl). split; [exact Hnd|]. lia. Qed.

Lemma R_no_stray s sp b :
  inv s -> R s sp -> In b (buckets s) -> exists e, In e (entries sp) /\ euses e = freq b.
Proof.
  intros (Hasc & Hne & _ & _) (_ & Hbi & _ & _) Hb.
  pose proof (bucket_items_in b _ Hasc Hb) as E. rewrite Hbi in E.
  unfold nonempty in Hne. rewrite Forall_forall in Hne. specialize (Hne b Hb).
  destruct (of_uses (freq b) (entries sp)) as [|[k v] t] eqn:O; [congruence|].
  assert (L : lookup k (of_uses (freq b) (entries sp)) = Some v)
    by (rewrite O; cbn [lookup]; rewrite Z.eqb_refl; reflexivity).
  destruct (lookup_of_uses_inv k _ v _ L) as (e & He & _ & _ & Eu). exists e. split; assumption.
Qed.

(** the model's key table agrees with the spec: presence, value, number of uses *)
Lemma R_find s sp k :
  inv s -> R s sp ->
  find_key k (buckets s) = option_map (fun e => (euses e, evalue e)) (sfind k (entries sp)).
Proof.
  intros (Hasc & _ & _ & _) (_ & Hbi & Hnd & _).
  assert (Hfwd : forall u v, find_key k (buckets s) = Some (u, v) ->
                 exists e, sfind k (entries sp) = Some e /\ euses e = u /\ evalue e = v).
  { intros u v FK. pose proof (find_key_some k u v _ Hasc FK) as L. rewrite Hbi in L.
    destruct (lookup_of_uses_inv k u v _ L) as (e & He & Ek & Ev & Eu).
    exists e. split; [exact (sfind_in_nodup k _ e Hnd He Ek)|split; assumption]. }
  destruct (find_key k (buckets s)) as [[u v]|] eqn:FK.
  - destruct (Hfwd u v eq_refl) as (e & F & Eu & Ev). rewrite F. cbn [option_map]. congruence.
  - destruct (sfind k (entries sp)) as [e|] eqn:F; [|reflexivity]. exfalso.
    apply find_key_none_iff in FK.
    pose proof (lookup_of_uses k _ e F) as L. rewrite <- Hbi in L.
    exact (bucket_items_notin k (euses e) _ FK (lookup_some_key k _ _ L)).
Qed.

(* ------------------------------------------------------------------ *)
(** * One step: same output, related successor states *)

Lemma get_sim s sp k :
  inv s -> R s sp ->
  snd (get s k) = snd (sget sp k) /\ R (fst (get s k)) (fst (sget sp k)).
Proof.
  intros Hinv HR. pose proof (R_find s sp k Hinv HR) as FK.
  pose proof (R_sinv s sp Hinv HR) as Hsinv.
  pose proof (sget_sinv sp k Hsinv) as [Hnd' _].
  destruct Hinv as (Hasc & Hne & Hnd & Hsz). destruct HR as (Hc & Hbi & Hsnd & Hlen).
  unfold get, sget in *. destruct (sfind k (entries sp)) as [e|] eqn:F; cbn [option_map] in FK; rewrite FK.
  - cbn [fst snd]. split; [reflexivity|]. unfold R. cbn [cap buckets scap entries].
    split; [exact Hc|]. split; [|split; [exact Hnd'|]].
    + intros f. rewrite (move_forward_bucket_items k (euses e) (evalue e) _ f Hasc Hnd FK).
      rewrite Hbi, of_uses_snoc, of_uses_sremove. reflexivity.
    + rewrite size_all_items in *. cbn [buckets].
      rewrite (Permutation_length (move_forward_perm k _ Hnd)), Hlen.
      rewrite app_length. cbn [length]. pose proof (sremove_length k _ e Hsnd F). lia.
  - cbn [fst snd]. split; [reflexivity|]. exact (conj Hc (conj Hbi (conj Hsnd Hlen))).
Qed.

(** eviction: the head cache node of the head frequency node is the spec's victim *)
Lemma R_dump s sp :
  inv s -> R s sp -> entries sp <> [] ->
  (forall f, bucket_items f (dump_cache (buckets s)) = of_uses f (evict (entries sp))) /\
  S (length (all_items (dump_cache (buckets s)))) = length (entries sp) /\
  S (length (evict (entries sp))) = length (entries sp).
Proof.
  intros (Hasc & Hne & Hnd & Hsz) (Hc & Hbi & Hsnd & Hlen) Hl.
  destruct (buckets s) as [|b r] eqn:B.
  { exfalso. destruct (entries sp) as [|e t]; [congruence|].
    apply (of_uses_nonnil (e :: t) e (or_introl eq_refl)). rewrite <- Hbi. reflexivity. }
  pose proof Hne as Hne0. unfold nonempty in Hne0. inversion Hne0 as [|? ? Hb _]; subst.
  destruct (items b) as [|[kk vv] it] eqn:Hit; [congruence|].
  (* the first entry with [freq b] uses is (kk, vv) *)
  pose proof (Hbi (freq b)) as Hhead. cbn [bucket_items] in Hhead. rewrite Nat.eqb_refl, Hit in Hhead.
  pose proof (of_uses_hd (freq b) (entries sp)) as Hhd. rewrite <- Hhead in Hhd. cbn [hd_error] in Hhd.
  destruct (find (fun e => Nat.eqb (euses e) (freq b)) (entries sp)) as [e0|] eqn:F0; [|discriminate].
  cbn [option_map] in Hhd. inversion Hhd as [[Ekk Evv]].
  destruct (find_some _ _ F0) as [He0 Ue0]. apply Nat.eqb_eq in Ue0.
  (* freq b is the minimal number of uses *)
  assert (Hmin : min_uses (entries sp) = freq b).
  { pose proof (min_uses_le _ e0 He0) as Hle.
    destruct (min_uses_attained _ Hl) as (e1 & He1 & Ue1).
    pose proof (of_uses_nonnil _ e1 He1) as Hnn. rewrite <- Hbi in Hnn.
    destruct (bucket_items_nonnil _ _ Hnn) as (n & Hn & Fn).
    assert (freq b <= freq n).
    { destruct Hn as [E|Hn]; [subst n; lia|].
      pose proof (asc_all_gt b r Hasc) as G. unfold all_gt in G. rewrite Forall_forall in G.
      specialize (G n Hn). lia. }
    lia. }
  assert (V : victim (entries sp) = Some e0) by (unfold victim; rewrite Hmin; exact F0).
  assert (Ev : evict (entries sp) = sremove kk (entries sp)) by (unfold evict; rewrite V, <- Ekk; reflexivity).
  split; [|split].
  - intros f. rewrite Ev, of_uses_sremove, <- Hbi.
    exact (dump_cache_bucket_items b r kk vv it f Hasc Hnd Hit).
  - rewrite (dump_cache_all_items _ Hne). rewrite size_all_items, B in Hlen.
    rewrite <- Hlen, all_items_cons, Hit. reflexivity.
  - rewrite Ev. apply (sremove_length kk _ e0 Hsnd).
    apply sfind_in_nodup; [exact Hsnd|exact He0|symmetry; exact Ekk].
Qed.

Lemma set_sim s sp k v :
  1 <= cap s -> inv s -> R s sp -> R (set s k v) (sset sp k v).
Proof.
  intros Hcap Hinv HR. pose proof (R_find s sp k Hinv HR) as FK.
  pose proof (R_sinv s sp Hinv HR) as Hsinv.
  assert (Hcap' : 1 <= scap sp) by (destruct HR as (Hc & _); lia).
  pose proof (sset_sinv sp k v Hcap' Hsinv) as [Hnd' _].
  pose proof (R_dump s sp Hinv HR) as Hdump.
  pose proof Hinv as (Hasc & Hne & Hnd & Hsz). pose proof HR as (Hc & Hbi & Hsnd & Hlen).
  unfold set, sset, contains in *. destruct (sfind k (entries sp)) as [e|] eqn:F; cbn [option_map] in FK; rewrite FK.
  - unfold R. cbn [cap buckets scap entries]. split; [exact Hc|]. split; [|split; [exact Hnd'|]].
    + intros f. rewrite (set_present_bucket_items k v _ f Hnd), Hbi.
      symmetry. exact (of_uses_sreplace f k v _ Hsnd).
    + rewrite size_all_items in *. cbn [buckets].
      rewrite <- (map_length fst), set_present_keys, map_length, sreplace_length. exact Hlen.
  - replace (Nat.leb (cap s) (size s)) with (Nat.leb (scap sp) (length (entries sp)))
      by (rewrite Hc, Hlen; reflexivity).
    unfold R. cbn [cap buckets scap entries]. split; [exact Hc|].
    destruct (Nat.leb_spec (scap sp) (length (entries sp))) as [Hfull|Hroom].
    + assert (Hl : entries sp <> []) by (destruct (entries sp); [cbn [length] in Hfull; lia|discriminate]).
      destruct (Hdump Hl) as (Dbi & Dsz & Dlen).
      split; [|split; [exact Hnd'|]].
      * intros f. rewrite (create_node_bucket_items k v _ f (dump_cache_asc _ Hasc)), Dbi, of_uses_snoc.
        reflexivity.
      * rewrite size_all_items. cbn [buckets].
        rewrite (Permutation_length (create_node_perm k v _)), app_length. cbn [length]. lia.
    + split; [|split; [exact Hnd'|]].
      * intros f. rewrite (create_node_bucket_items k v _ f Hasc), Hbi, of_uses_snoc. reflexivity.
      * rewrite size_all_items in *. cbn [buckets].
        rewrite (Permutation_length (create_node_perm k v _)), app_length. cbn [length]. lia.
Qed.

Lemma step_sim s sp o :
  1 <= cap s -> inv s -> R s sp ->
  snd (step s o) = snd (sstep sp o) /\ R (fst (step s o)) (fst (sstep sp o)).
Proof.
  intros Hc Hinv HR. destruct o as [k|k v]; cbn [step sstep].
  - exact (get_sim s sp k Hinv HR).
  - cbn [fst snd]. split; [reflexivity|exact (set_sim s sp k v Hc Hinv HR)].
Qed.

(* ------------------------------------------------------------------ *)
(** * All operation sequences *)

Lemma run_sim ops : forall s sp,
  1 <= cap s -> inv s -> R s sp ->
  snd (run s ops) = snd (srun sp ops) /\ R (fst (run s ops)) (fst (srun sp ops)).
Proof.
  induction ops as [|o r IH]; intros s sp Hc Hinv HR; [split; [reflexivity|exact HR]|].
  rewrite run_cons, srun_cons. cbn [fst snd].
  destruct (step_sim s sp o Hc Hinv HR) as [Hout HR1].
  destruct (IH (fst (step s o)) (fst (sstep sp o))) as [Houts HR2].
  - rewrite step_cap. exact Hc.
  - exact (step_inv s o Hc Hinv).
  - exact HR1.
  - split; [|exact HR2]. destruct o; rewrite ?Hout, Houts; reflexivity.
Qed.

(** the structural invariant holds after every operation sequence *)
Theorem lfu_inv c ops : 1 <= c ->
  let s := state_of c ops in
  StronglySorted lt (map freq (buckets s)) /\
  Forall (fun b => items b <> []) (buckets s) /\
  NoDup (map fst (flat_map items (buckets s))) /\
  size s <= cap s /\ cap s = c.
Proof.
  intros Hc s. destruct (run_inv ops (empty c) Hc (empty_inv c)) as [(Hasc & Hne & Hnd & Hsz) Hcap].
  fold (state_of c ops) in *. fold s in Hasc, Hne, Hnd, Hsz, Hcap.
  split; [exact (asc_strongly_sorted _ Hasc)|]. split; [exact Hne|]. split; [exact Hnd|].
  split; [exact Hsz|exact Hcap].
Qed.

(** the model produces the outputs of the specification, and ends in a related state *)
Theorem lfu_refines_spec c ops : 1 <= c ->
  snd (run (empty c) ops) = snd (srun (sempty c) ops) /\
  R (state_of c ops) (fst (srun (sempty c) ops)).
Proof. intros Hc. exact (run_sim ops (empty c) (sempty c) Hc (empty_inv c) (R_empty c)). Qed.

(** one-step form, for any reachable pair of states *)
Theorem lfu_step_refines c ops o : 1 <= c ->
  let s := state_of c ops in let sp := fst (srun (sempty c) ops) in
  snd (step s o) = snd (sstep sp o) /\ R (fst (step s o)) (fst (sstep sp o)).
Proof.
  intros Hc s sp. destruct (run_inv ops (empty c) Hc (empty_inv c)) as [Hinv Hcap].
  destruct (lfu_refines_spec c ops Hc) as [_ HR].
  apply step_sim; [unfold s, state_of; rewrite Hcap; exact Hc|exact Hinv|exact HR].
Qed.

(** per-key view of the model state = per-key view of the spec state *)
Theorem lfu_state_agrees c ops k : 1 <= c ->
  let s := state_of c ops in let sp := fst (srun (sempty c) ops) in
  find_key k (buckets s) =
    match sval sp k, suses sp k with Some v, Some u => Some (u, v) | _, _ => None end /\
  contains s k = (if sval sp k then true else false) /\
  size s = length (entries sp).
Proof.
  intros Hc s sp. destruct (run_inv ops (empty c) Hc (empty_inv c)) as [Hinv _].
  destruct (lfu_refines_spec c ops Hc) as [_ HR]. fold (state_of c ops) in Hinv.
  pose proof (R_find _ _ k Hinv HR) as FK. fold s sp in FK, HR.
  unfold contains, sval, suses. rewrite FK.
  destruct (sfind k (entries sp)); cbn [option_map]; (split; [reflexivity|split; [reflexivity|]]);
    exact (proj2 (proj2 (proj2 HR))).
Qed.

(* ------------------------------------------------------------------ *)
(** * The property's clauses, on the model *)

Lemma run_app s ops1 ops2 :
  run s (ops1 ++ ops2) =
  (fst (run (fst (run s ops1)) ops2), snd (run s ops1) ++ snd (run (fst (run s ops1)) ops2)).
Proof.
  revert s. induction ops1 as [|o r IH]; intros s.
  - cbn [app run fst snd]. destruct (run s ops2); reflexivity.
  - cbn [app]. rewrite !run_cons, IH. cbn [fst snd]. destruct o; reflexivity.
Qed.

(** (a) after [set k v], as long as no later operation sets [k] again or
    evicts it (eviction as defined by the spec), [get k] returns [v] *)
Theorem lfu_last_value c pre k v mid : 1 <= c ->
  undisturbed (fst (srun (sempty c) (pre ++ [OSet k v]))) k mid ->
  snd (run (empty c) (pre ++ OSet k v :: mid ++ [OGet k])) =
  snd (run (empty c) (pre ++ OSet k v :: mid)) ++ [Some v].
Proof.
  intros Hc Hu.
  replace (pre ++ OSet k v :: mid ++ [OGet k]) with ((pre ++ OSet k v :: mid) ++ [OGet k])
    by (rewrite <- app_assoc; reflexivity).
  rewrite (proj1 (lfu_refines_spec c _ Hc)), (proj1 (lfu_refines_spec c _ Hc)).
  rewrite srun_app. cbn [snd]. f_equal.
  replace (pre ++ OSet k v :: mid) with ((pre ++ [OSet k v]) ++ mid)
    by (rewrite <- app_assoc; reflexivity).
  rewrite (srun_app _ (pre ++ [OSet k v]) mid). cbn [fst].
  rewrite srun_cons. cbn [sstep snd srun]. rewrite sget_value. f_equal.
  apply spec_last_value; [|exact Hu].
  rewrite srun_app. cbn [fst]. rewrite srun_cons. cbn [sstep fst srun]. apply sset_same.
Qed.

(** ... and once evicted (and not set again) the key is gone: get returns not_found *)
Theorem lfu_evicted_gone c pre o k : 1 <= c ->
  evicts (fst (srun (sempty c) pre)) o k ->
  snd (run (empty c) (pre ++ [o; OGet k])) = snd (run (empty c) pre) ++ [None].
Proof.
  intros Hc He.
  rewrite (proj1 (lfu_refines_spec c _ Hc)), (proj1 (lfu_refines_spec c _ Hc)).
  rewrite srun_app. cbn [snd]. f_equal.
  destruct o as [k0|k0 v0]; [destruct He|].
  rewrite !srun_cons. cbn [srun snd]. cbn [sstep snd]. rewrite sget_value. f_equal.
  exact (sstep_evicted_gone _ (OSet k0 v0) k He).
Qed.

(** after [set k v] the key is linked with content [v] (whatever was evicted) *)
Theorem lfu_set_then_find c ops k v : 1 <= c ->
  exists u, find_key k (buckets (state_of c (ops ++ [OSet k v]))) = Some (u, v).
Proof.
  intros Hc. destruct (lfu_state_agrees c (ops ++ [OSet k v]) k Hc) as [FK _].
  rewrite srun_app in FK. cbn [fst] in FK. rewrite srun_cons in FK. cbn [sstep fst srun] in FK.
  unfold sval, suses in FK. rewrite sfind_sset, Z.eqb_refl in FK. cbn [option_map] in FK.
  eexists. exact FK.
Qed.

(** (b) never more than capacity keys *)
Theorem lfu_bounded c ops : 1 <= c -> size (state_of c ops) <= c.
Proof. intros Hc. destruct (lfu_inv c ops Hc) as (_ & _ & _ & H1 & H2). lia. Qed.

End Gen.
Arguments of_uses_cons {val}.
Arguments of_uses_app {val}.
Arguments of_uses_snoc {val}.
Arguments remove_key_cons {val}.
Arguments of_uses_keys_in {val}.
Arguments of_uses_sremove {val}.
Arguments of_uses_sreplace {val}.
Arguments lookup_of_uses {val}.
Arguments lookup_of_uses_inv {val}.
Arguments of_uses_nonnil {val}.
Arguments of_uses_hd {val}.
Arguments R {val}.
Arguments R_empty {val}.
Arguments R_sinv {val}.
Arguments R_no_stray {val}.
Arguments R_find {val}.
Arguments get_sim {val}.
Arguments R_dump {val}.
Arguments set_sim {val}.
Arguments step_sim {val}.
Arguments run_sim {val}.
Arguments lfu_inv {val}.
Arguments lfu_refines_spec {val}.
Arguments lfu_step_refines {val}.
Arguments lfu_state_agrees {val}.
Arguments run_app {val}.
Arguments lfu_last_value {val}.
Arguments lfu_evicted_gone {val}.
Arguments lfu_set_then_find {val}.
Arguments lfu_bounded {val}.

(* ------------------------------------------------------------------ *)
(** * Non-vacuity: concrete traces *)

Local Open Scope Z_scope.

Definition ex_ops : list (op Z) :=
  [OSet 1 10; OSet 2 20; OGet 1; OSet 3 30; OGet 2; OGet 1; OSet 1 11; OGet 1; OGet 3].

(** capacity 2: key 2 (0 uses) is evicted by [set 3], not key 1 (1 use) *)
Example ex_run :
  snd (run (empty 2) ex_ops) = [Some 10; None; Some 10; Some 11; Some 30] /\
  buckets (state_of 2 ex_ops) = [mkB 1 [(3, 30)]; mkB 3 [(1, 11)]].
Proof. split; vm_compute; reflexivity. Qed.

Example ex_srun :
  srun (sempty 2) ex_ops =
  (mkS 2 [mkE 1 11 3; mkE 3 30 1], [Some 10; None; Some 10; Some 11; Some 30]).
Proof. vm_compute. reflexivity. Qed.

(** ties: among keys with equally few uses the one that reached that count first goes *)
Example ex_tie_fresh :
  snd (run (empty 2) [OSet 1 10; OSet 2 20; OSet 3 30; OGet 1; OGet 2; OGet 3]) = [None; Some 20; Some 30].
Proof. vm_compute. reflexivity. Qed.
Example ex_tie_12 :
  snd (run (empty 2) [OSet 1 10; OSet 2 20; OGet 1; OGet 2; OSet 3 30; OGet 1; OGet 2]) =
  [Some 10; Some 20; None; Some 20].
Proof. vm_compute. reflexivity. Qed.
Example ex_tie_21 :
  snd (run (empty 2) [OSet 1 10; OSet 2 20; OGet 2; OGet 1; OSet 3 30; OGet 1; OGet 2]) =
  [Some 20; Some 10; Some 10; None].
Proof. vm_compute. reflexivity. Qed.

(** the hypothesis of [lfu_last_value] is satisfiable across an eviction of another key *)
Example ex_undisturbed :
  undisturbed (fst (srun (sempty 2) ([OSet 2 20] ++ [OSet 1 10]))) 1 [OGet 1; OSet 3 30; OGet 3; OGet 1; OSet 2 21].
Proof.
  cbn [undisturbed].
  split; [intros v H; discriminate H|]. split; [intros H; exact H|].
  split; [intros v H; discriminate H|]. split; [vm_compute; intros H; discriminate H|].
  split; [intros v H; discriminate H|]. split; [intros H; exact H|].
  split; [intros v H; discriminate H|]. split; [intros H; exact H|].
  split; [intros v H; discriminate H|]. split; [vm_compute; intros H; discriminate H|].
  exact I.
Qed.

(** the hypothesis of [lfu_evicted_gone] is satisfiable *)
Example ex_evicts : evicts (fst (srun (sempty 2) [OSet 1 10; OSet 2 20; OGet 1])) (OSet 3 30) 2.
Proof. vm_compute. reflexivity. Qed.

(** the hypotheses of [sset_evicts] are satisfiable, with a non-trivial prefix before the victim *)
Example ex_sset_evicts :
  let s := fst (srun (sempty 3) [OSet 1 10; OSet 2 20; OSet 3 30; OGet 1; OGet 1; OGet 3; OGet 2]) in
  entries s = [mkE 1 10 2; mkE 3 30 1; mkE 2 20 1] /\
  NoDup (ekeys (entries s)) /\ sval s 4 = None /\ (1 <= scap s <= length (entries s))%nat /\
  entries (sset s 4 40) = [mkE 1 10 2; mkE 2 20 1; mkE 4 40 0].
Proof.
  vm_compute. repeat split; try lia.
  repeat constructor; cbn; intros H; repeat (destruct H as [H|H]; [discriminate H|]); exact H.
Qed.

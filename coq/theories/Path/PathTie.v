(** C09 - run-time support for the SOURCE TIE of deepdiff/path.py (harness/translate/pathparse.py).
    Definitions only.  The translator emits Gallina text that uses the types and primitive
    operations below (and [action], [quote_fmt], [has_char], [is_prefix], [pystr_eqb] of
    Base/PyStr.v and Path/PathModel.v), but none of the functions it re-derives.

    A Python computation has one of three outcomes ([tout]): a value, an exception that is not
    caught inside the translated fragment, or "outside the translated model" (the [literal_eval]
    oracle answered Unsup, or an operation was applied to a value the translator's types do not
    cover).  Python's types are assigned to the variables by the translator's typing table:
      str -> pystr, one-character str -> N, False | str -> option pystr, None | char -> option N,
      list of str -> list pystr, bool -> bool. *)
From Coq Require Import List ZArith NArith Bool.
Import ListNotations.
From DD Require Import Base.PyStr Base.Value Path.PathModel.
Local Open Scope N_scope.

Inductive tout (A : Type) := TDone (x : A) | TRaises | TUnsup.
Arguments TDone {A}.
Arguments TRaises {A}.
Arguments TUnsup {A}.

Definition tret {A} (x : A) : tout A := TDone x.
Definition tbind {A B} (m : tout A) (f : A -> tout B) : tout B :=
  match m with
  | TDone x => f x
  | TRaises => TRaises
  | TUnsup => TUnsup
  end.
(* a and b, for operands that can raise (b is not looked at when a is false) *)
Definition tand (a b : tout bool) : tout bool := tbind a (fun x => if x then b else tret false).

(* for char in s: ... over the tuple of the variables the loop body assigns *)
Fixpoint tfold {S A} (f : S -> A -> tout S) (l : list A) (s : S) : tout S :=
  match l with
  | [] => tret s
  | x :: r => tbind (f s x) (fun s' => tfold f r s')
  end.

(* the oracle for ast.literal_eval(text) inside try: ... except (ValueError, SyntaxError): *)
Inductive leres (V : Type) :=
| LeOk (v : V)        (* a value *)
| LeCaught            (* ValueError / SyntaxError *)
| LeRaises            (* any other exception *)
| LeUnsup.            (* the text is outside the oracle's model *)
Arguments LeOk {V}.
Arguments LeCaught {V}.
Arguments LeRaises {V}.
Arguments LeUnsup {V}.

(* a variable that holds a str on some paths and a literal's value on others *)
Inductive dyn (V : Type) := DStr (s : pystr) | DVal (v : V).
Arguments DStr {V}.
Arguments DVal {V}.

(* ---- str / list operations ------------------------------------------------ *)
Definition seq_truthy {A} (s : list A) : bool := match s with [] => false | _ => true end.
Definition opt_truthy {A} (o : option A) : bool := match o with Some _ => true | None => false end.
Definition str_startswith (s p : pystr) : bool := is_prefix p s.

(* s[i]; IndexError raises *)
Definition seq_get {A} (d : A) (s : list A) (i : Z) : tout A :=
  let n := Z.of_nat (List.length s) in
  let j := if Z.ltb i 0 then (i + n)%Z else i in
  if Z.ltb j 0 || Z.leb n j then TRaises else TDone (nth (Z.to_nat j) s d).
Definition str_get (s : pystr) (i : Z) : tout N := seq_get 0 s i.
Definition lst_get (s : list pystr) (i : Z) : tout pystr := seq_get [] s i.

(* s[lo:hi] (step 1); never raises *)
Definition clamp_idx (n i : Z) : Z :=
  let j := if Z.ltb i 0 then (i + n)%Z else i in Z.max 0 (Z.min n j).
Definition seq_slice {A} (s : list A) (lo hi : option Z) : list A :=
  let n := Z.of_nat (List.length s) in
  let a := match lo with Some i => clamp_idx n i | None => 0%Z end in
  let b := match hi with Some i => clamp_idx n i | None => n end in
  firstn (Z.to_nat (b - a)) (skipn (Z.to_nat a) s).

(* l.pop(); IndexError on the empty list raises *)
Definition lst_pop {A} (l : list A) : tout (list A) :=
  match l with [] => TRaises | _ => TDone (removelast l) end.

(* x == 'c' for x : None | one-character str;  x == 's' for x : False | str *)
Definition optchr_eqb (o : option N) (c : N) : bool := match o with Some x => x =? c | None => false end.
Definition optstr_eqb (o : option pystr) (s : pystr) : bool := match o with Some x => pystr_eqb x s | None => false end.

(* ---- operations on a [dyn] ------------------------------------------------- *)
(* indexing / slicing the value of a literal is outside the translated model *)
Definition dyn_get {V} (d : dyn V) (i : Z) : tout N :=
  match d with DStr s => str_get s i | DVal _ => TUnsup end.
Definition dyn_slice {V} (d : dyn V) (lo hi : option Z) : tout (dyn V) :=
  match d with DStr s => TDone (DStr (seq_slice s lo hi)) | DVal _ => TUnsup end.
(* the object itself: a str is a value *)
Definition dyn_val {V} (VStr : pystr -> V) (d : dyn V) : V :=
  match d with DStr s => VStr s | DVal v => v end.

(* None in a list of elements is outside the translated model *)
Definition opt_val {A} (o : option A) : tout A := match o with Some x => TDone x | None => TUnsup end.

(* quote_str.format(param) for a quote_str "<a>{}<b>" *)
Definition fmt_apply (q : pystr * pystr) (s : pystr) : pystr := fst q ++ s ++ snd q.
(* None.format raises AttributeError *)
Definition fmt_format (q : quote_fmt) (s : pystr) : tout pystr :=
  match q with Some p => TDone (fmt_apply p s) | None => TRaises end.

(* ---- the two hand models' literal_eval as oracles -------------------------- *)
Definition le_of_lit (l : lit) : leres atom :=
  match l with LOk a => LeOk a | LFail => LeCaught | LUnsup => LeUnsup end.
Definition LEh (e : pystr) : leres atom := le_of_lit (literal_eval e).

Definition tout_of_option {A} (o : option A) : tout A := match o with Some x => TDone x | None => TUnsup end.

(* ---- bounded-exhaustive search for an argument on which two parsers differ (used by the hook
        on_source_tie_break of harness/props/c09.py when an equivalence proof no longer checks) ---- *)
(* the first string pre ++ w, w of length exactly n over alpha, on which diff holds *)
Fixpoint search_len (diff : pystr -> bool) (alpha : list N) (n : nat) (pre : pystr) : option pystr :=
  match n with
  | O => if diff pre then Some pre else None
  | S k => (fix go (l : list N) : option pystr :=
              match l with
              | [] => None
              | c :: r => match search_len diff alpha k (pre ++ [c]) with
                          | Some x => Some x
                          | None => go r
                          end
              end) alpha
  end.
(* ... w of length 0, 1, ..., n (shortest first) *)
Fixpoint search_upto (diff : pystr -> bool) (alpha : list N) (fuel n : nat) (pre : pystr) : option pystr :=
  match fuel with
  | O => None
  | S f => match search_len diff alpha (n - f) pre with
           | Some x => Some x
           | None => search_upto diff alpha f n pre
           end
  end.
Definition search (diff : pystr -> bool) (alpha : list N) (n : nat) (pre : pystr) : option pystr :=
  search_upto diff alpha (S n) n pre.
Fixpoint indexes_where {A} (p : A -> bool) (i : nat) (l : list A) : list nat :=
  match l with
  | [] => []
  | x :: r => if p x then i :: indexes_where p (S i) r else indexes_where p (S i) r
  end.

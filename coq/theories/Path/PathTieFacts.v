(** C09 - facts about the primitive operations of Path/PathTie.v and about the hand-written parser
    (Path/PathModel.v, Path/PathXModel.v) that the source-tie proofs (coq/srctie/PathGenEquiv.v) use.
    Nothing here mentions generated text. *)
From Coq Require Import List ZArith NArith Bool Lia.
Import ListNotations.
From DD Require Import Base.PyStr Base.Value Path.PathModel Path.PathTie.
Local Open Scope N_scope.

(* ---- indexing / slicing ------------------------------------------------------------------ *)
Lemma seq_get_0 {A} (d c : A) (r : list A) : seq_get d (c :: r) 0%Z = TDone c.
Proof. reflexivity. Qed.

Lemma nth_last {A} (d : A) (l : list A) : nth (Nat.pred (List.length l)) l d = last l d.
Proof.
  induction l as [|x l IH]; [reflexivity|].
  destruct l as [|y l]; [reflexivity|]. exact IH.
Qed.

Lemma seq_get_m1 {A} (d c : A) (r : list A) : seq_get d (c :: r) (-1)%Z = TDone (last (c :: r) d).
Proof.
  unfold seq_get.
  set (n := Z.of_nat (List.length (c :: r))).
  assert (Hn : (1 <= n)%Z) by (unfold n; cbn [List.length]; lia).
  replace (Z.ltb (-1) 0) with true by reflexivity.
  replace (Z.ltb (-1 + n) 0 || Z.leb n (-1 + n))%bool with false
    by (symmetry; apply orb_false_iff; split; [apply Z.ltb_ge|apply Z.leb_gt]; lia).
  f_equal. rewrite <- nth_last. f_equal. unfold n. cbn [List.length]. lia.
Qed.

Lemma str_get_0 (c : N) (r : pystr) : str_get (c :: r) 0%Z = TDone c.
Proof. reflexivity. Qed.
Lemma str_get_m1 (c : N) (r : pystr) : str_get (c :: r) (-1)%Z = TDone (last (c :: r) 0).
Proof. apply seq_get_m1. Qed.
Lemma lst_get_m1 (c : pystr) (r : list pystr) : lst_get (c :: r) (-1)%Z = TDone (last (c :: r) []).
Proof. apply seq_get_m1. Qed.

Lemma seq_slice_from {A} (s : list A) (k : nat) : seq_slice s (Some (Z.of_nat k)) None = skipn k s.
Proof.
  unfold seq_slice, clamp_idx.
  set (n := List.length s).
  replace (Z.ltb (Z.of_nat k) 0) with false by (symmetry; apply Z.ltb_ge; lia).
  destruct (Nat.le_gt_cases k n) as [H|H].
  - rewrite Z.min_r by lia. rewrite Z.max_r by lia. rewrite Nat2Z.id.
    rewrite firstn_all2; [reflexivity|]. rewrite skipn_length. fold n. lia.
  - rewrite Z.min_l by lia. rewrite Z.max_r by lia. rewrite Z.sub_diag. cbn [Z.to_nat firstn].
    symmetry. apply skipn_all2. fold n. lia.
Qed.
Lemma seq_slice_4 {A} (s : list A) : seq_slice s (Some 4%Z) None = skipn 4 s.
Proof. exact (seq_slice_from s 4). Qed.

Lemma seq_slice_1_m1 {A} (c : A) (r : list A) : seq_slice (c :: r) (Some 1%Z) (Some (-1)%Z) = removelast r.
Proof.
  unfold seq_slice, clamp_idx.
  set (n := Z.of_nat (List.length (c :: r))).
  assert (Hn : n = (Z.of_nat (List.length r) + 1)%Z) by (unfold n; cbn [List.length]; lia).
  replace (Z.ltb 1 0) with false by reflexivity. replace (Z.ltb (-1) 0) with true by reflexivity.
  rewrite (Z.min_r n 1) by lia. rewrite (Z.max_r 0 1) by lia.
  rewrite (Z.min_r n (-1 + n)) by lia. rewrite (Z.max_r 0 (-1 + n)) by lia.
  change (Z.to_nat 1) with 1%nat. cbn [skipn].
  replace (Z.to_nat (-1 + n - 1)) with (Nat.pred (List.length r)) by lia.
  symmetry. apply removelast_firstn_len.
Qed.

(* ---- the stack of brackets ----------------------------------------------------------------- *)
Lemma Forall_last {A} (P : A -> Prop) (d : A) (l : list A) : Forall P l -> l <> [] -> P (last l d).
Proof.
  induction l as [|x l IH]; intros HF HN; [congruence|].
  destruct l as [|y l]; [now inversion HF|]. apply IH; [now inversion HF|discriminate].
Qed.
Lemma Forall_removelast {A} (P : A -> Prop) (l : list A) : Forall P l -> Forall P (removelast l).
Proof.
  induction l as [|x l IH]; intros HF; [constructor|].
  destruct l as [|y l]; [constructor|]. inversion HF; subst. constructor; [assumption|]. now apply IH.
Qed.
Lemma removelast_length {A} (l : list A) : List.length (removelast l) = Nat.pred (List.length l).
Proof.
  induction l as [|x l IH]; [reflexivity|]. destruct l as [|y l]; [reflexivity|].
  change (removelast (x :: y :: l)) with (x :: removelast (y :: l)). cbn [List.length] in *. now rewrite IH.
Qed.

Definition all_lb (br : list pystr) : Prop := Forall (fun b => b = [91]) br.

(* `brackets and brackets[-1] == '['` *)
Lemma brackets_top (br : list pystr) : all_lb br ->
  tand (tret (seq_truthy br)) (tbind (lst_get br (-1)%Z) (fun x => tret (pystr_eqb x [91]))) = TDone (seq_truthy br).
Proof.
  intros H. destruct br as [|b r]; [reflexivity|].
  unfold tand, tret. cbn [seq_truthy tbind]. rewrite lst_get_m1. cbn [tbind].
  rewrite (Forall_last _ [] (b :: r) H) by discriminate. reflexivity.
Qed.

(* ---- the hand-written parser: the flag "left the model" is sticky, elements are only appended to ---- *)
Lemma with_add_bad els elem inside : snd (with_add els elem inside true) = true.
Proof. unfold with_add. now destruct (add_to_elements els elem inside). Qed.

Lemma step_bad (st : pst) (c : N) : p_bad st = true -> p_bad (step st c) = true.
Proof.
  destruct st as [els elem inside prev br inq quote bad]. cbn [p_bad]. intros ->.
  unfold step.
  repeat match goal with
  | |- context [with_add ?a ?b ?c true] =>
      let H := fresh "H" in
      pose proof (with_add_bad a b c) as H; destruct (with_add a b c true); cbn [snd] in H; subst
  end.
  repeat match goal with
  | |- context [if ?b then _ else _] => destruct b
  | |- context [match ?i with INone => _ | IBr => _ | IDot => _ end] => destruct i
  | |- context [match Nat.pred ?n with O => _ | S _ => _ end] => destruct (Nat.pred n)
  end; reflexivity.
Qed.

Lemma run_bad (s : pystr) : forall st, p_bad st = true -> p_bad (run st s) = true.
Proof.
  induction s as [|c s IH]; intros st H; [exact H|].
  change (run st (c :: s)) with (run (step st c) s). apply IH. now apply step_bad.
Qed.

Lemma finish_bad (st : pst) : p_bad st = true -> finish st = None.
Proof.
  intros H. unfold finish. rewrite H.
  pose proof (with_add_bad (p_els st) (p_elem st) (p_inside st)) as HB.
  destruct (with_add (p_els st) (p_elem st) (p_inside st) true). cbn [snd] in HB. now subst.
Qed.

(** Proofs about the command line tool over all file types (Cli/FormatModel.v). *)
From Coq Require Import List Bool NArith String Lia.
Import ListNotations.
From DD Require Import Base.Sx Base.PyStr Cli.FsModel Cli.FsProofs Cli.GenModel Cli.GenProofs Cli.FormatModel.

(** ** The extension of a path *)
Lemma has_dot_app : forall p q, has_dot (p ++ q) = has_dot p || has_dot q.
Proof. intros; unfold has_dot; apply existsb_app. Qed.

(** [path.split('.')[-1]]: a path that ends in ".e", e without a dot, has extension e *)
Lemma ext_of_app : forall p e, has_dot e = false -> ext_of (p ++ DOT :: e) = e.
Proof.
  intros p e He. induction p as [|c p IH]; cbn [app ext_of].
  - rewrite He. reflexivity.
  - rewrite has_dot_app. cbn [has_dot existsb]. rewrite N.eqb_refl, orb_true_r. cbn. exact IH.
Qed.

(** without a dot the extension is the whole path *)
Lemma ext_of_nodot : forall p, has_dot p = false -> ext_of p = p.
Proof.
  intros [|c r] H; [reflexivity|]. cbn [ext_of]. unfold has_dot in H. cbn [existsb] in H.
  apply orb_false_iff in H as [H1 H2]. unfold has_dot. rewrite H2, N.eqb_sym, H1. reflexivity.
Qed.

(** the extension never contains a dot *)
Lemma ext_of_nodot_result : forall p, has_dot (ext_of p) = false.
Proof.
  induction p as [|c r IH]; [reflexivity|]. cbn [ext_of].
  destruct (has_dot r) eqn:Hr; [exact IH|].
  destruct (N.eqb c DOT) eqn:Hc; [exact Hr|].
  unfold has_dot in *. cbn [existsb]. rewrite N.eqb_sym, Hc, Hr. reflexivity.
Qed.

(** the dispatch: exactly the eight spellings *)
Lemma fmt_of_ext_cases : forall e fm,
    fmt_of_ext e = Some fm <->
    match fm with
    | FJson => e = EXT_JSON
    | FYaml => e = EXT_YAML \/ e = EXT_YML
    | FToml => e = EXT_TOML
    | FPickle => e = EXT_PICKLE
    | FCsv => e = EXT_CSV \/ e = EXT_TSV
    end.
Proof.
  intros e fm. unfold fmt_of_ext.
  assert (Heq : forall t, pystr_eqb e t = true <-> e = t).
  { intro t. unfold pystr_eqb. split.
    - revert t. induction e as [|x e IH]; intros [|y t] H; try discriminate; [reflexivity|].
      cbn in H. apply andb_true_iff in H as [H1 H2]. apply N.eqb_eq in H1. subst. f_equal. apply IH; exact H2.
    - intros <-. induction e as [|x e IH]; [reflexivity|]. cbn. rewrite N.eqb_refl. exact IH. }
  destruct (pystr_eqb e EXT_JSON) eqn:E1.
  { apply Heq in E1. subst e. destruct fm; split; intro H; try discriminate; try reflexivity;
      try (destruct H; discriminate). }
  destruct (pystr_eqb e EXT_YAML) eqn:E2.
  { apply Heq in E2. subst e. destruct fm; split; intro H; try discriminate; try reflexivity; auto;
      try (destruct H; discriminate). }
  destruct (pystr_eqb e EXT_YML) eqn:E3.
  { apply Heq in E3. subst e. destruct fm; split; intro H; try discriminate; try reflexivity; auto;
      try (destruct H; discriminate). }
  destruct (pystr_eqb e EXT_TOML) eqn:E4.
  { apply Heq in E4. subst e. destruct fm; split; intro H; try discriminate; try reflexivity; auto;
      try (destruct H; discriminate). }
  destruct (pystr_eqb e EXT_PICKLE) eqn:E5.
  { apply Heq in E5. subst e. destruct fm; split; intro H; try discriminate; try reflexivity; auto;
      try (destruct H; discriminate). }
  destruct (pystr_eqb e EXT_CSV) eqn:E6.
  { apply Heq in E6. subst e. destruct fm; split; intro H; try discriminate; try reflexivity; auto;
      try (destruct H; discriminate). }
  destruct (pystr_eqb e EXT_TSV) eqn:E7.
  { apply Heq in E7. subst e. destruct fm; split; intro H; try discriminate; try reflexivity; auto;
      try (destruct H; discriminate). }
  cbn. split; [discriminate|].
  assert (Hn : forall t, pystr_eqb e t = false -> e <> t).
  { intros t Hf Ht. apply Heq in Ht. congruence. }
  destruct fm; intro H; repeat (destruct H as [H|H]); exfalso;
    first [ exact (Hn _ E1 H) | exact (Hn _ E2 H) | exact (Hn _ E3 H) | exact (Hn _ E4 H)
          | exact (Hn _ E5 H) | exact (Hn _ E6 H) | exact (Hn _ E7 H) ].
Qed.

Example ex_dispatch :
  fmt_of_path (s2p "/tmp/x/a.json") = Some FJson /\
  fmt_of_path (s2p "/tmp/x/a.tar.yml") = Some FYaml /\
  fmt_of_path (s2p "b.tsv") = Some FCsv /\
  fmt_of_path (s2p "b.pickle") = Some FPickle /\
  fmt_of_path (s2p "b.JSON") = None /\
  fmt_of_path (s2p "json") = Some FJson /\            (* no dot: the whole path is the "extension" *)
  fmt_of_path (s2p "/tmp/v1.json/data") = None /\     (* the last dot is in a directory name *)
  fmt_of_path (s2p "a.json.bak") = None.
Proof. vm_compute. repeat split. Qed.

Section FormatProofs.
  Variable X : Type.
  Notation content := (content X).
  Notation fs := (fs X).
  Notation schedule := (schedule X).
  Notation fault := (fault X).
  Variables doc delta : Type.
  Variable parse : fmt -> content -> option doc.
  Variable dump : fmt -> doc -> option content.
  Variable can_load can_save : fmt -> bool.
  Variable pickle : delta -> content.
  Variable unpickle : content -> option delta.
  Variable mk_delta : doc -> doc -> delta.
  Variable apply_delta : delta -> doc -> doc.

  Notation load_g := (load_g parse can_load).
  Notation diff_cmd_g := (diff_cmd_g parse can_load pickle mk_delta).
  Notation patch_cmd_g := (patch_cmd_g parse dump can_load can_save unpickle apply_delta).

  (** `deep patch` on a file that does not load (unknown extension, parser module
      missing, unreadable content) touches nothing *)
  Theorem patch_g_unloadable_untouched :
    forall ev keep A P (sch : schedule) (f : fs),
      load_g f A = None ->
      exists k s, patch_cmd_g ev keep A P sch f = (f, Raised k s) /\ (s = SLoadDelta \/ s = SLoadDoc).
  Proof.
    intros ev keep A P sch f H. unfold FormatModel.patch_cmd_g.
    destruct (sch SLoadDelta) as [ft|]; [eauto|].
    destruct (match f P with Some c => unpickle c | None => None end); [|eauto].
    destruct (sch SLoadDoc) as [ft|]; [eauto|].
    rewrite H. eauto.
  Qed.

  (** nothing before the save path touches the file system *)
  Lemma patch_g_presave :
    forall ev keep A P (sch : schedule) (f : fs),
      (exists k s, patch_cmd_g ev keep A P sch f = (f, Raised k s) /\ (s = SLoadDelta \/ s = SLoadDoc \/ s = SApply)) \/
      (exists dl a, (match f P with Some c => unpickle c | None => None end) = Some dl /\ load_g f A = Some a /\
                    patch_cmd_g ev keep A P sch f =
                    save_g (shape_of can_save (fmt_of_path A)) ev keep
                           (match fmt_of_path A with Some fm => dump fm (apply_delta dl a) | None => None end) A sch f).
  Proof.
    intros ev keep A P sch f. unfold FormatModel.patch_cmd_g.
    destruct (sch SLoadDelta) as [ft|]; [left; eauto 6|].
    destruct (match f P with Some c => unpickle c | None => None end) as [dl|]; [|left; eauto 6].
    destruct (sch SLoadDoc) as [ft|]; [left; eauto 7|].
    destruct (load_g f A) as [a|]; [|left; eauto 7].
    destruct (sch SApply) as [ft|]; [left; eauto 8|].
    right. exists dl, a. auto.
  Qed.

  Section RoundTrip.
    (* property C01: the delta of (a, b) applied to a gives b *)
    Hypothesis C01_delta_reproduces : forall a b, apply_delta (mk_delta a b) a = b.
    (* property C14: a persisted delta is the same delta *)
    Hypothesis C14_pickle_roundtrip : forall d, unpickle (pickle d) = Some d.

    (** deep diff A B --create-patch > P ; deep patch A P [--backup], no failure, A
        of ANY supported file type whose modules are present (B of any loadable
        type, not necessarily the same): the command completes, A holds the
        serialisation [cb'] of B's document in A's format, and what A now loads
        as is EXACTLY what A's loader makes of that text. *)
    Theorem patch_reproduces_g :
      forall ev keep A B P (f : fs) fa ca a b pd cb',
        fmt_of_path A = Some fa -> can_load fa = true -> can_save fa = true ->
        f A = Some ca -> parse fa ca = Some a -> load_g f B = Some b ->
        P <> A -> P <> bak A ->
        diff_cmd_g A B f = Some pd ->
        dump fa b = Some cb' ->
        exists f', patch_cmd_g ev keep A P no_fault (upd P (Some pd) f) = (f', Done) /\
                   load_g f' A = parse fa cb' /\
                   f' A = Some cb' /\
                   f' (bak A) = (if keep then Some ca else None) /\
                   (forall q, q <> A -> q <> bak A -> q <> P -> f' q = f q).
    Proof.
      intros ev keep A B P f fa ca a b pd cb' Hfa Hcl Hcs HA Hpa HB HPA HPb Hdiff Hdump.
      assert (HlA : load_g f A = Some a).
      { unfold FormatModel.load_g. rewrite Hfa, Hcl, HA. exact Hpa. }
      unfold FormatModel.diff_cmd_g in Hdiff. rewrite HlA, HB in Hdiff. inversion Hdiff; subst pd; clear Hdiff.
      set (f1 := upd P (Some (pickle (mk_delta a b))) f).
      assert (H1A : f1 A = Some ca).
      { unfold f1, upd. destruct (path_eq_dec A P); [congruence | exact HA]. }
      assert (H1P : f1 P = Some (pickle (mk_delta a b))).
      { unfold f1, upd. destruct (path_eq_dec P P); congruence. }
      assert (Hl1 : load_g f1 A = Some a).
      { unfold FormatModel.load_g. rewrite Hfa, Hcl, H1A. exact Hpa. }
      unfold FormatModel.patch_cmd_g, no_fault.
      rewrite H1P, C14_pickle_roundtrip, Hl1, Hfa, C01_delta_reproduces, Hdump.
      assert (Hsh : shape_of can_save (Some fa) <> ShNone).
      { cbn. rewrite Hcs. destruct fa; discriminate. }
      destruct (save_g_success X (shape_of can_save (Some fa)) ev keep cb' A f1 ca Hsh H1A) as [f' [Hs [HfA [Hfb Hfr]]]].
      unfold no_fault in Hs.
      exists f'. split; [exact Hs|]. repeat split; auto.
      - unfold FormatModel.load_g. rewrite Hfa, Hcl, HfA. reflexivity.
      - intros q HqA Hqb HqP. rewrite (Hfr q HqA Hqb). unfold f1, upd.
        destruct (path_eq_dec q P); congruence.
    Qed.

    (** hence: for every file type whose codec round-trips the document
        ([parse (dump b) = b]), diff -> patch reproduces it; and ONLY then *)
    Corollary patch_reproduces_iff_codec_roundtrips :
      forall ev keep A B P (f : fs) fa ca a b pd cb',
        fmt_of_path A = Some fa -> can_load fa = true -> can_save fa = true ->
        f A = Some ca -> parse fa ca = Some a -> load_g f B = Some b ->
        P <> A -> P <> bak A ->
        diff_cmd_g A B f = Some pd ->
        dump fa b = Some cb' ->
        exists f', patch_cmd_g ev keep A P no_fault (upd P (Some pd) f) = (f', Done) /\
                   (load_g f' A = Some b <-> parse fa cb' = Some b).
    Proof.
      intros ev keep A B P f fa ca a b pd cb' Hfa Hcl Hcs HA Hpa HB HPA HPb Hdiff Hdump.
      destruct (patch_reproduces_g ev keep A B P f fa ca a b pd cb' Hfa Hcl Hcs HA Hpa HB HPA HPb Hdiff Hdump)
        as [f' [Hs [Hl _]]].
      exists f'. split; [exact Hs|]. rewrite Hl. tauto.
    Qed.

    (** the serialiser of A's format rejects B's document (csv: an empty list;
        toml: a None; json: a complex number from a csv file...): `deep patch`
        fails and A keeps its bytes *)
    Theorem patch_g_unserialisable_restores :
      forall ev keep A B P (f : fs) fa ca a b pd,
        fmt_of_path A = Some fa -> can_load fa = true -> can_save fa = true ->
        f A = Some ca -> parse fa ca = Some a -> load_g f B = Some b ->
        P <> A -> P <> bak A -> f (bak A) = None ->
        diff_cmd_g A B f = Some pd ->
        dump fa b = None ->
        exists f', patch_cmd_g ev keep A P no_fault (upd P (Some pd) f) = (f', Raised KExc SDumps) /\
                   f' A = Some ca /\ f' (bak A) = None /\
                   (forall q, q <> A -> q <> bak A -> q <> P -> f' q = f q).
    Proof.
      intros ev keep A B P f fa ca a b pd Hfa Hcl Hcs HA Hpa HB HPA HPb Hbak Hdiff Hdump.
      assert (HlA : load_g f A = Some a).
      { unfold FormatModel.load_g. rewrite Hfa, Hcl, HA. exact Hpa. }
      unfold FormatModel.diff_cmd_g in Hdiff. rewrite HlA, HB in Hdiff. inversion Hdiff; subst pd; clear Hdiff.
      set (f1 := upd P (Some (pickle (mk_delta a b))) f).
      assert (H1A : f1 A = Some ca).
      { unfold f1, upd. destruct (path_eq_dec A P); [congruence | exact HA]. }
      assert (H1b : f1 (bak A) = None).
      { unfold f1, upd. destruct (path_eq_dec (bak A) P); [congruence | exact Hbak]. }
      assert (H1P : f1 P = Some (pickle (mk_delta a b))).
      { unfold f1, upd. destruct (path_eq_dec P P); congruence. }
      assert (Hl1 : load_g f1 A = Some a).
      { unfold FormatModel.load_g. rewrite Hfa, Hcl, H1A. exact Hpa. }
      unfold FormatModel.patch_cmd_g, no_fault.
      rewrite H1P, C14_pickle_roundtrip, Hl1, Hfa, C01_delta_reproduces, Hdump.
      destruct (save_g (shape_of can_save (Some fa)) ev keep None A (fun _ => None) f1) as [f' o] eqn:Es.
      assert (Ho : o = Raised KExc SDumps /\ view X A f' = (Some ca, None)).
      { destruct (final_transfer X _ _ _ _ _ _ _ _ _ Es) as [es2 [H2 _]]. rewrite H1A, H1b in H2.
        revert H2. cbn [shape_of]. rewrite Hcs.
        unfold save_tr2, save_trP, body_tr, inner_tr, close_tr, write_tr, ren_entries, dumps_at, dumps_res.
        destruct ev as [at_ en em ep [dd|] [|]]; destruct fa, keep; cbn; intro H2; inversion H2; (split; [reflexivity | congruence]). }
      destruct Ho as [-> Hv]. unfold view in Hv. inversion Hv.
      destruct (final_transfer X _ _ _ _ _ _ _ _ _ Es) as [_ [_ Hfr]].
      exists f'. repeat split; auto.
      intros q HqA Hqb HqP. rewrite (Hfr q HqA Hqb). unfold f1, upd.
      destruct (path_eq_dec q P); congruence.
    Qed.
  End RoundTrip.

  (** one Exception anywhere in `deep patch`, for every file type: A keeps its
      bytes, no A.bak appears, the failure is reported *)
  Theorem patch_g_single_fault_restores :
    forall ev keep debug A P (f : fs) fa ca a dl cnew k (ft : fault),
      fmt_of_path A = Some fa -> can_load fa = true -> can_save fa = true ->
      f A = Some ca -> parse fa ca = Some a ->
      (match f P with Some c => unpickle c | None => None end) = Some dl ->
      dump fa (apply_delta dl a) = Some cnew ->
      f (bak A) = None ->
      (write_step k = true \/ k = SLoadDelta \/ k = SLoadDoc \/ k = SApply) ->
      fkind ft = KExc ->
      exists f', patch_cmd_g ev keep A P (single k ft) f = (f', Raised KExc k) /\
                 f' A = Some ca /\ f' (bak A) = None /\
                 (forall q, q <> A -> q <> bak A -> f' q = f q) /\
                 cli_report debug (Raised KExc k) <> CExit 0.
  Proof.
    intros ev keep debug A P f fa ca a dl cnew k [kk d] Hfa Hcl Hcs HA Hpa HP Hdump Hbak Hk Hkind.
    cbn in Hkind; subst kk.
    assert (Hrep : cli_report debug (Raised KExc k) <> CExit 0).
    { destruct k, debug; cbn; discriminate. }
    assert (HlA : load_g f A = Some a).
    { unfold FormatModel.load_g. rewrite Hfa, Hcl, HA. exact Hpa. }
    unfold FormatModel.patch_cmd_g.
    destruct Hk as [Hk|[Hk|[Hk|Hk]]].
    - rewrite !single_other by (intro; subst k; discriminate).
      rewrite HP, HlA, Hfa, Hdump.
      assert (Hsh : shape_of can_save (Some fa) <> ShNone).
      { cbn. rewrite Hcs. destruct fa; discriminate. }
      destruct (save_g_single_fault_restores X _ ev keep cnew A f ca k (mkFault KExc d) Hsh HA Hk eq_refl)
        as [f' [Hs [HfA [_ [Hfb Hfr]]]]].
      exists f'. repeat split; auto.
    - subst k. rewrite single_same. cbn. exists f. repeat split; auto.
    - subst k. rewrite single_other by discriminate. rewrite HP, single_same. cbn.
      exists f. repeat split; auto.
    - subst k. rewrite single_other by discriminate. rewrite HP.
      rewrite single_other by discriminate. rewrite HlA, single_same. cbn.
      exists f. repeat split; auto.
  Qed.

  (** on a .json path with the json modules present (they always are) and the
      plain environment, [patch_cmd_g] is FsModel.patch_cmd with the json codec *)
  Theorem patch_cmd_g_json :
    forall keep A P (sch : schedule) (f : fs),
      fmt_of_path A = Some FJson -> can_load FJson = true -> can_save FJson = true ->
      snd (patch_cmd_g env0 keep A P sch f) =
      snd (patch_cmd (parse FJson) (dump FJson) unpickle apply_delta DInside keep A P sch f) /\
      forall q, fst (patch_cmd_g env0 keep A P sch f) q =
                fst (patch_cmd (parse FJson) (dump FJson) unpickle apply_delta DInside keep A P sch f) q.
  Proof.
    intros keep A P sch f Hfa Hcl Hcs.
    unfold FormatModel.patch_cmd_g, patch_cmd, FormatModel.load_g, load. rewrite Hfa, Hcl.
    destruct (sch SLoadDelta); [split; reflexivity|].
    destruct (match f P with Some c => unpickle c | None => None end); [|split; reflexivity].
    destruct (sch SLoadDoc); [split; reflexivity|].
    destruct (f A) as [ca|]; [|split; reflexivity].
    destruct (parse FJson ca) as [a|]; [|split; reflexivity].
    destruct (sch SApply); [split; reflexivity|].
    cbn [shape_of]. rewrite Hcs. apply save_g_json.
  Qed.
End FormatProofs.

(** ** The round-trip hypothesis cannot be dropped: a codec that forgets types
    (csv: every cell comes back as the number it looks like) - every other
    premise holds, the command completes, and A does not load as B's document *)
Definition tx_parse (fm : fmt) (c : list N) : option N := match c with [n] => Some n | _ => None end.
Definition tx_dump (fm : fmt) (d : N) : option (list N) :=
  Some [match fm with FCsv => N.div d 10 | _ => d end].          (* csv drops the last digit *)
Definition tx_mk (a b : N) : N := b.                                (* the "delta" is the target document *)
Definition tx_apply (d a : N) : N := d.
Definition tx_pickle (d : N) : list N := [d; 1000%N].
Definition tx_unpickle (c : list N) : option N := match c with [d; 1000%N] => Some d | _ => None end.

Theorem codec_roundtrip_needed_refuted :
  exists (A B P : path) (f : fs N) (b : N) (pd : list N),
    (forall a b0 : N, tx_apply (tx_mk a b0) a = b0) /\
    (forall d : N, tx_unpickle (tx_pickle d) = Some d) /\
    fmt_of_path A = Some FCsv /\
    load_g tx_parse (fun _ => true) f B = Some b /\
    diff_cmd_g tx_parse (fun _ => true) tx_pickle tx_mk A B f = Some pd /\
    snd (patch_cmd_g tx_parse tx_dump (fun _ => true) (fun _ => true) tx_unpickle tx_apply
                     env0 false A P no_fault (upd P (Some pd) f)) = Done /\
    load_g tx_parse (fun _ => true)
           (fst (patch_cmd_g tx_parse tx_dump (fun _ => true) (fun _ => true) tx_unpickle tx_apply
                             env0 false A P no_fault (upd P (Some pd) f))) A <> Some b.
Proof.
  exists (s2p "a.csv"), (s2p "b.json"), (s2p "d.pickle"),
         (upd (s2p "a.csv") (Some [1%N]) (upd (s2p "b.json") (Some [57%N]) (fun _ => None))),
         57%N, [57%N; 1000%N].
  split; [reflexivity|]. split; [reflexivity|].
  repeat split; try (vm_compute; reflexivity). vm_compute. discriminate.
Qed.

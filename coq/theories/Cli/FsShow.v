(** Correspondence-side functions for C20 (no theorem depends on this file):
    the model instantiated with integer file contents and a toy document
    universe, rendered to [sx].

    Contents are lists of integers chosen by the harness: [] is the empty
    file, [n] (n > 0) a file in its original formatting that loads as document
    n, [n; n] the canonical serialisation of document n, anything else does
    not load.  A delta is the pair (document it was made from, document the
    implementation's [delta + content] actually produced): the result of
    delta application is an oracle value recorded from the implementation;
    that it equals the second document is property C01, checked by the direct
    oracle, not by the correspondence. *)
From Coq Require Import List Bool ZArith NArith String.
Import ListNotations.
From DD Require Import Base.Sx Base.PyStr Cli.FsModel.
Local Open Scope string_scope.

Definition zc := list Z.

Definition sx_content (c : zc) : sx := sx_list SZ c.
Definition sx_file (o : option zc) : sx := sx_opt sx_content o.
Definition step_name (s : step) : string :=
  match s with
  | SLoadDelta => "load_delta" | SLoadDoc => "load_doc" | SApply => "apply"
  | SBackup => "backup" | SOpen => "open" | SDumps => "dumps" | SWrite => "write"
  | SClose => "close" | SRestore => "restore" | SRemove => "remove"
  end.
Definition sx_outcome (o : outcome) : sx :=
  match o with
  | Done => SL [SA "done"]
  | Raised k s => SL [SA "raised"; SA (match k with KExc => "exc" | KBase => "base" end); SA (step_name s)]
  end.
Definition sx_cli (r : cli_result) : sx :=
  match r with
  | CExit n => SL [SA "exit"; sx_nat n]
  | CExc s => SL [SA "exc"; SA (step_name s)]
  end.

Definition pA : path := s2p "a.json".
Definition pB : path := s2p "b.json".
Definition pP : path := s2p "delta.pickle".

Fixpoint fs_of (l : list (path * zc)) : fs Z :=
  match l with
  | [] => fun _ => None
  | (p, c) :: r => upd p (Some c) (fs_of r)
  end.
Definition opt_file (p : path) (o : option zc) : list (path * zc) :=
  match o with None => [] | Some c => [(p, c)] end.

(* fault constructors for the generated cases *)
Definition fx (d : option zc) : fault Z := mkFault KExc d.
Definition fb (d : option zc) : fault Z := mkFault KBase d.

(** direct call of save_content_to_path: initial A / A.bak (possibly absent),
    new content (None = not serialisable). *)
Definition show_save (pos : dumps_pos) (keep : bool) (a0 b0 : option zc) (new : option zc)
           (sch : list (step * fault Z)) : sx :=
  let f0 := fs_of (opt_file pA a0 ++ opt_file (bak pA) b0 ++ [(pB, [5%Z])]) in
  let '(f, o) := save pos keep new pA (sched_of sch) f0 in
  SL [sx_file (f pA); sx_file (f (bak pA)); sx_file (f pB); sx_outcome o].

(* toy document universe *)
Definition t_parse (c : zc) : option Z :=
  match c with
  | [n] => if (0 <? n)%Z then Some n else None
  | [n; m] => if ((0 <? n) && (n =? m))%Z then Some n else None
  | _ => None
  end.
Definition t_dump (d : Z) : option zc := if (d =? 77)%Z then None else Some [d; d].
Definition t_pickle (dl : Z * Z) : zc := [fst dl; snd dl; 1000%Z].
Definition t_unpickle (c : zc) : option (Z * Z) :=
  match c with [a; r; 1000%Z] => Some (a, r) | _ => None end.
(* the result of DeepDiff+Delta on (a, b) is recorded from the implementation:
   [res] is the document [Delta(DeepDiff(a,b)) + a] evaluates to *)
Definition t_mk (res : Z) (a b : Z) : Z * Z := (a, res).
Definition t_apply (dl : Z * Z) (x : Z) : Z := if (x =? fst dl)%Z then snd dl else x.

(** deep diff A B --create-patch > P ; deep patch A P [--backup] [--debug] *)
Definition show_pipeline (pos : dumps_pos) (keep debug : bool) (a0 bk0 : option zc) (b0 : zc) (res : Z)
           (sch : list (step * fault Z)) : sx :=
  let f0 := fs_of (opt_file pA a0 ++ opt_file (bak pA) bk0 ++ [(pB, b0)]) in
  match diff_cmd t_parse t_pickle (t_mk res) pA pB f0 with
  | None => SL [SA "diff-failed"]
  | Some pd =>
      let f1 := upd pP (Some pd) f0 in
      let '(f, o) := patch_cmd t_parse t_dump t_unpickle t_apply pos keep pA pP (sched_of sch) f1 in
      SL [sx_file (f pA); sx_file (f (bak pA)); sx_file (f pB);
          sx_bool (match f pP with Some c => if list_eq_dec Z.eq_dec c pd then true else false | None => false end);
          sx_cli (cli_report debug o)]
  end.

(** Two concurrent `deep patch` commands (Cli/ConcModel.v): what every
    interleaving ends in.  The domain is finite - two processes, the fixed step
    programs, every merge of their moves - and is swept by computation; the
    enumeration is proved complete. *)
From Coq Require Import List Bool NArith Arith.
Import ListNotations.
From DD Require Import Cli.ConcModel.

Lemma all_lists_complete : forall il, In il (all_lists (length il)).
Proof.
  induction il as [|b r IH]; [left; reflexivity|].
  cbn [length all_lists]. apply in_or_app. destruct b; [right | left]; apply in_map; exact IH.
Qed.

Lemma filter_length_le : forall (f : bool -> bool) l, length (filter f l) <= length l.
Proof. induction l as [|x l IH]; cbn; [auto | destruct (f x); cbn; auto with arith]. Qed.

Lemma count_moves_total : forall il, count_moves false il + count_moves true il = length il.
Proof.
  unfold count_moves. induction il as [|[|] r IH]; cbn; [reflexivity| |]; rewrite <- IH; auto with arith.
Qed.

Lemma balanced_in_all_runs : forall k1 k2 il, balanced k1 k2 il = true -> In il (all_runs k1 k2).
Proof.
  intros k1 k2 il H. unfold all_runs. apply filter_In. split; [|exact H].
  unfold balanced in H. apply andb_true_iff in H as [H1 H2].
  apply Nat.eqb_eq in H1, H2. rewrite <- H1, <- H2, count_moves_total. apply all_lists_complete.
Qed.

Lemma sweep : forall k1 k2, forallb (good_end k1 k2) (all_runs k1 k2) = true.
Proof. intros [|] [|]; vm_compute; reflexivity. Qed.

(** EVERY interleaving of two concurrent `deep patch` commands (each with or
    without --backup) ends with a complete version in A that is built on the
    original and contains at least one of the two updates; A.bak is absent or
    complete; and A contains BOTH updates exactly when the two runs did not
    overlap (one had flushed before the other loaded) *)
Theorem conc_every_interleaving :
  forall k1 k2 il, balanced k1 k2 il = true -> good_end k1 k2 il = true.
Proof.
  intros k1 k2 il H. pose proof (sweep k1 k2) as S. rewrite forallb_forall in S.
  apply S. apply balanced_in_all_runs. exact H.
Qed.

(** lost updates are silent: both commands exit with status 0, the file has only
    one of the two updates (load, load, then the two saves one after the other) *)
Definition il_lost : list bool := [false; true; false; false; false; false; true; true; true; true].
Theorem conc_silent_lost_update :
  balanced false false il_lost = true /\
  (let '(p1, p2, f) := run2 false false il_lost in
   finished p1 = true /\ finished p2 = true /\
   content_of (c_A f) f = Some [2%N; 0%N] /\ content_of (c_bak f) f = None) /\
  silent_loss false false il_lost = true.
Proof. vm_compute. repeat split; reflexivity. Qed.

(** and a command can fail ("Error when saving": its A.bak was removed by the
    other one) although its update is in the file *)
Definition il_alarm : list bool := [false; false; false; false; true; true; false; true; true; true].
Theorem conc_false_alarm :
  balanced false false il_alarm = true /\ serial il_alarm = true /\
  (let '(p1, p2, f) := run2 false false il_alarm in
   p_status p1 = Finished /\ p_status p2 = Failed CRemove /\
   content_of (c_A f) f = Some [2%N; 1%N; 0%N]) /\
  false_alarm false false il_alarm = true.
Proof. vm_compute. repeat split; reflexivity. Qed.

(** how often: of the 252 / 126 / 126 / 70 interleavings (no --backup / one / the
    other / both) the file ends with both updates in 12 / 6 / 6 / 2, an update is
    lost silently in 40 / 30 / 30 / 16, a command fails although its update is in
    the file in 44 / 0 / 0 / 0 *)
Example conc_counts :
  map (fun k : bool * bool =>
         let rs := all_runs (fst k) (snd k) in
         (length rs,
          length (filter (fun il => let '(_, _, f) := run2 (fst k) (snd k) il in
                                    has_tag 1 (content_of (c_A f) f) && has_tag 2 (content_of (c_A f) f)) rs),
          length (filter (silent_loss (fst k) (snd k)) rs),
          length (filter (false_alarm (fst k) (snd k)) rs)))
      [(false, false); (true, false); (false, true); (true, true)]
  = [(252, 12, 40, 44); (126, 6, 30, 0); (126, 6, 30, 0); (70, 2, 16, 0)].
Proof. vm_compute. reflexivity. Qed.

(** Correspondence-side functions for the generalised save path, the crash
    states, the file-type dispatch and histories (no theorem depends on this
    file).  File contents are integer lists chosen by the harness, as in
    Cli/FsShow.v; the document universe is the toy one of that file. *)
From Coq Require Import List Bool ZArith NArith String.
Import ListNotations.
From DD Require Import Base.Sx Base.PyStr Cli.FsModel Cli.FsShow Cli.GenModel Cli.FormatModel Cli.PlaceModel.
Local Open Scope string_scope.

Definition phase_name (ph : phase) : string :=
  match ph with PMid => "mid" | POk => "ok" | PFail => "fail" end.

(* environments built by the harness from what it saw on disk *)
Definition ev_of (atomic : bool) (nat_ mid pend : option zc) (flush : option (option zc)) (late : bool) : env Z :=
  mkEnv atomic nat_ mid pend flush late.

Definition gfs (a0 b0 : option zc) : fs Z :=
  fs_of (opt_file pA a0 ++ opt_file (bak pA) b0 ++ [(pB, [5%Z])]).

Definition sx_state (f : fs Z) : list sx := [sx_file (f pA); sx_file (f (bak pA)); sx_file (f pB)].

(** direct call of save_content_to_path, any branch: final state and outcome *)
Definition show_save_g (sh : shape) (ev : env Z) (keep : bool) (a0 b0 : option zc) (new : option zc)
           (sch : list (step * fault Z)) : sx :=
  let '(f, o) := save_g sh ev keep new pA (sched_of sch) (gfs a0 b0) in
  SL (sx_state f ++ [sx_outcome o]).

(** the labels of the trace (the order in which the program goes through its steps) *)
Definition show_labels (sh : shape) (ev : env Z) (keep : bool) (a0 b0 : option zc) (new : option zc)
           (sch : list (step * fault Z)) : sx :=
  let '(es, _, _) := save_tr sh ev keep new pA (sched_of sch) (gfs a0 b0) in
  SL (map (fun e : entry (fs Z) => SL [SA (step_name (fst (fst e))); SA (phase_name (snd (fst e)))]) es).

(** the file system at the moment step [s] is about to begin (a process killed
    there leaves exactly this) - or, with [mid], while step [s] is in progress;
    "not-reached" when the run never gets to [s] *)
Fixpoint state_before (s : step) (mid : bool) (es : list (entry (fs Z))) (cur : fs Z) : option (fs Z) :=
  match es with
  | [] => None
  | (s', ph, g) :: r =>
      if step_eqb s' s then
        if mid then (match ph with PMid => Some g | _ => None end) else Some cur
      else state_before s mid r g
  end.

Definition show_crash (sh : shape) (ev : env Z) (keep : bool) (a0 b0 : option zc) (new : option zc)
           (sch : list (step * fault Z)) (s : step) (mid : bool) : sx :=
  let f0 := gfs a0 b0 in
  let '(es, _, _) := save_tr sh ev keep new pA (sched_of sch) f0 in
  match state_before s mid es f0 with
  | None => SL [SA "not-reached"]
  | Some g => SL (sx_state g)
  end.

(** the dispatch on the path *)
Definition fmt_name (fm : option fmt) : string :=
  match fm with
  | None => "unsupported" | Some FJson => "json" | Some FYaml => "yaml" | Some FToml => "toml"
  | Some FPickle => "pickle" | Some FCsv => "csv"
  end.
Definition show_fmt (p : pystr) : sx := SL [sx_str (ext_of p); SA (fmt_name (fmt_of_path p))].

(** `deep patch` on a target of any type (toy codec, the same for every type;
    the modules that import are given as lists) *)
Definition fmt_eqb (a b : fmt) : bool :=
  match a, b with FJson, FJson | FYaml, FYaml | FToml, FToml | FPickle, FPickle | FCsv, FCsv => true | _, _ => false end.
Definition mem_fmt (l : list fmt) (fm : fmt) : bool := existsb (fmt_eqb fm) l.

Definition show_patch_g (pathA : pystr) (loadable savable : list fmt) (ev : env Z) (keep debug : bool)
           (a0 bk0 : option zc) (from res : Z) (sch : list (step * fault Z)) : sx :=
  let f0 := fs_of (opt_file pathA a0 ++ opt_file (bak pathA) bk0 ++ [(pP, t_pickle (from, res))]) in
  let '(f, o) := patch_cmd_g (fun _ => t_parse) (fun _ => t_dump) (mem_fmt loadable) (mem_fmt savable)
                             t_unpickle t_apply ev keep pathA pP (sched_of sch) f0 in
  SL [sx_file (f pathA); sx_file (f (bak pathA)); sx_cli (cli_report debug o)].

(** a history of `deep patch` commands on a.json: command i reads its own patch
    file; the state (A, A.bak) and the process result after every command *)
Record hcmd := mkH { h_keep : bool; h_debug : bool; h_from : Z; h_res : Z; h_ev : env Z; h_sch : list (step * fault Z) }.
Definition hpatch (i : nat) : path := (s2p "d" ++ s2p (show_nat i) ++ s2p ".pickle")%list.

Fixpoint hist_files (i : nat) (hs : list hcmd) : list (path * zc) :=
  match hs with
  | [] => []
  | h :: r => (hpatch i, t_pickle (h_from h, h_res h)) :: hist_files (S i) r
  end.
Fixpoint hist_cmds (i : nat) (hs : list hcmd) : list (cmd Z) :=
  match hs with
  | [] => []
  | h :: r => mkCmd (h_ev h) (h_keep h) (hpatch i) (sched_of (h_sch h)) :: hist_cmds (S i) r
  end.
Fixpoint prefixes {T} (l : list T) : list (list T) :=
  match l with
  | [] => []
  | x :: r => [x] :: map (cons x) (prefixes r)
  end.

Definition show_history (a0 bk0 : option zc) (hs : list hcmd) : sx :=
  let f0 := fs_of (opt_file pA a0 ++ opt_file (bak pA) bk0 ++ hist_files 0 hs) in
  let cs := hist_cmds 0 hs in
  SL (map (fun pr : list (cmd Z) * hcmd =>
             let '(f, os) := run_hist (fun _ => t_parse) (fun _ => t_dump) (fun _ => true) (fun _ => true)
                                      t_unpickle t_apply pA (fst pr) f0 in
             SL [sx_file (f pA); sx_file (f (bak pA));
                 sx_cli (cli_report (h_debug (snd pr)) (last os Done))])
          (combine (prefixes cs) hs)).

(** The same two renderings with the placement of the json serialisation call
    OBSERVED on the implementation's call trace (Cli/PlaceModel.v), as
    FsShow.show_pipeline / show_save have it: moving [json_dumps] out of the
    [with] block is a property-preserving rewrite and must not break the
    correspondence.  [show_patch_gp DInside] / [show_history_p] with [DInside]
    everywhere are [show_patch_g] / [show_history] (PlaceProofs.patch_cmd_gp_inside,
    run_hist_p_inside). *)
Definition show_patch_gp (pos : dumps_pos) (pathA : pystr) (loadable savable : list fmt) (ev : env Z) (keep debug : bool)
           (a0 bk0 : option zc) (from res : Z) (sch : list (step * fault Z)) : sx :=
  let f0 := fs_of (opt_file pathA a0 ++ opt_file (bak pathA) bk0 ++ [(pP, t_pickle (from, res))]) in
  let '(f, o) := patch_cmd_gp (fun _ => t_parse) (fun _ => t_dump) (mem_fmt loadable) (mem_fmt savable)
                              t_unpickle t_apply pos ev keep pathA pP (sched_of sch) f0 in
  SL [sx_file (f pathA); sx_file (f (bak pathA)); sx_cli (cli_report debug o)].

Definition show_history_p (a0 bk0 : option zc) (hs : list (dumps_pos * hcmd)) : sx :=
  let f0 := fs_of (opt_file pA a0 ++ opt_file (bak pA) bk0 ++ hist_files 0 (map snd hs)) in
  let cs := combine (map fst hs) (hist_cmds 0 (map snd hs)) in
  SL (map (fun pr : list (dumps_pos * cmd Z) * (dumps_pos * hcmd) =>
             let '(f, os) := run_hist_p (fun _ => t_parse) (fun _ => t_dump) (fun _ => true) (fun _ => true)
                                        t_unpickle t_apply pA (fst pr) f0 in
             SL [sx_file (f pA); sx_file (f (bak pA));
                 sx_cli (cli_report (h_debug (snd (snd pr))) (last os Done))])
          (combine (prefixes cs) hs)).

(** C20 - the end-to-end pipeline on JSON documents with the C01 premise discharged.

    JSON documents are the values built from dicts with str keys, lists, str,
    int, half-integer float, bool and None ([is_json]).  For such documents the
    guards of the Delta round-trip theorem (Delta/DeltaGood.v [guards]) reduce to
      - well-formedness (no two ==-equal keys in one object: automatic after JSON parsing),
      - alias-freeness: no two atoms that are == but not identical (1 / 1.0 / true),
      - no key starting with "__" (the CLI keeps ignore_private_variables = True),
    because (a) the tuple guards are vacuous (no tuples) and (b) the guard on type
    changes whose values are omitted ([tc_guard]) follows from alias-freeness, given
    that the constructor call [conv] = new_type(old_value) for list / dict targets
    yields a well-formed JSON value whose atoms are atoms of the argument or strings
    (list(dict) = its keys, list(str) = its characters, dict(list of pairs)).
    [patch_reproduces_json] composes Delta/DeltaRoundtrip.roundtrip with the model of
    the CLI (Cli/FsModel.v).  The pickle step stays an explicit premise. *)
From Coq Require Import List ZArith NArith Bool Arith Lia Permutation.
Import ListNotations.
From DD Require Import Base.PyStr Base.Value Base.ValueFacts Path.PathModel Diff.Tree Diff.DiffModel
  Diff.DiffFacts Diff.DiffFaithful Delta.DeltaModel Delta.DeltaRun Delta.DeltaGuard Delta.DeltaGood
  Delta.DeltaSeqNodes Delta.DeltaRoundtrip Delta.DeltaChain Delta.DeltaExamples.
From DD Require Cli.FsModel Cli.FsProofs.

Definition json_atom (a : atom) : bool := match a with ABytes _ => false | _ => true end.
Fixpoint is_json (v : value) : bool :=
  match v with
  | VAtom a => json_atom a
  | VList xs => forallb is_json xs
  | VDict kvs => forallb (fun kv => match fst kv with AStr _ => is_json (snd kv) | _ => false end) kvs
  | _ => false
  end.

(* decidable form of the reduced guards *)
Definition json_guardsb (c : cfg) (t1 t2 : value) : bool :=
  is_json t1 && is_json t2 && wf t1 && wf t2 && alias_freeb (atoms_of t1 ++ atoms_of t2) &&
  (negb (ignore_private c) || (nopriv t1 && nopriv t2)).

(* ---- atoms of sub-values ---- *)
Lemma atoms_list_in x xs a : In x xs -> In a (atoms_of x) -> In a (atoms_of (VList xs)).
Proof. intros Hx Ha. cbn. apply in_flat_map. exists x. split; assumption. Qed.
Lemma atoms_dict_key k v kvs : In (k, v) kvs -> In k (atoms_of (VDict kvs)).
Proof. intros H. cbn. apply in_flat_map. exists (k, v). split; [exact H|left; reflexivity]. Qed.
Lemma atoms_dict_val k v kvs a : In (k, v) kvs -> In a (atoms_of v) -> In a (atoms_of (VDict kvs)).
Proof. intros H Ha. cbn. apply in_flat_map. exists (k, v). split; [exact H|right; exact Ha]. Qed.

Lemma alias_free_app l1 l2 l1' l2' :
  (forall a, In a l1' -> In a l1) -> (forall a, In a l2' -> In a l2) ->
  alias_free (l1 ++ l2) -> alias_free (l1' ++ l2').
Proof.
  intros S1 S2. apply alias_free_sub. intros a Ha. apply in_app_or in Ha as [Ha|Ha]; apply in_or_app; auto.
Qed.

Lemma all2_py_eqv xs ys : py_eqv (VList xs) (VList ys) = all2 py_eqv xs ys.
Proof. cbn. revert ys; induction xs as [|x xs IH]; intros [|y ys]; cbn; try reflexivity. rewrite IH. reflexivity. Qed.

Lemma dict_go_In ys xs : dict_go ys xs = true ->
  forall k v, In (k, v) xs -> exists v', assoc k ys = Some v' /\ py_eqv v v' = true.
Proof.
  induction xs as [|[k0 v0] xs IH]; cbn; intros H k v Hin; [destruct Hin|].
  apply andb_true_iff in H as [H1 H2]. destruct Hin as [E|Hin]; [|apply IH; assumption].
  inversion E; subst. destruct (assoc k ys) as [v'|]; [|discriminate]. exists v'. split; [reflexivity|exact H1].
Qed.

(** Python == implies typed equality (up to dict order) for alias-free JSON values *)
Lemma py_eqv_veqb : forall a b,
  is_json a = true -> wf a = true -> wf b = true ->
  alias_free (atoms_of a ++ atoms_of b) -> py_eqv a b = true -> veqb a b = true.
Proof.
  induction a as [x|xs IH|xs IH|kvs IH|xs|xs] using value_ind'; intros b J W Wb AF E; try discriminate J.
  - destruct b as [y| | | | |]; try discriminate E. cbn in E. cbn.
    assert (x = y) by (apply AF; [left; reflexivity|right; left; reflexivity|exact E]). subst. apply atom_eqb_refl.
  - destruct b as [|ys| | | |]; try discriminate E. rewrite all2_py_eqv in E. rewrite veqb_list.
    cbn [is_json] in J. cbn [wf] in W, Wb.
    revert ys J W Wb AF E. induction IH as [|x xs Hx _ IHl]; intros [|y ys] J W Wb AF E; try discriminate E; [reflexivity|].
    cbn in J, W, Wb, E. apply andb_true_iff in J as [J1 J2]. apply andb_true_iff in W as [W1 W2].
    apply andb_true_iff in Wb as [Wb1 Wb2]. apply andb_true_iff in E as [E1 E2]. cbn.
    rewrite (Hx y J1 W1 Wb1); [cbn|eapply alias_free_app; [| |exact AF]; intros a Ha; cbn; apply in_or_app; left; exact Ha|exact E1].
    apply IHl; try assumption.
    eapply alias_free_app; [| |exact AF]; intros a Ha; cbn; apply in_or_app; right; exact Ha.
  - destruct b as [| | |kvs2| |]; try discriminate E.
    cbn [wf] in W, Wb. apply andb_true_iff in W as [N W]. apply andb_true_iff in Wb as [N2 W2].
    cbn [is_json] in J.
    destruct (py_eqv_dict_same_keys kvs kvs2 N E) as [K1 K2].
    rewrite py_eqv_dict in E. apply andb_true_iff in E as [_ G].
    assert (KEY : forall k k2, In k (map fst kvs) -> In k2 (map fst kvs2) -> py_eq k k2 = true -> k = k2).
    { intros k k2 Hk Hk2 Ek. apply AF; [| |exact Ek]; apply in_or_app; [left|right].
      - apply in_map_iff in Hk as ([k0 v0] & E0 & H0). cbn in E0; subst. eapply atoms_dict_key; exact H0.
      - apply in_map_iff in Hk2 as ([k0 v0] & E0 & H0). cbn in E0; subst. eapply atoms_dict_key; exact H0. }
    apply veqb_dict_ext; try assumption.
    + intros k Hk. pose proof (K1 k Hk) as M. apply mem_atom_In in M as (k2 & Hk2 & Ek).
      rewrite (KEY k k2 Hk Hk2 Ek). exact Hk2.
    + intros k2 Hk2. pose proof (K2 k2 Hk2) as M. apply mem_atom_In in M as (k & Hk & Ek).
      rewrite py_eq_sym in Ek. rewrite <- (KEY k k2 Hk Hk2 Ek). exact Hk.
    + intros k v v2 Hkv Hkv2.
      destruct (dict_go_In kvs2 kvs G k v Hkv) as (v' & A & Ev).
      rewrite (assoc_nodup kvs2 k v2 k N2 Hkv2 (py_eq_refl k)) in A. inversion A; subst v'.
      eapply Forall_forall in IH; [|exact Hkv]. cbn in IH. apply IH; try assumption.
      * eapply forallb_forall in J; [|exact Hkv]. cbn in J. destruct k; try discriminate J. exact J.
      * eapply forallb_forall in W; [|exact Hkv]. exact W.
      * eapply forallb_forall in W2; [|exact Hkv2]. exact W2.
      * eapply alias_free_app; [| |exact AF]; intros a Ha; eapply atoms_dict_val; eassumption.
Qed.

Section JsonGuards.
Variable c : cfg.
Variable conv : ty -> value -> option value.
Hypothesis Hconv : forall ty0 v v', conv ty0 v = Some v' -> type_of v' = ty0.

(** what is assumed of the constructor call new_type(old_value) for container
    targets on JSON arguments *)
Definition conv_json_ok : Prop :=
  forall ty0 v v', ty0 = TList \/ ty0 = TDict -> is_json v = true -> conv ty0 v = Some v' ->
    is_json v' = true /\ wf v' = true /\
    forall a, In a (atoms_of v') -> In a (atoms_of v) \/ exists s, a = AStr s.
Hypothesis Hcj : conv_json_ok.

Lemma str_alias s b : py_eq (AStr s) b = true -> AStr s = b.
Proof. intros H. apply py_eq_same_ty; [exact H|]. destruct b; cbn in H; try discriminate H; reflexivity. Qed.

Lemma tc_guard_json t1 t2 :
  is_json t1 = true -> is_json t2 = true -> wf t2 = true ->
  alias_free (atoms_of t1 ++ atoms_of t2) -> tc_guard conv false false t1 t2.
Proof.
  intros J1 J2 W2 AF. right. intros v' Hc E.
  pose proof (Hconv _ _ _ Hc) as Ty.
  destruct t2 as [b|ys| |kvs2| |]; try discriminate J2.
  - destruct v' as [a'| | | | |]; try (destruct b; discriminate Ty). cbn in E, Ty. cbn.
    rewrite (py_eq_same_ty a' b E Ty). apply atom_eqb_refl.
  - destruct (Hcj TList t1 v' (or_introl eq_refl) J1 Hc) as (Jv & Wv & At).
    apply py_eqv_veqb; try assumption.
    intros x y Hx Hy Exy.
    assert (STR : forall z, In z (atoms_of v') -> In z (atoms_of t1) \/ exists s, z = AStr s) by exact At.
    apply in_app_or in Hx. apply in_app_or in Hy.
    assert (CL : forall z, In z (atoms_of v') \/ In z (atoms_of (VList ys)) ->
                 In z (atoms_of t1 ++ atoms_of (VList ys)) \/ exists s, z = AStr s).
    { intros z [Hz|Hz]; [destruct (STR z Hz) as [H|H]; [left; apply in_or_app; left; exact H|right; exact H]
                        |left; apply in_or_app; right; exact Hz]. }
    destruct (CL x Hx) as [Hx'|[s ->]]; [destruct (CL y Hy) as [Hy'|[s ->]]|].
    + apply AF; assumption.
    + symmetry. apply str_alias. rewrite py_eq_sym. exact Exy.
    + apply str_alias. exact Exy.
  - destruct (Hcj TDict t1 v' (or_intror eq_refl) J1 Hc) as (Jv & Wv & At).
    apply py_eqv_veqb; try assumption.
    intros x y Hx Hy Exy.
    apply in_app_or in Hx. apply in_app_or in Hy.
    assert (CL : forall z, In z (atoms_of v') \/ In z (atoms_of (VDict kvs2)) ->
                 In z (atoms_of t1 ++ atoms_of (VDict kvs2)) \/ exists s, z = AStr s).
    { intros z [Hz|Hz]; [destruct (At z Hz) as [H|H]; [left; apply in_or_app; left; exact H|right; exact H]
                        |left; apply in_or_app; right; exact Hz]. }
    destruct (CL x Hx) as [Hx'|[s ->]]; [destruct (CL y Hy) as [Hy'|[s ->]]|].
    + apply AF; assumption.
    + symmetry. apply str_alias. rewrite py_eq_sym. exact Exy.
    + apply str_alias. exact Exy.
Qed.

(** the pairing guard of the round-trip theorem holds for all alias-free JSON documents *)
Lemma okp_json : forall t1 t2,
  is_json t1 = true -> is_json t2 = true -> wf t2 = true ->
  alias_free (atoms_of t1 ++ atoms_of t2) -> okp conv false false t1 t2.
Proof.
  induction t1 as [a|xs IH|xs IH|kvs IH|xs|xs] using value_ind'; intros t2 J1 J2 W2 AF; try discriminate J1.
  - destruct t2; try discriminate J2; cbn [okp];
      (destruct (ty_eqb _ _); [exact Logic.I|apply tc_guard_json; assumption]).
  - destruct t2 as [b|ys| |kvs2| |]; try discriminate J2;
      try (cbn [okp]; destruct (ty_eqb _ _); [exact Logic.I|apply tc_guard_json; assumption]).
    rewrite okp_list_eq. cbn [is_json] in J1, J2. cbn [wf] in W2.
    revert ys J1 J2 W2 AF. induction IH as [|x xs Hx _ IHl]; intros ys J1 J2 W2 AF; [exact Logic.I|].
    destruct ys as [|y ys]; [exact Logic.I|]. cbn in J1, J2, W2.
    apply andb_true_iff in J1 as [J11 J12]. apply andb_true_iff in J2 as [J21 J22]. apply andb_true_iff in W2 as [W21 W22].
    cbn. split.
    + apply Hx; try assumption.
      eapply alias_free_app; [| |exact AF]; intros z Hz; cbn; apply in_or_app; left; exact Hz.
    + apply IHl; try assumption.
      eapply alias_free_app; [| |exact AF]; intros z Hz; cbn; apply in_or_app; right; exact Hz.
  - destruct t2 as [b|ys| |kvs2| |]; try discriminate J2;
      try (cbn [okp]; destruct (ty_eqb _ _); [exact Logic.I|apply tc_guard_json; assumption]).
    rewrite okp_dict_eq. cbn [is_json] in J1.
    assert (SUB : forall kv, In kv kvs -> In kv kvs) by auto.
    revert SUB. generalize kvs at 1 3 as l. intros l. 
    induction l as [|[k v1] l IHl]; intros SUB; [exact Logic.I|]. cbn. split.
    + destruct (assoc k kvs2) as [v2|] eqn:A; [|exact Logic.I].
      apply assoc_In in A as (k' & Hin2 & _).
      pose proof (SUB _ (or_introl eq_refl)) as Hin1.
      eapply Forall_forall in IH; [|exact Hin1]. cbn in IH. apply IH.
      * eapply forallb_forall in J1; [|exact Hin1]. cbn in J1. destruct k; try discriminate J1. exact J1.
      * cbn [is_json] in J2. eapply forallb_forall in J2; [|exact Hin2]. cbn in J2. destruct k'; try discriminate J2. exact J2.
      * cbn [wf] in W2. apply andb_true_iff in W2 as [_ W2]. eapply forallb_forall in W2; [|exact Hin2]. exact W2.
      * eapply alias_free_app; [| |exact AF]; intros z Hz; eapply atoms_dict_val; eassumption.
    + apply IHl. intros kv Hkv. apply SUB. right. exact Hkv.
Qed.

Theorem json_guards : forall t1 t2,
  is_json t1 = true -> is_json t2 = true -> wf t1 = true -> wf t2 = true ->
  alias_free (atoms_of t1 ++ atoms_of t2) ->
  (ignore_private c = false \/ (nopriv t1 = true /\ nopriv t2 = true)) ->
  guards c conv false false t1 t2.
Proof.
  intros t1 t2 J1 J2 W1 W2 AF NP. repeat split; try assumption.
  - apply okp_json; assumption.
Qed.

Theorem json_guardsb_sound : forall t1 t2, json_guardsb c t1 t2 = true -> guards c conv false false t1 t2.
Proof.
  intros t1 t2 H. unfold json_guardsb in H.
  apply andb_true_iff in H as [H H6]. apply andb_true_iff in H as [H H5]. apply andb_true_iff in H as [H H4].
  apply andb_true_iff in H as [H H3]. apply andb_true_iff in H as [H1 H2].
  apply json_guards; try assumption.
  - apply alias_freeb_sound. exact H5.
  - apply orb_true_iff in H6 as [H6|H6]; [left; apply negb_true_iff in H6; exact H6|right; apply andb_true_iff in H6; exact H6].
Qed.
End JsonGuards.

(** ** The pipeline, for one pair of documents *)
Section PipelinePair.
  Import FsModel FsProofs.
  Variable X : Type.
  Variables doc delta : Type.
  Variable parse : content X -> option doc.
  Variable dump : doc -> option (content X).
  Variable pickle : delta -> content X.
  Variable unpickle : content X -> option delta.
  Variable mk_delta : doc -> doc -> delta.
  Variable apply_delta : delta -> doc -> doc.
  Hypothesis json_roundtrip : forall d c, dump d = Some c -> parse c = Some d.

  (** [FsProofs.patch_reproduces] without the blanket C01 / C14 premises: the patch file
      written for THIS pair loads back as the delta it was made from, and A ends up holding
      the serialisation of whatever [delta + content] evaluates to for THIS pair: A ends up holding
      the serialisation of whatever [delta + content] evaluates to for THIS pair *)
  Lemma patch_reproduces_pair :
    forall pos keep A B P (f : fs X) ca a b pd cr,
      f A = Some ca -> parse ca = Some a -> load parse f B = Some b ->
      P <> A -> P <> bak A ->
      diff_cmd parse pickle mk_delta A B f = Some pd ->
      unpickle (pickle (mk_delta a b)) = Some (mk_delta a b) ->
      dump (apply_delta (mk_delta a b) a) = Some cr ->
      exists f', patch_cmd parse dump unpickle apply_delta pos keep A P no_fault (upd P (Some pd) f) = (f', Done) /\
                 load parse f' A = Some (apply_delta (mk_delta a b) a) /\
                 f' A = Some cr /\
                 f' (bak A) = (if keep then Some ca else None) /\
                 (forall q, q <> A -> q <> bak A -> q <> P -> f' q = f q).
  Proof.
    intros pos keep A B P f ca a b pd cr HA Hpa HB HPA HPb Hdiff pickle_roundtrip Hdump.
    unfold diff_cmd, load in Hdiff. rewrite HA, Hpa in Hdiff.
    unfold load in HB. rewrite HB in Hdiff. inversion Hdiff; subst pd; clear Hdiff.
    set (f1 := upd P (Some (pickle (mk_delta a b))) f).
    assert (H1A : f1 A = Some ca).
    { unfold f1, upd. destruct (path_eq_dec A P); [congruence | exact HA]. }
    assert (H1P : f1 P = Some (pickle (mk_delta a b))).
    { unfold f1, upd. destruct (path_eq_dec P P); congruence. }
    unfold patch_cmd, no_fault, load.
    rewrite H1P, pickle_roundtrip, H1A, Hpa, Hdump.
    destruct (save_success X pos keep cr A f1 ca H1A) as [f' [Hs [HfA [Hfb Hfr]]]].
    unfold no_fault in Hs.
    exists f'. split; [exact Hs|]. repeat split; auto.
    - unfold load. rewrite HfA. apply json_roundtrip; exact Hdump.
    - intros q HqA Hqb HqP. rewrite (Hfr q HqA Hqb). unfold f1, upd.
      destruct (path_eq_dec q P); congruence.
  Qed.
End PipelinePair.

(** ** The pipeline on JSON documents: C01 discharged *)
Section PipelineJson.
  Variable X : Type.
  Variable parse : FsModel.content X -> option value.        (* json_loads *)
  Variable dump : value -> option (FsModel.content X).       (* json_dumps *)
  Variable pickle : delta -> FsModel.content X.              (* Delta(diff).dumps() *)
  Variable unpickle : FsModel.content X -> option delta.     (* Delta(delta_path=...) *)
  (* oracles of the diff / delta models *)
  Variable hatom : atom -> pystr.
  Variable udiff : pystr -> pystr -> pystr.
  Variable ops : path -> list value -> list value -> list opcode.
  Variable c : cfg.
  Variable conv : ty -> value -> option value.
  Variable ro : list (path * value) -> list (path * value).
  Variable ao : list (path * option value) -> list (path * option value).

  (* deep diff --create-patch uses Delta(diff): bidirectional = always_include_values = False *)
  Definition mk_delta_json (a b : value) : delta := delta_of hatom udiff ops c conv false false a b.
  Definition apply_delta_json (d : delta) (a : value) : value := fst (apply conv ro ao d a).

  Hypothesis hatom_inj : forall a b, hatom a = hatom b -> a = b.
  Hypothesis conv_typed : forall ty0 v v', conv ty0 v = Some v' -> type_of v' = ty0.
  Hypothesis conv_json : conv_json_ok conv.
  Hypothesis ops_valid : forall p xs ys, forallb is_atom xs = true -> forallb is_atom ys = true -> valid_ops xs ys (ops p xs ys).
  Hypothesis ro_valid : ro_ok ro.
  Hypothesis ao_valid : ao_ok ao.
  Hypothesis json_roundtrip : forall d cc, dump d = Some cc -> parse cc = Some d.

  (* the patch file of this pair loads back as the delta it was made from *)
  Lemma patch_reproduces_json_pair :
    forall pos keep (A B P : FsModel.path) (f : FsModel.fs X) ca a b pd,
      f A = Some ca -> parse ca = Some a -> FsModel.load parse f B = Some b ->
      P <> A -> P <> FsModel.bak A ->
      is_json a = true -> is_json b = true -> wf a = true -> wf b = true ->
      alias_free (atoms_of a ++ atoms_of b) ->
      (ignore_private c = false \/ (nopriv a = true /\ nopriv b = true)) ->
      unpickle (pickle (mk_delta_json a b)) = Some (mk_delta_json a b) ->
      FsModel.diff_cmd parse pickle mk_delta_json A B f = Some pd ->
      exists b',
        apply conv ro ao (mk_delta_json a b) a = (b', 0) /\
        veqb b' b = true /\
        forall cr, dump b' = Some cr ->
          exists f',
            FsModel.patch_cmd parse dump unpickle apply_delta_json pos keep A P FsModel.no_fault
                              (FsModel.upd P (Some pd) f) = (f', FsModel.Done) /\
            FsModel.load parse f' A = Some b' /\
            f' A = Some cr /\
            f' (FsModel.bak A) = (if keep then Some ca else None) /\
            (forall q, q <> A -> q <> FsModel.bak A -> q <> P -> f' q = f q).
  Proof.
    intros pos keep A B P f ca a b pd HA Hpa HB HPA HPb Ja Jb Wa Wb AF NP Hpk Hdiff.
    pose proof (json_guards c conv conv_typed conv_json a b Ja Jb Wa Wb AF NP) as G.
    destruct (roundtrip hatom udiff ops c conv false false hatom_inj conv_typed ro ao a b ops_valid ro_valid ao_valid G)
      as (b' & Happ & Heq).
    exists b'. split; [exact Happ|]. split; [exact Heq|].
    intros cr Hdump.
    assert (Hres : apply_delta_json (mk_delta_json a b) a = b').
    { unfold apply_delta_json, mk_delta_json, delta_of. rewrite Happ. reflexivity. }
    rewrite <- Hres in Hdump.
    destruct (patch_reproduces_pair X value delta parse dump pickle unpickle mk_delta_json apply_delta_json
                json_roundtrip pos keep A B P f ca a b pd cr HA Hpa HB HPA HPb Hdiff Hpk Hdump)
      as (f' & H1 & H2 & H3 & H4 & H5).
    rewrite Hres in H2. exists f'. auto.
  Qed.

  Hypothesis pickle_roundtrip : forall d, unpickle (pickle d) = Some d.

  Theorem patch_reproduces_json :
    forall pos keep (A B P : FsModel.path) (f : FsModel.fs X) ca a b pd,
      f A = Some ca -> parse ca = Some a -> FsModel.load parse f B = Some b ->
      P <> A -> P <> FsModel.bak A ->
      is_json a = true -> is_json b = true -> wf a = true -> wf b = true ->
      alias_free (atoms_of a ++ atoms_of b) ->
      (ignore_private c = false \/ (nopriv a = true /\ nopriv b = true)) ->
      FsModel.diff_cmd parse pickle mk_delta_json A B f = Some pd ->
      exists b',
        apply conv ro ao (mk_delta_json a b) a = (b', 0) /\      (* no error logged by Delta *)
        veqb b' b = true /\                                       (* B's document, up to key order *)
        forall cr, dump b' = Some cr ->
          exists f',
            FsModel.patch_cmd parse dump unpickle apply_delta_json pos keep A P FsModel.no_fault
                              (FsModel.upd P (Some pd) f) = (f', FsModel.Done) /\
            FsModel.load parse f' A = Some b' /\
            f' A = Some cr /\
            f' (FsModel.bak A) = (if keep then Some ca else None) /\
            (forall q, q <> A -> q <> FsModel.bak A -> q <> P -> f' q = f q).
  Proof.
    intros pos keep A B P f ca a b pd HA Hpa HB HPA HPb Ja Jb Wa Wb AF NP Hdiff.
    eapply patch_reproduces_json_pair; eauto.
  Qed.
End PipelineJson.

From Coq Require Import String.
Local Open Scope string_scope.

(** the reduced guards are satisfiable by a non-trivial pair (nested objects, a list
    edit, a list -> object type change, an int -> str type change) *)
Definition jx_t1 : value :=
  VDict [ (s "a", VList [I 1; I 2; I 3]); (s "b", VList [VList [Sv "k"; I 5]]); (s "q", I 7) ].
Definition jx_t2 : value :=
  VDict [ (s "a", VList [I 1; I 9; I 2]); (s "b", VDict [(s "k", I 5)]); (s "q", Sv "seven"); (s "z", VAtom ANone) ].
Example json_guards_satisfiable :
  json_guardsb ex_cfg jx_t1 jx_t2 = true /\ veqb jx_t1 jx_t2 = false /\ guardsb ex_cfg false false jx_t1 jx_t2 = false.
Proof. vm_compute. auto. Qed.

(** alias-freeness is needed for JSON documents too: [1] -> [1.0].  difflib finds
    nothing to do (1 == 1.0), the delta is empty, A keeps the int: the result is
    Python-equal to B but not the same JSON text. *)
Definition ja_t1 : value := VList [I 1].
Definition ja_t2 : value := VList [VAtom (AHalf 2)].
Definition ja_ops (_ : path) (_ _ : list value) : list opcode := [mkOp OEqual 0 1 0 1].
Theorem json_alias_refuted :
  is_json ja_t1 = true /\ is_json ja_t2 = true /\ wf ja_t1 = true /\ wf ja_t2 = true /\ nopriv ja_t1 = true /\ nopriv ja_t2 = true /\
  alias_freeb (atoms_of ja_t1 ++ atoms_of ja_t2) = false /\
  rt hatom_ex ja_ops ex_cfg conv_none false false ja_t1 ja_t2 = (ja_t1, 0) /\
  veqb ja_t1 ja_t2 = false /\ py_eqv ja_t1 ja_t2 = true.
Proof. vm_compute. repeat split; reflexivity. Qed.

(** The save path of the command line tool, generalised (Cli/FsModel.v models the
    json branch and final states only):

    * ALL branches of serialization._save_content.  The json branch serialises to
      a string and writes it with one [write] ([ShBuf pos]; the code has
      [pos = DInside]); the yaml / toml / pickle / csv branches hand the open file
      to the serialiser, which writes into it as it goes ([ShStream]): a rejected
      document can leave a partly written target, and there is no separate
      serialisation step before the first byte is written.  All four check that
      the serialiser can be imported (and that the file type is known) BEFORE
      opening the target: the shape [ShNone] is that ImportError /
      UnsupportedFormatErr (no branch of _save_content gets as far as [open]).
    * EVERY INTERMEDIATE STATE.  [save_tr] returns, besides the final file
      system and the outcome, the list of the file-system states the call goes
      through, one entry per primitive step, labelled with the step and whether
      it completed ([POk]), failed ([PFail]) or is in progress ([PMid]: the
      on-disk state while a write is under way; for a rename that is not atomic,
      the state in which the new name exists and the old one has not been
      removed yet).  A PROCESS CRASH (kill -9, power loss of the process, not
      of the disk) after any prefix of the step sequence leaves the file system
      in the state of the last entry of that prefix: no handler runs, the
      user-space buffer of the file object is dropped.  Hence the buffer is
      part of the model: what is on disk between the return of [write] and
      [close] ([e_pend]), while the write is in progress ([e_mid]), what a
      rejecting streaming serialiser had flushed ([e_nat]) and what [close]
      flushes on top of a failed body ([e_flush]) are parameters of the
      environment, unconstrained in every theorem and read off the real
      directory by the correspondence check.
    * The program is written once, over a record of primitives ([prims]); the
      model is its instance [fs_prims A] built from [upd] / [rename] / [remove] of
      FsModel.v (POSIX semantics); the proofs use a second instance on the two
      cells (A, A.bak) and a relational-parametricity lemma (Cli/GenProofs.v).
    Definitions only. *)
From Coq Require Import List Bool NArith String.
Import ListNotations.
From DD Require Import Base.Sx Base.PyStr Cli.FsModel.

Inductive phase := PMid | POk | PFail.
Inductive shape := ShBuf (pos : dumps_pos) | ShStream | ShNone.

Definition phase_eqb (a b : phase) : bool :=
  match a, b with PMid, PMid | POk, POk | PFail, PFail => true | _, _ => false end.

Section Gen.
  Variable X : Type.
  Notation content := (content X).
  Notation fs := (fs X).
  Notation schedule := (schedule X).

  (** the environment: the atomicity of rename and the four buffer-dependent
      on-disk contents of the target *)
  Record env := mkEnv {
    e_atomic : bool;                      (* os.rename is atomic (POSIX); false: link new name, then unlink old *)
    e_nat : option content;               (* streaming serialiser rejects the document: on disk at that moment *)
    e_mid : option content;               (* on disk while the write is in progress *)
    e_pend : option content;              (* on disk after write() returned, before close() *)
    e_flush : option (option content);    (* close() after a failed body: None = disk unchanged, Some d = disk is d *)
    e_late : bool }.                      (* a rejecting streaming serialiser writes before it fails *)

  Record prims (S : Type) := mkPrims {
    p_setA : option content -> S -> S;    (* effect of open / write / close on the target *)
    p_fwd : S -> option (S * S);          (* os.rename(path, backup_path): (new name linked, done); None = raises *)
    p_back : S -> option (S * S);         (* os.rename(backup_path, path) *)
    p_rm : S -> option S }.               (* os.remove(backup_path) *)

  (** os.rename with its intermediate state (both names present) *)
  Definition rename_mid (src dst : path) (f : fs) : option (fs * fs) :=
    match f src, rename src dst f with
    | Some c, Some f' => Some (upd dst (Some c) f, f')
    | _, _ => None
    end.
  Definition fs_prims (A : path) : prims fs :=
    mkPrims fs (fun v g => upd A v g) (rename_mid A (bak A)) (rename_mid (bak A) A) (remove (bak A)).

  Section Prog.
    Variable S : Type.
    Variable P : prims S.
    Definition entry := (step * phase * S)%type.

    Definition ren_entries (ev : env) (s : step) (r : S * S) : list entry :=
      (if e_atomic ev then [] else [(s, PMid, fst r)]) ++ [(s, POk, snd r)].

    (* the_file.write(content) *)
    Definition write_tr (ev : env) (sch : schedule) (g : S) : list entry * S * outcome :=
      match sch SWrite with
      | Some ft => let g' := p_setA S P (fdisk ft) g in ([(SWrite, PFail, g')], g', Raised (fkind ft) SWrite)
      | None => let gm := p_setA S P (e_mid ev) g in
                let gp := p_setA S P (e_pend ev) g in
                ([(SWrite, PMid, gm); (SWrite, POk, gp)], gp, Done)
      end.

    (* the body of the [with] block *)
    Definition inner_tr (sh : shape) (ev : env) (new : option content) (sch : schedule) (g : S)
      : list entry * S * outcome :=
      match sh with
      | ShBuf pos =>
          let here := match pos with DInside => true | _ => false end in
          match dumps_at here sch new with
          | Some k => ([(SDumps, PFail, g)], g, Raised k SDumps)
          | None =>
              match new with
              | None => ([(SDumps, PFail, g)], g, Raised KExc SDumps)   (* unreachable *)
              | Some _ =>
                  let '(es, g', o) := write_tr ev sch g in
                  ((if here then [(SDumps, POk, g)] else []) ++ es, g', o)
              end
          end
      | ShStream =>
          (* serialiser(content, the_file): serialises and writes as it goes.  An
             injected [SDumps] fault is a failure on entry.  A serialiser that
             rejects the document does so at once ([e_late = false]: csv on an
             empty list) or after having written part of it ([e_late = true]:
             then a failing write comes first, and the in-progress state of the
             target is a crash state) *)
          match sch SDumps with
          | Some ft => let g' := p_setA S P (fdisk ft) g in ([(SDumps, PFail, g')], g', Raised (fkind ft) SDumps)
          | None =>
              match new with
              | None =>
                  let g' := p_setA S P (e_nat ev) g in
                  if e_late ev then
                    match sch SWrite with
                    | Some ft => let gw := p_setA S P (fdisk ft) g in ([(SWrite, PFail, gw)], gw, Raised (fkind ft) SWrite)
                    | None => ([(SWrite, PMid, p_setA S P (e_mid ev) g); (SDumps, PFail, g')], g', Raised KExc SDumps)
                    end
                  else ([(SDumps, PFail, g')], g', Raised KExc SDumps)
              | Some _ => write_tr ev sch g
              end
          end
      | ShNone => ([(SDumps, PFail, g)], g, Raised KExc SDumps)         (* unreachable *)
      end.

    (* leaving the [with] block: close(); its exception wins; a successful close
       flushes the buffer *)
    Definition close_tr (ev : env) (new : option content) (sch : schedule) (g : S) (body : outcome)
      : list entry * S * outcome :=
      match sch SClose with
      | Some ft => let g' := p_setA S P (fdisk ft) g in ([(SClose, PFail, g')], g', Raised (fkind ft) SClose)
      | None =>
          let g' := match body, new with
                    | Done, Some c => p_setA S P (Some c) g
                    | Done, None => g
                    | Raised _ _, _ => match e_flush ev with None => g | Some d => p_setA S P d g end
                    end in
          ([(SClose, POk, g')], g', body)
      end.

    (** [_save_content(content, path, file_type)] *)
    Definition body_tr (sh : shape) (ev : env) (new : option content) (sch : schedule) (g : S)
      : list entry * S * outcome :=
      match sh with
      | ShNone => ([(SDumps, PFail, g)], g, Raised KExc SDumps)   (* ImportError / UnsupportedFormatErr *)
      | _ =>
      let before := match sh with ShBuf DBeforeOpen => true | _ => false end in
      match dumps_at before sch new with
      | Some k => ([(SDumps, PFail, g)], g, Raised k SDumps)
      | None =>
          let pre := if before then [(SDumps, POk, g)] else [] in
          match sch SOpen with
          | Some ft => let g' := p_setA S P (fdisk ft) g in
                       (pre ++ [(SOpen, PFail, g')], g', Raised (fkind ft) SOpen)
          | None =>
              let g1 := p_setA S P (Some []) g in               (* created / truncated *)
              let '(es, g2, body) := inner_tr sh ev new sch g1 in
              let '(ec, g3, o) := close_tr ev new sch g2 body in
              (pre ++ [(SOpen, POk, g1)] ++ es ++ ec, g3, o)
          end
      end
      end.

    (** [save_content_to_path(content, path, file_type, keep_backup)] *)
    Definition save_trP (sh : shape) (ev : env) (keep : bool) (new : option content) (sch : schedule) (f : S)
      : list entry * S * outcome :=
      let first := match sh with ShBuf DFirst => true | _ => false end in
      match dumps_at first sch new with
      | Some k => ([(SDumps, PFail, f)], f, Raised k SDumps)
      | None =>
          let pre := if first then [(SDumps, POk, f)] else [] in
          match sch SBackup with
          | Some ft => (pre ++ [(SBackup, PFail, f)], f, Raised (fkind ft) SBackup)
          | None =>
              match p_fwd S P f with
              | None => (pre ++ [(SBackup, PFail, f)], f, Raised KExc SBackup)
              | Some rb =>
                  let eb := pre ++ ren_entries ev SBackup rb in
                  let '(es, f2, r) := body_tr sh ev new sch (snd rb) in
                  match r with
                  | Raised KExc s =>
                      match sch SRestore with
                      | Some ft => (eb ++ es ++ [(SRestore, PFail, f2)], f2, Raised (fkind ft) SRestore)
                      | None =>
                          match p_back S P f2 with
                          | None => (eb ++ es ++ [(SRestore, PFail, f2)], f2, Raised KExc SRestore)
                          | Some rr => (eb ++ es ++ ren_entries ev SRestore rr, snd rr, Raised KExc s)
                          end
                      end
                  | Raised KBase s => (eb ++ es, f2, Raised KBase s)
                  | Done =>
                      if keep then (eb ++ es, f2, Done)
                      else match sch SRemove with
                           | Some ft => (eb ++ es ++ [(SRemove, PFail, f2)], f2, Raised (fkind ft) SRemove)
                           | None =>
                               match p_rm S P f2 with
                               | None => (eb ++ es ++ [(SRemove, PFail, f2)], f2, Raised KExc SRemove)
                               | Some f3 => (eb ++ es ++ [(SRemove, POk, f3)], f3, Done)
                               end
                           end
                  end
              end
          end
      end.
  End Prog.

  (** the model: the program on a file system, for the target [A] *)
  Definition save_tr (sh : shape) (ev : env) (keep : bool) (new : option content) (A : path)
             (sch : schedule) (f : fs) : list (entry fs) * fs * outcome :=
    save_trP fs (fs_prims A) sh ev keep new sch f.

  (* final file system and outcome *)
  Definition save_g (sh : shape) (ev : env) (keep : bool) (new : option content) (A : path)
             (sch : schedule) (f : fs) : fs * outcome :=
    let '(_, g, o) := save_tr sh ev keep new A sch f in (g, o).

  (** the states in which a crash can leave the file system: the initial one and
      the state of every entry *)
  Definition crash_states (sh : shape) (ev : env) (keep : bool) (new : option content) (A : path)
             (sch : schedule) (f : fs) : list fs :=
    f :: map (fun e : entry fs => snd e) (fst (fst (save_tr sh ev keep new A sch f))).

  (** the environment under which the generalised program is FsModel.save:
      rename is atomic, close adds nothing to a failed body *)
  Definition env0 : env := mkEnv true None None None None false.

  (** what a user (or a wrapper script) can do after a crash: if there is a
      backup file, put it back *)
  Definition recover (A : path) (g : fs) : fs :=
    match g (bak A) with
    | Some b => upd (bak A) None (upd A (Some b) g)
    | None => g
    end.
End Gen.

Arguments mkEnv {X}.
Arguments e_atomic {X}.
Arguments e_nat {X}.
Arguments e_mid {X}.
Arguments e_pend {X}.
Arguments e_flush {X}.
Arguments e_late {X}.
Arguments env0 {X}.
Arguments save_tr {X}.
Arguments save_g {X}.
Arguments crash_states {X}.
Arguments recover {X}.
Arguments rename_mid {X}.
Arguments fs_prims {X}.

(** Histories: sequences of `deep patch` commands (and of direct
    save_content_to_path calls) on the same file, each under its own fault
    schedule (Cli/FormatModel.v [run_hist], [run_saves]). *)
From Coq Require Import List Bool NArith String Lia.
Import ListNotations.
From DD Require Import Base.Sx Base.PyStr Cli.FsModel Cli.FsProofs Cli.GenModel Cli.GenProofs
  Cli.FormatModel Cli.FormatProofs.

Section HistProofs.
  Variable X : Type.
  Notation content := (content X).
  Notation fs := (fs X).
  Notation schedule := (schedule X).
  Notation fault := (fault X).
  Notation env := (env X).
  Notation cell := (option content).
  Notation cells := (cells X).

  Ltac split_goal sch :=
    repeat match goal with
           | |- context [sch ?s] => destruct (sch s) as [?|] eqn:?
           end.

  (** ** What an unclean failure can leave in the target *)

  (** the on-disk contents a failing body can leave in the target: nothing (the
      file was renamed away and never re-created), the empty file, the debris
      of an injected fault, what a rejecting streaming serialiser had flushed,
      what close() flushed on top *)
  Definition debris (ev : env) (sch : schedule) (d : cell) : Prop :=
    d = None \/ d = Some [] \/ (exists s ft, sch s = Some ft /\ d = fdisk ft) \/
    d = e_nat ev \/ e_flush ev = Some d.

  Lemma body2_debris : forall sh ev new (sch : schedule) b k s,
      (sh = ShBuf DFirst -> new <> None) ->
      snd (body2 X sh ev new sch (None, b)) = Raised k s ->
      debris ev sch (fst (snd (fst (body2 X sh ev new sch (None, b))))).
  Proof.
    intros sh ev new sch b k s Hnew.
    unfold body2, body_tr, inner_tr, close_tr, write_tr, dumps_at, dumps_res, debris.
    destruct ev as [at_ en em ep ef el].
    destruct sh as [[| |]| |], new as [c|], ef as [d|], el; try (exfalso; apply Hnew; reflexivity); clear Hnew; cbn;
      split_goal sch; cbn; intros Hr; try discriminate;
      first [ left; reflexivity
            | right; left; reflexivity
            | right; right; right; left; reflexivity
            | right; right; right; right; reflexivity
            | right; right; left; eexists; eexists; split; [eassumption | reflexivity] ].
  Qed.

  (** an outcome after which the target is not known to hold a complete version:
      the restoring rename failed, or a BaseException left the try block *)
  Definition unclean (sh : shape) (o : outcome) : Prop :=
    match o with
    | Done => False
    | Raised k s => s = SRestore \/ (k = KBase /\ body_label sh s)
    end.

  Lemma tr2_unclean_debris : forall sh ev keep new (sch : schedule) old b,
      unclean sh (snd (save_tr2 X sh ev keep new sch (Some old, b))) ->
      debris ev sch (fst (snd (fst (save_tr2 X sh ev keep new sch (Some old, b))))) /\
      snd (snd (fst (save_tr2 X sh ev keep new sch (Some old, b)))) = Some old.
  Proof.
    intros sh ev keep new sch old b. unfold save_tr2, save_trP.
    destruct (dumps_at _ sch new) as [k|] eqn:Edump.
    { cbn. intros [H|[_ [H1 H2]]]; [discriminate|]. exfalso.
      destruct sh as [[| |]| |]; try discriminate. apply H2; reflexivity. }
    assert (Hnew : sh = ShBuf DFirst -> new <> None).
    { intros -> ->. unfold dumps_at, dumps_res in Edump. destruct (sch SDumps); discriminate. }
    destruct (sch SBackup) as [ft|].
    { cbn. intros [H|[_ [H1 _]]]; discriminate. }
    cbn [p_fwd cell_prims fst snd].
    pose proof (body2_spec X sh ev new sch None (Some old) Hnew) as Hb.
    pose proof (body2_debris sh ev new sch (Some old)) as Hd.
    unfold body2 in Hb, Hd. cbn zeta in Hb.
    destruct (body_tr X cells (cell_prims X) sh ev new sch (None, Some old)) as [[es [a2 b2]] r].
    cbn [fst snd] in Hb, Hd. destruct Hb as [Hb2 [_ [Hdone [Hrs _]]]]. subst b2.
    destruct r as [|[|] s].
    - destruct keep; [cbn; tauto|].
      destruct (sch SRemove) as [ft|]; cbn.
      + intros [H|[_ [H1 _]]]; discriminate.
      + tauto.
    - destruct (sch SRestore) as [ft|]; cbn [fst p_back cell_prims snd unclean].
      + intros _. split; [exact (Hd _ _ Hnew eq_refl) | reflexivity].
      + intros [H|[H _]]; [|discriminate]. subst s. destruct (Hrs _ _ eq_refl) as [H1 _]. discriminate.
    - cbn [fst snd unclean]. intros _. split; [exact (Hd _ _ Hnew eq_refl) | reflexivity].
  Qed.

  Section Cli.
    Variables doc delta : Type.
    Variable parse : fmt -> content -> option doc.
    Variable dump : fmt -> doc -> option content.
    Variable can_load can_save : fmt -> bool.
    Variable unpickle : content -> option delta.
    Variable apply_delta : delta -> doc -> doc.

    Notation load_g := (load_g parse can_load).
    Notation patch_cmd_g := (patch_cmd_g parse dump can_load can_save unpickle apply_delta).
    Notation run_hist := (run_hist parse dump can_load can_save unpickle apply_delta).

    Lemma shape_of_not_first : forall fm, shape_of can_save fm <> ShBuf DFirst.
    Proof. intros [fm|]; cbn; [|discriminate]. destruct (can_save fm), fm; discriminate. Qed.

    (** the invariant: the complete version [cur] is in A - or in A.bak, and
        then A does not load (so that `deep patch` refuses to go on) *)
    Definition Inv (A : path) (f : fs) (cur : content) : Prop :=
      f A = Some cur \/ (f (bak A) = Some cur /\ load_g f A = None).

    (** the debris of this command does not load *)
    Definition debris_unloadable (fa : fmt) (ev : env) (sch : schedule) : Prop :=
      forall c, debris ev sch (Some c) -> parse fa c = None.

    (** ONE command, ANY schedule: the invariant is kept for the same version, or
        the command wrote its own new content completely; nothing else is touched *)
    Theorem patch_g_inv_step :
      forall ev keep A P (sch : schedule) (f f' : fs) o cur fa,
        fmt_of_path A = Some fa ->
        debris_unloadable fa ev sch ->
        Inv A f cur ->
        patch_cmd_g ev keep A P sch f = (f', o) ->
        (forall q, q <> A -> q <> bak A -> f' q = f q) /\
        (Inv A f' cur \/
         exists dl a c, parse fa cur = Some a /\ dump fa (apply_delta dl a) = Some c /\ f' A = Some c) /\
        (o = Done -> f A = Some cur /\ f' (bak A) = (if keep then Some cur else None)).
    Proof.
      intros ev keep A P sch f f' o cur fa Hfa Hdeb Hinv H.
      destruct (patch_g_presave X doc delta parse dump can_load can_save unpickle apply_delta ev keep A P sch f)
        as [[k [s [Hp Hs]]] | [dl [a [HP [Hl Hp]]]]].
      { rewrite Hp in H. inversion H; subst. split; [auto|]. split; [left; exact Hinv | discriminate]. }
      rewrite Hp in H. clear Hp.
      assert (HA : f A = Some cur /\ parse fa cur = Some a).
      { destruct Hinv as [HA | [_ Hn]]; [|congruence].
        split; [exact HA|]. unfold FormatModel.load_g in Hl. rewrite Hfa, HA in Hl.
        destruct (can_load fa); [exact Hl | discriminate]. }
      destruct HA as [HA Hpa]. rewrite Hfa in H.
      set (sh := shape_of can_save (Some fa)) in *.
      destruct (save_g_final X _ _ _ _ _ _ _ _ _ _ HA H) as [Hok Hfr].
      split; [exact Hfr|].
      destruct (final_transfer X _ _ _ _ _ _ _ _ _ H) as [es2 [H2 _]]. rewrite HA in H2.
      assert (Hunc : unclean sh o -> Inv A f' cur).
      { intros Hu. pose proof (tr2_unclean_debris sh ev keep (dump fa (apply_delta dl a)) sch cur (f (bak A))) as Hd.
        rewrite H2 in Hd. unfold view in Hd. cbn [fst snd] in Hd. destruct (Hd Hu) as [Hd1 Hd2].
        right. split; [exact Hd2|]. unfold FormatModel.load_g. rewrite Hfa.
        destruct (can_load fa); [|reflexivity].
        destruct (f' A) as [c|] eqn:E; [|reflexivity]. apply Hdeb. exact Hd1. }
      unfold view in Hok. destruct o as [|k s]; cbn [final_ok] in Hok.
      - destruct Hok as [c [Hn Hv]]. inversion Hv. split; [|auto].
        right. exists dl, a, c. auto.
      - split; [|discriminate].
        destruct s; cbn [fst snd] in *;
          try (left; apply Hunc; left; reflexivity);
          try (inversion Hok; left; left; congruence);
          try (destruct Hok as [c [Hn Hv]]; inversion Hv; right; exists dl, a, c; auto).
        all: destruct Hok as [[Hsh _] | [Hl2 Hk]];
          [exfalso; exact (shape_of_not_first _ Hsh) |
           destruct k; [inversion Hk; left; left; congruence | left; apply Hunc; right; auto]].
    Qed.

    (** ANY history of `deep patch` commands on A, under ANY fault schedules whose
        debris does not load: if [Good] is a set of contents that contains the
        initial one and is closed under "load, apply a delta, serialise", then
        at the end a Good (complete) version is in A, or in A.bak while A does
        not load; and no other file changed. *)
    Section Good.
      Variable fa : fmt.
      Variable Good : content -> Prop.
      Hypothesis Good_closed :
        forall c a dl c', Good c -> parse fa c = Some a -> dump fa (apply_delta dl a) = Some c' -> Good c'.

      Theorem hist_good_version_survives :
        forall A cs (f : fs),
          fmt_of_path A = Some fa ->
          Forall (fun c => debris_unloadable fa (c_env c) (c_sch c)) cs ->
          (exists cur, Good cur /\ Inv A f cur) ->
          (exists cur', Good cur' /\ Inv A (fst (run_hist A cs f)) cur') /\
          (forall q, q <> A -> q <> bak A -> fst (run_hist A cs f) q = f q).
      Proof.
        intros A cs. induction cs as [|c r IH]; intros f Hfa Hdeb Hex.
        { cbn. split; [exact Hex | reflexivity]. }
        inversion Hdeb as [|c0 r0 Hc Hr]; subst. destruct Hex as [cur [Hg Hinv]].
        cbn [FormatModel.run_hist].
        destruct (patch_cmd_g (c_env c) (c_keep c) A (c_P c) (c_sch c) f) as [f1 o] eqn:E.
        destruct (patch_g_inv_step _ _ _ _ _ _ _ _ _ _ Hfa Hc Hinv E) as [Hfr [Hstep _]].
        assert (Hex1 : exists cur1, Good cur1 /\ Inv A f1 cur1).
        { destruct Hstep as [Hi | [dl [a [c' [Hpa [Hdu HA']]]]]].
          - exists cur; auto.
          - exists c'. split; [exact (Good_closed _ _ _ _ Hg Hpa Hdu) | left; exact HA']. }
        destruct (IH f1 Hfa Hr Hex1) as [Hfin Hfr2].
        destruct (FormatModel.run_hist parse dump can_load can_save unpickle apply_delta A r f1) as [f2 os].
        cbn [fst] in *. split; [exact Hfin|].
        intros q H1 H2. rewrite (Hfr2 q H1 H2). apply Hfr; assumption.
      Qed.
    End Good.
  End Cli.

  (** ** Exact effect of a history of clean calls *)

  (** an outcome after which (A, A.bak) is exactly known *)
  Definition clean_o (sh : shape) (o : outcome) : bool :=
    match o with
    | Done => true
    | Raised k s =>
        match s with
        | SRestore | SRemove => false
        | SOpen | SWrite | SClose => match k with KExc => true | KBase => false end
        | SDumps => match sh with ShBuf DFirst => true | _ => match k with KExc => true | KBase => false end end
        | _ => true
        end
    end.
  (** the sequential specification: a completed call installs its content and
      keeps the previous one as backup iff keep_backup; a call that fails before
      the file is renamed away changes nothing; a call that fails afterwards
      restores the target and CONSUMES a backup file left by an earlier call *)
  Definition spec_step (c : scmd X) (o : outcome) (v : cells) : cells :=
    match o with
    | Done => (s_new c, if s_keep c then fst v else None)
    | Raised k s =>
        match s with
        | SOpen | SWrite | SClose => (fst v, None)
        | SDumps => match s_sh c with ShBuf DFirst => v | _ => (fst v, None) end
        | _ => v
        end
    end.
  Fixpoint spec_saves (cs : list (scmd X)) (os : list outcome) (v : cells) : cells :=
    match cs, os with
    | c :: cs', o :: os' => spec_saves cs' os' (spec_step c o v)
    | _, _ => v
    end.
  Fixpoint all_clean (cs : list (scmd X)) (os : list outcome) : bool :=
    match cs, os with
    | c :: cs', o :: os' => clean_o (s_sh c) o && all_clean cs' os'
    | _, _ => true
    end.

  Lemma final_ok_clean :
    forall sh keep old b new o (v : cells),
      final_ok X sh keep old b new o v -> clean_o sh o = true ->
      match o with
      | Done => exists c, new = Some c /\ v = (Some c, if keep then Some old else None)
      | Raised k s =>
          match s with
          | SOpen | SWrite | SClose => v = (Some old, None)
          | SDumps => match sh with ShBuf DFirst => v = (Some old, b) | _ => v = (Some old, None) end
          | _ => v = (Some old, b)
          end
      end.
  Proof.
    intros sh keep old b new o v Hok Hc. destruct o as [|k s]; [exact Hok|].
    cbn [final_ok clean_o] in *.
    destruct s; try discriminate; try exact Hok.
    all: destruct Hok as [[Hsh [Hs Hv]] | [[Hl1 Hl2] Hk]]; try discriminate.
    all: try (subst sh; exact Hv).
    all: try (destruct sh as [[| |]| |]; try (exfalso; apply Hl2; reflexivity)); destruct k; try discriminate; exact Hk.
  Qed.

  Lemma save_g_clean_step :
    forall c A (f f' : fs) o old,
      f A = Some old ->
      save_g (s_sh c) (s_env c) (s_keep c) (s_new c) A (s_sch c) f = (f', o) ->
      clean_o (s_sh c) o = true ->
      view X A f' = spec_step c o (view X A f) /\ (exists cur, f' A = Some cur) /\ frame X A f f'.
  Proof.
    intros [sh ev keep new sch] A f f' o old HA H Hc. cbn [s_sh s_env s_keep s_new s_sch] in *.
    destruct (save_g_final X _ _ _ _ _ _ _ _ _ _ HA H) as [Hok Hfr].
    pose proof (final_ok_clean _ _ _ _ _ _ _ Hok Hc) as Hf.
    unfold view in *. rewrite HA.
    split; [|split; [|exact Hfr]].
    - destruct o as [|k s]; cbn [spec_step s_new s_keep s_sh fst snd].
      + destruct Hf as [c [-> Hv]]. exact Hv.
      + destruct s; try exact Hf. destruct sh as [[| |]| |]; exact Hf.
    - destruct o as [|k s].
      + destruct Hf as [c [_ Hv]]. inversion Hv. eauto.
      + destruct s; try (inversion Hf; eauto; fail). destruct sh as [[| |]| |]; inversion Hf; eauto.
  Qed.

  (** ANY history of save_content_to_path calls in which every failure is clean
      (an Exception rolled back, or a failure before the rename): (A, A.bak) is
      EXACTLY what the sequential specification says, and nothing else changed *)
  Theorem saves_clean_exact :
    forall A cs (f : fs) old,
      f A = Some old ->
      all_clean cs (snd (run_saves A cs f)) = true ->
      view X A (fst (run_saves A cs f)) = spec_saves cs (snd (run_saves A cs f)) (view X A f) /\
      frame X A f (fst (run_saves A cs f)).
  Proof.
    intros A cs. induction cs as [|c r IH]; intros f old HA Hc.
    { cbn. split; [reflexivity | intros q _ _; reflexivity]. }
    cbn [run_saves] in *.
    destruct (save_g (s_sh c) (s_env c) (s_keep c) (s_new c) A (s_sch c) f) as [f1 o] eqn:E.
    destruct (run_saves A r f1) as [f2 os] eqn:E2. cbn [fst snd all_clean spec_saves] in *.
    apply andb_true_iff in Hc as [Hc1 Hc2].
    destruct (save_g_clean_step c A f f1 o old HA E Hc1) as [Hv [[cur Hcur] Hfr]].
    specialize (IH f1 cur Hcur). rewrite E2 in IH. cbn [fst snd] in IH.
    destruct (IH Hc2) as [Hv2 Hfr2]. split.
    - rewrite Hv2, Hv. reflexivity.
    - intros q H1 H2. rewrite (Hfr2 q H1 H2). apply Hfr; assumption.
  Qed.
End HistProofs.

Arguments all_clean {X}.
Arguments spec_saves {X}.
Arguments spec_step {X}.
Arguments Inv {X doc}.
Arguments debris {X}.
Arguments debris_unloadable {X doc}.

(** ** Concrete histories (by computation) *)
Definition hx_A : path := s2p "a.json".
Definition hx_f : fs N := upd hx_A (Some [1%N]) (fun _ => None).
Definition hx_cmd (keep : bool) (new : option (list N)) (sch : schedule N) : scmd N :=
  mkScmd (ShBuf DInside) env0 keep new sch.

(** patch --backup, then a patch that fails (write raises OSError): the second
    call restores A - and the backup file of the first call is gone *)
Example ex_failed_patch_consumes_backup :
  let cs := [hx_cmd true (Some [2%N]) no_fault;
             hx_cmd true (Some [3%N]) (single SWrite (mkFault KExc (Some [])))] in
  let r := run_saves hx_A cs hx_f in
  snd r = [Done; Raised KExc SWrite] /\ fst r hx_A = Some [2%N] /\ fst r (bak hx_A) = None /\
  all_clean cs (snd r) = true /\
  spec_saves cs (snd r) (Some [1%N], None) = (Some [2%N], None).
Proof. vm_compute. repeat split. Qed.

(** the toy codec of the refutation below: a one-element file [n] is a
    hand-written document n, [n; n] its canonical serialisation *)
Definition hx_parse (fm : fmt) (c : list N) : option N :=
  match c with [n] => Some n | [n; m] => if N.eqb n m then Some n else None | _ => None end.
Definition hx_dump (fm : fmt) (d : N) : option (list N) := Some [d; d].
Definition hx_unpickle (c : list N) : option N := match c with [d; 1000%N] => Some d | _ => None end.
Definition hx_Good (c : list N) : Prop := c = [1%N] \/ exists n, c = [n; n].

Lemma hx_Good_closed : forall c a dl c', hx_Good c -> hx_parse FJson c = Some a ->
    hx_dump FJson ((fun (d : N) (_ : N) => d) dl a) = Some c' -> hx_Good c'.
Proof. intros c a dl c' _ _ H. inversion H. right. eauto. Qed.

(** the guard [debris_unloadable] is needed: two interrupted patches whose debris
    happens to load as a document leave neither A nor A.bak with a complete
    version (the second run renames the debris of the first over the backup) *)
Theorem hist_loadable_debris_refuted :
  exists (A P : path) (f : fs N) (cs : list (cmd N)),
    fmt_of_path A = Some FJson /\
    (exists cur, hx_Good cur /\ Inv hx_parse (fun _ => true) A f cur) /\
    ~ (exists cur, hx_Good cur /\
                   Inv hx_parse (fun _ => true) A
                       (fst (run_hist hx_parse hx_dump (fun _ => true) (fun _ => true) hx_unpickle
                                      (fun (d : N) (_ : N) => d) A cs f)) cur).
Proof.
  exists hx_A, (s2p "d.pickle"),
         (upd (s2p "d.pickle") (Some [5%N; 1000%N]) hx_f),
         [mkCmd env0 false (s2p "d.pickle") (single SWrite (mkFault KBase (Some [9%N])));
          mkCmd env0 false (s2p "d.pickle") (single SWrite (mkFault KBase (Some [8%N])))].
  split; [reflexivity|]. split.
  - exists [1%N]. split; [left; reflexivity | left; reflexivity].
  - intros [cur [Hg [H|[H _]]]]; vm_compute in H; inversion H; subst cur;
      destruct Hg as [Hg|[n Hg]]; discriminate.
Qed.

(** non-vacuity of C20_history_good_version_survives: a history (an interrupted patch whose debris does not
    load, then a completed one) inside the guard, with its outcome *)
Definition hx_P : path := s2p "d.pickle".
Definition hx_f2 : fs N := upd hx_P (Some [5%N; 1000%N]) hx_f.
Definition hx_sch1 : schedule N := single SWrite (mkFault KBase (Some [7%N; 8%N; 9%N])).
Definition hx_hist : list (cmd N) := [mkCmd env0 false hx_P hx_sch1; mkCmd env0 true hx_P no_fault].

Example ex_history_guard_satisfiable :
  Forall (fun c => debris_unloadable hx_parse FJson (c_env c) (c_sch c)) hx_hist /\
  (exists cur, hx_Good cur /\ Inv hx_parse (fun _ => true) hx_A hx_f2 cur) /\
  let r := run_hist hx_parse hx_dump (fun _ => true) (fun _ => true) hx_unpickle (fun (d : N) (_ : N) => d)
                    hx_A hx_hist hx_f2 in
  snd r = [Raised KBase SWrite; Raised KExc SLoadDoc] /\
  fst r hx_A = Some [7%N; 8%N; 9%N] /\ fst r (bak hx_A) = Some [1%N].
Proof.
  split; [|split].
  - repeat constructor; intros c H; cbn [c_env c_sch] in H; unfold debris in H; cbn in H;
      destruct H as [H|[H|[[s [ft [Hs H]]]|[H|H]]]]; try discriminate;
      try solve [inversion H; reflexivity];
      try solve [discriminate Hs];
      try solve [unfold hx_sch1, single in Hs; destruct (step_eqb s SWrite); inversion Hs; subst ft;
                 cbn in H; inversion H; reflexivity].
  - exists [1%N]. split; [left; reflexivity | left; reflexivity].
  - vm_compute. repeat split.
Qed.

(** `deep patch` and histories of `deep patch` with the PLACEMENT of the json
    serialisation call as a parameter.

    Cli/FormatModel.v [shape_of] gives the json branch the shape [ShBuf DInside]:
    that is where the code under verification calls [json_dumps] (inside the
    [with open(...)] block).  Where the call stands - before the first rename
    ([DFirst]), between the rename and [open] ([DBeforeOpen]) or inside the
    [with] block - does not matter for property C20 (every theorem about the
    save path, Cli/FsProofs.v and Cli/GenProofs.v, is for all three), but it is
    visible under faults: an interrupt at the serialisation step leaves the
    target absent instead of empty, and with two faults the order in which the
    steps are reached changes.  The correspondence check reads the placement off
    the implementation's call trace and evaluates the model AT THAT PLACEMENT:

    * [shape_at pos sh]: the shape of the branch with the buffered
      serialisation moved to [pos] (the streaming branches and the
      "no serialiser" branch have no such freedom);
    * [patch_cmd_gp pos] = FormatModel.patch_cmd_g with [shape_at pos];
      [patch_cmd_gp DInside] IS [patch_cmd_g] (Cli/PlaceProofs.v);
    * [run_hist_p]: a history of `deep patch` commands, each with the placement
      observed for it.
    Definitions only. *)
From Coq Require Import List Bool NArith String.
Import ListNotations.
From DD Require Import Base.Sx Base.PyStr Cli.FsModel Cli.GenModel Cli.FormatModel.

Definition shape_at (pos : dumps_pos) (sh : shape) : shape :=
  match sh with ShBuf _ => ShBuf pos | _ => sh end.

Section CliP.
  Variable X : Type.
  Notation content := (content X).
  Notation fs := (fs X).
  Notation schedule := (schedule X).
  Variables doc delta : Type.
  Variable parse : fmt -> content -> option doc.
  Variable dump : fmt -> doc -> option content.
  Variable can_load can_save : fmt -> bool.
  Variable unpickle : content -> option delta.
  Variable apply_delta : delta -> doc -> doc.

  (* deep patch A P [--backup], json_dumps called at [pos] *)
  Definition patch_cmd_gp (pos : dumps_pos) (ev : env X) (keep : bool) (A P : path) (sch : schedule) (f : fs)
    : fs * outcome :=
    match sch SLoadDelta with
    | Some ft => (f, Raised (fkind ft) SLoadDelta)
    | None =>
    match (match f P with None => None | Some c => unpickle c end) with
    | None => (f, Raised KExc SLoadDelta)
    | Some dl =>
    match sch SLoadDoc with
    | Some ft => (f, Raised (fkind ft) SLoadDoc)
    | None =>
    match load_g parse can_load f A with
    | None => (f, Raised KExc SLoadDoc)
    | Some a =>
    match sch SApply with
    | Some ft => (f, Raised (fkind ft) SApply)
    | None =>
        let fm := fmt_of_path A in
        save_g (shape_at pos (shape_of can_save fm)) ev keep
               (match fm with Some fm => dump fm (apply_delta dl a) | None => None end) A sch f
    end end end end end.

  (** a history of `deep patch` commands on the same file, each with its placement *)
  Fixpoint run_hist_p (A : path) (cs : list (dumps_pos * cmd X)) (f : fs) : fs * list outcome :=
    match cs with
    | [] => (f, [])
    | (pos, c) :: r =>
        let '(f1, o) := patch_cmd_gp pos (c_env c) (c_keep c) A (c_P c) (c_sch c) f in
        let '(f2, os) := run_hist_p A r f1 in
        (f2, o :: os)
    end.
End CliP.

Arguments patch_cmd_gp {X doc delta}.
Arguments run_hist_p {X doc delta}.

(** Proofs about the option plumbing of `deep diff` (Cli/OptModel.v). *)
From Coq Require Import List Bool NArith ZArith String Arith.
Import ListNotations.
From DD Require Import Base.Sx Base.PyStr Base.Value Base.ValueFacts Diff.Tree Diff.DiffModel
  Delta.DeltaModel Delta.DeltaRun Delta.DeltaGuard Delta.DeltaGood Delta.DeltaChain Delta.DeltaExamples
  Cli.JsonDocs Cli.OptModel.
From DD Require Cli.FsModel Cli.FsProofs.

(** ** The plumbing *)
Lemma kwargs_private : forall o, k_ignore_private_variables (kwargs_of o) = negb (o_include_private o).
Proof. reflexivity. Qed.
(* with --create-patch no progress line can reach stdout *)
Lemma kwargs_log_frequency : forall o, o_create_patch o = true -> k_log_frequency_in_sec (kwargs_of o) = 0.
Proof. intros o H. cbn. rewrite H. reflexivity. Qed.

(** `deep diff --create-patch` fails exactly under these three option patterns *)
Theorem diff_opts_fails_iff :
  forall hatom udiff ops conv o a b,
    diff_opts hatom udiff ops conv o a b = None <->
    (o_group_by o = true \/ (o_ignore_order o = true /\ o_report_repetition o = false) \/ o_cache_purge_level o = 2).
Proof.
  intros hatom udiff ops conv o a b. unfold diff_opts, delta_possible.
  destruct (o_group_by o), (o_ignore_order o), (o_report_repetition o), (Nat.eqb_spec (o_cache_purge_level o) 2);
    cbn; split; intro H; try discriminate; try reflexivity; auto;
    destruct H as [H|[[H1 H2]|H]]; try discriminate; contradiction.
Qed.

(** under exact options the delta is the one of the diff model with the
    configuration [cfg_of o]: no other option is consulted *)
Lemma mk_delta_opts_exact :
  forall hatom udiff ops conv o a b,
    exact o = true ->
    mk_delta_opts hatom udiff ops conv o a b = delta_of hatom udiff ops (cfg_of o) conv false false a b.
Proof.
  intros hatom udiff ops conv o a b H. unfold exact in H.
  destruct (o_exclude_paths o) eqn:E; [|rewrite !andb_false_r in H; discriminate].
  unfold mk_delta_opts, delta_of, skip_of. rewrite E. reflexivity.
Qed.

Lemma exact_possible : forall o, exact o = true -> delta_possible o = true.
Proof. intros o H. unfold exact in H. destruct (delta_possible o); [reflexivity | discriminate]. Qed.

Section OptPipeline.
  Variable X : Type.
  Variable parse : FsModel.content X -> option value.
  Variable dump : value -> option (FsModel.content X).
  Variable pickle : delta -> FsModel.content X.
  Variable unpickle : FsModel.content X -> option delta.
  Variable hatom : atom -> pystr.
  Variable udiff : pystr -> pystr -> pystr.
  Variable ops : path -> list value -> list value -> list opcode.
  Variable conv : ty -> value -> option value.
  Variable ro : list (path * value) -> list (path * value).
  Variable ao : list (path * option value) -> list (path * option value).

  (* deep diff A B --create-patch <options> : the bytes on stdout, None = exit status 1 *)
  Definition diff_cmd_opts (o : opts) (A B : FsModel.path) (f : FsModel.fs X) : option (FsModel.content X) :=
    match FsModel.load parse f A, FsModel.load parse f B with
    | Some a, Some b => option_map pickle (diff_opts hatom udiff ops conv o a b)
    | _, _ => None
    end.

  Hypothesis hatom_inj : forall a b, hatom a = hatom b -> a = b.
  Hypothesis conv_typed : forall ty0 v v', conv ty0 v = Some v' -> type_of v' = ty0.
  Hypothesis conv_json : conv_json_ok conv.
  Hypothesis ops_valid : forall p xs ys, forallb is_atom xs = true -> forallb is_atom ys = true -> valid_ops xs ys (ops p xs ys).
  Hypothesis ro_valid : ro_ok ro.
  Hypothesis ao_valid : ao_ok ao.
  Hypothesis json_roundtrip : forall d cc, dump d = Some cc -> parse cc = Some d.
  Hypothesis pickle_roundtrip : forall d, unpickle (pickle d) = Some d.

  (** `deep diff A B --create-patch <options>` then `deep patch A`: for EVERY
      combination of options that is exact (any threshold, verbosity, cache and
      cutoff settings, --report-repetition, --get-deep-distance, --max-passes,
      --progress-logger, --include-private-variables ...) the conclusion of
      C20_patch_reproduces_json_docs holds, under the same document guards (with
      --include-private-variables the '__' guard disappears) *)
  Theorem patch_reproduces_json_opts :
    forall o pos keep (A B P : FsModel.path) (f : FsModel.fs X) ca a b pd,
      exact o = true ->
      f A = Some ca -> parse ca = Some a -> FsModel.load parse f B = Some b ->
      P <> A -> P <> FsModel.bak A ->
      is_json a = true -> is_json b = true -> wf a = true -> wf b = true ->
      alias_free (atoms_of a ++ atoms_of b) ->
      (o_include_private o = true \/ (nopriv a = true /\ nopriv b = true)) ->
      diff_cmd_opts o A B f = Some pd ->
      exists b',
        apply conv ro ao (mk_delta_opts hatom udiff ops conv o a b) a = (b', 0) /\
        veqb b' b = true /\
        forall cr, dump b' = Some cr ->
          exists f',
            FsModel.patch_cmd parse dump unpickle (apply_delta_json conv ro ao) pos keep A P FsModel.no_fault
                              (FsModel.upd P (Some pd) f) = (f', FsModel.Done) /\
            FsModel.load parse f' A = Some b' /\
            f' A = Some cr /\
            f' (FsModel.bak A) = (if keep then Some ca else None) /\
            (forall q, q <> A -> q <> FsModel.bak A -> q <> P -> f' q = f q).
  Proof.
    intros o pos keep A B P f ca a b pd Hex HA Hpa HB HPA HPb Ja Jb Wa Wb AF NP Hdiff.
    rewrite (mk_delta_opts_exact hatom udiff ops conv o a b Hex).
    apply (patch_reproduces_json X parse dump pickle unpickle hatom udiff ops (cfg_of o) conv ro ao
             hatom_inj conv_typed conv_json ops_valid ro_valid ao_valid json_roundtrip pickle_roundtrip
             pos keep A B P f ca a b pd HA Hpa HB HPA HPb Ja Jb Wa Wb AF).
    - cbn [cfg_of ignore_private]. destruct NP as [NP|NP]; [left; rewrite NP; reflexivity | right; exact NP].
    - unfold diff_cmd_opts in Hdiff. unfold FsModel.diff_cmd.
      assert (HlA : FsModel.load parse f A = Some a) by (unfold FsModel.load; rewrite HA; exact Hpa).
      rewrite HlA, HB in *. unfold diff_opts in Hdiff. rewrite (exact_possible o Hex) in Hdiff.
      cbn in Hdiff. rewrite (mk_delta_opts_exact hatom udiff ops conv o a b Hex) in Hdiff. exact Hdiff.
  Qed.
End OptPipeline.

(** ** Options outside [exact] *)

(** --exclude-paths root['a'] on {a:1, b:2} -> {a:5, b:3}: the delta lacks the
    excluded change; A becomes {a:1, b:3}, not B (inside every document guard;
    replayed on the real CLI at every run, OPTION_WITNESSES) *)
Definition ox_t1 : value := VDict [(s "a", I 1); (s "b", I 2)].
Definition ox_t2 : value := VDict [(s "a", I 5); (s "b", I 3)].
Definition ox_res : value := VDict [(s "a", I 1); (s "b", I 3)].
Definition ox_opts : opts :=
  mkOpts 33 100 false [[PKey (s "a")]] [] false false false 1 1 0 0 30 70 false 10000000%N false false 0 true false.

Theorem option_exclude_paths_refuted :
  delta_possible ox_opts = true /\ exact ox_opts = false /\
  json_guardsb (cfg_of ox_opts) ox_t1 ox_t2 = true /\
  DeltaModel.apply conv_none (@rev _) (fun l => l) (mk_delta_opts hatom_ex (fun _ _ => []) no_ops conv_none ox_opts ox_t1 ox_t2) ox_t1
    = (ox_res, 0) /\
  veqb ox_res ox_t2 = false /\
  (* without the option the same pair is reproduced *)
  veqb (fst (DeltaModel.apply conv_none (@rev _) (fun l => l)
               (mk_delta_opts hatom_ex (fun _ _ => []) no_ops conv_none default_opts ox_t1 ox_t2) ox_t1)) ox_t2 = true.
Proof. vm_compute. repeat split; reflexivity. Qed.

(** non-vacuity of [exact]: the default options and a combination of eight
    non-default ones *)
Definition ox_many : opts :=
  mkOpts 1 1 true [] [] false true false 0 2 500 10 10 90 true 3%N true true 5 true true.
Example exact_satisfiable : exact default_opts = true /\ exact ox_many = true /\ cfg_of ox_many = mkCfg false 1 1 false.
Proof. vm_compute. repeat split; reflexivity. Qed.

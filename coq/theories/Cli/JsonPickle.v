(** C20 - the end-to-end pipeline on JSON documents with the patch file carried by the
    pickle codec of the C14 block: [pickle d = enc_prog (pv_of_delta d)] (what
    Delta(diff).dumps() writes), [unpickle prog = reload w false prog] (what
    Delta(delta_path=...) reads: the restricted unpickler VM in the process [w], then the
    payload read as a delta).  The abstract premise "unpickle (pickle d) = Some d" of
    JsonDocs.patch_reproduces_json is discharged by Pickle/DeltaCodecProofs
    (reload_canonical_dump) for every delta that satisfies two decidable conditions:
      [delta_okb d]            every path of the delta is normalised and prints / parses back
                               (C09's guard [path_ok]; for JSON documents: no key with both
                               quote characters, none ending in U+1D1C0 - findings K5 / K6)
      [wfp (pv_of_delta d)]    the payload is a well-formed dict (distinct paths per category)
    and for which the process resolves the payload's classes ([types_ok]). *)
From Coq Require Import List ZArith NArith Bool Arith Lia.
Import ListNotations.
From DD Require Import Base.PyStr Base.Value Base.ValueFacts Path.PathModel Diff.Tree Diff.DiffModel
  Delta.DeltaModel Delta.DeltaRun Delta.DeltaGuard Delta.DeltaGood Delta.DeltaChain Delta.DeltaExamples
  Pickle.Vm Pickle.Codec Pickle.CodecProofs Pickle.DeltaCodec Pickle.DeltaCodecProofs Cli.JsonDocs.
From DD Require Cli.FsModel.

(** decidable form of [delta_ok] *)
Definition gpathb (p : path) : bool := path_ok p && path_eqb (norm p) p.
Definition opt_gpathb (o : option path) : bool := match o with Some q => gpathb q | None => true end.
Definition delta_okb (d : delta) : bool :=
  forallb (fun c => gpathb (vc_path c) && opt_gpathb (vc_new_path c)) (d_val d) &&
  forallb (fun c => gpathb (tc_path c) && opt_gpathb (tc_new_path c)) (d_type d) &&
  forallb (fun x => gpathb (fst x)) (d_dadd d) &&
  forallb (fun x => gpathb (fst x)) (d_drem d) &&
  forallb (fun x => gpathb (fst x)) (d_iadd d) &&
  forallb (fun x => gpathb (fst x)) (d_irem d) &&
  forallb (fun m => gpathb (fst (fst m)) && gpathb (snd (fst m))) (d_moved d) &&
  forallb (fun x => gpathb (fst x)) (d_sadd d) &&
  forallb (fun x => gpathb (fst x)) (d_srem d) &&
  forallb (fun x => gpathb (fst x)) (d_ops d).

Lemma gpathb_sound p : gpathb p = true -> gpath p.
Proof. unfold gpathb. intros H. apply andb_true_iff in H as [H1 H2]. apply gpath_by_compute; assumption. Qed.
Lemma opt_gpathb_sound o : opt_gpathb o = true -> match o with Some q => gpath q | None => True end.
Proof. destruct o; cbn; [apply gpathb_sound|auto]. Qed.

Lemma forallb_Forall {A} (f : A -> bool) (P : A -> Prop) l :
  (forall x, f x = true -> P x) -> forallb f l = true -> Forall P l.
Proof.
  intros H. induction l as [|x l IH]; cbn; intros E; [constructor|].
  apply andb_true_iff in E as [E1 E2]. constructor; [apply H; exact E1|apply IH; exact E2].
Qed.

Theorem delta_okb_sound d : delta_okb d = true -> delta_ok d.
Proof.
  unfold delta_okb. intros H.
  repeat match type of H with (_ && _ = true) => apply andb_true_iff in H; let H' := fresh "H" in destruct H as [H H'] end.
  constructor.
  - eapply forallb_Forall; [|eassumption]. intros c E. apply andb_true_iff in E as [E1 E2].
    split; [apply gpathb_sound; exact E1|apply opt_gpathb_sound; exact E2].
  - eapply forallb_Forall; [|eassumption]. intros c E. apply andb_true_iff in E as [E1 E2].
    split; [apply gpathb_sound; exact E1|apply opt_gpathb_sound; exact E2].
  - eapply forallb_Forall; [|eassumption]. intros x E. apply gpathb_sound; exact E.
  - eapply forallb_Forall; [|eassumption]. intros x E. apply gpathb_sound; exact E.
  - eapply forallb_Forall; [|eassumption]. intros x E. apply gpathb_sound; exact E.
  - eapply forallb_Forall; [|eassumption]. intros x E. apply gpathb_sound; exact E.
  - eapply forallb_Forall; [|eassumption]. intros m E. apply andb_true_iff in E as [E1 E2].
    split; apply gpathb_sound; assumption.
  - eapply forallb_Forall; [|eassumption]. intros x E. apply gpathb_sound; exact E.
  - eapply forallb_Forall; [|eassumption]. intros x E. apply gpathb_sound; exact E.
  - eapply forallb_Forall; [|eassumption]. intros x E. apply gpathb_sound; exact E.
Qed.

(** the visible guard on documents: every object key can travel in a path string
    (not both quote characters, not ending in U+1D1C0) *)
Fixpoint keys_path_okb (v : value) : bool :=
  match v with
  | VList xs | VTuple xs => forallb keys_path_okb xs
  | VDict kvs => forallb (fun kv => key_ok (PKey (fst kv)) && keys_path_okb (snd kv)) kvs
  | _ => true
  end.

Section PipelinePickled.
  Variable parse : list op -> option value.                (* json_loads (file contents are op lists here) *)
  Variable dump : value -> option (list op).               (* json_dumps *)
  Variable w : world.                                      (* the process running `deep patch` *)
  Variable hatom : atom -> pystr.
  Variable udiff : pystr -> pystr -> pystr.
  Variable ops : path -> list value -> list value -> list opcode.
  Variable c : cfg.
  Variable conv : ty -> value -> option value.
  Variable ro : list (path * value) -> list (path * value).
  Variable ao : list (path * option value) -> list (path * option value).

  Definition pickle_delta (d : delta) : list op := enc_prog (pv_of_delta d).   (* Delta(diff).dumps() *)
  Definition unpickle_delta (prog : list op) : option delta := reload w false prog.   (* Delta(delta_path=...) *)

  Hypothesis hatom_inj : forall a b, hatom a = hatom b -> a = b.
  Hypothesis conv_typed : forall ty0 v v', conv ty0 v = Some v' -> type_of v' = ty0.
  Hypothesis conv_json : conv_json_ok conv.
  Hypothesis ops_valid : forall p xs ys, forallb is_atom xs = true -> forallb is_atom ys = true -> valid_ops xs ys (ops p xs ys).
  Hypothesis ro_valid : ro_ok ro.
  Hypothesis ao_valid : ao_ok ao.
  Hypothesis world_calls : calls_ok w.
  Hypothesis json_roundtrip : forall d cc, dump d = Some cc -> parse cc = Some d.

  (* with C14's propositional [delta_ok] *)
  Theorem patch_reproduces_json_pickled_ok :
    forall pos keep (A B P : FsModel.path) (f : FsModel.fs op) ca a b pd,
      f A = Some ca -> parse ca = Some a -> FsModel.load parse f B = Some b ->
      P <> A -> P <> FsModel.bak A ->
      is_json a = true -> is_json b = true -> wf a = true -> wf b = true ->
      alias_free (atoms_of a ++ atoms_of b) ->
      (ignore_private c = false \/ (nopriv a = true /\ nopriv b = true)) ->
      let d := mk_delta_json hatom udiff ops c conv a b in
      delta_ok d -> wfp (pv_of_delta d) = true -> types_ok w (pv_of_delta d) ->
      FsModel.diff_cmd parse pickle_delta (mk_delta_json hatom udiff ops c conv) A B f = Some pd ->
      exists b',
        apply conv ro ao d a = (b', 0) /\
        veqb b' b = true /\
        forall cr, dump b' = Some cr ->
          exists f',
            FsModel.patch_cmd parse dump unpickle_delta (apply_delta_json conv ro ao) pos keep A P FsModel.no_fault
                              (FsModel.upd P (Some pd) f) = (f', FsModel.Done) /\
            FsModel.load parse f' A = Some b' /\
            f' A = Some cr /\
            f' (FsModel.bak A) = (if keep then Some ca else None) /\
            (forall q, q <> A -> q <> FsModel.bak A -> q <> P -> f' q = f q).
  Proof.
    intros pos keep A B P f ca a b pd HA Hpa HB HPA HPb Ja Jb Wa Wb AF NP d Hok Hwf Hty Hdiff.
    assert (Hpk : unpickle_delta (pickle_delta d) = Some d).
    { unfold unpickle_delta, pickle_delta.
      exact (reload_canonical_dump w d world_calls Hty Hwf Hok). }
    exact (patch_reproduces_json_pair op parse dump pickle_delta unpickle_delta
             hatom udiff ops c conv ro ao hatom_inj conv_typed conv_json ops_valid ro_valid ao_valid json_roundtrip
             pos keep A B P f ca a b pd HA Hpa HB HPA HPb Ja Jb Wa Wb AF NP Hpk Hdiff).
  Qed.

  Theorem patch_reproduces_json_pickled :
    forall pos keep (A B P : FsModel.path) (f : FsModel.fs op) ca a b pd,
      f A = Some ca -> parse ca = Some a -> FsModel.load parse f B = Some b ->
      P <> A -> P <> FsModel.bak A ->
      is_json a = true -> is_json b = true -> wf a = true -> wf b = true ->
      alias_free (atoms_of a ++ atoms_of b) ->
      (ignore_private c = false \/ (nopriv a = true /\ nopriv b = true)) ->
      let d := mk_delta_json hatom udiff ops c conv a b in
      delta_okb d = true -> wfp (pv_of_delta d) = true -> types_ok w (pv_of_delta d) ->
      FsModel.diff_cmd parse pickle_delta (mk_delta_json hatom udiff ops c conv) A B f = Some pd ->
      exists b',
        apply conv ro ao d a = (b', 0) /\
        veqb b' b = true /\
        forall cr, dump b' = Some cr ->
          exists f',
            FsModel.patch_cmd parse dump unpickle_delta (apply_delta_json conv ro ao) pos keep A P FsModel.no_fault
                              (FsModel.upd P (Some pd) f) = (f', FsModel.Done) /\
            FsModel.load parse f' A = Some b' /\
            f' A = Some cr /\
            f' (FsModel.bak A) = (if keep then Some ca else None) /\
            (forall q, q <> A -> q <> FsModel.bak A -> q <> P -> f' q = f q).
  Proof.
    intros pos keep A B P f ca a b pd HA Hpa HB HPA HPb Ja Jb Wa Wb AF NP d Hok Hwf Hty Hdiff.
    exact (patch_reproduces_json_pickled_ok pos keep A B P f ca a b pd HA Hpa HB HPA HPb Ja Jb Wa Wb AF NP
             (delta_okb_sound d Hok) Hwf Hty Hdiff).
  Qed.
End PipelinePickled.

From Coq Require Import String.
Local Open Scope string_scope.

(** non-vacuity: the delta of the pair of JsonDocs.json_guards_satisfiable (list edit with
    difflib opcodes, list -> object and int -> str type changes, added key) satisfies the two
    payload conditions and comes back from the codec unchanged *)
Definition jx_ops := ops_tbl
  [ ([PKey (s "a")], [mkOp OEqual 0 1 0 1; mkOp OInsert 1 1 1 2; mkOp OEqual 1 2 2 3; mkOp ODelete 2 3 3 3]) ].
Definition jx_delta : delta := mk_delta_json hatom_ex (fun _ _ => []) jx_ops ex_cfg conv_none jx_t1 jx_t2.
Example pickled_guards_satisfiable :
  keys_path_okb jx_t1 = true /\ keys_path_okb jx_t2 = true /\
  delta_okb jx_delta = true /\ wfp (pv_of_delta jx_delta) = true /\
  delta_of_pv false (pv_of_delta jx_delta) = Some jx_delta /\
  (List.length (d_val jx_delta) + List.length (d_type jx_delta) + List.length (d_dadd jx_delta) >= 3)%nat.
Proof. vm_compute. repeat split; auto. Qed.

(** K5 / K6: a key with both quote characters, a key ending in U+1D1C0.  The delta itself is
    fine (applied directly it yields B); its path does not survive printing and parsing, so
    the delta that `deep patch` loads addresses a key that does not exist and A stays as it was *)
Definition k5_key : atom := AStr [113; 39; 34]%N.            (* q, single quote, double quote *)
Definition k6_key : atom := AStr [107; 119232]%N.            (* k U+1D1C0 *)
Definition kdoc (k : atom) (z : Z) : value := VDict [(k, I z)].
Definition kdelta (k : atom) : delta := mk_delta_json hatom_ex (fun _ _ => []) no_ops ex_cfg conv_none (kdoc k 1) (kdoc k 2).
Definition run_on (d : delta) (v : value) : value := fst (apply conv_none (@rev _) (fun l => l) d v).

Definition reloaded (k : atom) : delta :=
  match delta_of_pv false (pv_of_delta (kdelta k)) with Some d' => d' | None => kdelta k end.
Definition key_refuted (k : atom) : Prop :=
  is_json (kdoc k 1) = true /\ json_guardsb ex_cfg (kdoc k 1) (kdoc k 2) = true /\
  keys_path_okb (kdoc k 1) = false /\ delta_okb (kdelta k) = false /\
  veqb (run_on (kdelta k) (kdoc k 1)) (kdoc k 2) = true /\
  delta_of_pv false (pv_of_delta (kdelta k)) = Some (reloaded k) /\
  veqb (run_on (reloaded k) (kdoc k 1)) (kdoc k 2) = false /\
  veqb (run_on (reloaded k) (kdoc k 1)) (kdoc k 1) = true.
Theorem keys_quotes_refuted : key_refuted k5_key.
Proof. vm_compute. repeat split; reflexivity. Qed.
Theorem keys_escape_refuted : key_refuted k6_key.
Proof. vm_compute. repeat split; reflexivity. Qed.

(** The pickle branch of load_path_content / _save_content with the codec of the
    C14 / C15 block (Pickle/Codec.v): a .pickle document is a payload value [pv],
    [_save_content] writes its canonical protocol-4 encoding ([enc_prog]; the
    class of encodings CPython's pickler actually emits is [Encodes.accepts],
    C14), [load_path_content] runs the restricted unpickler ([Codec.load w]: the
    VM of Pickle/Vm.v in the process [w], then the payload reading).  For this
    file type the round-trip hypothesis of
    FormatProofs.patch_reproduces_iff_codec_roundtrips is a THEOREM
    (CodecProofs.pickle_roundtrip): every well-formed payload whose classes the
    process resolves comes back unchanged. *)
From Coq Require Import List Bool NArith String.
Import ListNotations.
From DD Require Import Base.PyStr Pickle.Vm Pickle.Codec Pickle.CodecProofs
  Cli.FsModel Cli.FsProofs Cli.GenModel Cli.GenProofs Cli.FormatModel Cli.FormatProofs.

Section PickleDocs.
  Variable w : world.                                  (* the process running `deep patch` *)
  Variable parse0 : fmt -> list op -> option pv.       (* the loaders of the other file types *)
  Variable dump0 : fmt -> pv -> option (list op).      (* their serialisers *)
  Variable can_load can_save : fmt -> bool.
  Variable delta : Type.
  Variable pickle : delta -> list op.
  Variable unpickle : list op -> option delta.
  Variable mk_delta : pv -> pv -> delta.
  Variable apply_delta : delta -> pv -> pv.

  Definition parse_p (fm : fmt) (c : list op) : option pv :=
    match fm with FPickle => Codec.load w c | _ => parse0 fm c end.
  Definition dump_p (fm : fmt) (d : pv) : option (list op) :=
    match fm with FPickle => Some (enc_prog d) | _ => dump0 fm d end.

  (** the pickle codec round-trips every well-formed payload over resolvable classes *)
  Theorem pickle_codec_roundtrips :
    forall d c, calls_ok w -> types_ok w d -> wfp d = true ->
                dump_p FPickle d = Some c -> parse_p FPickle c = Some d.
  Proof.
    intros d c Hc Ht Hw H. cbn in *. inversion H; subst c. apply pickle_roundtrip; assumption.
  Qed.

  Hypothesis C01_delta_reproduces : forall a b, apply_delta (mk_delta a b) a = b.
  Hypothesis C14_pickle_roundtrip : forall d, unpickle (pickle d) = Some d.

  (** diff --create-patch, then patch, on a .pickle target (B of any loadable
      type): A now loads as B's document, no codec hypothesis left *)
  Theorem patch_reproduces_pickle_docs :
    forall ev keep A B P (f : fs op) ca a b pd,
      fmt_of_path A = Some FPickle -> can_load FPickle = true -> can_save FPickle = true ->
      calls_ok w -> types_ok w b -> wfp b = true ->
      f A = Some ca -> Codec.load w ca = Some a -> load_g parse_p can_load f B = Some b ->
      P <> A -> P <> bak A ->
      diff_cmd_g parse_p can_load pickle mk_delta A B f = Some pd ->
      exists f', patch_cmd_g parse_p dump_p can_load can_save unpickle apply_delta ev keep A P no_fault
                             (upd P (Some pd) f) = (f', Done) /\
                 load_g parse_p can_load f' A = Some b /\
                 f' A = Some (enc_prog b) /\
                 f' (bak A) = (if keep then Some ca else None) /\
                 (forall q, q <> A -> q <> bak A -> q <> P -> f' q = f q).
  Proof.
    intros ev keep A B P f ca a b pd Hfa Hcl Hcs Hco Ht Hw HA Hpa HB HPA HPb Hdiff.
    destruct (patch_reproduces_g op pv delta parse_p dump_p can_load can_save pickle unpickle mk_delta apply_delta
                C01_delta_reproduces C14_pickle_roundtrip ev keep A B P f FPickle ca a b pd (enc_prog b)
                Hfa Hcl Hcs HA Hpa HB HPA HPb Hdiff eq_refl) as [f' [Hs [Hl [H1 [H2 H3]]]]].
    exists f'. repeat split; auto.
    rewrite Hl. apply pickle_codec_roundtrips; auto.
  Qed.
End PickleDocs.

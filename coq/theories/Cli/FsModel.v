(** Model of the save path of the deepdiff command line tool
    (deepdiff/serialization.py [save_content_to_path] / [_save_content] for the
    [json] file type, and deepdiff/commands.py [diff --create-patch] / [patch]).

    * The file system is a map [path -> option content] with the POSIX
      semantics of the four primitives the code uses: [os.rename] (atomic,
      silently replaces an existing destination, raises when the source is
      missing), [open(p,'w')] (create or truncate), write, [os.remove].
    * [save] is the program text of [save_content_to_path], step by step,
      with its exact try / except Exception / else structure and the [with]
      block of [_save_content] (the file is closed on the way out of the block
      whatever happened inside, and an exception raised by [close] replaces the
      one in flight).
    * Every primitive step can be made to fail by a *fault schedule*
      [step -> option fault].  A fault says which kind of exception is raised
      ([KExc]: an [Exception] subclass, e.g. OSError; [KBase]: a BaseException
      that is not an Exception, e.g. KeyboardInterrupt) and, for the steps that
      touch the data of the target (open / write / close), what is on disk at
      the target afterwards ([fdisk], unconstrained: nothing, an empty file,
      half of the data, all of it...).
      A failing rename / remove is atomic: it changes nothing.
    Definitions only. *)
From Coq Require Import List Bool NArith String.
Import ListNotations.
From DD Require Import Base.Sx Base.PyStr.

Definition path := pystr.
Definition path_eq_dec : forall p q : path, {p = q} + {p <> q} := list_eq_dec N.eq_dec.
(* backup_path = f"{path}.bak" *)
Definition bak (p : path) : path := (p ++ s2p ".bak")%list.

Inductive step :=
| SLoadDelta   (* patch: Delta(delta_path=...)            *)
| SLoadDoc     (* patch: load_path_content(path)          *)
| SApply       (* patch: delta + content                  *)
| SBackup      (* os.rename(path, backup_path)            *)
| SOpen        (* open(path, 'w')                         *)
| SDumps       (* json_dumps(content)                     *)
| SWrite       (* the_file.write(content)                 *)
| SClose       (* the_file.__exit__ -> close()            *)
| SRestore     (* except Exception: os.rename(backup_path, path) *)
| SRemove.     (* else: if not keep_backup: os.remove(backup_path) *)

Definition step_eqb (a b : step) : bool :=
  match a, b with
  | SLoadDelta, SLoadDelta | SLoadDoc, SLoadDoc | SApply, SApply | SBackup, SBackup
  | SOpen, SOpen | SDumps, SDumps | SWrite, SWrite | SClose, SClose
  | SRestore, SRestore | SRemove, SRemove => true
  | _, _ => false
  end.

Inductive exn_kind := KExc | KBase.

Inductive outcome := Done | Raised (k : exn_kind) (s : step).

Section Fs.
  Variable X : Type.              (* unit of file content; never inspected *)
  Definition content := list X.
  Definition fs := path -> option content.

  Record fault := mkFault { fkind : exn_kind; fdisk : option content }.
  Definition schedule := step -> option fault.
  Definition no_fault : schedule := fun _ => None.
  Definition single (k : step) (f : fault) : schedule :=
    fun s => if step_eqb s k then Some f else None.
  Fixpoint sched_of (l : list (step * fault)) : schedule :=
    match l with
    | [] => no_fault
    | (k, f) :: r => fun s => if step_eqb s k then Some f else sched_of r s
    end.

  Definition upd (p : path) (v : option content) (f : fs) : fs :=
    fun q => if path_eq_dec q p then v else f q.

  (* os.rename on POSIX, regular files *)
  Definition rename (src dst : path) (f : fs) : option fs :=
    match f src with
    | None => None                                   (* FileNotFoundError *)
    | Some c => Some (if path_eq_dec src dst then f
                      else upd src None (upd dst (Some c) f))
    end.
  (* os.remove *)
  Definition remove (p : path) (f : fs) : option fs :=
    match f p with
    | None => None                                   (* FileNotFoundError *)
    | Some _ => Some (upd p None f)
    end.

  (** Where the serialisation [json_dumps(content)] happens.  The code under
      verification has it inside the [with] block ([DInside]).  The two other
      placements are behaviour-preserving rewrites as far as the property is
      concerned; the model is parametric in the placement, every theorem is
      proved for all three, and the correspondence check feeds the placement
      it observes in the implementation's call trace. *)
  Inductive dumps_pos := DFirst | DBeforeOpen | DInside.

  (* the serialisation step: None = succeeded, Some k = raised *)
  Definition dumps_res (sch : schedule) (new : option content) : option exn_kind :=
    match sch SDumps with
    | Some ft => Some (fkind ft)
    | None => match new with None => Some KExc | Some _ => None end
    end.
  Definition dumps_at (here : bool) (sch : schedule) (new : option content) : option exn_kind :=
    if here then dumps_res sch new else None.

  (** [_save_content(content, path, 'json')]:
        with open(path, 'w') as the_file:
            content = json_dumps(content)
            the_file.write(content)
      [new = None]: the serialiser itself raises (an Exception) on this
      document. *)
  Definition save_content (pos : dumps_pos) (new : option content) (A : path)
             (sch : schedule) (f : fs) : fs * outcome :=
    match dumps_at (match pos with DBeforeOpen => true | _ => false end) sch new with
    | Some k => (f, Raised k SDumps)
    | None =>
    match sch SOpen with
    | Some ft => (upd A (fdisk ft) f, Raised (fkind ft) SOpen)
    | None =>
        let f1 := upd A (Some []) f in                (* created / truncated *)
        let '(f2, body) :=
          match dumps_at (match pos with DInside => true | _ => false end) sch new with
          | Some k => (f1, Raised k SDumps)
          | None =>
              match new with
              | None => (f1, Raised KExc SDumps)      (* unreachable: dumps succeeded *)
              | Some c =>
                  match sch SWrite with
                  | Some ft => (upd A (fdisk ft) f1, Raised (fkind ft) SWrite)
                  | None => (upd A (Some ([] ++ c)) f1, Done)
                  end
              end
          end in
        (* leaving the with block: close(); its exception wins *)
        match sch SClose with
        | Some ft => (upd A (fdisk ft) f2, Raised (fkind ft) SClose)
        | None => (f2, body)
        end
    end
    end.

  (** [save_content_to_path(content, path, 'json', keep_backup)]:
        backup_path = f"{path}.bak"
        os.rename(path, backup_path)
        try:
            _save_content(...)
        except Exception:
            os.rename(backup_path, path)
            raise
        else:
            if not keep_backup:
                os.remove(backup_path) *)
  Definition save (pos : dumps_pos) (keep : bool) (new : option content) (A : path)
             (sch : schedule) (f : fs) : fs * outcome :=
    match dumps_at (match pos with DFirst => true | _ => false end) sch new with
    | Some k => (f, Raised k SDumps)
    | None =>
    match sch SBackup with
    | Some ft => (f, Raised (fkind ft) SBackup)
    | None =>
    match rename A (bak A) f with
    | None => (f, Raised KExc SBackup)
    | Some f1 =>
        let '(f2, r) := save_content pos new A sch f1 in
        match r with
        | Raised KExc s =>
            match sch SRestore with
            | Some ft => (f2, Raised (fkind ft) SRestore)
            | None =>
                match rename (bak A) A f2 with
                | None => (f2, Raised KExc SRestore)
                | Some f3 => (f3, Raised KExc s)       (* re-raise *)
                end
            end
        | Raised KBase s => (f2, Raised KBase s)       (* not an Exception: not caught *)
        | Done =>
            if keep then (f2, Done)
            else match sch SRemove with
                 | Some ft => (f2, Raised (fkind ft) SRemove)
                 | None =>
                     match remove (bak A) f2 with
                     | None => (f2, Raised KExc SRemove)
                     | Some f3 => (f3, Done)
                     end
                 end
        end
    end
    end
    end.

  (** The command line level.  Documents and deltas are abstract; the
      functions below are the oracles for json load / dump, the pickle
      (de)serialisation of a delta, DeepDiff+Delta construction and delta
      application. *)
  Section Cli.
    Variables doc delta : Type.
    Variable parse : content -> option doc.          (* load_path_content, json *)
    Variable dump : doc -> option content.           (* json_dumps; None = raises *)
    Variable pickle : delta -> content.              (* Delta(diff).dumps() *)
    Variable unpickle : content -> option delta.     (* Delta(delta_path=...) *)
    Variable mk_delta : doc -> doc -> delta.         (* Delta(DeepDiff(t1, t2)) *)
    Variable apply_delta : delta -> doc -> doc.      (* delta + content *)

    Definition load (f : fs) (p : path) : option doc :=
      match f p with None => None | Some c => parse c end.

    (* deep diff A B --create-patch : the bytes written to stdout *)
    Definition diff_cmd (A B : path) (f : fs) : option content :=
      match load f A, load f B with
      | Some a, Some b => Some (pickle (mk_delta a b))
      | _, _ => None
      end.

    (* deep patch A P [--backup] *)
    Definition patch_cmd (pos : dumps_pos) (keep : bool) (A P : path) (sch : schedule) (f : fs)
      : fs * outcome :=
      match sch SLoadDelta with
      | Some ft => (f, Raised (fkind ft) SLoadDelta)
      | None =>
      match (match f P with None => None | Some c => unpickle c end) with
      | None => (f, Raised KExc SLoadDelta)
      | Some dl =>
      match sch SLoadDoc with
      | Some ft => (f, Raised (fkind ft) SLoadDoc)
      | None =>
      match load f A with
      | None => (f, Raised KExc SLoadDoc)
      | Some a =>
      match sch SApply with
      | Some ft => (f, Raised (fkind ft) SApply)
      | None => save pos keep (dump (apply_delta dl a)) A sch f
      end end end end end.
  End Cli.

  (** What the process reports.  [patch] turns an Exception from loading the
      document into sys.exit(message) always, one from loading the delta or
      from saving into sys.exit(message) unless --debug, and does not guard
      [delta + content]; click turns KeyboardInterrupt into "Aborted!", exit 1. *)
  Inductive cli_result := CExit (code : nat) | CExc (s : step).
  Definition cli_report (debug : bool) (o : outcome) : cli_result :=
    match o with
    | Done => CExit 0
    | Raised KBase _ => CExit 1
    | Raised KExc SLoadDoc => CExit 1
    | Raised KExc SApply => CExc SApply
    | Raised KExc s => if debug then CExc s else CExit 1
    end.
End Fs.

Arguments mkFault {X}.
Arguments fkind {X}.
Arguments fdisk {X}.
Arguments no_fault {X}.
Arguments single {X}.
Arguments sched_of {X}.
Arguments upd {X}.
Arguments rename {X}.
Arguments remove {X}.
Arguments dumps_res {X}.
Arguments dumps_at {X}.
Arguments save_content {X}.
Arguments save {X}.
Arguments load {X doc}.
Arguments diff_cmd {X doc delta}.
Arguments patch_cmd {X doc delta}.

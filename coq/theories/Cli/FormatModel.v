(** The command line tool over ALL file types (Cli/FsModel.v has json only).

    * [ext_of] = [path.split('.')[-1]] (commands.py: the extension is everything
      after the last dot of the whole path - the whole path if there is no dot),
      [fmt_of_ext] = the dispatch of serialization.load_path_content /
      _save_content on that string (case sensitive; csv and tsv share one
      branch, yaml and yml another; anything else: UnsupportedFormatErr).
    * The codecs ([parse fm], [dump fm]: json / yaml / toml / pickle / csv text
      <-> document) are Section variables, like the availability of the
      optional modules: [can_load fm] (the parser imports: yaml, tomllib /
      tomli), [can_save fm] (the serialiser imports: yaml, tomli_w; always
      true for json, pickle, csv).
    * [patch_cmd_g] = commands.patch, [diff_cmd_g] = commands.diff
      --create-patch; the two files of a diff may have different types; the
      save path is the generalised program of Cli/GenModel.v with the shape of
      the branch: json serialises to a string inside the [with] block, the
      other four hand the open file to the serialiser.
    * [run_hist]: a sequence of `deep patch` commands on the same file
      (each with its own patch file, flags, fault schedule and environment);
      [run_saves]: the same for direct calls of save_content_to_path.
    Definitions only. *)
From Coq Require Import List Bool NArith String.
Import ListNotations.
From DD Require Import Base.Sx Base.PyStr Cli.FsModel Cli.GenModel.

Inductive fmt := FJson | FYaml | FToml | FPickle | FCsv.

Definition DOT : N := 46%N.
Definition has_dot (p : pystr) : bool := existsb (N.eqb DOT) p.

(* path.split('.')[-1] *)
Fixpoint ext_of (p : pystr) : pystr :=
  match p with
  | [] => []
  | c :: r => if has_dot r then ext_of r else if N.eqb c DOT then r else c :: r
  end.

Definition EXT_JSON : pystr := s2p "json".
Definition EXT_YAML : pystr := s2p "yaml".
Definition EXT_YML : pystr := s2p "yml".
Definition EXT_TOML : pystr := s2p "toml".
Definition EXT_PICKLE : pystr := s2p "pickle".
Definition EXT_CSV : pystr := s2p "csv".
Definition EXT_TSV : pystr := s2p "tsv".

Definition fmt_of_ext (e : pystr) : option fmt :=
  if pystr_eqb e EXT_JSON then Some FJson
  else if pystr_eqb e EXT_YAML || pystr_eqb e EXT_YML then Some FYaml
  else if pystr_eqb e EXT_TOML then Some FToml
  else if pystr_eqb e EXT_PICKLE then Some FPickle
  else if pystr_eqb e EXT_CSV || pystr_eqb e EXT_TSV then Some FCsv
  else None.

Definition fmt_of_path (p : path) : option fmt := fmt_of_ext (ext_of p).

Section CliG.
  Variable X : Type.
  Notation content := (content X).
  Notation fs := (fs X).
  Notation schedule := (schedule X).
  Variables doc delta : Type.
  Variable parse : fmt -> content -> option doc.      (* the loader of the branch *)
  Variable dump : fmt -> doc -> option content.       (* the serialiser of the branch; None = raises *)
  Variable can_load can_save : fmt -> bool.           (* optional modules present *)
  Variable pickle : delta -> content.                 (* Delta(diff).dumps() *)
  Variable unpickle : content -> option delta.        (* Delta(delta_path=...) *)
  Variable mk_delta : doc -> doc -> delta.            (* Delta(DeepDiff(t1, t2)) *)
  Variable apply_delta : delta -> doc -> doc.         (* delta + content *)

  (* load_path_content(path, file_type=extension) *)
  Definition load_g (f : fs) (p : path) : option doc :=
    match fmt_of_path p with
    | None => None                                    (* UnsupportedFormatErr *)
    | Some fm =>
        if can_load fm then
          match f p with None => None | Some c => parse fm c end
        else None                                     (* ImportError *)
    end.

  (* the branch of _save_content *)
  Definition shape_of (fm : option fmt) : shape :=
    match fm with
    | None => ShNone
    | Some fm => if can_save fm then match fm with FJson => ShBuf DInside | _ => ShStream end else ShNone
    end.

  (* deep diff A B --create-patch *)
  Definition diff_cmd_g (A B : path) (f : fs) : option content :=
    match load_g f A, load_g f B with
    | Some a, Some b => Some (pickle (mk_delta a b))
    | _, _ => None
    end.

  (* deep patch A P [--backup] *)
  Definition patch_cmd_g (ev : env X) (keep : bool) (A P : path) (sch : schedule) (f : fs) : fs * outcome :=
    match sch SLoadDelta with
    | Some ft => (f, Raised (fkind ft) SLoadDelta)
    | None =>
    match (match f P with None => None | Some c => unpickle c end) with
    | None => (f, Raised KExc SLoadDelta)
    | Some dl =>
    match sch SLoadDoc with
    | Some ft => (f, Raised (fkind ft) SLoadDoc)
    | None =>
    match load_g f A with
    | None => (f, Raised KExc SLoadDoc)
    | Some a =>
    match sch SApply with
    | Some ft => (f, Raised (fkind ft) SApply)
    | None =>
        let fm := fmt_of_path A in
        save_g (shape_of fm) ev keep
               (match fm with Some fm => dump fm (apply_delta dl a) | None => None end) A sch f
    end end end end end.

  (** a history of `deep patch` commands on the same file *)
  Record cmd := mkCmd { c_env : env X; c_keep : bool; c_P : path; c_sch : schedule }.
  Fixpoint run_hist (A : path) (cs : list cmd) (f : fs) : fs * list outcome :=
    match cs with
    | [] => (f, [])
    | c :: r =>
        let '(f1, o) := patch_cmd_g (c_env c) (c_keep c) A (c_P c) (c_sch c) f in
        let '(f2, os) := run_hist A r f1 in
        (f2, o :: os)
    end.
End CliG.

Section Saves.
  Variable X : Type.
  (** a history of direct calls save_content_to_path(content_i, A, file_type_i, keep_i) *)
  Record scmd := mkScmd { s_sh : shape; s_env : env X; s_keep : bool; s_new : option (content X); s_sch : schedule X }.
  Fixpoint run_saves (A : path) (cs : list scmd) (f : fs X) : fs X * list outcome :=
    match cs with
    | [] => (f, [])
    | c :: r =>
        let '(f1, o) := save_g (s_sh c) (s_env c) (s_keep c) (s_new c) A (s_sch c) f in
        let '(f2, os) := run_saves A r f1 in
        (f2, o :: os)
    end.
End Saves.

Arguments load_g {X doc}.
Arguments shape_of can_save fm : assert.
Arguments diff_cmd_g {X doc delta}.
Arguments patch_cmd_g {X doc delta}.
Arguments mkCmd {X}.
Arguments c_env {X}.
Arguments c_keep {X}.
Arguments c_P {X}.
Arguments c_sch {X}.
Arguments run_hist {X doc delta}.
Arguments mkScmd {X}.
Arguments s_sh {X}.
Arguments s_env {X}.
Arguments s_keep {X}.
Arguments s_new {X}.
Arguments s_sch {X}.
Arguments run_saves {X}.

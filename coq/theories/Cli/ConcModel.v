(** Two `deep patch` commands running CONCURRENTLY on the same file (extension:
    the property and serialization.py say nothing about concurrency; there is no
    lock).  Each process runs the fault-free step sequence of commands.patch /
    save_content_to_path:

        Load     load_path_content(A)          (fails when A is missing or empty)
        Backup   os.rename(A, A.bak)           (outside the try: FileNotFoundError propagates, nothing is restored)
        Open     open(A, 'w')                  (creates A, or truncates the file another process created meanwhile)
        Flush    write + close                 (the data reaches the file the process OPENED - under whatever name it has now)
        Remove   os.remove(A.bak)              (unless --backup; in the else branch: a missing A.bak is "Error when saving")

    and an interleaving is a list of process numbers.  Names and files are kept
    apart (a rename moves the inode; an open file descriptor follows it), which
    is what makes the interleavings interesting.  Contents are histories: the
    new content of process i is [i :: what it loaded]; [] is the truncated file.
    Definitions only. *)
From Coq Require Import List Bool NArith Arith.
Import ListNotations.

Definition hist := list N.                       (* a file content: the tags of the updates it contains *)
Inductive cstep := CLoad | CBackup | COpen | CFlush | CRemove.
Inductive pstatus := Running | Finished | Failed (s : cstep).

Record proc := mkProc {
  p_tag : N; p_keep : bool;
  p_todo : list cstep;
  p_read : hist;                  (* what Load returned *)
  p_fd : option nat;              (* the inode opened for writing *)
  p_status : pstatus }.

Record cfs := mkCfs {
  c_A : option nat;               (* inode named A *)
  c_bak : option nat;             (* inode named A.bak *)
  c_store : list (nat * hist);    (* inode contents *)
  c_next : nat }.

Fixpoint lookup (i : nat) (st : list (nat * hist)) : hist :=
  match st with [] => [] | (j, h) :: r => if Nat.eqb i j then h else lookup i r end.
Definition set_inode (i : nat) (h : hist) (st : list (nat * hist)) : list (nat * hist) := (i, h) :: st.

Definition program (keep : bool) : list cstep :=
  [CLoad; CBackup; COpen; CFlush] ++ (if keep then [] else [CRemove]).
Definition new_proc (tag : N) (keep : bool) : proc := mkProc tag keep (program keep) [] None Running.

Definition fail (p : proc) (s : cstep) : proc := mkProc (p_tag p) (p_keep p) [] (p_read p) (p_fd p) (Failed s).

(* one step of one process *)
Definition pstep (p : proc) (f : cfs) : proc * cfs :=
  match p_status p, p_todo p with
  | Running, s :: rest =>
      let p' := mkProc (p_tag p) (p_keep p) rest (p_read p) (p_fd p)
                       (match rest with [] => Finished | _ => Running end) in
      match s with
      | CLoad =>
          match c_A f with
          | None => (fail p CLoad, f)
          | Some i => match lookup i (c_store f) with
                      | [] => (fail p CLoad, f)                              (* an empty file does not parse *)
                      | h => (mkProc (p_tag p) (p_keep p) rest h (p_fd p) (p_status p'), f)
                      end
          end
      | CBackup =>
          match c_A f with
          | None => (fail p CBackup, f)
          | Some i => (p', mkCfs None (Some i) (c_store f) (c_next f))
          end
      | COpen =>
          match c_A f with
          | None => let i := c_next f in
                    (mkProc (p_tag p) (p_keep p) rest (p_read p) (Some i) (p_status p'),
                     mkCfs (Some i) (c_bak f) (set_inode i [] (c_store f)) (S i))
          | Some i => (mkProc (p_tag p) (p_keep p) rest (p_read p) (Some i) (p_status p'),
                       mkCfs (c_A f) (c_bak f) (set_inode i [] (c_store f)) (c_next f))
          end
      | CFlush =>
          match p_fd p with
          | None => (fail p CFlush, f)                                        (* unreachable *)
          | Some i => (p', mkCfs (c_A f) (c_bak f) (set_inode i (p_tag p :: p_read p) (c_store f)) (c_next f))
          end
      | CRemove =>
          match c_bak f with
          | None => (fail p CRemove, f)
          | Some _ => (p', mkCfs (c_A f) None (c_store f) (c_next f))
          end
      end
  | _, _ => (p, f)
  end.

(* an interleaving: false = process 1 moves, true = process 2 moves *)
Fixpoint run (il : list bool) (p1 p2 : proc) (f : cfs) : proc * proc * cfs :=
  match il with
  | [] => (p1, p2, f)
  | false :: r => let '(p1', f') := pstep p1 f in run r p1' p2 f'
  | true :: r => let '(p2', f') := pstep p2 f in run r p1 p2' f'
  end.

(* all move lists of a given length; an interleaving of the two programs is one in
   which each process gets exactly as many moves as its program has steps *)
Fixpoint all_lists (k : nat) : list (list bool) :=
  match k with
  | O => [[]]
  | S k' => map (cons false) (all_lists k') ++ map (cons true) (all_lists k')
  end.
Definition count_moves (b : bool) (il : list bool) : nat := length (filter (Bool.eqb b) il).

Definition init_fs : cfs := mkCfs (Some 0) None [(0, [0%N])] 1.
Definition content_of (o : option nat) (f : cfs) : option hist :=
  match o with None => None | Some i => Some (lookup i (c_store f)) end.

Definition run2 (k1 k2 : bool) (il : list bool) : proc * proc * cfs :=
  run il (new_proc 1 k1) (new_proc 2 k2) init_fs.
Definition balanced (k1 k2 : bool) (il : list bool) : bool :=
  Nat.eqb (count_moves false il) (length (program k1)) && Nat.eqb (count_moves true il) (length (program k2)).
Definition all_runs (k1 k2 : bool) : list (list bool) :=
  filter (balanced k1 k2) (all_lists (length (program k1) + length (program k2))).

(* observations on a final state *)
Definition has_tag (t : N) (o : option hist) : bool :=
  match o with Some h => existsb (N.eqb t) h | None => false end.
Definition complete (o : option hist) : bool := match o with Some (_ :: _) => true | _ => false end.
Definition finished (p : proc) : bool := match p_status p with Finished => true | _ => false end.
(* one process has flushed (its 4th move) before the other loads (its 1st move) *)
Fixpoint first_move (b : bool) (l : list bool) (n : nat) : nat :=
  match l with [] => n | x :: r => if Bool.eqb x b then n else first_move b r (S n) end.
Fixpoint nth_move (b : bool) (k : nat) (l : list bool) (n : nat) : nat :=
  match l with
  | [] => n
  | x :: r => if Bool.eqb x b then (match k with O => n | S k' => nth_move b k' r (S n) end) else nth_move b k r (S n)
  end.
Definition serial (il : list bool) : bool :=
  Nat.ltb (nth_move false 3 il 0) (first_move true il 0) || Nat.ltb (nth_move true 3 il 0) (first_move false il 0).

(* what is true at the end of every interleaving *)
Definition good_end (k1 k2 : bool) (il : list bool) : bool :=
  let '(p1, p2, f) := run2 k1 k2 il in
  let a := content_of (c_A f) f in
  complete a &&                                              (* A holds a complete version *)
  match content_of (c_bak f) f with None => true | Some h => complete (Some h) end &&   (* A.bak: absent or complete *)
  has_tag 0 a && (has_tag 1 a || has_tag 2 a) &&             (* built on the original, with at least one update *)
  Bool.eqb (has_tag 1 a && has_tag 2 a) (serial il).         (* both updates iff the runs did not overlap *)
(* a process exits with status 0 and its update is not in the file *)
Definition silent_loss (k1 k2 : bool) (il : list bool) : bool :=
  let '(p1, p2, f) := run2 k1 k2 il in
  let a := content_of (c_A f) f in
  (finished p1 && negb (has_tag 1 a)) || (finished p2 && negb (has_tag 2 a)).
(* a process reports "Error when saving" and its update is in the file *)
Definition false_alarm (k1 k2 : bool) (il : list bool) : bool :=
  let '(p1, p2, f) := run2 k1 k2 il in
  let a := content_of (c_A f) f in
  (negb (finished p1) && has_tag 1 a) || (negb (finished p2) && has_tag 2 a).

(** The statement-level model of the save / load / patch path of the command line tool:
    serialization._save_content, serialization.save_content_to_path,
    serialization.load_path_content and commands.patch written as programs over the
    statement combinators of Cli/PyMonad.v, one combinator per Python statement, in the
    order of the source (deepdiff 8.x as of this writing).

    This is the hand-written model CLOSEST to the code.  Cli/StmtProofs.v proves that these
    programs refine to the abstract models of the block - [s__save_content] is
    GenModel.body_tr, [s_save_content_to_path] is GenModel.save_tr, [s_load_path_content] the
    loading step of FormatModel.load_g, [s_patch] under click is FormatModel.patch_cmd_g +
    FsModel.cli_report - so every theorem of Properties/C20.v holds of them.  The source tie
    (harness/translate/clisave.py, coq/srctie/CliGenEquiv.v) regenerates the same programs from
    the current source text at every run and checks them equal to these.
    Definitions only. *)
From Coq Require Import List Bool NArith ZArith String.
Import ListNotations.
From DD Require Import Base.PyStr Cli.FsModel Cli.GenModel Cli.FormatModel Cli.PyMonad.

(* deepdiff/serialization.py  def _save_content(content, path, file_type, keep_backup) *)
Definition s__save_content {X doc delta : Type} (W : world X doc delta) (content : doc) (path : FsModel.path) (file_type : pystr) (keep_backup : bool) : M X unit :=
  m_seq (
  if (pystr_eqb file_type (s2p "json")) then
    m_with_open W path MW (fun the_file =>
      m_bind (m_json_dumps W content) (fun content =>
      m_write W the_file content))
  else if (pystr_eqb file_type (s2p "yaml") || pystr_eqb file_type (s2p "yml")) then
    m_seq (m_import_or_raise W MYaml) (
    m_with_open W path MW (fun the_file =>
      m_bind (m_stream_dump W FYaml the_file content) (fun content =>
      m_ret tt)))
  else if (pystr_eqb file_type (s2p "toml")) then
    m_seq (m_import_or_raise W MTomliW) (
    m_with_open W path MW (fun the_file =>
      m_bind (m_stream_dump W FToml the_file content) (fun content =>
      m_ret tt)))
  else if (pystr_eqb file_type (s2p "pickle")) then
    m_with_open W path MW (fun the_file =>
      m_bind (m_stream_dump W FPickle the_file content) (fun content =>
      m_ret tt))
  else if (pystr_eqb file_type (s2p "csv") || pystr_eqb file_type (s2p "tsv")) then
    m_with_open W path MW (fun csvfile =>
      m_stream_dump W FCsv csvfile content)
  else
    m_raise_error
  ) (
  m_ret tt).

(* deepdiff/serialization.py  def save_content_to_path(content, path, file_type, keep_backup) *)
Definition s_save_content_to_path {X doc delta : Type} (W : world X doc delta) (content : doc) (path : FsModel.path) (file_type : pystr) (keep_backup : bool) : M X unit :=
  let backup_path := (path ++ (s2p ".bak"))%list in
  m_seq (m_rename W path backup_path) (
  m_try (
      s__save_content W content path file_type keep_backup)
    CatchException (fun exc1_ =>
        m_seq (m_rename W backup_path path) (
        m_reraise exc1_))
    (fun _ =>
        if (negb keep_backup) then
          m_remove W backup_path
        else
          m_ret tt)).

(* deepdiff/serialization.py  def load_path_content(path, file_type) *)
Definition s_load_path_content {X doc delta : Type} (W : world X doc delta) (path : FsModel.path) (file_type : option pystr) : M X doc :=
  m_bind (match file_type with Some x_ => m_ret x_ | None => m_of_option (py_split_index path 46%N (-1)%Z) end) (fun file_type =>
  m_bind (
  if (pystr_eqb file_type (s2p "json")) then
    m_bind (m_open_read W path (fun the_file =>
      m_bind (m_bind (m_read the_file) (fun t1_ => m_parse W FJson t1_)) (fun content =>
      m_ret content))) (fun content =>
    m_ret content)
  else if (pystr_eqb file_type (s2p "yaml") || pystr_eqb file_type (s2p "yml")) then
    m_seq (m_import_or_raise_load W MYaml) (
    m_bind (m_open_read W path (fun the_file =>
      m_bind (m_parse_file W FYaml the_file) (fun content =>
      m_ret content))) (fun content =>
    m_ret content))
  else if (pystr_eqb file_type (s2p "toml")) then
    m_seq (m_import_or_raise_load W MTomli) (
    m_bind (m_open_read W path (fun the_file =>
      m_bind (m_parse_file W FToml the_file) (fun content =>
      m_ret content))) (fun content =>
    m_ret content))
  else if (pystr_eqb file_type (s2p "pickle")) then
    m_bind (m_open_read W path (fun the_file =>
      m_bind (m_read the_file) (fun content =>
      m_bind (m_parse W FPickle content) (fun content =>
      m_ret content)))) (fun content =>
    m_ret content)
  else if (pystr_eqb file_type (s2p "csv") || pystr_eqb file_type (s2p "tsv")) then
    m_bind (m_open_read W path (fun f_ => m_parse_file W FCsv f_)) (fun content =>
    m_ret content)
  else
    m_raise_load_error
  ) (fun content =>
  m_ret content)).

(* deepdiff/commands.py  def patch(path, delta_path, backup, raise_errors, debug) *)
Definition s_patch {X doc delta : Type} (W : world X doc delta) (path : FsModel.path) (delta_path : FsModel.path) (backup : bool) (raise_errors : bool) (debug : bool) : M X unit :=
  m_try (m_load_delta W delta_path)
    CatchException (fun e =>
        if debug then
          m_reraise e
        else
          m_sys_exit 1)
    (fun delta =>
      m_bind (m_of_option (py_split_index path 46%N (-1)%Z)) (fun extension =>
      m_try (s_load_path_content W path (Some extension))
        CatchException (fun e =>
            m_sys_exit 1)
        (fun content =>
          m_bind (m_delta_add W delta content) (fun result =>
          m_try (
              s_save_content_to_path W result path extension backup)
            CatchException (fun e =>
                if debug then
                  m_reraise e
                else
                  m_sys_exit 1)
            (fun _ =>
                m_ret tt))))).

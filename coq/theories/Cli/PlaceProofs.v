(** Proofs about `deep patch` with the placement of the serialisation call as a
    parameter (Cli/PlaceModel.v): at [DInside] it is FormatModel.patch_cmd_g; on
    a json target it is FsModel.patch_cmd at the same placement; the history
    theorems of Cli/HistProofs.v hold for EVERY placement. *)
From Coq Require Import List Bool NArith String Lia.
Import ListNotations.
From DD Require Import Base.Sx Base.PyStr Cli.FsModel Cli.FsProofs Cli.GenModel Cli.GenProofs
  Cli.FormatModel Cli.FormatProofs Cli.HistProofs Cli.PlaceModel.

Section PlaceProofs.
  Variable X : Type.
  Notation content := (content X).
  Notation fs := (fs X).
  Notation schedule := (schedule X).
  Notation fault := (fault X).
  Notation env := (env X).
  Variables doc delta : Type.
  Variable parse : fmt -> content -> option doc.
  Variable dump : fmt -> doc -> option content.
  Variable can_load can_save : fmt -> bool.
  Variable unpickle : content -> option delta.
  Variable apply_delta : delta -> doc -> doc.

  Notation load_g := (load_g parse can_load).
  Notation patch_cmd_g := (patch_cmd_g parse dump can_load can_save unpickle apply_delta).
  Notation patch_cmd_gp := (patch_cmd_gp parse dump can_load can_save unpickle apply_delta).
  Notation run_hist := (run_hist parse dump can_load can_save unpickle apply_delta).
  Notation run_hist_p := (run_hist_p parse dump can_load can_save unpickle apply_delta).

  (** ** The placement of the code under verification *)
  Lemma shape_at_inside : forall fm, shape_at DInside (shape_of can_save fm) = shape_of can_save fm.
  Proof. intros [fm|]; cbn; [|reflexivity]. destruct (can_save fm), fm; reflexivity. Qed.

  Theorem patch_cmd_gp_inside :
    forall ev keep A P (sch : schedule) (f : fs),
      patch_cmd_gp DInside ev keep A P sch f = patch_cmd_g ev keep A P sch f.
  Proof.
    intros. unfold PlaceModel.patch_cmd_gp, FormatModel.patch_cmd_g. rewrite shape_at_inside. reflexivity.
  Qed.

  Theorem run_hist_p_inside :
    forall A cs (f : fs), run_hist_p A (map (pair DInside) cs) f = run_hist A cs f.
  Proof.
    intros A cs. induction cs as [|c r IH]; intros f; [reflexivity|].
    cbn [map PlaceModel.run_hist_p FormatModel.run_hist]. rewrite patch_cmd_gp_inside.
    destruct (patch_cmd_g (c_env c) (c_keep c) A (c_P c) (c_sch c) f) as [f1 o]. rewrite IH. reflexivity.
  Qed.

  (** the placement only matters for the buffered (json) branch *)
  Lemma shape_at_not_buf : forall pos sh, (forall p, sh <> ShBuf p) -> shape_at pos sh = sh.
  Proof. intros pos [p| |] H; [exfalso; exact (H p eq_refl) | reflexivity | reflexivity]. Qed.

  Theorem patch_cmd_gp_other_formats :
    forall pos ev keep A P (sch : schedule) (f : fs),
      fmt_of_path A <> Some FJson ->
      patch_cmd_gp pos ev keep A P sch f = patch_cmd_g ev keep A P sch f.
  Proof.
    intros pos ev keep A P sch f H. unfold PlaceModel.patch_cmd_gp, FormatModel.patch_cmd_g.
    rewrite shape_at_not_buf; [reflexivity|].
    intros p. destruct (fmt_of_path A) as [fm|]; cbn; [|discriminate].
    destruct (can_save fm); [|discriminate]. destruct fm; try discriminate. exfalso; apply H; reflexivity.
  Qed.

  (** on a .json path, in the plain environment, it is FsModel.patch_cmd AT THE SAME
      PLACEMENT (the model the fault-schedule stream of the harness evaluates) *)
  Theorem patch_cmd_gp_json :
    forall pos keep A P (sch : schedule) (f : fs),
      fmt_of_path A = Some FJson -> can_load FJson = true -> can_save FJson = true ->
      snd (patch_cmd_gp pos env0 keep A P sch f) =
      snd (patch_cmd (parse FJson) (dump FJson) unpickle apply_delta pos keep A P sch f) /\
      forall q, fst (patch_cmd_gp pos env0 keep A P sch f) q =
                fst (patch_cmd (parse FJson) (dump FJson) unpickle apply_delta pos keep A P sch f) q.
  Proof.
    intros pos keep A P sch f Hfa Hcl Hcs.
    unfold PlaceModel.patch_cmd_gp, patch_cmd, FormatModel.load_g, load. rewrite Hfa, Hcl.
    destruct (sch SLoadDelta); [split; reflexivity|].
    destruct (match f P with Some c => unpickle c | None => None end); [|split; reflexivity].
    destruct (sch SLoadDoc); [split; reflexivity|].
    destruct (f A) as [ca|]; [|split; reflexivity].
    destruct (parse FJson ca) as [a|]; [|split; reflexivity].
    destruct (sch SApply); [split; reflexivity|].
    cbn [shape_of]. rewrite Hcs. cbn [shape_at]. apply save_g_json.
  Qed.

  (** nothing before the save path touches the file system *)
  Lemma patch_gp_presave :
    forall pos ev keep A P (sch : schedule) (f : fs),
      (exists k s, patch_cmd_gp pos ev keep A P sch f = (f, Raised k s) /\ (s = SLoadDelta \/ s = SLoadDoc \/ s = SApply)) \/
      (exists dl a, (match f P with Some c => unpickle c | None => None end) = Some dl /\ load_g f A = Some a /\
                    patch_cmd_gp pos ev keep A P sch f =
                    save_g (shape_at pos (shape_of can_save (fmt_of_path A))) ev keep
                           (match fmt_of_path A with Some fm => dump fm (apply_delta dl a) | None => None end) A sch f).
  Proof.
    intros pos ev keep A P sch f. unfold PlaceModel.patch_cmd_gp.
    destruct (sch SLoadDelta) as [ft|]; [left; eauto 6|].
    destruct (match f P with Some c => unpickle c | None => None end) as [dl|]; [|left; eauto 6].
    destruct (sch SLoadDoc) as [ft|]; [left; eauto 7|].
    destruct (load_g f A) as [a|]; [|left; eauto 7].
    destruct (sch SApply) as [ft|]; [left; eauto 8|].
    right. exists dl, a. auto.
  Qed.

  (** ** Histories, for every placement *)

  (** ONE command, ANY schedule, ANY placement of the serialisation call: the
      invariant of Cli/HistProofs.v is kept for the same version, or the command
      wrote its own new content completely; nothing else is touched *)
  Theorem patch_gp_inv_step :
    forall pos ev keep A P (sch : schedule) (f f' : fs) o cur fa,
      fmt_of_path A = Some fa ->
      debris_unloadable parse fa ev sch ->
      Inv parse can_load A f cur ->
      patch_cmd_gp pos ev keep A P sch f = (f', o) ->
      (forall q, q <> A -> q <> bak A -> f' q = f q) /\
      (Inv parse can_load A f' cur \/
       exists dl a c, parse fa cur = Some a /\ dump fa (apply_delta dl a) = Some c /\ f' A = Some c) /\
      (o = Done -> f A = Some cur /\ f' (bak A) = (if keep then Some cur else None)).
  Proof.
    intros pos ev keep A P sch f f' o cur fa Hfa Hdeb Hinv H.
    destruct (patch_gp_presave pos ev keep A P sch f)
      as [[k [s [Hp Hs]]] | [dl [a [HP [Hl Hp]]]]].
    { rewrite Hp in H. inversion H; subst. split; [auto|]. split; [left; exact Hinv | discriminate]. }
    rewrite Hp in H. clear Hp.
    assert (HA : f A = Some cur /\ parse fa cur = Some a).
    { destruct Hinv as [HA | [_ Hn]]; [|congruence].
      split; [exact HA|]. unfold FormatModel.load_g in Hl. rewrite Hfa, HA in Hl.
      destruct (can_load fa); [exact Hl | discriminate]. }
    destruct HA as [HA Hpa]. rewrite Hfa in H.
    set (sh := shape_at pos (shape_of can_save (Some fa))) in *.
    destruct (save_g_final X _ _ _ _ _ _ _ _ _ _ HA H) as [Hok Hfr].
    split; [exact Hfr|].
    destruct (final_transfer X _ _ _ _ _ _ _ _ _ H) as [es2 [H2 _]]. rewrite HA in H2.
    assert (Hunc : unclean sh o -> Inv parse can_load A f' cur).
    { intros Hu. pose proof (tr2_unclean_debris X sh ev keep (dump fa (apply_delta dl a)) sch cur (f (bak A))) as Hd.
      rewrite H2 in Hd. unfold view in Hd. cbn [fst snd] in Hd. destruct (Hd Hu) as [Hd1 Hd2].
      right. split; [exact Hd2|]. unfold FormatModel.load_g. rewrite Hfa.
      destruct (can_load fa); [|reflexivity].
      destruct (f' A) as [c|] eqn:E; [|reflexivity]. apply Hdeb. exact Hd1. }
    unfold view in Hok. destruct o as [|k s]; cbn [final_ok] in Hok.
    - destruct Hok as [c [Hn Hv]]. inversion Hv. split; [|auto].
      right. exists dl, a, c. auto.
    - split; [|discriminate].
      destruct s; cbn [fst snd] in *;
        try (left; apply Hunc; left; reflexivity);
        try (inversion Hok; left; left; congruence);
        try (destruct Hok as [c [Hn Hv]]; inversion Hv; right; exists dl, a, c; auto).
      (* a failure in the body: either the serialisation stood before the first rename and
         nothing was touched, or the try block was left: rolled back (Exception) / unclean *)
      all: destruct Hok as [[_ [_ Hv]] | [Hl2 Hk]];
        [inversion Hv; left; left; congruence |
         destruct k; [inversion Hk; left; left; congruence | left; apply Hunc; right; auto]].
  Qed.

  Section Good.
    Variable fa : fmt.
    Variable Good : content -> Prop.
    Hypothesis Good_closed :
      forall c a dl c', Good c -> parse fa c = Some a -> dump fa (apply_delta dl a) = Some c' -> Good c'.

    (** ANY history of `deep patch` commands on A, under ANY fault schedules whose
        debris does not load, with ANY placement of the serialisation call in each
        command: a Good (complete) version is in A, or in A.bak while A does not
        load; no other file changed *)
    Theorem hist_p_good_version_survives :
      forall A (cs : list (dumps_pos * cmd X)) (f : fs),
        fmt_of_path A = Some fa ->
        Forall (fun c => debris_unloadable parse fa (c_env (snd c)) (c_sch (snd c))) cs ->
        (exists cur, Good cur /\ Inv parse can_load A f cur) ->
        (exists cur', Good cur' /\ Inv parse can_load A (fst (run_hist_p A cs f)) cur') /\
        (forall q, q <> A -> q <> bak A -> fst (run_hist_p A cs f) q = f q).
    Proof.
      intros A cs. induction cs as [|[pos c] r IH]; intros f Hfa Hdeb Hex.
      { cbn. split; [exact Hex | reflexivity]. }
      inversion Hdeb as [|c0 r0 Hc Hr]; subst. cbn [snd] in Hc. destruct Hex as [cur [Hg Hinv]].
      cbn [PlaceModel.run_hist_p].
      destruct (patch_cmd_gp pos (c_env c) (c_keep c) A (c_P c) (c_sch c) f) as [f1 o] eqn:E.
      destruct (patch_gp_inv_step _ _ _ _ _ _ _ _ _ _ _ Hfa Hc Hinv E) as [Hfr [Hstep _]].
      assert (Hex1 : exists cur1, Good cur1 /\ Inv parse can_load A f1 cur1).
      { destruct Hstep as [Hi | [dl [a [c' [Hpa [Hdu HA']]]]]].
        - exists cur; auto.
        - exists c'. split; [exact (Good_closed _ _ _ _ Hg Hpa Hdu) | left; exact HA']. }
      destruct (IH f1 Hfa Hr Hex1) as [Hfin Hfr2].
      destruct (PlaceModel.run_hist_p parse dump can_load can_save unpickle apply_delta A r f1) as [f2 os].
      cbn [fst] in *. split; [exact Hfin|].
      intros q H1 H2. rewrite (Hfr2 q H1 H2). apply Hfr; assumption.
    Qed.
  End Good.
End PlaceProofs.

(** ** The placement is observable (so the parameter is not idle): an interrupt at
    the serialisation step leaves the target EMPTY when [json_dumps] is called
    inside the [with] block (the file was opened) and ABSENT when it is called
    before [open]; in both cases the original is in A.bak, as the theorems say *)
Example ex_placement_observable :
  let sch := single SDumps (mkFault KBase None) in
  let run pos := patch_cmd_gp hx_parse hx_dump (fun _ => true) (fun _ => true) hx_unpickle (fun (d : N) (_ : N) => d)
                              pos env0 false hx_A hx_P sch hx_f2 in
  snd (run DInside) = Raised KBase SDumps /\ snd (run DBeforeOpen) = Raised KBase SDumps /\
  fst (run DInside) hx_A = Some [] /\ fst (run DBeforeOpen) hx_A = None /\
  fst (run DInside) (bak hx_A) = Some [1%N] /\ fst (run DBeforeOpen) (bak hx_A) = Some [1%N].
Proof. vm_compute. repeat split. Qed.

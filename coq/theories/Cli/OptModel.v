(** The diff side of the command line tool: the option plumbing of
    deepdiff/commands.py [diff] (Cli/FsModel.v, FormatModel.v model `deep diff A B
    --create-patch` without options).

    * [opts] = the command line options of `deep diff`; [kwargs_of] = what
      commands.diff passes to the DeepDiff call (as keyword arguments): [debug], [create_patch], [t1],
      [t2] are popped, [ignore_private_variables = not include_private_variables],
      [progress_logger] becomes logger.info / logger.error, and with
      --create-patch [log_frequency_in_sec] is forced to 0 (progress lines would
      leak into the patch on stdout); everything else is passed through.
    * [delta_possible]: whether [Delta(diff)] can be built at all - not with
      --group-by, not with --ignore-order unless --report-repetition, and (what
      the code does, see NOTES) not with --cache-purge-level 2, which deletes the
      attributes of the DeepDiff object that Delta reads.  Otherwise `deep diff`
      exits with "Error when loading the patch (aka delta)".
    * [exact]: no option that makes DeepDiff treat different documents as equal
      (the [ign] options, --exclude-paths, --ignore-order).  For exact options the
      diff is the one of Diff/DiffModel.v under [cfg_of] (threshold, private
      variables): every other option is a no-op on the delta ([mk_delta_opts]
      does not look at it; the harness compares the patch BYTES with those of the
      default run).  --exclude-paths is modelled too ([skip_of]: DiffModel's
      [skip]); the other ignoring options are outside the diff model.
    Definitions only. *)
From Coq Require Import List Bool NArith ZArith String.
Import ListNotations.
From DD Require Import Base.Sx Base.PyStr Base.Value Diff.Tree Diff.DiffModel Delta.DeltaModel.

(** options under which DeepDiff reports fewer differences than there are *)
Inductive ign :=
| IExcludeRegex | ISignificantDigits | IMathEpsilon | IStringCase | INumericType
| IStringType | ITypeSubclasses | INanInequality | IMaxDiffs | ITruncateDatetime.

Record opts := mkOpts {
  o_thr_num : nat; o_thr_den : nat;     (* --threshold-to-diff-deeper (default 0.33) *)
  o_include_private : bool;             (* --include-private-variables *)
  o_exclude_paths : list path;          (* --exclude-paths, repeated *)
  o_ignoring : list ign;                (* the ignoring options given *)
  o_ignore_order : bool;                (* --ignore-order *)
  o_report_repetition : bool;           (* --report-repetition *)
  o_group_by : bool;                    (* --group-by given *)
  o_cache_purge_level : nat;            (* --cache-purge-level 0..2 (default 1) *)
  (* no effect on the delta *)
  o_verbose : nat;                      (* --verbose-level 0..2 *)
  o_cache_size : nat; o_cache_tuning : nat;
  o_cutoff_distance : nat; o_cutoff_intersection : nat;   (* per cent; only read under --ignore-order *)
  o_get_deep_distance : bool;
  o_max_passes : N;
  o_number_format_e : bool;             (* --number-format-notation e; only read with --significant-digits *)
  o_progress_error : bool;              (* --progress-logger error *)
  o_log_frequency : nat;                (* --log-frequency-in-sec *)
  o_create_patch : bool;
  o_debug : bool }.

(** the keyword arguments of the DeepDiff call that the plumbing computes *)
Record kwargs := mkKw {
  k_ignore_private_variables : bool;
  k_log_frequency_in_sec : nat;
  k_progress_logger_error : bool;
  k_threshold : nat * nat;
  k_exclude_paths : list path;
  k_ignore_order : bool; k_report_repetition : bool; k_group_by : bool;
  k_cache_purge_level : nat; k_verbose_level : nat; k_cache_size : nat; k_cache_tuning : nat;
  k_get_deep_distance : bool; k_max_passes : N; k_ignoring : list ign }.

Definition kwargs_of (o : opts) : kwargs :=
  mkKw (negb (o_include_private o))
       (if o_create_patch o then 0 else o_log_frequency o)
       (o_progress_error o)
       (o_thr_num o, o_thr_den o)
       (o_exclude_paths o)
       (o_ignore_order o) (o_report_repetition o) (o_group_by o)
       (o_cache_purge_level o) (o_verbose o) (o_cache_size o) (o_cache_tuning o)
       (o_get_deep_distance o) (o_max_passes o) (o_ignoring o).

(* Delta(diff) can be built *)
Definition delta_possible (o : opts) : bool :=
  negb (o_group_by o) &&
  negb (o_ignore_order o && negb (o_report_repetition o)) &&
  negb (Nat.eqb (o_cache_purge_level o) 2).

(* nothing is ignored *)
Definition exact (o : opts) : bool :=
  delta_possible o && negb (o_ignore_order o) &&
  match o_ignoring o with [] => true | _ => false end &&
  match o_exclude_paths o with [] => true | _ => false end.

Definition cfg_of (o : opts) : cfg := mkCfg false (o_thr_num o) (o_thr_den o) (negb (o_include_private o)).
Definition skip_of (o : opts) (p : path) : bool := existsb (path_eqb p) (o_exclude_paths o).

Definition default_opts : opts :=
  mkOpts 33 100 false [] [] false false false 1 1 0 0 30 70 false 10000000%N false false 0 true false.

Section OptDiff.
  Variable hatom : atom -> pystr.
  Variable udiff : pystr -> pystr -> pystr.
  Variable ops : path -> list value -> list value -> list opcode.
  Variable conv : ty -> value -> option value.

  (** Delta(DeepDiff(t1, t2, **kwargs)) for the options inside the diff model (no
      ignoring option other than --exclude-paths, no --ignore-order) *)
  Definition mk_delta_opts (o : opts) (a b : value) : delta :=
    let r := run_diff hatom udiff ops (skip_of o) (skip_of o) (cfg_of o) a b in
    to_delta conv false false ops a b (fst r) (snd r).

  (** deep diff A B --create-patch <options>: None = exit status 1 *)
  Definition diff_opts (o : opts) (a b : value) : option delta :=
    if delta_possible o then Some (mk_delta_opts o a b) else None.
End OptDiff.

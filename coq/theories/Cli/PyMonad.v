(** Statement-level semantics for the Python fragment that the source tie of C20
    translates (harness/translate/clisave.py): serialization.save_content_to_path,
    serialization._save_content, serialization.load_path_content and commands.patch.

    The translator turns every Python statement of those functions into ONE
    application of a combinator of this file, in source order.  The combinators
    give each statement form its meaning over the SAME objects as the hand model
    (Cli/FsModel.v, Cli/GenModel.v, Cli/FormatModel.v): the abstract file system
    [fs], the fault schedule (every system call is a fault point), the
    environment [env] (buffer-dependent on-disk contents, atomicity of rename) and
    the labelled trace of intermediate states.  Nothing here mentions [save],
    [save_trP], [body_tr], [patch_cmd_g] or [load_g]: the programs are
    re-derived from the source text and proved equal to those in coq/srctie.

      M T            state (file system, write buffer of the open file) ->
                     trace * state * (value | exception)
      m_bind / m_seq  `x = e ; rest`, `s1 ; s2`
      m_rename        os.rename(src, dst)      fault point SBackup when it moves the
                                               target to target.bak, SRestore for the
                                               opposite direction (exactly how the
                                               harness attributes the calls)
      m_remove        os.remove(p)             fault point SRemove for target.bak
      m_with_open     with open(p, 'w') as f:  SOpen; truncates ('a': keeps); on the way
                                               out close() = SClose, runs whatever
                                               happened in the block, its exception wins
      m_json_dumps    json_dumps(content)      SDumps
      m_write         f.write(data)            SWrite; the data is in the buffer
                                               until close
      m_stream_dump   serialiser(content, f)   SDumps / SWrite, yaml toml pickle csv
      m_import_or_raise  try: import m except ImportError: raise ImportError(..)
      m_raise_error   raise SomeError(...)     an Exception before the target is opened
      m_try           try / except <class> [as e] / else
      m_reraise       raise                    (bare, inside a handler)
      m_sys_exit      sys.exit(message)        SystemExit (a BaseException), code 1
    and for the reading side / command level
      m_open_read, m_read, m_parse, m_parse_file, m_load_delta, m_delta_add,
      py_split_index, click_result.
    Definitions only. *)
From Coq Require Import List Bool NArith ZArith String.
Import ListNotations.
From DD Require Import Base.Sx Base.PyStr Cli.FsModel Cli.GenModel Cli.FormatModel.

(* optional modules the fragment imports *)
Inductive modname := MYaml | MTomliW | MTomli.
(* open(path, 'w' | 'wb') truncates; open(path, 'a' | 'ab') keeps what is there *)
Inductive omode := MW | MA.
(* except Exception: / except BaseException: (or a bare except:) *)
Inductive catch := CatchException | CatchBaseException.
Record fileh := mkFile { fh_path : path }.

(* an exception in flight: raised by a step of the model (with its kind), or SystemExit *)
Inductive pyexn := EStep (k : exn_kind) (s : step) | ESysExit (code : nat).
Inductive res (T : Type) := Ok (v : T) | Raise (e : pyexn).
Arguments Ok {T} v.
Arguments Raise {T} e.

Definition path_eqb (p q : path) : bool := if path_eq_dec p q then true else false.

(* which fault point of the model a rename is: target -> target.bak is the backup
   step, target.bak -> target the restoring one; any other rename is not a
   fault point (harness/props/c20.py, Injector.rename, does the same) *)
Definition ren_step (A src dst : path) : option step :=
  if path_eqb src A then (if path_eqb dst (bak A) then Some SBackup else None)
  else if path_eqb src (bak A) then (if path_eqb dst A then Some SRestore else None)
  else None.

(* str.split(sep) for a one-character separator *)
Fixpoint py_split (sep : N) (p : pystr) : list pystr :=
  match p with
  | [] => [[]]
  | c :: r =>
      if N.eqb c sep then [] :: py_split sep r
      else match py_split sep r with
           | [] => [[c]]                              (* unreachable: the result is never empty *)
           | w :: ws => (c :: w) :: ws
           end
  end.
(* l[i] with Python's negative indices; None = IndexError *)
Definition py_index {T : Type} (l : list T) (i : Z) : option T :=
  if (i <? 0)%Z then
    (if (Z.of_nat (List.length l) + i <? 0)%Z then None else nth_error l (Z.to_nat (Z.of_nat (List.length l) + i)))
  else nth_error l (Z.to_nat i).
(* path.split('.')[i] *)
Definition py_split_index (p : pystr) (sep : N) (i : Z) : option pystr := py_index (py_split sep p) i.

Section PyM.
  Variable X : Type.
  Variables doc delta : Type.
  Notation content := (content X).
  Notation fs := (fs X).

  (** everything the text of the fragment does not determine *)
  Record world := mkWorld {
    w_target : path;                               (* the file being saved: its steps are the fault points *)
    w_sch : schedule X;                            (* which step fails, how, with what debris *)
    w_env : env X;                                 (* buffering / atomicity observations *)
    w_dump : fmt -> doc -> option content;         (* the serialisers; None = raises *)
    w_parse : fmt -> content -> option doc;        (* the loaders; None = raises *)
    w_can_import : modname -> bool;                (* optional modules present *)
    w_unpickle : content -> option delta;          (* Delta(delta_path=...) *)
    w_apply : delta -> doc -> doc }.               (* delta + content *)

  Definition pst := (fs * content)%type.           (* file system, write buffer of the open file *)
  Definition M (T : Type) := pst -> list (entry fs) * pst * res T.

  Definition m_ret {T : Type} (v : T) : M T := fun st => ([], st, Ok v).
  Definition m_bind {T U : Type} (a : M T) (k : T -> M U) : M U := fun st =>
    let '(es, st1, r) := a st in
    match r with
    | Ok v => let '(es2, st2, r2) := k v st1 in (es ++ es2, st2, r2)
    | Raise e => (es, st1, Raise e)
    end.
  Definition m_seq {T : Type} (a : M unit) (b : M T) : M T := m_bind a (fun _ => b).

  (** os.rename(src, dst) *)
  Definition m_rename (W : world) (src dst : path) : M unit := fun st =>
    let '(g, b) := st in
    match ren_step (w_target W) src dst with
    | Some s =>
        match w_sch W s with
        | Some ft => ([(s, PFail, g)], (g, b), Raise (EStep (fkind ft) s))
        | None =>
            match rename_mid src dst g with
            | None => ([(s, PFail, g)], (g, b), Raise (EStep KExc s))
            | Some rb => (ren_entries X fs (w_env W) s rb, (snd rb, b), Ok tt)
            end
        end
    | None =>
        match rename src dst g with
        | None => ([], (g, b), Raise (EStep KExc SBackup))
        | Some g' => ([], (g', b), Ok tt)
        end
    end.

  (** os.remove(p) *)
  Definition m_remove (W : world) (p : path) : M unit := fun st =>
    let '(g, b) := st in
    if path_eqb p (bak (w_target W)) then
      match w_sch W SRemove with
      | Some ft => ([(SRemove, PFail, g)], (g, b), Raise (EStep (fkind ft) SRemove))
      | None =>
          match remove p g with
          | None => ([(SRemove, PFail, g)], (g, b), Raise (EStep KExc SRemove))
          | Some g3 => ([(SRemove, POk, g3)], (g3, b), Ok tt)
          end
      end
    else
      match remove p g with
      | None => ([], (g, b), Raise (EStep KExc SRemove))
      | Some g' => ([], (g', b), Ok tt)
      end.

  (** with open(p, mode) as the_file: body   (writing modes) *)
  Definition m_with_open {T : Type} (W : world) (p : path) (md : omode) (body : fileh -> M T) : M T := fun st =>
    let '(g, b0) := st in
    match w_sch W SOpen with
    | Some ft => let g' := upd p (fdisk ft) g in ([(SOpen, PFail, g')], (g', b0), Raise (EStep (fkind ft) SOpen))
    | None =>
        let init := match md with MW => [] | MA => match g p with Some c => c | None => [] end end in
        let g1 := upd p (Some init) g in                       (* created / truncated *)
        let '(es, st2, r) := body (mkFile p) (g1, init) in
        let '(g2, b) := st2 in
        (* leaving the block: close(); its exception wins; a successful close flushes the buffer *)
        match w_sch W SClose with
        | Some ft => let g' := upd p (fdisk ft) g2 in
                     ([(SOpen, POk, g1)] ++ es ++ [(SClose, PFail, g')], (g', b0), Raise (EStep (fkind ft) SClose))
        | None =>
            let g' := match r with
                      | Ok _ => upd p (Some b) g2
                      | Raise _ => match e_flush (w_env W) with None => g2 | Some d => upd p d g2 end
                      end in
            ([(SOpen, POk, g1)] ++ es ++ [(SClose, POk, g')], (g', b0), r)
        end
    end.

  (** the_file.write(data) *)
  Definition m_write (W : world) (fh : fileh) (data : content) : M unit := fun st =>
    let '(g, b) := st in
    let p := fh_path fh in
    match w_sch W SWrite with
    | Some ft => let g' := upd p (fdisk ft) g in ([(SWrite, PFail, g')], (g', b), Raise (EStep (fkind ft) SWrite))
    | None => let gm := upd p (e_mid (w_env W)) g in
              let gp := upd p (e_pend (w_env W)) g in
              ([(SWrite, PMid, gm); (SWrite, POk, gp)], (gp, b ++ data), Ok tt)
    end.

  (** json_dumps(content): serialises to a string, touches no file *)
  Definition m_json_dumps (W : world) (d : doc) : M content := fun st =>
    match dumps_res (w_sch W) (w_dump W FJson d) with
    | Some k => ([(SDumps, PFail, fst st)], st, Raise (EStep k SDumps))
    | None =>
        match w_dump W FJson d with
        | Some c => ([(SDumps, POk, fst st)], st, Ok c)
        | None => ([(SDumps, PFail, fst st)], st, Raise (EStep KExc SDumps))     (* unreachable *)
        end
    end.

  (** serialiser(content, the_file) for yaml / toml / pickle / csv: serialises and
      writes into the open file as it goes *)
  Definition m_stream_dump (W : world) (fm : fmt) (fh : fileh) (d : doc) : M unit := fun st =>
    let '(g, b) := st in
    let p := fh_path fh in
    let ev := w_env W in
    match w_sch W SDumps with
    | Some ft => let g' := upd p (fdisk ft) g in ([(SDumps, PFail, g')], (g', b), Raise (EStep (fkind ft) SDumps))
    | None =>
        match w_dump W fm d with
        | None =>
            let g' := upd p (e_nat ev) g in
            if e_late ev then
              match w_sch W SWrite with
              | Some ft => let gw := upd p (fdisk ft) g in ([(SWrite, PFail, gw)], (gw, b), Raise (EStep (fkind ft) SWrite))
              | None => ([(SWrite, PMid, upd p (e_mid ev) g); (SDumps, PFail, g')], (g', b), Raise (EStep KExc SDumps))
              end
            else ([(SDumps, PFail, g')], (g', b), Raise (EStep KExc SDumps))
        | Some c => m_write W fh c st
        end
    end.

  (** try: import m / except ImportError: raise ImportError('... needs to be installed.') *)
  Definition m_import_or_raise (W : world) (m : modname) : M unit := fun st =>
    if w_can_import W m then ([], st, Ok tt) else ([(SDumps, PFail, fst st)], st, Raise (EStep KExc SDumps)).

  (** raise SomeError(...) in the save path: an Exception raised before the target is opened *)
  Definition m_raise_error {T : Type} : M T := fun st => ([(SDumps, PFail, fst st)], st, Raise (EStep KExc SDumps)).

  (** raise   (bare, in a handler) / sys.exit(message) *)
  Definition m_reraise {T : Type} (e : pyexn) : M T := fun st => ([], st, Raise e).
  Definition m_sys_exit {T : Type} (code : nat) : M T := fun st => ([], st, Raise (ESysExit code)).

  Definition catches (c : catch) (e : pyexn) : bool :=
    match c, e with
    | CatchBaseException, _ => true
    | CatchException, EStep KExc _ => true
    | CatchException, _ => false
    end.

  (** try: body / except c as e: handler e / else: orelse.
      The handlers do not cover [orelse]; a handler that completes swallows the exception. *)
  Definition m_try {T : Type} (body : M T) (c : catch) (handler : pyexn -> M unit) (orelse : T -> M unit) : M unit := fun st =>
    let '(es, st1, r) := body st in
    match r with
    | Ok v => let '(es2, st2, r2) := orelse v st1 in (es ++ es2, st2, r2)
    | Raise e =>
        if catches c e then let '(es2, st2, r2) := handler e st1 in (es ++ es2, st2, r2)
        else (es, st1, Raise e)
    end.

  (** ---- the reading side (no trace entries: the hand model has one step for a whole load) ---- *)

  (** Delta(delta_path=p, raise_errors=...) *)
  Definition m_load_delta (W : world) (p : path) : M delta := fun st =>
    match w_sch W SLoadDelta with
    | Some ft => ([], st, Raise (EStep (fkind ft) SLoadDelta))
    | None =>
        match (match fst st p with None => None | Some c => w_unpickle W c end) with
        | None => ([], st, Raise (EStep KExc SLoadDelta))
        | Some dl => ([], st, Ok dl)
        end
    end.

  (** with open(p, 'r' | 'rb') as the_file: body.  The whole load is the fault point SLoadDoc. *)
  Definition m_open_read {T : Type} (W : world) (p : path) (body : fileh -> M T) : M T := fun st =>
    match w_sch W SLoadDoc with
    | Some ft => ([], st, Raise (EStep (fkind ft) SLoadDoc))
    | None =>
        match fst st p with
        | None => ([], st, Raise (EStep KExc SLoadDoc))           (* FileNotFoundError *)
        | Some _ => body (mkFile p) st
        end
    end.
  (** the_file.read() *)
  Definition m_read (fh : fileh) : M content := fun st =>
    match fst st (fh_path fh) with
    | None => ([], st, Raise (EStep KExc SLoadDoc))
    | Some c => ([], st, Ok c)
    end.
  (** json_loads(text) / pickle_load(bytes) *)
  Definition m_parse (W : world) (fm : fmt) (c : content) : M doc := fun st =>
    match w_parse W fm c with
    | None => ([], st, Raise (EStep KExc SLoadDoc))
    | Some d => ([], st, Ok d)
    end.
  (** yaml.safe_load(the_file) / tomli.load(the_file) / the csv reader *)
  Definition m_parse_file (W : world) (fm : fmt) (fh : fileh) : M doc := m_bind (m_read fh) (m_parse W fm).
  (** an ImportError / UnsupportedFormatErr while loading *)
  Definition m_import_or_raise_load (W : world) (m : modname) : M unit := fun st =>
    if w_can_import W m then ([], st, Ok tt) else ([], st, Raise (EStep KExc SLoadDoc)).
  Definition m_raise_load_error {T : Type} : M T := fun st => ([], st, Raise (EStep KExc SLoadDoc)).

  (** an expression that may raise IndexError (path.split('.')[i]): an Exception, attributed to the
      loading of the document (the statement computes the file type the loader is given) *)
  Definition m_of_option {T : Type} (o : option T) : M T := fun st =>
    match o with
    | Some v => ([], st, Ok v)
    | None => ([], st, Raise (EStep KExc SLoadDoc))
    end.

  (** delta + content *)
  Definition m_delta_add (W : world) (dl : delta) (d : doc) : M doc := fun st =>
    match w_sch W SApply with
    | Some ft => ([], st, Raise (EStep (fkind ft) SApply))
    | None => ([], st, Ok (w_apply W dl d))
    end.

  (** ---- running a program ---- *)
  Definition of_outcome (o : outcome) : res unit :=
    match o with Done => Ok tt | Raised k s => Raise (EStep k s) end.
  (* trace, final file system, result *)
  Definition run_tr (m : M unit) (f : fs) : list (entry fs) * fs * res unit :=
    let '(es, st, r) := m (f, []) in (es, fst st, r).
  Definition run_fin (m : M unit) (f : fs) : fs * res unit :=
    let '(_, st, r) := m (f, []) in (fst st, r).

  (** what click makes of the command function's result: SystemExit(message) -> exit
      status 1 (SystemExit(n) -> n), KeyboardInterrupt -> "Aborted!", exit status 1, any
      other exception propagates (click.testing.CliRunner records it) *)
  Definition click_result (r : res unit) : cli_result :=
    match r with
    | Ok _ => CExit 0
    | Raise (ESysExit n) => CExit n
    | Raise (EStep KBase _) => CExit 1
    | Raise (EStep KExc s) => CExc s
    end.
  Definition run_cli (m : M unit) (f : fs) : fs * cli_result :=
    let '(g, r) := run_fin m f in (g, click_result r).
End PyM.

Arguments mkWorld {X doc delta}.
Arguments w_target {X doc delta}.
Arguments w_sch {X doc delta}.
Arguments w_env {X doc delta}.
Arguments w_dump {X doc delta}.
Arguments w_parse {X doc delta}.
Arguments w_can_import {X doc delta}.
Arguments w_unpickle {X doc delta}.
Arguments w_apply {X doc delta}.
Arguments m_ret {X T}.
Arguments m_bind {X T U}.
Arguments m_seq {X T}.
Arguments m_rename {X doc delta}.
Arguments m_remove {X doc delta}.
Arguments m_with_open {X doc delta T}.
Arguments m_write {X doc delta}.
Arguments m_json_dumps {X doc delta}.
Arguments m_stream_dump {X doc delta}.
Arguments m_import_or_raise {X doc delta}.
Arguments m_raise_error {X T}.
Arguments m_reraise {X T}.
Arguments m_sys_exit {X T}.
Arguments m_try {X T}.
Arguments m_load_delta {X doc delta}.
Arguments m_open_read {X doc delta T}.
Arguments m_read {X}.
Arguments m_parse {X doc delta}.
Arguments m_parse_file {X doc delta}.
Arguments m_import_or_raise_load {X doc delta}.
Arguments m_raise_load_error {X T}.
Arguments m_delta_add {X doc delta}.
Arguments m_of_option {X T}.
Arguments run_tr {X}.
Arguments run_fin {X}.
Arguments run_cli {X}.

(** Refinement of the statement-level model (Cli/StmtModel.v) to the abstract models of
    the block, and the theorems of Properties/C20.v restated for ANY program that is
    pointwise equal to the statement-level one (section [Transfer]): the source tie
    instantiates them with the programs regenerated from the current source text.

      s__save_content_eq            s__save_content         = GenModel.body_tr (shape picked by the file type)
      s_save_content_to_path_raw    s_save_content_to_path  = GenModel.save_tr (trace, file system, outcome)
      s_load_path_content_eq        s_load_path_content     = load_res (the loading step of FormatModel.load_g)
      s_patch_eq                    click (s_patch)         = FormatModel.patch_cmd_g ; FsModel.cli_report
    The tactics [crush] / [crush_with] (case analysis on the scrutinee at the head of either
    side until both sides are values) are also used by coq/srctie/CliGenEquiv.v when the
    regenerated text is not literally the statement-level model. *)
From Coq Require Import List Bool NArith ZArith String.
Import ListNotations.
From DD Require Import Base.PyStr Cli.FsModel Cli.FsProofs Cli.GenModel Cli.GenProofs Cli.FormatModel Cli.FormatProofs
     Cli.PyMonad Cli.PyMonadFacts Cli.StmtModel.

(** which optional module each branch needs *)
Definition can_save_of (ci : modname -> bool) (fm : fmt) : bool :=
  match fm with FYaml => ci MYaml | FToml => ci MTomliW | _ => true end.
Definition can_load_of (ci : modname -> bool) (fm : fmt) : bool :=
  match fm with FYaml => ci MYaml | FToml => ci MTomli | _ => true end.
(** the serialised content handed to the abstract model: the serialiser of the branch applied to the document *)
Definition new_of {X doc : Type} (dump : fmt -> doc -> option (content X)) (ft : pystr) (d : doc) : option (content X) :=
  match fmt_of_ext ft with Some fm => dump fm d | None => None end.
Definition lift_tr {X : Type} (r : list (entry (fs X)) * fs X * outcome) (b : content X)
  : list (entry (fs X)) * pst X * res unit :=
  let '(es, g, o) := r in (es, (g, b), of_outcome o).

(** case analysis on the scrutinee at the head of either side, as long as there is one *)
Ltac head_scrut t :=
  lazymatch t with
  | match ?x with _ => _ end => head_scrut x
  | (match ?x with _ => _ end) _ => head_scrut x
  | (match ?x with _ => _ end) _ _ => head_scrut x
  | _ => t
  end.
Ltac leaf := first [ reflexivity | rewrite ?app_nil_r, <- ?app_assoc; reflexivity ].
Ltac crush_with tac :=
  cbv beta iota; tac;
  lazymatch goal with
  | |- match ?x with _ => _ end = _ => let s := head_scrut x in case s; intros; crush_with tac
  | |- _ = match ?x with _ => _ end => let s := head_scrut x in case s; intros; crush_with tac
  | |- _ => leaf
  end.
Ltac crush := crush_with idtac.
Ltac split_file_type ft :=
  repeat (match goal with
          | |- context [pystr_eqb ft ?s] => destruct (pystr_eqb ft s)
          end; cbn [orb]).
Ltac unfold_save_side :=
  cbv [shape_of can_save_of m_seq m_bind m_with_open m_json_dumps m_stream_dump m_write m_ret m_import_or_raise
       m_raise_error body_tr inner_tr close_tr write_tr lift_tr dumps_at dumps_res fs_prims p_setA of_outcome
       fst snd fh_path app].
Ltac unfold_load_side :=
  cbv [can_load_of m_seq m_bind m_ret m_open_read m_read m_parse m_parse_file m_import_or_raise_load m_raise_load_error
       m_of_option fh_path app].

(** * serialization._save_content *)
Theorem s__save_content_eq :
  forall (X doc delta : Type) (W : world X doc delta) (d : doc) (A : path)
         (ft : pystr) (keep : bool) (g : fs X) (b : content X),
    s__save_content W d A ft keep (g, b) =
    lift_tr (body_tr X (fs X) (fs_prims A) (shape_of (can_save_of (w_can_import W)) (fmt_of_ext ft))
                     (w_env W) (new_of (w_dump W) ft d) (w_sch W) g) b.
Proof.
  intros. unfold s__save_content, new_of, fmt_of_ext, EXT_JSON, EXT_YAML, EXT_YML, EXT_TOML, EXT_PICKLE, EXT_CSV, EXT_TSV.
  unfold_save_side. split_file_type ft. all: crush.
Qed.

(** * serialization.save_content_to_path *)
Lemma shape_of_not_first : forall can fm,
    match shape_of can fm with ShBuf DFirst => true | _ => false end = false.
Proof. intros can [[]|]; cbn; try destruct (can _); reflexivity. Qed.

Ltac save_setup A :=
  cbv [m_seq m_bind m_try m_rename m_remove m_reraise m_ret catches w_target w_sch w_env negb];
  change (A ++ s2p ".bak")%list with (bak A);
  rewrite ?ren_step_backup, ?ren_step_restore, ?path_eqb_refl;
  unfold save_tr, save_trP, lift_tr; rewrite shape_of_not_first; cbn [dumps_at app];
  repeat match goal with
         | |- context [p_fwd ?X0 ?S0 (fs_prims A)] => change (p_fwd X0 S0 (fs_prims A)) with (@rename_mid X0 A (bak A))
         | |- context [p_back ?X0 ?S0 (fs_prims A)] => change (p_back X0 S0 (fs_prims A)) with (@rename_mid X0 (bak A) A)
         | |- context [p_rm ?X0 ?S0 (fs_prims A)] => change (p_rm X0 S0 (fs_prims A)) with (@remove X0 (bak A))
         end.

Theorem s_save_content_to_path_raw :
  forall (X doc delta : Type) (W : world X doc delta) (d : doc) (ft : pystr) (keep : bool) (f : fs X) (b : content X),
    s_save_content_to_path W d (w_target W) ft keep (f, b) =
    lift_tr (save_tr (shape_of (can_save_of (w_can_import W)) (fmt_of_ext ft)) (w_env W) keep
                     (new_of (w_dump W) ft d) (w_target W) (w_sch W) f) b.
Proof.
  intros X doc delta [A sch ev dump parse ci unpickle apply_delta] d ft keep f b.
  unfold s_save_content_to_path. save_setup A.
  crush_with ltac:(rewrite ?s__save_content_eq; cbv [lift_tr of_outcome w_can_import w_env w_dump w_sch fst snd]).
Qed.

(** * serialization.load_path_content *)
Definition load_res {X doc delta : Type} (W : world X doc delta) (p : path) (ft : pystr) (f : fs X) : res doc :=
  match fmt_of_ext ft with
  | None => Raise (EStep KExc SLoadDoc)                                   (* UnsupportedFormatErr *)
  | Some fm =>
      if can_load_of (w_can_import W) fm then
        match w_sch W SLoadDoc with
        | Some flt => Raise (EStep (fkind flt) SLoadDoc)
        | None =>
            match f p with
            | None => Raise (EStep KExc SLoadDoc)
            | Some c => match w_parse W fm c with None => Raise (EStep KExc SLoadDoc) | Some a => Ok a end
            end
        end
      else Raise (EStep KExc SLoadDoc)                                    (* ImportError *)
  end.

Theorem s_load_path_content_eq :
  forall (X doc delta : Type) (W : world X doc delta) (p : path) (ft : pystr) (st : pst X),
    s_load_path_content W p (Some ft) st = ([], st, load_res W p ft (fst st)).
Proof.
  intros. unfold s_load_path_content, load_res, fmt_of_ext, EXT_JSON, EXT_YAML, EXT_YML, EXT_TOML, EXT_PICKLE, EXT_CSV, EXT_TSV.
  unfold_load_side. split_file_type ft. all: crush.
Qed.

(* without a file type the loader computes it from the path: path.split('.')[-1] = ext_of *)
Theorem s_load_path_content_default :
  forall (X doc delta : Type) (W : world X doc delta) (p : path) (st : pst X),
    s_load_path_content W p None st = s_load_path_content W p (Some (ext_of p)) st.
Proof.
  intros. unfold s_load_path_content. rewrite ?py_split_index_last. cbv [m_bind m_of_option m_ret]. reflexivity.
Qed.

(* the loading step of the abstract model *)
Lemma load_res_load_g :
  forall (X doc delta : Type) (W : world X doc delta) (p : path) (f : fs X),
    match load_res W p (ext_of p) f with
    | Ok a => w_sch W SLoadDoc = None /\ load_g (w_parse W) (can_load_of (w_can_import W)) f p = Some a
    | Raise e => exists k, e = EStep k SLoadDoc /\
                           (w_sch W SLoadDoc <> None \/ load_g (w_parse W) (can_load_of (w_can_import W)) f p = None)
    end.
Proof.
  intros. unfold load_res, load_g, fmt_of_path.
  destruct (fmt_of_ext (ext_of p)) as [fm|]; [|exists KExc; auto].
  destruct (can_load_of (w_can_import W) fm); [|exists KExc; auto].
  destruct (w_sch W SLoadDoc) as [flt|]; [exists (fkind flt); split; [reflexivity|left; discriminate]|].
  destruct (f p) as [c|]; [|exists KExc; auto].
  destruct (w_parse W fm c); [auto|exists KExc; auto].
Qed.

(** * commands.patch, as click runs it.
    [patch_of_parts] is the proof for any program built like s_patch from a loader and a
    saver that are pointwise equal to the statement-level ones. *)
Definition hand_patch {X doc delta : Type} (W : world X doc delta) (P : path) (keep debug : bool) (f : fs X)
  : fs X * cli_result :=
  let '(f', o) := patch_cmd_g (w_parse W) (w_dump W) (can_load_of (w_can_import W)) (can_save_of (w_can_import W))
                              (w_unpickle W) (w_apply W) (w_env W) keep (w_target W) P (w_sch W) f
  in (f', cli_report debug o).

Theorem s_patch_eq :
  forall (X doc delta : Type) (W : world X doc delta) (P : path) (keep raise_errors debug : bool) (f : fs X),
    run_cli (s_patch W (w_target W) P keep raise_errors debug) f = hand_patch W P keep debug f.
Proof.
  intros X doc delta [A sch ev dump parse ci unpickle apply_delta] P keep raise_errors debug f.
  unfold hand_patch, run_cli, run_fin, s_patch, patch_cmd_g.
  cbv [m_try m_bind m_load_delta m_of_option m_delta_add m_reraise m_sys_exit m_ret catches
       w_target w_sch w_unpickle w_apply w_parse w_dump w_env w_can_import fst snd].
  destruct (sch SLoadDelta) as [flt|]; [destruct (fkind flt), debug; reflexivity|].
  destruct (match f P with Some c => unpickle c | None => None end) as [dl|]; [|destruct debug; reflexivity].
  rewrite ?py_split_index_last. cbv beta iota.
  rewrite ?s_load_path_content_eq. cbn [fst snd].
  pose proof (load_res_load_g X doc delta (mkWorld A sch ev dump parse ci unpickle apply_delta) A f) as HL.
  cbn [w_sch w_parse w_can_import] in HL.
  destruct (load_res _ A (ext_of A) f) as [a|e].
  - destruct HL as [Hs Hl]. rewrite Hs, Hl.
    destruct (sch SApply) as [flt|]; [destruct (fkind flt); reflexivity|].
    cbv beta iota.
    rewrite ?(s_save_content_to_path_raw X doc delta (mkWorld A sch ev dump parse ci unpickle apply_delta)).
    cbn [w_target w_sch w_env w_dump w_can_import].
    unfold lift_tr, save_g, fmt_of_path, new_of.
    destruct (save_tr _ _ _ _ _ _ _) as [[es g] o] eqn:E.
    assert (Hown : forall k s, o = Raised k s -> save_step s = true).
    { intros k s ->. refine (save_g_own_steps X _ _ _ _ _ _ _ g k s _). unfold save_g. rewrite E. reflexivity. }
    destruct o as [|[] s]; cbn [of_outcome app fst snd click_result cli_report]; try reflexivity.
    specialize (Hown _ _ eq_refl). destruct s; try discriminate Hown; destruct debug; reflexivity.
  - destruct HL as (k & -> & [Hs|Hl]).
    + destruct (sch SLoadDoc) as [flt|]; [|congruence].
      destruct k; cbn; destruct (fkind flt); reflexivity.
    + destruct (sch SLoadDoc) as [flt|]; [destruct k; cbn; destruct (fkind flt); reflexivity|].
      rewrite Hl. destruct k; reflexivity.
Qed.

(** * Transfer: the theorems of Properties/C20.v for any program pointwise equal to the
      statement-level model (the programs regenerated from the source) *)
Section Transfer.
  Variables X doc delta : Type.
  Notation world := (world X doc delta).

  (** ** a save program *)
  Section Save.
    Variable m : world -> doc -> path -> pystr -> bool -> M X unit.
    Hypothesis Hm : forall (W : world) (d : doc) (ft : pystr) (keep : bool) (st : pst X),
        m W d (w_target W) ft keep st = s_save_content_to_path W d (w_target W) ft keep st.

    Definition sh_of (W : world) (ft : pystr) : shape := shape_of (can_save_of (w_can_import W)) (fmt_of_ext ft).

    (* trace, final file system and result of the program = GenModel.save_tr *)
    Theorem prog_is_save_tr : forall (W : world) d ft keep f,
        run_tr (m W d (w_target W) ft keep) f =
        (let '(es, g, o) := save_tr (sh_of W ft) (w_env W) keep (new_of (w_dump W) ft d) (w_target W) (w_sch W) f
         in (es, g, of_outcome o)).
    Proof.
      intros. unfold run_tr. rewrite Hm, s_save_content_to_path_raw. unfold lift_tr, sh_of.
      destruct (save_tr _ _ _ _ _ _ _) as [[es g] o]. reflexivity.
    Qed.
    (* final file system and result = GenModel.save_g *)
    Theorem prog_is_save_g : forall (W : world) d ft keep f,
        run_fin (m W d (w_target W) ft keep) f =
        (let '(g, o) := save_g (sh_of W ft) (w_env W) keep (new_of (w_dump W) ft d) (w_target W) (w_sch W) f
         in (g, of_outcome o)).
    Proof.
      intros. unfold run_fin. rewrite Hm, s_save_content_to_path_raw. unfold lift_tr, save_g, sh_of.
      destruct (save_tr _ _ _ _ _ _ _) as [[es g] o]. reflexivity.
    Qed.

    Lemma of_outcome_ok : forall o, of_outcome o = Ok tt -> o = Done.
    Proof. intros [|k s]; [reflexivity|discriminate]. Qed.
    Lemma of_outcome_raise : forall o k s, of_outcome o = Raise (EStep k s) -> o = Raised k s.
    Proof. intros [|k0 s0] k s H; [discriminate|]. now inversion H. Qed.
    Lemma sh_of_not_first : forall W ft, sh_of W ft = ShBuf DFirst -> False.
    Proof.
      intros W ft. unfold sh_of, shape_of. destruct (fmt_of_ext ft) as [[]|]; try destruct (can_save_of _ _); discriminate.
    Qed.

    Ltac to_save_g H :=
      rewrite prog_is_save_g in H;
      match type of H with (let '(g, o) := ?s in _) = _ => destruct s as [g0 o0] eqn:Esave end;
      inversion H; subst; clear H.

    (** C20_all_branches_done_is_correct *)
    Theorem prog_done_is_correct : forall (W : world) d ft keep (f f' : fs X) (old : content X),
        f (w_target W) = Some old ->
        run_fin (m W d (w_target W) ft keep) f = (f', Ok tt) ->
        exists c : content X,
          new_of (w_dump W) ft d = Some c /\ f' (w_target W) = Some c /\
          f' (bak (w_target W)) = (if keep then Some old else None) /\ frame X (w_target W) f f'.
    Proof.
      intros W d ft keep f f' old HA H. to_save_g H.
      match goal with H : of_outcome _ = _ |- _ => apply of_outcome_ok in H; subst end.
      exact (save_g_done_correct X _ _ _ _ _ _ _ _ _ HA Esave).
    Qed.

    (** C20_all_branches_failure_never_loses_content *)
    Theorem prog_failure_never_loses_content : forall (W : world) d ft keep (f f' : fs X) (old : content X) k s,
        f (w_target W) = Some old ->
        run_fin (m W d (w_target W) ft keep) f = (f', Raise (EStep k s)) ->
        (f' (w_target W) = Some old \/ f' (bak (w_target W)) = Some old) /\ frame X (w_target W) f f'.
    Proof.
      intros W d ft keep f f' old k s HA H. to_save_g H.
      match goal with H : of_outcome _ = _ |- _ => apply of_outcome_raise in H; subst end.
      exact (save_g_raised_keeps_old X _ _ _ _ _ _ _ _ _ _ _ HA Esave).
    Qed.

    (** the program never exits the interpreter by itself *)
    Theorem prog_never_sys_exit : forall (W : world) d ft keep (f f' : fs X) n,
        run_fin (m W d (w_target W) ft keep) f <> (f', Raise (ESysExit n)).
    Proof.
      intros W d ft keep f f' n H. rewrite prog_is_save_g in H.
      destruct (save_g _ _ _ _ _ _ _) as [g [|k s]]; discriminate.
    Qed.

    (** C20_all_branches_exception_restores *)
    Theorem prog_exception_restores : forall (W : world) d ft keep (f f' : fs X) (old : content X) s,
        f (w_target W) = Some old ->
        run_fin (m W d (w_target W) ft keep) f = (f', Raise (EStep KExc s)) ->
        s <> SRestore -> s <> SRemove ->
        f' (w_target W) = Some old /\
        (body_step s = true -> f' (bak (w_target W)) = None) /\
        (f (bak (w_target W)) = None -> f' (bak (w_target W)) = None) /\ frame X (w_target W) f f'.
    Proof.
      intros W d ft keep f f' old s HA H H1 H2. to_save_g H.
      match goal with H : of_outcome _ = _ |- _ => apply of_outcome_raise in H; subst end.
      destruct (save_g_exception_restores X _ _ _ _ _ _ _ _ _ _ HA Esave H1 H2) as (Ha & Hb & Hc & Hd).
      repeat split; auto. intros Hs. apply Hb; [exact Hs|]. intros E. destruct (sh_of_not_first _ _ E).
    Qed.

    (** C20_all_branches_interrupt_keeps_backup *)
    Theorem prog_interrupt_keeps_backup : forall (W : world) d ft keep (f f' : fs X) (old : content X) s,
        f (w_target W) = Some old ->
        run_fin (m W d (w_target W) ft keep) f = (f', Raise (EStep KBase s)) ->
        body_step s = true -> f' (bak (w_target W)) = Some old.
    Proof.
      intros W d ft keep f f' old s HA H Hs. to_save_g H.
      match goal with H : of_outcome _ = _ |- _ => apply of_outcome_raise in H; subst end.
      refine (save_g_interrupt_keeps_backup X _ _ _ _ _ _ _ _ _ _ HA Esave Hs _).
      intros E. destruct (sh_of_not_first _ _ E).
    Qed.

    (** C20_all_branches_success: a supported file type whose serialiser is importable, no fault *)
    Theorem prog_success : forall (W : world) d ft keep (c : content X) (f : fs X) (old : content X),
        w_sch W = no_fault ->
        sh_of W ft <> ShNone ->
        new_of (w_dump W) ft d = Some c ->
        f (w_target W) = Some old ->
        exists f' : fs X,
          run_fin (m W d (w_target W) ft keep) f = (f', Ok tt) /\
          f' (w_target W) = Some c /\ f' (bak (w_target W)) = (if keep then Some old else None) /\
          frame X (w_target W) f f'.
    Proof.
      intros W d ft keep c f old Hsch Hsh Hnew HA.
      destruct (save_g_success X (sh_of W ft) (w_env W) keep c (w_target W) f old Hsh HA) as (f' & E & R).
      exists f'. split; [|exact R]. rewrite prog_is_save_g, Hsch, Hnew, E. reflexivity.
    Qed.

    (** C20_all_branches_single_fault_restores *)
    Theorem prog_single_fault_restores : forall (W : world) d ft keep (c : content X) (f : fs X) (old : content X) k flt,
        w_sch W = single k flt ->
        sh_of W ft <> ShNone ->
        new_of (w_dump W) ft d = Some c ->
        f (w_target W) = Some old ->
        write_step k = true ->
        fkind flt = KExc ->
        exists f' : fs X,
          run_fin (m W d (w_target W) ft keep) f = (f', Raise (EStep KExc k)) /\
          f' (w_target W) = Some old /\
          (k <> SBackup -> f' (bak (w_target W)) = None) /\
          (f (bak (w_target W)) = None -> f' (bak (w_target W)) = None) /\ frame X (w_target W) f f'.
    Proof.
      intros W d ft keep c f old k flt Hsch Hsh Hnew HA Hk Hf.
      destruct (save_g_single_fault_restores X (sh_of W ft) (w_env W) keep c (w_target W) f old k flt Hsh HA Hk Hf)
        as (f' & E & Ha & Hb & Hc & Hd).
      exists f'. split; [rewrite prog_is_save_g, Hsch, Hnew, E; reflexivity|].
      repeat split; auto. intros Hkb. apply Hb; [exact Hkb|]. intros E'. destruct (sh_of_not_first _ _ E').
    Qed.

    (** C20_crash_never_loses_content: every state the program goes through *)
    Theorem prog_crash_never_loses_content : forall (W : world) d ft keep (f : fs X) (old : content X) (g : fs X),
        f (w_target W) = Some old ->
        In g (f :: map (fun e : entry (fs X) => snd e) (fst (fst (run_tr (m W d (w_target W) ft keep) f)))) ->
        (g (w_target W) = Some old \/ g (bak (w_target W)) = Some old \/
         (exists c : content X, new_of (w_dump W) ft d = Some c /\ g (w_target W) = Some c /\ g (bak (w_target W)) = None)) /\
        frame X (w_target W) f g.
    Proof.
      intros W d ft keep f old g HA Hin.
      refine (crash_never_loses_content X (sh_of W ft) (w_env W) keep _ (w_target W) (w_sch W) f old g HA _).
      unfold crash_states. rewrite prog_is_save_tr in Hin.
      destruct (save_tr _ _ _ _ _ _ _) as [[es g1] o]. exact Hin.
    Qed.

    (** C20_json_branch_is_save: on a json target, in the plain environment, the program is FsModel.save *)
    Theorem prog_json_is_save : forall (W : world) d keep (f : fs X),
        w_env W = env0 ->
        snd (run_fin (m W d (w_target W) EXT_JSON keep) f) =
          of_outcome (snd (save DInside keep (w_dump W FJson d) (w_target W) (w_sch W) f)) /\
        (forall q : path, fst (run_fin (m W d (w_target W) EXT_JSON keep) f) q =
                          fst (save DInside keep (w_dump W FJson d) (w_target W) (w_sch W) f) q).
    Proof.
      intros W d keep f Hev. rewrite prog_is_save_g, Hev.
      change (sh_of W EXT_JSON) with (ShBuf DInside). change (new_of (w_dump W) EXT_JSON d) with (w_dump W FJson d).
      destruct (save_g_json X DInside keep (w_dump W FJson d) (w_target W) (w_sch W) f) as [Ho Hf].
      destruct (save_g _ _ _ _ _ _ _) as [g o]. cbn [fst snd] in *. rewrite Ho. split; [reflexivity|exact Hf].
    Qed.
  End Save.

  (** ** a patch command *)
  Section Patch.
    Variable c : world -> path -> path -> bool -> bool -> bool -> M X unit.
    Hypothesis Hc : forall (W : world) (P : path) (keep raise_errors debug : bool) (st : pst X),
        c W (w_target W) P keep raise_errors debug st = s_patch W (w_target W) P keep raise_errors debug st.

    Theorem cmd_is_patch_cmd_g : forall (W : world) P keep raise_errors debug f,
        run_cli (c W (w_target W) P keep raise_errors debug) f = hand_patch W P keep debug f.
    Proof.
      intros. rewrite <- s_patch_eq with (raise_errors := raise_errors). unfold run_cli, run_fin. now rewrite Hc.
    Qed.

    (** C20_exit_zero_iff_done *)
    Theorem cmd_exit_zero_iff_done : forall (W : world) P keep raise_errors debug f,
        snd (run_cli (c W (w_target W) P keep raise_errors debug) f) = CExit 0 <->
        snd (patch_cmd_g (w_parse W) (w_dump W) (can_load_of (w_can_import W)) (can_save_of (w_can_import W))
                         (w_unpickle W) (w_apply W) (w_env W) keep (w_target W) P (w_sch W) f) = Done.
    Proof.
      intros. rewrite cmd_is_patch_cmd_g. unfold hand_patch.
      destruct (patch_cmd_g _ _ _ _ _ _ _ _ _ _ _ _) as [f' o]. cbn [snd]. apply cli_report_zero.
    Qed.

    (** C20_patch_reproduces_any_format: diff --create-patch, then the patch command, no fault *)
    Theorem cmd_patch_reproduces : forall (W : world) (pickle : delta -> content X) (mk_delta : doc -> doc -> delta),
        (forall a b : doc, w_apply W (mk_delta a b) a = b) ->
        (forall dl : delta, w_unpickle W (pickle dl) = Some dl) ->
        w_sch W = no_fault ->
        forall (keep raise_errors debug : bool) (B P : path) (f : fs X) (fa : fmt) (ca : content X)
               (a b : doc) (pd cb' : content X),
          let A := w_target W in
          let can_load := can_load_of (w_can_import W) in
          fmt_of_path A = Some fa ->
          can_load fa = true ->
          can_save_of (w_can_import W) fa = true ->
          f A = Some ca ->
          w_parse W fa ca = Some a ->
          load_g (w_parse W) can_load f B = Some b ->
          P <> A -> P <> bak A ->
          diff_cmd_g (w_parse W) can_load pickle mk_delta A B f = Some pd ->
          w_dump W fa b = Some cb' ->
          exists f' : fs X,
            run_cli (c W A P keep raise_errors debug) (upd P (Some pd) f) = (f', CExit 0) /\
            load_g (w_parse W) can_load f' A = w_parse W fa cb' /\
            f' A = Some cb' /\
            f' (bak A) = (if keep then Some ca else None) /\
            (forall q : path, q <> A -> q <> bak A -> q <> P -> f' q = f q).
    Proof.
      intros W pickle mk_delta H01 H14 Hsch keep raise_errors debug B P f fa ca a b pd cb' A can_load
             Hfa Hcl Hcs HA Hpa HB HPA HPb Hdiff Hdump.
      destruct (patch_reproduces_g X doc delta (w_parse W) (w_dump W) can_load (can_save_of (w_can_import W))
                  pickle (w_unpickle W) mk_delta (w_apply W) H01 H14 (w_env W) keep A B P f fa ca a b pd cb'
                  Hfa Hcl Hcs HA Hpa HB HPA HPb Hdiff Hdump) as (f' & E & R).
      exists f'. split; [|exact R].
      subst A. rewrite cmd_is_patch_cmd_g. unfold hand_patch. fold can_load. rewrite Hsch, E. reflexivity.
    Qed.

    (** C20_patch_single_fault_restores_any_format: one Exception anywhere in the command *)
    Theorem cmd_patch_single_fault_restores : forall (W : world) (keep raise_errors debug : bool) (P : path) (f : fs X)
        (fa : fmt) (ca : content X) (a : doc) (dl : delta) (cnew : content X) (k : step) (flt : fault X),
        let A := w_target W in
        w_sch W = single k flt ->
        fmt_of_path A = Some fa ->
        can_load_of (w_can_import W) fa = true ->
        can_save_of (w_can_import W) fa = true ->
        f A = Some ca ->
        w_parse W fa ca = Some a ->
        match f P with Some c0 => w_unpickle W c0 | None => None end = Some dl ->
        w_dump W fa (w_apply W dl a) = Some cnew ->
        f (bak A) = None ->
        write_step k = true \/ k = SLoadDelta \/ k = SLoadDoc \/ k = SApply ->
        fkind flt = KExc ->
        exists (f' : fs X) (r : cli_result),
          run_cli (c W A P keep raise_errors debug) f = (f', r) /\
          r <> CExit 0 /\
          f' A = Some ca /\
          f' (bak A) = None /\
          (forall q : path, q <> A -> q <> bak A -> f' q = f q).
    Proof.
      intros W keep raise_errors debug P f fa ca a dl cnew k flt A Hsch Hfa Hcl Hcs HA Hpa HP Hd Hb Hk Hf.
      destruct (patch_g_single_fault_restores X doc delta (w_parse W) (w_dump W) (can_load_of (w_can_import W))
                  (can_save_of (w_can_import W)) (w_unpickle W) (w_apply W) (w_env W) keep debug A P f fa ca a dl cnew k flt
                  Hfa Hcl Hcs HA Hpa HP Hd Hb Hk Hf) as (f' & E & Ha & Hbk & Hfr & Hne).
      exists f', (cli_report debug (Raised KExc k)). subst A.
      rewrite cmd_is_patch_cmd_g. unfold hand_patch. rewrite Hsch, E. auto.
    Qed.
  End Patch.
End Transfer.

Arguments sh_of {X doc delta} W ft.

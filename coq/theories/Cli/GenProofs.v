(** Proofs about the generalised save path (Cli/GenModel.v): every branch of
    _save_content, every intermediate (crash) state, every fault schedule, every
    environment (buffer contents, availability of the serialiser, atomic or
    two-phase rename). *)
From Coq Require Import List Bool NArith String Lia.
Import ListNotations.
From DD Require Import Base.Sx Base.PyStr Cli.FsModel Cli.FsProofs Cli.GenModel.

Section GenProofs.
  Variable X : Type.
  Notation content := (content X).
  Notation fs := (fs X).
  Notation schedule := (schedule X).
  Notation fault := (fault X).
  Notation env := (env X).
  Notation cell := (option content).

  (** ** The program on the footprint (A, A.bak) *)
  Definition cells := (cell * cell)%type.
  Definition cell_prims : prims X cells :=
    mkPrims X cells
      (fun v s => (v, snd s))
      (fun s => match fst s with None => None | Some c => Some ((Some c, Some c), (None, Some c)) end)
      (fun s => match snd s with None => None | Some c => Some ((Some c, Some c), (Some c, None)) end)
      (fun s => match snd s with None => None | Some _ => Some (fst s, None) end).
  Definition save_tr2 := save_trP X cells cell_prims.

  (** ** Relational parametricity of the program in its primitives *)
  Section Param.
    Variables S1 S2 : Type.
    Variable P1 : prims X S1.
    Variable P2 : prims X S2.
    Variable R : S1 -> S2 -> Prop.
    Definition rel_pair (r1 : option (S1 * S1)) (r2 : option (S2 * S2)) : Prop :=
      match r1, r2 with
      | None, None => True
      | Some (m1, g1), Some (m2, g2) => R m1 m2 /\ R g1 g2
      | _, _ => False
      end.
    Definition rel_opt (r1 : option S1) (r2 : option S2) : Prop :=
      match r1, r2 with None, None => True | Some g1, Some g2 => R g1 g2 | _, _ => False end.
    Hypothesis HsetA : forall d g v, R g v -> R (p_setA X S1 P1 d g) (p_setA X S2 P2 d v).
    Hypothesis Hfwd : forall g v, R g v -> rel_pair (p_fwd X S1 P1 g) (p_fwd X S2 P2 v).
    Hypothesis Hback : forall g v, R g v -> rel_pair (p_back X S1 P1 g) (p_back X S2 P2 v).
    Hypothesis Hrm : forall g v, R g v -> rel_opt (p_rm X S1 P1 g) (p_rm X S2 P2 v).

    Definition rel_entry (e1 : entry S1) (e2 : entry S2) : Prop := fst e1 = fst e2 /\ R (snd e1) (snd e2).
    Definition rel_res (r1 : list (entry S1) * S1 * outcome) (r2 : list (entry S2) * S2 * outcome) : Prop :=
      Forall2 rel_entry (fst (fst r1)) (fst (fst r2)) /\ R (snd (fst r1)) (snd (fst r2)) /\ snd r1 = snd r2.

    Ltac rel1 :=
      repeat first
        [ assumption
        | reflexivity
        | apply Forall2_nil
        | apply Forall2_cons
        | apply Forall2_app
        | apply HsetA
        | match goal with |- rel_entry _ _ => split; cbn [fst snd] end
        | match goal with |- rel_res _ _ => split; [|split]; cbn [fst snd] end ].

    Lemma write_rel : forall ev (sch : schedule) g v, R g v ->
        rel_res (write_tr X S1 P1 ev sch g) (write_tr X S2 P2 ev sch v).
    Proof.
      intros ev sch g v H. unfold write_tr. destruct (sch SWrite) as [ft|]; rel1.
    Qed.

    Lemma inner_rel : forall sh ev new (sch : schedule) g v, R g v ->
        rel_res (inner_tr X S1 P1 sh ev new sch g) (inner_tr X S2 P2 sh ev new sch v).
    Proof.
      intros sh ev new sch g v H. unfold inner_tr.
      destruct sh as [pos| |].
      - destruct (dumps_at _ sch new) as [k|]; [rel1|].
        destruct new as [c|]; [|rel1].
        pose proof (write_rel ev sch g v H) as Hw.
        destruct (write_tr X S1 P1 ev sch g) as [[es1 g1] o1].
        destruct (write_tr X S2 P2 ev sch v) as [[es2 g2] o2].
        destruct Hw as [Hw1 [Hw2 Hw3]]. cbn [fst snd] in *.
        destruct pos; rel1.
      - destruct (sch SDumps) as [ft|]; [rel1|].
        destruct new as [c|]; [apply write_rel; exact H |].
        destruct (e_late ev); [destruct (sch SWrite) as [ft|]; rel1 | rel1].
      - rel1.
    Qed.

    Lemma close_rel : forall ev new (sch : schedule) g v body, R g v ->
        rel_res (close_tr X S1 P1 ev new sch g body) (close_tr X S2 P2 ev new sch v body).
    Proof.
      intros ev new sch g v body H. unfold close_tr.
      destruct (sch SClose) as [ft|]; [rel1|].
      destruct body as [|k s], new as [c|], (e_flush ev) as [d|]; rel1.
    Qed.

    Lemma body_rel : forall sh ev new (sch : schedule) g v, R g v ->
        rel_res (body_tr X S1 P1 sh ev new sch g) (body_tr X S2 P2 sh ev new sch v).
    Proof.
      intros sh ev new sch g v H. unfold body_tr.
      destruct sh as [pos| |]; [| |rel1].
      all: destruct (dumps_at _ sch new) as [k|]; [rel1|].
      all: destruct (sch SOpen) as [ft|]; [try destruct pos; rel1|].
      all: match goal with |- context [inner_tr X S1 P1 ?sh0 _ _ _ _] =>
             pose proof (inner_rel sh0 ev new sch _ _ (HsetA (Some []) g v H)) as Hi;
             destruct (inner_tr X S1 P1 sh0 ev new sch _) as [[es1 g1] o1];
             destruct (inner_tr X S2 P2 sh0 ev new sch _) as [[es2 g2] o2] end;
        destruct Hi as [Hi1 [Hi2 Hi3]]; cbn [fst snd] in *; subst o2;
        pose proof (close_rel ev new sch g1 g2 o1 Hi2) as Hc;
        destruct (close_tr X S1 P1 ev new sch g1 o1) as [[ec1 h1] q1];
        destruct (close_tr X S2 P2 ev new sch g2 o1) as [[ec2 h2] q2];
        destruct Hc as [Hc1 [Hc2 Hc3]]; cbn [fst snd] in *;
        try destruct pos; rel1.
    Qed.

    Lemma ren_entries_rel : forall ev s m1 g1 m2 g2, R m1 m2 -> R g1 g2 ->
        Forall2 rel_entry (ren_entries X S1 ev s (m1, g1)) (ren_entries X S2 ev s (m2, g2)).
    Proof. intros ev s m1 g1 m2 g2 Hm Hg. unfold ren_entries. destruct (e_atomic ev); rel1. Qed.

    Theorem save_trP_rel : forall sh ev keep new (sch : schedule) g v, R g v ->
        rel_res (save_trP X S1 P1 sh ev keep new sch g) (save_trP X S2 P2 sh ev keep new sch v).
    Proof.
      intros sh ev keep new sch g v H. unfold save_trP.
      destruct (dumps_at _ sch new) as [k|]; [rel1|].
      set (pre1 := if match sh with ShBuf DFirst => true | _ => false end then [(SDumps, POk, g)] else []).
      set (pre2 := if match sh with ShBuf DFirst => true | _ => false end then [(SDumps, POk, v)] else []).
      assert (Hpre : Forall2 rel_entry pre1 pre2).
      { unfold pre1, pre2. destruct sh as [[| |]| |]; rel1. }
      destruct (sch SBackup) as [ft|]; [rel1|].
      pose proof (Hfwd g v H) as Hf. unfold rel_pair in Hf.
      destruct (p_fwd X S1 P1 g) as [[m1 g1]|], (p_fwd X S2 P2 v) as [[m2 v1]|]; try contradiction; [|rel1].
      destruct Hf as [Hm Hg1]. cbn [snd].
      pose proof (ren_entries_rel ev SBackup _ _ _ _ Hm Hg1) as Hren.
      pose proof (body_rel sh ev new sch g1 v1 Hg1) as Hb.
      destruct (body_tr X S1 P1 sh ev new sch g1) as [[es1 h1] r1].
      destruct (body_tr X S2 P2 sh ev new sch v1) as [[es2 h2] r2].
      destruct Hb as [Hb1 [Hb2 Hb3]]. cbn [fst snd] in *. subst r2.
      destruct r1 as [|[|] s].
      - destruct keep; [rel1|].
        destruct (sch SRemove) as [ft|]; [rel1|].
        pose proof (Hrm h1 h2 Hb2) as Hr. unfold rel_opt in Hr.
        destruct (p_rm X S1 P1 h1), (p_rm X S2 P2 h2); try contradiction; rel1.
      - destruct (sch SRestore) as [ft|]; [rel1|].
        pose proof (Hback h1 h2 Hb2) as Hr. unfold rel_pair in Hr.
        destruct (p_back X S1 P1 h1) as [[n1 k1]|], (p_back X S2 P2 h2) as [[n2 k2]|]; try contradiction; [|rel1].
        destruct Hr as [Hn Hk]. pose proof (ren_entries_rel ev SRestore _ _ _ _ Hn Hk). rel1.
      - rel1.
    Qed.
  End Param.

  (** ** The file-system instance is related to the footprint instance by [agrees] *)
  Lemma agrees_setA : forall A (f : fs) d g v, agrees X A f g v -> agrees X A f (upd A d g) (d, snd v).
  Proof. intros A f d g [a b] H. cbn [snd]. eapply agrees_upd; exact H. Qed.

  Lemma agrees_fwd : forall A (f : fs) g v, agrees X A f g v ->
      rel_pair fs cells (agrees X A f) (rename_mid A (bak A) g) (p_fwd X cells cell_prims v).
  Proof.
    intros A f g [a b] H. unfold rename_mid, rel_pair. cbn [p_fwd cell_prims fst].
    pose proof H as [Ha [Hb Hf]]. cbn [fst snd] in Ha, Hb. rewrite Ha.
    destruct a as [c|]; [|exact I].
    destruct (agrees_rename_fwd X A f g c b H) as [g' [Hr Hg']]. rewrite Hr.
    split; [|exact Hg'].
    pose proof (bak_neq A) as Hn.
    repeat split; cbn [fst snd].
    - rewrite upd_other; auto.
    - apply upd_same.
    - intros q H1 H2. rewrite upd_other; auto.
  Qed.

  Lemma agrees_back : forall A (f : fs) g v, agrees X A f g v ->
      rel_pair fs cells (agrees X A f) (rename_mid (bak A) A g) (p_back X cells cell_prims v).
  Proof.
    intros A f g [a b] H. unfold rename_mid, rel_pair. cbn [p_back cell_prims snd].
    pose proof H as [Ha [Hb Hf]]. cbn [fst snd] in Ha, Hb. rewrite Hb.
    destruct b as [c|]; [|exact I].
    destruct (agrees_rename_back X A f g a c H) as [g' [Hr Hg']]. rewrite Hr.
    split; [|exact Hg'].
    pose proof (bak_neq A) as Hn.
    repeat split; cbn [fst snd].
    - apply upd_same.
    - rewrite upd_other; auto.
    - intros q H1 H2. rewrite upd_other; auto.
  Qed.

  Lemma agrees_rm : forall A (f : fs) g v, agrees X A f g v ->
      rel_opt fs cells (agrees X A f) (remove (bak A) g) (p_rm X cells cell_prims v).
  Proof.
    intros A f g [a b] H. unfold rel_opt. cbn [p_rm cell_prims fst snd].
    pose proof H as [Ha [Hb Hf]]. cbn [fst snd] in Ha, Hb.
    destruct b as [c|].
    - destruct (agrees_remove X A f g a c H) as [g' [Hr Hg']]. rewrite Hr. exact Hg'.
    - unfold remove. rewrite Hb. exact I.
  Qed.

  (** simulation + frame, for every entry of the trace *)
  Theorem save_tr_sim : forall sh ev keep new A (sch : schedule) (f : fs),
      rel_res fs cells (agrees X A f)
              (save_tr sh ev keep new A sch f)
              (save_tr2 sh ev keep new sch (f A, f (bak A))).
  Proof.
    intros sh ev keep new A sch f. unfold save_tr, save_tr2.
    apply save_trP_rel.
    - intros d g v H. cbn [p_setA fs_prims cell_prims]. apply agrees_setA; exact H.
    - intros g v H. apply agrees_fwd; exact H.
    - intros g v H. apply agrees_back; exact H.
    - intros g v H. apply agrees_rm; exact H.
    - apply agrees_refl.
  Qed.

  (** what an entry of the file-system trace looks like on the footprint *)
  Definition view (A : path) (g : fs) : cells := (g A, g (bak A)).

  Lemma Forall2_Forall_transfer :
    forall (A B : Type) (Rl : A -> B -> Prop) (Pa : A -> Prop) (Pb : B -> Prop),
      (forall a b, Rl a b -> Pb b -> Pa a) ->
      forall la lb, Forall2 Rl la lb -> Forall Pb lb -> Forall Pa la.
  Proof.
    intros A B Rl Pa Pb H la lb H2. induction H2 as [|a b la lb Hab _ IH]; intros HF; constructor;
      inversion HF; subst; eauto.
  Qed.

  (** transfer of a per-entry property from the footprint trace *)
  Lemma entries_transfer :
    forall (Q : step -> phase -> cells -> Prop) sh ev keep new A (sch : schedule) (f : fs),
      Forall (fun e2 : entry cells => Q (fst (fst e2)) (snd (fst e2)) (snd e2))
             (fst (fst (save_tr2 sh ev keep new sch (f A, f (bak A))))) ->
      Forall (fun e : entry fs => Q (fst (fst e)) (snd (fst e)) (view A (snd e)) /\ frame X A f (snd e))
             (fst (fst (save_tr sh ev keep new A sch f))).
  Proof.
    intros Q sh ev keep new A sch f H.
    destruct (save_tr_sim sh ev keep new A sch f) as [H2 _].
    eapply Forall2_Forall_transfer; [|exact H2|exact H].
    intros [[s ph] g] [[s2 ph2] v] [Hl [Ha [Hb Hf]]] Hq. cbn [fst snd] in *.
    inversion Hl; subst s2 ph2. unfold view. rewrite Ha, Hb. destruct v; split; auto.
  Qed.

  Lemma final_transfer : forall sh ev keep new A (sch : schedule) (f f' : fs) o,
      save_g sh ev keep new A sch f = (f', o) ->
      exists es2, save_tr2 sh ev keep new sch (f A, f (bak A)) = (es2, view A f', o) /\ frame X A f f'.
  Proof.
    intros sh ev keep new A sch f f' o H. unfold save_g in H.
    destruct (save_tr_sim sh ev keep new A sch f) as [_ [[Ha [Hb Hf]] Ho]].
    destruct (save_tr sh ev keep new A sch f) as [[es g] o1]. inversion H; subst g o1. clear H.
    destruct (save_tr2 sh ev keep new sch (f A, f (bak A))) as [[es2 [a b]] o2]. cbn [fst snd] in *.
    subst. exists es2. split; [reflexivity | exact Hf].
  Qed.

  (* lazy case split on the schedule entries the evaluation consults *)
  Ltac split_goal sch :=
    repeat match goal with
           | |- context [sch ?s] => destruct (sch s) as [?|]
           end.
  Ltac split_hyp sch H :=
    repeat match type of H with
           | context [sch ?s] => destruct (sch s) as [[[|] ?]|]; cbn [fkind fdisk] in H
           end.

  (** ** The body ([_save_content]) on the footprint: one specification, proved by
      symbolic evaluation for every shape, schedule and environment; the
      theorems about [save_tr2] use only this. *)
  Definition body_label (sh : shape) (s : step) : Prop :=
    body_step s = true /\ (sh = ShBuf DFirst -> s <> SDumps).
  Definition body2 (sh : shape) (ev : env) (new : option content) (sch : schedule) (v : cells) :=
    body_tr X cells cell_prims sh ev new sch v.

  Lemma body2_spec : forall sh ev new (sch : schedule) a b,
      (sh = ShBuf DFirst -> new <> None) ->
      let r := body2 sh ev new sch (a, b) in
      snd (snd (fst r)) = b /\
      Forall (fun e : entry cells => snd (snd e) = b /\ body_label sh (fst (fst e))) (fst (fst r)) /\
      (snd r = Done -> exists c, new = Some c /\ fst (snd (fst r)) = Some c) /\
      (forall k s, snd r = Raised k s -> body_label sh s) /\
      (forall d, last (map (fun e : entry cells => snd e) (fst (fst r))) d = snd (fst r)).
  Proof.
    intros sh ev new sch a b Hnew.
    unfold body2, body_tr, inner_tr, close_tr, write_tr, dumps_at, dumps_res, body_label.
    destruct ev as [at_ en em ep ef el].
    destruct sh as [[| |]| |], new as [c|], ef as [d|], el; try (exfalso; apply Hnew; reflexivity); clear Hnew; cbn;
      split_goal sch; cbn;
      (split; [reflexivity|]);
      (split; [repeat (apply Forall_cons || apply Forall_nil); cbn; repeat split; congruence|]);
      (split; [intros Hd; try discriminate; eauto|]);
      (split; [intros k0 s0 Hr; inversion Hr; subst; (split; [reflexivity | congruence]) | reflexivity]).
  Qed.

  (** the zones of the step sequence *)
  Inductive zone := ZUntouched | ZBoth | ZMoved | ZRestored | ZCommitted.
  Definition zone_of (sh : shape) (s : step) (ph : phase) : zone :=
    match s, ph with
    | SBackup, PFail => ZUntouched
    | SBackup, PMid => ZBoth
    | SBackup, POk => ZMoved
    | SDumps, _ => match sh with ShBuf DFirst => ZUntouched | _ => ZMoved end
    | SRestore, PMid => ZBoth
    | SRestore, POk => ZRestored
    | SRemove, POk => ZCommitted
    | _, _ => ZMoved
    end.
  (** what the zone says about (A, A.bak): [old] the content A had, [b] what
      A.bak was before the call, [new] the content to be written *)
  Definition zone_inv (old : content) (b : cell) (new : option content) (z : zone) (v : cells) : Prop :=
    match z with
    | ZUntouched => v = (Some old, b)
    | ZBoth => v = (Some old, Some old)
    | ZMoved => snd v = Some old
    | ZRestored => v = (Some old, None)
    | ZCommitted => exists c, new = Some c /\ v = (Some c, None)
    end.

  Lemma zone_body : forall sh s ph, body_label sh s -> zone_of sh s ph = ZMoved.
  Proof.
    intros sh s ph [H1 H2]. destruct s; try discriminate; destruct ph; try reflexivity;
      cbn; destruct sh as [[| |]| |]; try reflexivity; exfalso; apply H2; reflexivity.
  Qed.

  Lemma last_app_nonempty : forall (T : Type) (l1 l2 : list T) d, l2 <> [] -> last (l1 ++ l2) d = last l2 d.
  Proof.
    intros T l1 l2 d H. induction l1 as [|x l1 IH]; [reflexivity|].
    cbn [app]. cbn [last]. destruct (l1 ++ l2) eqn:E.
    - apply app_eq_nil in E. destruct E; contradiction.
    - exact IH.
  Qed.

  (** ** Where the original content is, at every crash point *)

  Ltac fa :=
    repeat match goal with
           | |- Forall _ (ren_entries _ _ _ _ _) => assumption
           | |- Forall _ (_ ++ _) => apply Forall_app; split
           | |- Forall _ (_ :: _) => apply Forall_cons
           | |- Forall _ [] => apply Forall_nil
           | |- Forall _ _ => assumption
           end.

  Lemma tr2_zone : forall sh ev keep new (sch : schedule) old b,
      Forall (fun e2 : entry cells => zone_inv old b new (zone_of sh (fst (fst e2)) (snd (fst e2))) (snd e2))
             (fst (fst (save_tr2 sh ev keep new sch (Some old, b)))).
  Proof.
    intros sh ev keep new sch old b. unfold save_tr2, save_trP.
    destruct (dumps_at _ sch new) as [k|] eqn:Edump.
    { cbn. repeat constructor. cbn. destruct sh as [[| |]| |]; try discriminate; reflexivity. }
    set (first := match sh with ShBuf DFirst => true | _ => false end) in *.
    assert (Hpre : Forall (fun e2 : entry cells => zone_inv old b new (zone_of sh (fst (fst e2)) (snd (fst e2))) (snd e2))
                          (if first then [(SDumps, POk, (Some old, b))] else [])).
    { unfold first. destruct sh as [[| |]| |]; repeat constructor. }
    destruct (sch SBackup) as [ft|].
    { cbn [fst]. fa. reflexivity. }
    cbn [p_fwd cell_prims fst snd].
    assert (Hnew : sh = ShBuf DFirst -> new <> None).
    { intros -> ->. unfold first, dumps_at, dumps_res in Edump. destruct (sch SDumps); discriminate. }
    pose proof (body2_spec sh ev new sch None (Some old) Hnew) as Hb. unfold body2 in Hb. cbn zeta in Hb.
    destruct (body_tr X cells cell_prims sh ev new sch (None, Some old)) as [[es [a2 b2]] r].
    cbn [fst snd] in Hb. destruct Hb as [Hb2 [Hes [Hdone [Hrs _]]]]. subst b2.
    assert (Hes' : Forall (fun e2 : entry cells => zone_inv old b new (zone_of sh (fst (fst e2)) (snd (fst e2))) (snd e2)) es).
    { eapply Forall_impl; [|exact Hes]. intros [[s ph] v] [Hv Hl]. cbn [fst snd] in *.
      rewrite (zone_body sh s ph Hl). exact Hv. }
    assert (HrenB : Forall (fun e2 : entry cells => zone_inv old b new (zone_of sh (fst (fst e2)) (snd (fst e2))) (snd e2))
                          (ren_entries X cells ev SBackup ((Some old, Some old), (None, Some old)))).
    { unfold ren_entries; destruct (e_atomic ev); repeat constructor. }
    assert (HrenR : Forall (fun e2 : entry cells => zone_inv old b new (zone_of sh (fst (fst e2)) (snd (fst e2))) (snd e2))
                          (ren_entries X cells ev SRestore ((Some old, Some old), (Some old, None)))).
    { unfold ren_entries; destruct (e_atomic ev); repeat constructor. }
    destruct r as [|[|] s].
    - destruct (Hdone eq_refl) as [c [Hn Ha]]. cbn [fst] in Ha. subst a2.
      destruct keep.
      + cbn [fst]. fa; cbn; eauto.
      + destruct (sch SRemove) as [ft|]; cbn [fst p_rm cell_prims snd];
          fa; cbn; eauto.
    - destruct (sch SRestore) as [ft|]; cbn [fst p_back cell_prims snd];
        fa; cbn; eauto.
    - cbn [fst]. fa; cbn; eauto.
  Qed.

  (** the final state is the state of the last entry (the initial one if there is none) *)
  Lemma tr2_final_last : forall sh ev keep new (sch : schedule) v,
      snd (fst (save_tr2 sh ev keep new sch v)) =
      last (map (fun e : entry cells => snd e) (fst (fst (save_tr2 sh ev keep new sch v)))) v.
  Proof.
    intros sh ev keep new sch [a b]. unfold save_tr2, save_trP.
    destruct (dumps_at _ sch new) as [k|] eqn:Edump; [reflexivity|].
    assert (Hnew : sh = ShBuf DFirst -> new <> None).
    { intros -> ->. unfold dumps_at, dumps_res in Edump. destruct (sch SDumps); discriminate. }
    assert (Hsnoc : forall (l : list (entry cells)) x d, last (map (fun e : entry cells => snd e) (l ++ [x])) d = snd x).
    { intros l x d. rewrite map_app. cbn [map]. apply last_last. }
    destruct (sch SBackup) as [ft|].
    { cbn [fst snd]. rewrite Hsnoc. reflexivity. }
    cbn [p_fwd cell_prims fst snd].
    destruct a as [c0|].
    2:{ cbn [fst snd]. rewrite Hsnoc. reflexivity. }
    cbn [fst snd].
    pose proof (body2_spec sh ev new sch None (Some c0) Hnew) as Hb. unfold body2 in Hb. cbn zeta in Hb.
    destruct (body_tr X cells cell_prims sh ev new sch (None, Some c0)) as [[es [a2 b2]] r].
    cbn [fst snd] in Hb. destruct Hb as [Hb2 [Hes [_ [_ Hlast]]]]. subst b2.
    assert (Hne : es <> []).
    { intro E. subst es. pose proof (Hlast (None, None)) as H1. pose proof (Hlast (None, Some c0)) as H2.
      cbn in H1, H2. rewrite <- H2 in H1. discriminate. }
    assert (Hne' : map (fun e : entry cells => snd e) es <> []).
    { destruct es; [contradiction | discriminate]. }
    unfold ren_entries.
    destruct r as [|[|] s].
    - destruct keep.
      + cbn [fst snd]. rewrite map_app, last_app_nonempty by exact Hne'. symmetry. apply Hlast.
      + destruct (sch SRemove) as [ft|]; cbn [fst p_rm cell_prims snd];
          rewrite !app_assoc, Hsnoc; reflexivity.
    - destruct (sch SRestore) as [ft|]; cbn [fst p_back cell_prims snd].
      + rewrite !app_assoc, Hsnoc; reflexivity.
      + rewrite !app_assoc, Hsnoc; reflexivity.
    - cbn [fst snd]. rewrite map_app, last_app_nonempty by exact Hne'. symmetry. apply Hlast.
  Qed.

  (** ** The final state, for every shape, schedule and environment *)
  Definition final_ok (sh : shape) (keep : bool) (old : content) (b : cell) (new : option content)
             (o : outcome) (v : cells) : Prop :=
    match o with
    | Done => exists c, new = Some c /\ v = (Some c, if keep then Some old else None)
    | Raised k s =>
        match s with
        | SBackup => v = (Some old, b)
        | SRestore => snd v = Some old
        | SRemove => exists c, new = Some c /\ v = (Some c, Some old)
        | _ => (sh = ShBuf DFirst /\ s = SDumps /\ v = (Some old, b)) \/
               (body_label sh s /\ match k with KExc => v = (Some old, None) | KBase => snd v = Some old end)
        end
    end.

  Lemma tr2_final_ok : forall sh ev keep new (sch : schedule) old b,
      final_ok sh keep old b new (snd (save_tr2 sh ev keep new sch (Some old, b)))
               (snd (fst (save_tr2 sh ev keep new sch (Some old, b)))).
  Proof.
    intros sh ev keep new sch old b. unfold save_tr2, save_trP.
    destruct (dumps_at _ sch new) as [k|] eqn:Edump.
    { cbn. left. destruct sh as [[| |]| |]; try discriminate. auto. }
    assert (Hnew : sh = ShBuf DFirst -> new <> None).
    { intros -> ->. unfold dumps_at, dumps_res in Edump. destruct (sch SDumps); discriminate. }
    destruct (sch SBackup) as [ft|]; [reflexivity|].
    cbn [p_fwd cell_prims fst snd].
    pose proof (body2_spec sh ev new sch None (Some old) Hnew) as Hb. unfold body2 in Hb. cbn zeta in Hb.
    destruct (body_tr X cells cell_prims sh ev new sch (None, Some old)) as [[es [a2 b2]] r].
    cbn [fst snd] in Hb. destruct Hb as [Hb2 [_ [Hdone [Hrs _]]]]. subst b2.
    destruct r as [|[|] s].
    - destruct (Hdone eq_refl) as [c [Hn Ha]]. cbn [fst] in Ha. subst a2.
      destruct keep; [cbn; eauto|].
      destruct (sch SRemove) as [ft|]; cbn; eauto.
    - pose proof (Hrs _ _ eq_refl) as Hl.
      destruct (sch SRestore) as [ft|]; cbn [fst p_back cell_prims snd final_ok]; [reflexivity|].
      destruct Hl as [Hl1 Hl2]. destruct s; try discriminate; right; (split; [split; assumption | reflexivity]).
    - pose proof (Hrs _ _ eq_refl) as Hl. cbn [fst snd final_ok].
      destruct Hl as [Hl1 Hl2]. destruct s; try discriminate; right; (split; [split; assumption | reflexivity]).
  Qed.

  (** the json branch under the plain environment is the program of FsModel.v *)
  Lemma body2_json : forall pos new (sch : schedule) a b,
      (pos = DFirst -> new <> None) ->
      snd (fst (body2 (ShBuf pos) env0 new sch (a, b))) = (fst (FsProofs.body2 X pos new sch a), b) /\
      snd (body2 (ShBuf pos) env0 new sch (a, b)) = snd (FsProofs.body2 X pos new sch a).
  Proof.
    intros pos new sch a b Hnew.
    unfold body2, body_tr, inner_tr, close_tr, write_tr, FsProofs.body2, dumps_at, dumps_res, env0.
    destruct pos, new as [c|]; try (exfalso; apply Hnew; reflexivity); clear Hnew; cbn;
      split_goal sch; cbn; split; reflexivity.
  Qed.

  Lemma tr2_json : forall pos keep new (sch : schedule) v,
      snd (fst (save_tr2 (ShBuf pos) env0 keep new sch v)) = fst (save2 X pos keep new sch v) /\
      snd (save_tr2 (ShBuf pos) env0 keep new sch v) = snd (save2 X pos keep new sch v).
  Proof.
    intros pos keep new sch [a b]. unfold save_tr2, save_trP, save2.
    replace (match ShBuf pos with ShBuf DFirst => true | _ => false end)
      with (match pos with DFirst => true | _ => false end) by (destruct pos; reflexivity).
    destruct (dumps_at _ sch new) as [k|] eqn:Edump; [split; reflexivity|].
    assert (Hnew : pos = DFirst -> new <> None).
    { intros -> ->. unfold dumps_at, dumps_res in Edump. destruct (sch SDumps); discriminate. }
    destruct (sch SBackup) as [ft|]; [split; reflexivity|].
    cbn [p_fwd cell_prims fst snd].
    destruct a as [c0|]; [|split; reflexivity].
    cbn [fst snd].
    pose proof (body2_json pos new sch None (Some c0) Hnew) as [Hj1 Hj2]. unfold body2 in Hj1, Hj2.
    destruct (body_tr X cells cell_prims (ShBuf pos) env0 new sch (None, Some c0)) as [[es v2] r].
    destruct (FsProofs.body2 X pos new sch None) as [a2 r2]. cbn [fst snd] in Hj1, Hj2. subst v2 r2.
    destruct r as [|[|] s].
    - destruct keep; [split; reflexivity|].
      destruct (sch SRemove) as [ft|]; cbn; split; reflexivity.
    - destruct (sch SRestore) as [ft|]; cbn; split; reflexivity.
    - split; reflexivity.
  Qed.

  (** ** Theorems about the model ([save_tr] / [save_g] on an arbitrary file system) *)

  (** EVERY crash point, EVERY schedule, shape and environment: where the
      original content is, is determined by the step reached *)
  Theorem crash_zone :
    forall sh ev keep new A (sch : schedule) (f : fs) old,
      f A = Some old ->
      Forall (fun e : entry fs =>
                zone_inv old (f (bak A)) new (zone_of sh (fst (fst e)) (snd (fst e))) (view A (snd e)) /\
                frame X A f (snd e))
             (fst (fst (save_tr sh ev keep new A sch f))).
  Proof.
    intros sh ev keep new A sch f old HA.
    apply (entries_transfer (fun s ph v => zone_inv old (f (bak A)) new (zone_of sh s ph) v)).
    rewrite HA. apply tr2_zone.
  Qed.

  Lemma zone_inv_cases : forall old b new z (v : cells),
      zone_inv old b new z v ->
      fst v = Some old \/ snd v = Some old \/ (z = ZCommitted /\ exists c, new = Some c /\ v = (Some c, None)).
  Proof.
    intros old b new z [a' b'] H. destruct z; cbn in *.
    - inversion H; auto.
    - inversion H; auto.
    - auto.
    - inversion H; auto.
    - right; right; split; [reflexivity | exact H].
  Qed.

  (** hence no crash point loses the original unless the call had completed
      (then A holds the complete new content), and nothing else is touched *)
  Theorem crash_never_loses_content :
    forall sh ev keep new A (sch : schedule) (f : fs) old g,
      f A = Some old ->
      In g (crash_states sh ev keep new A sch f) ->
      (g A = Some old \/ g (bak A) = Some old \/
       (exists c, new = Some c /\ g A = Some c /\ g (bak A) = None)) /\
      frame X A f g.
  Proof.
    intros sh ev keep new A sch f old g HA Hin. unfold crash_states in Hin.
    destruct Hin as [<- | Hin].
    { split; [left; exact HA | intros q _ _; reflexivity]. }
    apply in_map_iff in Hin. destruct Hin as [e [<- Hin]].
    pose proof (crash_zone sh ev keep new A sch f old HA) as Hz.
    rewrite Forall_forall in Hz. destruct (Hz e Hin) as [Hzi Hfr]. split; [|exact Hfr].
    apply zone_inv_cases in Hzi. unfold view in Hzi. cbn [fst snd] in Hzi.
    destruct Hzi as [H|[H|[_ [c [Hn Hv]]]]]; auto.
    right; right. exists c. inversion Hv. repeat split; congruence.
  Qed.

  (** a target that is neither the complete old nor the complete new content
      (missing, empty, truncated, garbage) is always accompanied by a backup
      file that holds the old content *)
  Theorem crash_torn_target_has_backup :
    forall sh ev keep new A (sch : schedule) (f : fs) old g,
      f A = Some old ->
      In g (crash_states sh ev keep new A sch f) ->
      g A <> Some old -> (forall c, new = Some c -> g A <> Some c) ->
      g (bak A) = Some old.
  Proof.
    intros sh ev keep new A sch f old g HA Hin H1 H2.
    destruct (crash_never_loses_content sh ev keep new A sch f old g HA Hin) as [[H|[H|[c [Hn [Hc _]]]]] _].
    - contradiction.
    - exact H.
    - exfalso. exact (H2 c Hn Hc).
  Qed.

  (** recovery ("if there is a backup file, put it back") after a crash at ANY
      point yields the complete old content - or the complete new content, and
      that only if the call had completed; never a mixture.  Guard: there was
      no A.bak before the call (refuted otherwise, below). *)
  Theorem crash_recover_atomic :
    forall sh ev keep new A (sch : schedule) (f : fs) old g,
      f A = Some old -> f (bak A) = None ->
      In g (crash_states sh ev keep new A sch f) ->
      (recover A g A = Some old \/ (exists c, new = Some c /\ g A = Some c /\ recover A g A = Some c)) /\
      recover A g (bak A) = None /\
      frame X A f (recover A g).
  Proof.
    intros sh ev keep new A sch f old g HA HB Hin. unfold crash_states in Hin.
    pose proof (bak_neq A) as Hn.
    assert (Hrec : forall g0 : fs, frame X A f g0 ->
              (g0 A = Some old /\ g0 (bak A) = None \/ g0 (bak A) = Some old \/
               (exists c, new = Some c /\ g0 A = Some c /\ g0 (bak A) = None)) ->
              (recover A g0 A = Some old \/ (exists c, new = Some c /\ g0 A = Some c /\ recover A g0 A = Some c)) /\
              recover A g0 (bak A) = None /\ frame X A f (recover A g0)).
    { intros g0 Hfr H. unfold recover.
      destruct H as [[H1 H2]|[H|[c [Hc [H1 H2]]]]].
      - rewrite H2. auto.
      - rewrite H. repeat split.
        + left. rewrite upd_other, upd_same; auto.
        + apply upd_same.
        + intros q Hq1 Hq2. rewrite !upd_other; auto.
      - rewrite H2. split; [right; exists c; auto | auto]. }
    destruct Hin as [<- | Hin].
    { apply Hrec; [intros q _ _; reflexivity | auto]. }
    apply in_map_iff in Hin. destruct Hin as [e [<- Hin]].
    pose proof (crash_zone sh ev keep new A sch f old HA) as Hz.
    rewrite Forall_forall in Hz. destruct (Hz e Hin) as [Hzi Hfr].
    apply Hrec; [exact Hfr|]. rewrite HB in Hzi. unfold view in Hzi.
    destruct (zone_of sh (fst (fst e)) (snd (fst e))); cbn in Hzi.
    - inversion Hzi; auto.
    - inversion Hzi; auto.
    - auto.
    - inversion Hzi; auto.
    - destruct Hzi as [c [Hc Hv]]. inversion Hv. right; right. exists c; auto.
  Qed.

  (** the crash states end in the final state of the call *)
  Lemma Forall2_last : forall (T1 T2 : Type) (Rl : T1 -> T2 -> Prop) l1 l2 d1 d2,
      Forall2 Rl l1 l2 -> Rl d1 d2 -> Rl (last l1 d1) (last l2 d2).
  Proof.
    intros T1 T2 Rl l1 l2 d1 d2 H Hd. induction H as [|x y l1 l2 Hxy H IH]; [exact Hd|].
    cbn [last]. destruct H; [exact Hxy | exact IH].
  Qed.

  Theorem crash_states_end :
    forall sh ev keep new A (sch : schedule) (f : fs) q,
      last (crash_states sh ev keep new A sch f) f q = fst (save_g sh ev keep new A sch f) q.
  Proof.
    intros sh ev keep new A sch f q. unfold crash_states, save_g.
    destruct (save_tr_sim sh ev keep new A sch f) as [H2 [Hfin _]].
    pose proof (tr2_final_last sh ev keep new sch (f A, f (bak A))) as Hl.
    destruct (save_tr sh ev keep new A sch f) as [[es g] o].
    destruct (save_tr2 sh ev keep new sch (f A, f (bak A))) as [[es2 v] o2]. cbn [fst snd] in *.
    assert (Hlast : agrees X A f (last (map (fun e : entry fs => snd e) es) f) v).
    { rewrite Hl. clear Hl Hfin.
      apply (Forall2_last fs cells (agrees X A f)); [|apply agrees_refl].
      induction H2 as [|e1 e2 l1 l2 [_ Hr] _ IH]; constructor; assumption. }
    assert (Heq : last (f :: map (fun e : entry fs => snd e) es) f = last (map (fun e : entry fs => snd e) es) f).
    { destruct es; reflexivity. }
    rewrite Heq. destruct Hlast as [La [Lb Lf]], Hfin as [Fa [Fb Ff]].
    destruct (path_eq_dec q A) as [->|HqA]; [congruence|].
    destruct (path_eq_dec q (bak A)) as [->|Hqb]; [congruence|].
    rewrite (Lf q HqA Hqb), (Ff q HqA Hqb). reflexivity.
  Qed.

  (** the final-state theorems of FsProofs.v, for every branch of _save_content *)
  Theorem save_g_final :
    forall sh ev keep new A (sch : schedule) (f f' : fs) old o,
      f A = Some old ->
      save_g sh ev keep new A sch f = (f', o) ->
      final_ok sh keep old (f (bak A)) new o (view A f') /\ frame X A f f'.
  Proof.
    intros sh ev keep new A sch f f' old o HA H.
    destruct (final_transfer _ _ _ _ _ _ _ _ _ H) as [es2 [H2 Hf]]. split; [|exact Hf].
    rewrite HA in H2. pose proof (tr2_final_ok sh ev keep new sch old (f (bak A))) as Hok.
    rewrite H2 in Hok. exact Hok.
  Qed.

  Theorem save_g_done_correct :
    forall sh ev keep new A (sch : schedule) (f f' : fs) old,
      f A = Some old ->
      save_g sh ev keep new A sch f = (f', Done) ->
      exists c, new = Some c /\ f' A = Some c /\
                f' (bak A) = (if keep then Some old else None) /\ frame X A f f'.
  Proof.
    intros sh ev keep new A sch f f' old HA H.
    destruct (save_g_final _ _ _ _ _ _ _ _ _ _ HA H) as [[c [Hn Hv]] Hf].
    unfold view in Hv. inversion Hv. exists c; auto.
  Qed.

  Theorem save_g_raised_keeps_old :
    forall sh ev keep new A (sch : schedule) (f f' : fs) old k s,
      f A = Some old ->
      save_g sh ev keep new A sch f = (f', Raised k s) ->
      (f' A = Some old \/ f' (bak A) = Some old) /\ frame X A f f'.
  Proof.
    intros sh ev keep new A sch f f' old k s HA H.
    destruct (save_g_final _ _ _ _ _ _ _ _ _ _ HA H) as [Hok Hf]. split; [|exact Hf].
    unfold view in Hok. cbn [final_ok] in Hok.
    destruct s;
      repeat match goal with
             | Hx : _ \/ _ |- _ => destruct Hx
             | Hx : _ /\ _ |- _ => destruct Hx
             | Hx : exists _, _ |- _ => destruct Hx
             | Hx : (_, _) = (_, _) |- _ => inversion Hx; clear Hx
             | Hx : match ?kk with KExc => _ | KBase => _ end |- _ => destruct kk
             end; cbn [fst snd] in *; auto.
  Qed.

  Theorem save_g_exception_restores :
    forall sh ev keep new A (sch : schedule) (f f' : fs) old s,
      f A = Some old ->
      save_g sh ev keep new A sch f = (f', Raised KExc s) ->
      s <> SRestore -> s <> SRemove ->
      f' A = Some old /\
      (body_step s = true -> (sh = ShBuf DFirst -> s <> SDumps) -> f' (bak A) = None) /\
      (f (bak A) = None -> f' (bak A) = None) /\
      frame X A f f'.
  Proof.
    intros sh ev keep new A sch f f' old s HA H Hs1 Hs2.
    destruct (save_g_final _ _ _ _ _ _ _ _ _ _ HA H) as [Hok Hf].
    unfold view in Hok. cbn [final_ok] in Hok.
    destruct s; try congruence;
      repeat match goal with
             | Hx : _ \/ _ |- _ => destruct Hx
             | Hx : _ /\ _ |- _ => destruct Hx
             | Hx : (_, _) = (_, _) |- _ => inversion Hx; clear Hx
             end; try discriminate;
      (repeat split; auto; intros; try discriminate; try congruence;
       try (exfalso; match goal with Hx : _ = _ -> _ <> _ |- _ => apply Hx; auto end)).
  Qed.

  Theorem save_g_interrupt_keeps_backup :
    forall sh ev keep new A (sch : schedule) (f f' : fs) old s,
      f A = Some old ->
      save_g sh ev keep new A sch f = (f', Raised KBase s) ->
      body_step s = true -> (sh = ShBuf DFirst -> s <> SDumps) ->
      f' (bak A) = Some old.
  Proof.
    intros sh ev keep new A sch f f' old s HA H Hb1 Hb2.
    destruct (save_g_final _ _ _ _ _ _ _ _ _ _ HA H) as [Hok Hf].
    unfold view in Hok. cbn [final_ok] in Hok.
    destruct s; try discriminate;
      repeat match goal with
             | Hx : _ \/ _ |- _ => destruct Hx
             | Hx : _ /\ _ |- _ => destruct Hx
             end; cbn [fst snd] in *; auto; exfalso; apply Hb2; auto.
  Qed.

  (** the generalised program under the plain environment is FsModel.save *)
  Theorem save_g_json :
    forall pos keep new A (sch : schedule) (f : fs),
      snd (save_g (ShBuf pos) env0 keep new A sch f) = snd (save pos keep new A sch f) /\
      forall q, fst (save_g (ShBuf pos) env0 keep new A sch f) q = fst (save pos keep new A sch f) q.
  Proof.
    intros pos keep new A sch f.
    destruct (save_sim X pos keep new A sch f) as [So [Sa [Sb Sf]]].
    destruct (save_g (ShBuf pos) env0 keep new A sch f) as [g o] eqn:E.
    destruct (final_transfer _ _ _ _ _ _ _ _ _ E) as [es2 [H2 Hf]].
    destruct (tr2_json pos keep new sch (f A, f (bak A))) as [J1 J2]. rewrite H2 in J1, J2. cbn [fst snd] in *.
    split; [congruence|].
    intros q. unfold view in J1.
    destruct (path_eq_dec q A) as [->|HqA].
    { rewrite Sa, <- J1. reflexivity. }
    destruct (path_eq_dec q (bak A)) as [->|Hqb].
    { rewrite Sb, <- J1. reflexivity. }
    rewrite (Hf q HqA Hqb), (Sf q HqA Hqb). reflexivity.
  Qed.

  (** ** Particular schedules *)
  Lemma save_g_by_view :
    forall sh ev keep new A (sch : schedule) (f : fs) es2 a' b' o,
      save_tr2 sh ev keep new sch (f A, f (bak A)) = (es2, (a', b'), o) ->
      exists f', save_g sh ev keep new A sch f = (f', o) /\ f' A = a' /\ f' (bak A) = b' /\ frame X A f f'.
  Proof.
    intros sh ev keep new A sch f es2 a' b' o H2. unfold save_g.
    destruct (save_tr_sim sh ev keep new A sch f) as [_ [[Ha [Hb Hf]] Ho]].
    rewrite H2 in *. cbn [fst snd] in *.
    destruct (save_tr sh ev keep new A sch f) as [[es g] o']. cbn [fst snd] in *. subst o'.
    exists g; auto.
  Qed.

  Ltac unfold_tr2 :=
    unfold save_tr2, save_trP, body_tr, inner_tr, close_tr, write_tr, ren_entries, dumps_at, dumps_res.

  (** no fault, the serialiser accepts the document: every branch writes the new
      content, keeps the backup iff keep_backup, touches nothing else *)
  Theorem save_g_success :
    forall sh ev keep c A (f : fs) old,
      sh <> ShNone -> f A = Some old ->
      exists f', save_g sh ev keep (Some c) A no_fault f = (f', Done) /\
                 f' A = Some c /\ f' (bak A) = (if keep then Some old else None) /\ frame X A f f'.
  Proof.
    intros sh ev keep c A f old Hsh HA.
    assert (H2 : exists es2, save_tr2 sh ev keep (Some c) no_fault (f A, f (bak A))
                             = (es2, (Some c, if keep then Some old else None), Done)).
    { rewrite HA. unfold_tr2. destruct sh as [[| |]| |]; try congruence; destruct keep; cbn; eexists; reflexivity. }
    destruct H2 as [es2 H2]. exact (save_g_by_view _ _ _ _ _ _ _ _ _ _ _ H2).
  Qed.

  (** exactly one fault, an Exception, at any step up to and including close, in
      any branch (in the streaming branches a failing serialiser may already
      have written part of the file): restored *)
  Theorem save_g_single_fault_restores :
    forall sh ev keep c A (f : fs) old k (ft : fault),
      sh <> ShNone -> f A = Some old ->
      write_step k = true -> fkind ft = KExc ->
      exists f', save_g sh ev keep (Some c) A (single k ft) f = (f', Raised KExc k) /\
                 f' A = Some old /\
                 (k <> SBackup -> (sh = ShBuf DFirst -> k <> SDumps) -> f' (bak A) = None) /\
                 (f (bak A) = None -> f' (bak A) = None) /\
                 frame X A f f'.
  Proof.
    intros sh ev keep c A f old k [kk d] Hsh HA Hk Hkind. cbn in Hkind; subst kk.
    assert (H2 : exists es2 b', save_tr2 sh ev keep (Some c) (single k (mkFault KExc d)) (f A, f (bak A))
                                = (es2, (Some old, b'), Raised KExc k) /\
                                (k <> SBackup -> (sh = ShBuf DFirst -> k <> SDumps) -> b' = None) /\
                                (f (bak A) = None -> b' = None)).
    { rewrite HA. unfold_tr2. destruct ev as [at_ en em ep [dd|] el].
      all: destruct k; try discriminate; destruct sh as [[| |]| |]; try congruence; destruct keep; cbn;
        eexists; eexists; (split; [reflexivity|]); split; intros; auto; try congruence;
        exfalso; match goal with Hx : _ = _ -> _ <> _ |- _ => apply Hx; reflexivity end. }
    destruct H2 as [es2 [b' [H2 [Hb1 Hb2]]]].
    destruct (save_g_by_view _ _ _ _ _ _ _ _ _ _ _ H2) as [f' [Hs [Ha [Hb Hf]]]].
    exists f'. subst b'. auto.
  Qed.

  (** the serialiser cannot be imported / the file type is unknown (ImportError,
      UnsupportedFormatErr - raised after the file was renamed away): restored *)
  Theorem save_g_unavailable_restores :
    forall ev keep new A (f : fs) old,
      f A = Some old ->
      exists f', save_g ShNone ev keep new A no_fault f = (f', Raised KExc SDumps) /\
                 f' A = Some old /\ f' (bak A) = None /\ frame X A f f'.
  Proof.
    intros ev keep new A f old HA.
    assert (H2 : exists es2, save_tr2 ShNone ev keep new no_fault (f A, f (bak A))
                             = (es2, (Some old, None), Raised KExc SDumps)).
    { rewrite HA. unfold_tr2. destruct new, keep; cbn; eexists; reflexivity. }
    destruct H2 as [es2 H2]. exact (save_g_by_view _ _ _ _ _ _ _ _ _ _ _ H2).
  Qed.

  (** a streaming serialiser rejects the document after having written part of
      it (whatever it flushed, whatever close() flushes on top): restored *)
  Theorem save_g_stream_reject_restores :
    forall ev keep A (f : fs) old,
      f A = Some old ->
      exists f', save_g ShStream ev keep None A no_fault f = (f', Raised KExc SDumps) /\
                 f' A = Some old /\ f' (bak A) = None /\ frame X A f f'.
  Proof.
    intros ev keep A f old HA.
    assert (H2 : exists es2, save_tr2 ShStream ev keep None no_fault (f A, f (bak A))
                             = (es2, (Some old, None), Raised KExc SDumps)).
    { rewrite HA. unfold_tr2. destruct ev as [at_ en em ep [dd|] [|]]; destruct keep; cbn; eexists; reflexivity. }
    destruct H2 as [es2 H2]. exact (save_g_by_view _ _ _ _ _ _ _ _ _ _ _ H2).
  Qed.
End GenProofs.

(** ** Non-vacuity and refutations (concrete file systems, by computation) *)
Definition cx_A : path := s2p "a.json".
Definition cx_f : fs N := upd cx_A (Some [1%N]) (fun _ => None).
Definition cx_env : env N := mkEnv false None (Some [2%N]) (Some []) None false.

(** the crash states of a fault-free run with a two-phase rename: nine states
    (initial, both names, moved, opened, serialised, half written, written but
    not flushed, closed, removed...), the target truncated in four of them *)
Example ex_crash_states :
  map (fun g : fs N => (g cx_A, g (bak cx_A)))
      (crash_states (ShBuf DInside) cx_env false (Some [2%N; 3%N]) cx_A no_fault cx_f)
  = [ (Some [1%N], None);
      (Some [1%N], Some [1%N]); (None, Some [1%N]);
      (Some [], Some [1%N]); (Some [], Some [1%N]);
      (Some [2%N], Some [1%N]); (Some [], Some [1%N]);
      (Some [2%N; 3%N], Some [1%N]);
      (Some [2%N; 3%N], None) ].
Proof. vm_compute. reflexivity. Qed.

(** the guard of [crash_recover_atomic] is needed: with an A.bak left over from
    an earlier run, a crash before the first rename makes recovery install
    that stale file *)
Theorem crash_recover_preexisting_refuted :
  exists (A : path) (f : fs N) (old stale c : list N) (g : fs N),
    f A = Some old /\ f (bak A) = Some stale /\
    In g (crash_states (ShBuf DInside) env0 false (Some c) A no_fault f) /\
    recover A g A <> Some old /\ recover A g A <> Some c.
Proof.
  exists cx_A, (upd (bak cx_A) (Some [7%N]) cx_f), [1%N], [7%N], [2%N], (upd (bak cx_A) (Some [7%N]) cx_f).
  repeat split; try (vm_compute; reflexivity); try (vm_compute; discriminate).
  left. reflexivity.
Qed.

(** recovery is not what the code does after an interrupt: the states it leaves
    behind (truncated A + A.bak) are exactly crash states *)
Example ex_crash_torn :
  exists g, In g (crash_states ShStream cx_env true (Some [2%N; 3%N]) cx_A no_fault cx_f) /\
            g cx_A = Some [2%N] /\ g (bak cx_A) = Some [1%N] /\ recover cx_A g cx_A = Some [1%N].
Proof.
  eexists. split.
  - unfold crash_states. right. cbn. do 3 right. left. reflexivity.
  - vm_compute. repeat split.
Qed.

(** C20 - the payload conditions of the pickled pipeline reduced to a guard on documents.
    For JSON documents a, b whose object keys can travel in a path string
    ([keys_path_okb]: no key with both quote characters, none ending in U+1D1C0) the delta
    d = Delta(DeepDiff(a, b)) satisfies [delta_ok d] (every path prints and parses back)
    and [wfp (pv_of_delta d)] (the payload is a well-formed dict).  Uses the facts about the
    reported paths of Diff/DiffPaths.v (paths consist of document keys; distinct per kind). *)
From Coq Require Import List ZArith NArith Bool Arith Lia.
Import ListNotations.
From DD Require Import Base.PyStr Base.Value Base.ValueFacts Path.PathModel Path.PathProofs Diff.Tree Diff.DiffModel
  Diff.DiffFacts Diff.DiffFaithful Diff.DiffPaths
  Delta.DeltaModel Delta.DeltaStruct Delta.DeltaRun Delta.DeltaGuard Delta.DeltaGood Delta.DeltaChain Delta.DeltaReverseDiffInplace
  Pickle.Vm Pickle.Codec Pickle.CodecProofs Pickle.DeltaCodec Pickle.DeltaCodecProofs Cli.JsonDocs Cli.JsonPickle.


(** * generic facts *)
Lemma wfp_of_value : forall v, wf v = true -> wfp (of_value v) = true.
Proof.
  induction v as [x|xs IH|xs IH|kvs IH|xs|xs] using value_ind'; intros W; cbn in *; try reflexivity; try exact W.
  - rewrite forallb_forall. intros y Hy. apply in_map_iff in Hy as (x & <- & Hx).
    eapply Forall_forall in IH; [|exact Hx]. apply IH. eapply forallb_forall in W; eassumption.
  - rewrite forallb_forall. intros y Hy. apply in_map_iff in Hy as (x & <- & Hx).
    eapply Forall_forall in IH; [|exact Hx]. apply IH. eapply forallb_forall in W; eassumption.
  - apply andb_true_iff in W as [N W]. apply andb_true_iff. split.
    + rewrite map_map. cbn. exact N.
    + rewrite forallb_forall. intros y Hy. apply in_map_iff in Hy as (kv & <- & Hkv). cbn.
      eapply Forall_forall in IH; [|exact Hkv]. apply IH. eapply forallb_forall in W; [|exact Hkv]. exact W.
Qed.

Lemma wfp_values l : forallb wf l = true -> forallb wfp (map of_value l) = true.
Proof.
  intros H. rewrite forallb_forall. intros y Hy. apply in_map_iff in Hy as (v & <- & Hv). apply wfp_of_value.
  eapply forallb_forall in H; eassumption.
Qed.

Lemma render_inj p q : gpath p -> gpath q -> render p = render q -> p = q.
Proof.
  intros Hp Hq E. pose proof (parse_render_gpath p Hp) as A. pose proof (parse_render_gpath q Hq) as B.
  rewrite E in A. congruence.
Qed.

Lemma mem_pkey p ps : mem_atom (pkey_s p) (map pkey_s ps) = true -> exists q, In q ps /\ render p = render q.
Proof.
  intros H. apply mem_atom_In in H as (x & Hx & E). apply in_map_iff in Hx as (q & <- & Hq).
  exists q. split; [exact Hq|]. unfold pkey_s in E. cbn in E. apply pystr_eqb_eq. exact E.
Qed.

Lemma nodup_pkeys ps : NoDup ps -> Forall gpath ps -> nodup_atoms (map pkey_s ps) = true.
Proof.
  induction ps as [|p ps IH]; intros N G; [reflexivity|].
  inversion N; subst. apply Forall_cons_iff in G as [Gp G]. cbn. apply andb_true_iff. split; [|apply IH; assumption].
  apply negb_true_iff. destruct (mem_atom (pkey_s p) (map pkey_s ps)) eqn:M; [|reflexivity].
  exfalso. apply mem_pkey in M as (q & Hq & E). eapply Forall_forall in G; [|exact Hq].
  rewrite (render_inj p q Gp G E) in H1. contradiction.
Qed.

Lemma nodup_filter_fst {B} (f : atom * B -> bool) l :
  nodup_atoms (map fst l) = true -> nodup_atoms (map fst (filter f l)) = true.
Proof.
  induction l as [|x l IH]; cbn; intros N; [reflexivity|].
  apply andb_true_iff in N as [N1 N2]. destruct (f x); cbn; [|apply IH; exact N2].
  apply andb_true_iff. split; [|apply IH; exact N2].
  apply negb_true_iff. apply negb_true_iff in N1.
  destruct (mem_atom (fst x) (map fst (filter f l))) eqn:M; [|reflexivity].
  apply mem_atom_In in M as (y & Hy & E). apply in_map_iff in Hy as (z & <- & Hz). apply filter_In in Hz as [Hz _].
  assert (mem_atom (fst x) (map fst l) = true) by (apply mem_atom_In; exists (fst z); split; [apply in_map; exact Hz|exact E]).
  congruence.
Qed.

(* one output per entry of kind k, located at the entry's t1 path *)
Lemma NoDup_flat_kind {B} (k : rkind) (F : entry -> list B) (pth : B -> path) es :
  (forall e x, In x (F e) -> is_kind k e = true /\ pth x = norm (ep1 e) /\ F e = [x]) ->
  NoDup (map (fun e => norm (ep1 e)) (filter (is_kind k) es)) ->
  NoDup (map pth (flat_map F es)).
Proof.
  intros H. induction es as [|e es IH]; intros N; [constructor|].
  cbn [flat_map]. rewrite map_app.
  assert (Nt : NoDup (map (fun e => norm (ep1 e)) (filter (is_kind k) es))).
  { cbn [filter] in N. destruct (is_kind k e); [inversion N; assumption|exact N]. }
  destruct (F e) as [|x l] eqn:Fe; [cbn; apply IH; exact Nt|].
  destruct (H e x) as (Hk & Hp & Hl); [rewrite Fe; left; reflexivity|].
  rewrite Fe in Hl. inversion Hl; subst l. cbn. constructor; [|apply IH; exact Nt].
  intros Hin. apply in_map_iff in Hin as (x' & E & Hx'). apply in_flat_map in Hx' as (e' & He' & Hx').
  destruct (H e' x' Hx') as (Hk' & Hp' & _).
  cbn [filter] in N. rewrite Hk in N. inversion N; subst. apply H2.
  apply in_map_iff. exists e'. split; [congruence|apply filter_In; split; assumption].
Qed.

Lemma in_firstn {A} (x : A) n l : In x (firstn n l) -> In x l.
Proof. revert l; induction n as [|n IH]; intros [|y l]; cbn; try tauto. intros [H|H]; [left; exact H|right; apply IH; exact H]. Qed.
Lemma in_skipn {A} (x : A) n l : In x (skipn n l) -> In x l.
Proof. revert l; induction n as [|n IH]; intros [|y l]; cbn; try tauto. intros H; right; apply IH; exact H. Qed.

Lemma wf_slice (l : list value) i j : forallb wf l = true -> forallb wf (slice l i j) = true.
Proof.
  intros H. unfold slice. rewrite forallb_forall. intros x Hx. apply in_firstn in Hx. apply in_skipn in Hx.
  eapply forallb_forall in H; eassumption.
Qed.

Lemma get_item_json v k x : is_json v = true -> get_item v k = Some x -> is_json x = true.
Proof.
  intros J G. destruct v as [at0|xs|xs|kvs|xs|xs]; try discriminate J.
  - destruct at0; cbn in J, G; try discriminate J; try discriminate G. destruct (int_of_atom k); [|discriminate]. 
    destruct (seq_index s z); inversion G. reflexivity.
  - cbn in G. destruct (int_of_atom k); [|discriminate]. unfold seq_index in G.
    destruct (_ || _); [discriminate|]. apply nth_error_In in G. cbn in J. eapply forallb_forall in J; eassumption.
  - cbn in G. apply assoc_In in G as (k' & Hin & _). cbn in J. eapply forallb_forall in J; [|exact Hin].
    cbn in J. destruct k'; try discriminate J. exact J.
Qed.
Lemma resolve_json : forall p v x, is_json v = true -> resolve v p = Some x -> is_json x = true.
Proof.
  induction p as [|k p IH]; intros v x J R; cbn in R; [inversion R; subst; exact J|].
  destruct (get_item v (key_atom k)) as [v'|] eqn:G; [|discriminate]. eapply IH; [|exact R]. eapply get_item_json; eassumption.
Qed.

(** * paths made of good keys print and parse back *)
Lemma keys_path_okb_dkeys : forall v, keys_path_okb v = true -> forall k, In k (dkeys v) -> key_ok (PKey k) = true.
Proof.
  induction v as [a|xs IH|xs IH|kvs IH|xs|xs] using value_ind'; intros H k Hk; try (destruct Hk; fail).
  - cbn in H, Hk. apply in_flat_map in Hk as (x & Hx & Hk). eapply Forall_forall in IH; [|exact Hx]. apply IH; [|exact Hk].
    eapply forallb_forall in H; eassumption.
  - cbn in H, Hk. apply in_flat_map in Hk as (x & Hx & Hk). eapply Forall_forall in IH; [|exact Hx]. apply IH; [|exact Hk].
    eapply forallb_forall in H; eassumption.
  - cbn in H, Hk. apply in_flat_map in Hk as ([k0 v0] & Hx & Hk). eapply forallb_forall in H; [|exact Hx].
    cbn in H, Hk. apply andb_true_iff in H as [H1 H2]. destruct Hk as [<-|Hk]; [exact H1|].
    eapply Forall_forall in IH; [|exact Hx]. apply IH; assumption.
Qed.

Lemma norm_idem p : norm (norm p) = norm p.
Proof. unfold norm. rewrite map_map. reflexivity. Qed.

Lemma gpath_norm (K : list atom) p :
  (forall k, In k K -> key_ok (PKey k) = true) -> keys_from K p -> gpath (norm p).
Proof.
  intros HK Hp. split; [|apply norm_idem].
  unfold path_ok, norm. rewrite forallb_forall. intros k Hk. apply in_map_iff in Hk as (k0 & <- & Hk0).
  unfold keys_from in Hp. eapply Forall_forall in Hp; [|exact Hk0].
  destruct k0 as [a|i]; cbn; [apply HK; exact Hp|reflexivity].
Qed.

Lemma Forall_flat_map {A B} (P : B -> Prop) (f : A -> list B) l :
  (forall x, In x l -> Forall P (f x)) -> Forall P (flat_map f l).
Proof.
  intros H. apply Forall_forall. intros y Hy. apply in_flat_map in Hy as (x & Hx & Hy).
  eapply Forall_forall in Hy; [exact Hy|apply H; exact Hx].
Qed.

Section Payload.
Variable hatom : atom -> pystr.
Variable udiff : pystr -> pystr -> pystr.
Variable ops : path -> list value -> list value -> list opcode.
Variable c : cfg.
Variable conv : ty -> value -> option value.
Variables a b : value.

Let es := fst (run_diff hatom udiff ops nos nos c a b).
Let rc := snd (run_diff hatom udiff ops nos nos c a b).
Let d := mk_delta_json hatom udiff ops c conv a b.

Hypothesis Ka : keys_path_okb a = true.
Hypothesis Kb : keys_path_okb b = true.

Let K := (dkeys a ++ dkeys b)%list.
Lemma K_ok : forall k, In k K -> key_ok (PKey k) = true.
Proof.
  intros k Hk. apply in_app_or in Hk as [Hk|Hk]; [eapply keys_path_okb_dkeys; [exact Ka|exact Hk]|eapply keys_path_okb_dkeys; [exact Kb|exact Hk]].
Qed.

Lemma es_paths : forall e, In e es -> gpath (npath (ep1 e)) /\ gpath (npath (ep2 e)).
Proof.
  intros e He. destruct (run_diff_path_keys hatom udiff ops nos nos c a b) as [A _].
  fold es in A. eapply Forall_forall in A; [|exact He]. destruct A as [A1 A2].
  split; apply (gpath_norm K); try exact K_ok; assumption.
Qed.
Lemma rc_paths : forall p, In p rc -> gpath (npath p).
Proof.
  intros p Hp. destruct (run_diff_path_keys hatom udiff ops nos nos c a b) as [_ B].
  fold rc in B. eapply Forall_forall in B; [|exact Hp]. apply (gpath_norm K); [exact K_ok|exact B].
Qed.

Lemma new_path_ok e : In e es -> match new_path_opt e with Some q => gpath q | None => True end.
Proof. intros He. unfold new_path_opt. destruct (pystr_eqb _ _); [exact I|apply es_paths; exact He]. Qed.

Theorem json_delta_ok : delta_ok d.
Proof.
  unfold d, mk_delta_json, delta_of. fold es rc.
  constructor; cbn [to_delta d_val d_type d_dadd d_drem d_iadd d_irem d_moved d_ops].
  - apply Forall_flat_map. intros e He. destruct (ekind e); try constructor; [|constructor].
    split; cbn; [apply es_paths; exact He|apply new_path_ok; exact He].
  - apply Forall_flat_map. intros e He. destruct (ekind e); try constructor; [|constructor].
    split; cbn; [apply es_paths; exact He|apply new_path_ok; exact He].
  - apply Forall_flat_map. intros e He. destruct (ekind e); try constructor; [|constructor]. cbn. apply es_paths; exact He.
  - apply Forall_flat_map. intros e He. destruct (ekind e); try constructor; [|constructor]. cbn. apply es_paths; exact He.
  - apply Forall_flat_map. intros e He. destruct (ekind e); try constructor. destruct (in_paths _ _); constructor; [|constructor].
    cbn. apply es_paths; exact He.
  - apply Forall_flat_map. intros e He. destruct (ekind e); try constructor. destruct (in_paths _ _); constructor; [|constructor].
    cbn. apply es_paths; exact He.
  - apply Forall_flat_map. intros e He. destruct (ekind e); try constructor. destruct (in_paths _ _); constructor; [|constructor].
    cbn. split; apply es_paths; exact He.
  - rewrite td_sadd. apply Forall_forall. intros [q xs] Hq.
    assert (Hin : In q (map fst (sg sel_add es []))) by (apply in_map_iff; exists (q, xs); split; [reflexivity|exact Hq]).
    apply sg_fst in Hin as [[]|(e & x & He & S)]. unfold sel_add in S.
    destruct (ekind e); try discriminate. destruct (et2 e) as [[y| | | | |]|]; try discriminate. inversion S; subst.
    cbn. apply es_paths; exact He.
  - rewrite td_srem. apply Forall_forall. intros [q xs] Hq.
    assert (Hin : In q (map fst (sg sel_rem es []))) by (apply in_map_iff; exists (q, xs); split; [reflexivity|exact Hq]).
    apply sg_fst in Hin as [[]|(e & x & He & S)]. unfold sel_rem in S.
    destruct (ekind e); try discriminate. destruct (et1 e) as [[y| | | | |]|]; try discriminate. inversion S; subst.
    cbn. apply es_paths; exact He.
  - apply Forall_forall. intros x Hx. apply in_map_iff in Hx as (p & <- & Hp). cbn. apply rc_paths; exact Hp.
Qed.

(** * the payload is a well-formed dict *)
Hypothesis Ja : is_json a = true.
Hypothesis Jb : is_json b = true.
Hypothesis Wa : wf a = true.
Hypothesis Wb : wf b = true.
Hypothesis Hthr : thr_num c <= thr_den c.
Hypothesis Hops : zip c = true \/ ops_sorted2 ops.

Definition owf (o : option value) : Prop := match o with Some v => wf v = true | None => True end.

Lemma es_faithful e : In e es -> faithful false a b e.
Proof. intros He. apply (run_diff_faithful hatom udiff ops nos nos c a b Hthr Wa Wb e He). Qed.

Lemma es_vals_wf e : In e es -> owf (et1 e) /\ owf (et2 e).
Proof.
  intros He. pose proof (es_faithful e He) as F. unfold faithful in F. destruct (ekind e).
  - destruct F as (x & y & E1 & E2 & R1 & R2 & _). rewrite E1, E2. split; cbn; [exact (wf_resolve _ _ _ Wa R1)|exact (wf_resolve _ _ _ Wb R2)].
  - destruct F as (x & y & E1 & E2 & R1 & R2 & _). rewrite E1, E2. split; cbn; [exact (wf_resolve _ _ _ Wa R1)|exact (wf_resolve _ _ _ Wb R2)].
  - destruct F as (y & E1 & E2 & R2 & _). rewrite E1, E2. split; cbn; [exact I|exact (wf_resolve _ _ _ Wb R2)].
  - destruct F as (x & E1 & E2 & R1 & _). rewrite E1, E2. split; cbn; [exact (wf_resolve _ _ _ Wa R1)|exact I].
  - destruct F as (y & E1 & E2 & R2 & _). rewrite E1, E2. split; cbn; [exact I|exact (wf_resolve _ _ _ Wb R2)].
  - destruct F as (x & E1 & E2 & R1 & _). rewrite E1, E2. split; cbn; [exact (wf_resolve _ _ _ Wa R1)|exact I].
  - destruct F as (x & y & E1 & E2 & R1 & R2 & _). rewrite E1, E2. split; cbn; [exact (wf_resolve _ _ _ Wa R1)|exact (wf_resolve _ _ _ Wb R2)].
  - destruct F as (y & s & E1 & E2 & _). rewrite E1, E2. split; cbn; [exact I|reflexivity].
  - destruct F as (x & s & E1 & E2 & _). rewrite E1, E2. split; cbn; [reflexivity|exact I].
  - destruct F.
Qed.

Lemma ov_wf (o : option value) : owf o -> wf (match o with Some v => v | None => VAtom ANone end) = true.
Proof. destruct o; cbn; auto. Qed.
Lemma owf_map (o : option value) : owf o -> match option_map of_value o with Some x => wfp x = true | None => True end.
Proof. destruct o; cbn; [apply wfp_of_value|auto]. Qed.

Lemma no_set_entries e : In e es -> sel_add e = None /\ sel_rem e = None.
Proof.
  intros He. pose proof (es_faithful e He) as F. unfold faithful in F. unfold sel_add, sel_rem.
  destruct (ekind e); try (split; reflexivity); exfalso.
  - destruct F as (y & s & _ & _ & R2 & S). pose proof (resolve_json _ _ _ Jb R2) as J. destruct s; try discriminate J; exact S.
  - destruct F as (x & s & _ & _ & R1 & S). pose proof (resolve_json _ _ _ Ja R1) as J. destruct s; try discriminate J; exact S.
Qed.

Lemma sg_none sel l acc : (forall e, In e l -> sel e = None) -> sg sel l acc = acc.
Proof.
  revert acc. induction l as [|e l IH]; intros acc H; [reflexivity|]. unfold sg in *. cbn.
  rewrite (H e (or_introl eq_refl)). apply IH. intros e' He'. apply H. right. exact He'.
Qed.

Lemma cat_intro (l : list (atom * pv)) :
  nodup_atoms (map fst l) = true -> Forall (fun kv => wfp (snd kv) = true) l -> wfp (PDict l) = true.
Proof.
  intros N F. cbn. rewrite N. cbn. rewrite forallb_forall. intros kv Hkv. eapply Forall_forall in F; eassumption.
Qed.

Lemma Forall_map_flat {A B C} (P : C -> Prop) (g : B -> C) (f : A -> list B) l :
  (forall x y, In x l -> In y (f x) -> P (g y)) -> Forall P (map g (flat_map f l)).
Proof.
  intros H. apply Forall_forall. intros z Hz. apply in_map_iff in Hz as (y & <- & Hy).
  apply in_flat_map in Hy as (x & Hx & Hy). eapply H; eassumption.
Qed.

Let dok := json_delta_ok.

Lemma kind_distinct k : grp k <> None ->
  NoDup (map (fun e => norm (ep1 e)) (filter (is_kind k) es)).
Proof. intros G. apply (run_diff_paths_distinct hatom udiff ops nos nos c a b k Hops Wa Wb G). Qed.

Lemma opt_field_wfp k o : match o with Some x => wfp x = true | None => True end ->
  Forall (fun kv : atom * pv => wfp (snd kv) = true) (opt_field k o).
Proof. destruct o; cbn; intros H; [constructor; [exact H|constructor]|constructor]. Qed.

Theorem json_payload_wfp : wfp (pv_of_delta d) = true.
Proof.
  pose proof dok as [Hv Ht Hda Hdr Hia Hir Hm Hsa Hsr Ho].
  assert (SA : d_sadd d = []).
  { unfold d, mk_delta_json, delta_of. fold es rc. rewrite td_sadd. apply sg_none. intros e He. apply no_set_entries; exact He. }
  assert (SR : d_srem d = []).
  { unfold d, mk_delta_json, delta_of. fold es rc. rewrite td_srem. apply sg_none. intros e He. apply no_set_entries; exact He. }
  (* values_changed *)
  assert (Cval : wfp (PDict (map pv_of_vchange (d_val d))) = true).
  { apply cat_intro.
    - rewrite map_map. change (fun x => fst (pv_of_vchange x)) with (fun x => pkey_s (vc_path x)). rewrite <- (map_map vc_path pkey_s).
      apply nodup_pkeys; [|apply Forall_forall; intros p Hp; apply in_map_iff in Hp as (x & <- & Hx); eapply Forall_forall in Hv; [|exact Hx]; apply Hv].
      unfold d, mk_delta_json, delta_of. fold es rc. cbn [to_delta d_val].
      apply (NoDup_flat_kind KValue); [|apply kind_distinct; discriminate].
      intros e x Hx. unfold is_kind. destruct (ekind e); try (now destruct Hx). destruct Hx as [<-|[]]. repeat split; reflexivity.
    - unfold d, mk_delta_json, delta_of. fold es rc. cbn [to_delta d_val]. apply Forall_map_flat. intros e x He Hx.
      destruct (ekind e); try (now destruct Hx). destruct Hx as [<-|[]]. cbn.
      destruct (es_vals_wf e He) as [_ W2]. rewrite (wfp_of_value _ (ov_wf _ W2)). cbn.
      destruct (new_path_opt e); reflexivity. }
  (* type_changes *)
  assert (Ctype : wfp (PDict (map pv_of_tchange (d_type d))) = true).
  { apply cat_intro.
    - rewrite map_map. change (fun x => fst (pv_of_tchange x)) with (fun x => pkey_s (tc_path x)). rewrite <- (map_map tc_path pkey_s).
      apply nodup_pkeys; [|apply Forall_forall; intros p Hp; apply in_map_iff in Hp as (x & <- & Hx); eapply Forall_forall in Ht; [|exact Hx]; apply Ht].
      unfold d, mk_delta_json, delta_of. fold es rc. cbn [to_delta d_type].
      apply (NoDup_flat_kind KType); [|apply kind_distinct; discriminate].
      intros e x Hx. unfold is_kind. destruct (ekind e); try (now destruct Hx). destruct Hx as [<-|[]]. repeat split; reflexivity.
    - unfold d, mk_delta_json, delta_of. fold es rc. cbn [to_delta d_type]. apply Forall_map_flat. intros e x He Hx.
      destruct (ekind e); try (now destruct Hx). destruct Hx as [<-|[]].
      destruct (es_vals_wf e He) as [W1 W2]. pose proof (wfp_of_value _ (ov_wf _ W2)) as P2.
      cbn. destruct (match conv _ _ with Some a' => negb (py_eqv a' _) | None => true end); cbn;
        destruct (new_path_opt e); cbn; try rewrite P2; try reflexivity;
        destruct (type_of _); destruct (type_of _); reflexivity. }
  assert (Item : forall k (F : entry -> list (path * value)),
             grp k <> None ->
             (forall e x, In x (F e) -> is_kind k e = true /\ fst x = norm (ep1 e) /\ F e = [x]) ->
             (forall e x, In e es -> In x (F e) -> wf (snd x) = true) ->
             Forall (fun pvv => gpath (fst pvv)) (flat_map F es) ->
             wfp (PDict (map pv_of_item (flat_map F es))) = true).
  { intros k F G H1 H2 H3. apply cat_intro.
    - rewrite map_map. change (fun x => fst (pv_of_item x)) with (fun x : path * value => pkey_s (fst x)). rewrite <- (map_map fst pkey_s).
      apply nodup_pkeys; [|apply Forall_forall; intros p Hp; apply in_map_iff in Hp as (x & <- & Hx); eapply Forall_forall in H3; [|exact Hx]; exact H3].
      apply (NoDup_flat_kind k); [exact H1|apply kind_distinct; exact G].
    - apply Forall_map_flat. intros e x He Hx. cbn. apply wfp_of_value. eapply H2; eassumption. }
  assert (Cdadd : wfp (PDict (map pv_of_item (d_dadd d))) = true).
  { revert Hda. unfold d, mk_delta_json, delta_of. fold es rc. cbn [to_delta d_dadd]. intros Hda.
    apply (Item KDictAdd); [discriminate| | |exact Hda].
    - intros e x Hx. unfold is_kind. destruct (ekind e); try (now destruct Hx). destruct Hx as [<-|[]]. repeat split; reflexivity.
    - intros e x He Hx. destruct (ekind e); try (now destruct Hx). destruct Hx as [<-|[]]. cbn. apply ov_wf. apply es_vals_wf; exact He. }
  assert (Cdrem : wfp (PDict (map pv_of_item (d_drem d))) = true).
  { revert Hdr. unfold d, mk_delta_json, delta_of. fold es rc. cbn [to_delta d_drem]. intros Hdr.
    apply (Item KDictRem); [discriminate| | |exact Hdr].
    - intros e x Hx. unfold is_kind. destruct (ekind e); try (now destruct Hx). destruct Hx as [<-|[]]. repeat split; reflexivity.
    - intros e x He Hx. destruct (ekind e); try (now destruct Hx). destruct Hx as [<-|[]]. cbn. apply ov_wf. apply es_vals_wf; exact He. }
  assert (Ciadd : wfp (PDict (map pv_of_item (d_iadd d))) = true).
  { revert Hia. unfold d, mk_delta_json, delta_of. fold es rc. cbn [to_delta d_iadd]. intros Hia.
    apply (Item KIterAdd); [discriminate| | |exact Hia].
    - intros e x Hx. unfold is_kind. destruct (ekind e); try (now destruct Hx). destruct (in_paths _ _); [destruct Hx|]. destruct Hx as [<-|[]]. repeat split; reflexivity.
    - intros e x He Hx. destruct (ekind e); try (now destruct Hx). destruct (in_paths _ _); [destruct Hx|]. destruct Hx as [<-|[]]. cbn. apply ov_wf. apply es_vals_wf; exact He. }
  assert (Cirem : wfp (PDict (map pv_of_item (d_irem d))) = true).
  { revert Hir. unfold d, mk_delta_json, delta_of. fold es rc. cbn [to_delta d_irem]. intros Hir.
    apply (Item KIterRem); [discriminate| | |exact Hir].
    - intros e x Hx. unfold is_kind. destruct (ekind e); try (now destruct Hx). destruct (in_paths _ _); [destruct Hx|]. destruct Hx as [<-|[]]. repeat split; reflexivity.
    - intros e x He Hx. destruct (ekind e); try (now destruct Hx). destruct (in_paths _ _); [destruct Hx|]. destruct Hx as [<-|[]]. cbn. apply ov_wf. apply es_vals_wf; exact He. }
  assert (Cmoved : wfp (PDict (map pv_of_moved (d_moved d))) = true).
  { apply cat_intro.
    - rewrite map_map. change (fun x => fst (pv_of_moved x)) with (fun x : path * path * value => pkey_s (fst (fst x))).
      rewrite <- (map_map (fun x : path * path * value => fst (fst x)) pkey_s).
      apply nodup_pkeys; [|apply Forall_forall; intros p Hp; apply in_map_iff in Hp as (x & <- & Hx); eapply Forall_forall in Hm; [|exact Hx]; apply Hm].
      unfold d, mk_delta_json, delta_of. fold es rc. cbn [to_delta d_moved].
      apply (NoDup_flat_kind KIterMoved); [|apply kind_distinct; discriminate].
      intros e x Hx. unfold is_kind. destruct (ekind e); try (now destruct Hx). destruct (in_paths _ _); [destruct Hx|]. destruct Hx as [<-|[]]. repeat split; reflexivity.
    - unfold d, mk_delta_json, delta_of. fold es rc. cbn [to_delta d_moved]. apply Forall_map_flat. intros e x He Hx.
      destruct (ekind e); try (now destruct Hx). destruct (in_paths _ _); [destruct Hx|]. destruct Hx as [<-|[]]. cbn.
      destruct (es_vals_wf e He) as [_ W2]. rewrite (wfp_of_value _ (ov_wf _ W2)). reflexivity. }
  assert (Cops : wfp (PDict (map pv_of_ops (d_ops d))) = true).
  { apply cat_intro.
    - rewrite map_map. change (fun x => fst (pv_of_ops x)) with (fun x : path * list opv => pkey_s (fst x)). rewrite <- (map_map fst pkey_s).
      apply nodup_pkeys; [|apply Forall_forall; intros p Hp; apply in_map_iff in Hp as (x & <- & Hx); eapply Forall_forall in Ho; [|exact Hx]; exact Ho].
      unfold d, mk_delta_json, delta_of. fold es rc. cbn [to_delta d_ops]. rewrite map_map. cbn [fst].
      apply (run_diff_rec_distinct hatom udiff ops nos nos c a b Hops Wa Wb).
    - unfold d, mk_delta_json, delta_of. fold es rc. cbn [to_delta d_ops]. apply Forall_forall. intros kv Hkv.
      apply in_map_iff in Hkv as (po & <- & Hpo). apply in_map_iff in Hpo as (p & <- & Hp). cbn.
      rewrite forallb_forall. intros o Ho'. apply in_map_iff in Ho' as (ov' & <- & Hov). apply in_map_iff in Hov as (oc & <- & Hoc).
      assert (WY : forallb wf (seq_of (resolve b p)) = true).
      { destruct (resolve b p) as [v|] eqn:R; [|reflexivity]. pose proof (wf_resolve _ _ _ Wb R) as W.
        destruct v; try reflexivity; exact W. }
      unfold opv_of. destruct (otag oc); cbn; try reflexivity;
        apply wfp_values; apply wf_slice; exact WY. }
  unfold pv_of_delta. cbn [wfp]. apply andb_true_iff. split.
  - apply nodup_filter_fst. reflexivity.
  - apply forallb_filter. unfold all_categories. rewrite SA, SR. cbn [forallb snd map].
    rewrite Ctype, Cdadd, Cdrem, Cval, Ciadd, Cirem, Cmoved, Cops. reflexivity.
Qed.
End Payload.

(** * the end-to-end theorem with the document-level guard *)
Section PipelineKeys.
  Variable parse : list op -> option value.
  Variable dump : value -> option (list op).
  Variable w : world.
  Variable hatom : atom -> pystr.
  Variable udiff : pystr -> pystr -> pystr.
  Variable ops : path -> list value -> list value -> list opcode.
  Variable c : cfg.
  Variable conv : ty -> value -> option value.
  Variable ro : list (path * value) -> list (path * value).
  Variable ao : list (path * option value) -> list (path * option value).

  Hypothesis hatom_inj : forall a b, hatom a = hatom b -> a = b.
  Hypothesis conv_typed : forall ty0 v v', conv ty0 v = Some v' -> type_of v' = ty0.
  Hypothesis conv_json : conv_json_ok conv.
  Hypothesis ops_valid : forall p xs ys, forallb is_atom xs = true -> forallb is_atom ys = true -> valid_ops xs ys (ops p xs ys).
  Hypothesis ops_sorted : zip c = true \/ ops_sorted2 ops.
  Hypothesis thr_le : thr_num c <= thr_den c.
  Hypothesis ro_valid : ro_ok ro.
  Hypothesis ao_valid : ao_ok ao.
  Hypothesis world_calls : calls_ok w.
  Hypothesis json_roundtrip : forall d cc, dump d = Some cc -> parse cc = Some d.

  Theorem patch_reproduces_json_keys :
    forall pos keep (A B P : FsModel.path) (f : FsModel.fs op) ca a b pd,
      f A = Some ca -> parse ca = Some a -> FsModel.load parse f B = Some b ->
      P <> A -> P <> FsModel.bak A ->
      is_json a = true -> is_json b = true -> wf a = true -> wf b = true ->
      alias_free (atoms_of a ++ atoms_of b) ->
      (ignore_private c = false \/ (nopriv a = true /\ nopriv b = true)) ->
      keys_path_okb a = true -> keys_path_okb b = true ->
      let d := mk_delta_json hatom udiff ops c conv a b in
      types_ok w (pv_of_delta d) ->
      FsModel.diff_cmd parse pickle_delta (mk_delta_json hatom udiff ops c conv) A B f = Some pd ->
      exists b',
        apply conv ro ao d a = (b', 0) /\
        veqb b' b = true /\
        forall cr, dump b' = Some cr ->
          exists f',
            FsModel.patch_cmd parse dump (unpickle_delta w) (apply_delta_json conv ro ao) pos keep A P FsModel.no_fault
                              (FsModel.upd P (Some pd) f) = (f', FsModel.Done) /\
            FsModel.load parse f' A = Some b' /\
            f' A = Some cr /\
            f' (FsModel.bak A) = (if keep then Some ca else None) /\
            (forall q, q <> A -> q <> FsModel.bak A -> q <> P -> f' q = f q).
  Proof.
    intros pos keep A B P f ca a b pd HA Hpa HB HPA HPb Ja Jb Wa Wb AF NP Ka Kb d Hty Hdiff.
    exact (patch_reproduces_json_pickled_ok parse dump w hatom udiff ops c conv ro ao
             hatom_inj conv_typed conv_json ops_valid ro_valid ao_valid world_calls json_roundtrip
             pos keep A B P f ca a b pd HA Hpa HB HPA HPb Ja Jb Wa Wb AF NP
             (json_delta_ok hatom udiff ops c conv a b Ka Kb)
             (json_payload_wfp hatom udiff ops c conv a b Ka Kb Ja Jb Wa Wb thr_le ops_sorted)
             Hty Hdiff).
  Qed.
End PipelineKeys.

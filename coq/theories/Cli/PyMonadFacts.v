(** Facts about the statement combinators of Cli/PyMonad.v and about the hand
    model that the equivalence proofs of the source tie (coq/srctie/CliGenEquiv.v)
    use.  Nothing here mentions the generated definitions. *)
From Coq Require Import List Bool NArith ZArith String Lia.
Import ListNotations.
From DD Require Import Base.Sx Base.PyStr Cli.FsModel Cli.FsProofs Cli.GenModel Cli.FormatModel Cli.FormatProofs Cli.PyMonad.

(** ** which fault point a rename / remove is *)
Lemma path_eqb_refl : forall p, path_eqb p p = true.
Proof. intros p. unfold path_eqb. destruct (path_eq_dec p p); congruence. Qed.
Lemma path_eqb_bak : forall p, path_eqb (bak p) p = false.
Proof.
  intros p. unfold path_eqb. destruct (path_eq_dec (bak p) p) as [e|]; [destruct (bak_neq p e)|reflexivity].
Qed.
Lemma ren_step_backup : forall A, ren_step A A (bak A) = Some SBackup.
Proof. intros A. unfold ren_step. now rewrite !path_eqb_refl. Qed.
Lemma ren_step_restore : forall A, ren_step A (bak A) A = Some SRestore.
Proof. intros A. unfold ren_step. now rewrite path_eqb_bak, !path_eqb_refl. Qed.

(** ** path.split('.')[-1] is [ext_of] *)
Lemma py_split_nonempty : forall sep p, py_split sep p <> [].
Proof.
  intros sep p. destruct p as [|c r]; cbn [py_split]; [discriminate|].
  destruct (N.eqb c sep); [discriminate|]. destruct (py_split sep r); discriminate.
Qed.
Lemma py_split_nodot : forall p, has_dot p = false -> py_split DOT p = [p].
Proof.
  induction p as [|c r IH]; intros H; [reflexivity|].
  unfold has_dot in H. cbn [existsb] in H. apply orb_false_iff in H. destruct H as [Hc Hr].
  cbn [py_split]. rewrite N.eqb_sym, Hc. fold (has_dot r) in Hr. now rewrite (IH Hr).
Qed.
Lemma py_split_dot : forall p, has_dot p = true -> exists w w' ws, py_split DOT p = w :: w' :: ws.
Proof.
  induction p as [|c r IH]; intros H; [discriminate|].
  unfold has_dot in H. cbn [existsb] in H. cbn [py_split]. rewrite N.eqb_sym.
  destruct (N.eqb DOT c) eqn:Hc.
  - destruct (py_split DOT r) as [|w ws] eqn:E; [destruct (py_split_nonempty _ _ E)|]. now exists [], w, ws.
  - cbn [orb] in H. fold (has_dot r) in H. destruct (IH H) as (w & w' & ws & E). rewrite E. now exists (c :: w), w', ws.
Qed.
Lemma py_split_last : forall p, last (py_split DOT p) [] = ext_of p.
Proof.
  induction p as [|c r IH]; [reflexivity|].
  cbn [ext_of]. destruct (has_dot r) eqn:Hd.
  - destruct (py_split_dot r Hd) as (w & w' & ws & E). cbn [py_split]. rewrite E in *.
    destruct (N.eqb c DOT); rewrite <- IH; reflexivity.
  - cbn [py_split]. rewrite (py_split_nodot r Hd). rewrite (N.eqb_sym c DOT).
    destruct (N.eqb DOT c); reflexivity.
Qed.
Lemma py_index_last : forall (T : Type) (l : list T) (d : T), l <> [] -> py_index l (-1)%Z = Some (last l d).
Proof.
  intros T l d Hl. unfold py_index. cbn [Z.ltb Z.compare].
  destruct l as [|x l]; [congruence|]. clear Hl.
  replace (Z.of_nat (List.length (x :: l)) + -1)%Z with (Z.of_nat (List.length l)) by (cbn [List.length]; lia).
  destruct (Z.of_nat (List.length l) <? 0)%Z eqn:E; [apply Z.ltb_lt in E; lia|].
  rewrite Nat2Z.id. clear E. revert x. induction l as [|y l IH]; intros x; [reflexivity|].
  cbn [List.length nth_error]. rewrite IH. reflexivity.
Qed.
Theorem py_split_index_last : forall p, py_split_index p 46%N (-1)%Z = Some (ext_of p).
Proof.
  intros p. unfold py_split_index. change 46%N with DOT.
  rewrite (py_index_last pystr _ [] (py_split_nonempty DOT p)). now rewrite py_split_last.
Qed.

(** ** the generalised save program only raises from its own steps *)
Section OwnSteps.
  Variable X : Type.
  Variable S : Type.
  Variable P : prims X S.

  Lemma body_tr_own_steps : forall sh ev new (sch : schedule X) g es g' k s,
      body_tr X S P sh ev new sch g = (es, g', Raised k s) -> save_step s = true.
  Proof.
    intros sh ev new sch g es g' k s H.
    unfold body_tr, inner_tr, close_tr, write_tr, dumps_at, dumps_res in H.
    destruct sh as [[]| |]; destruct new; destruct (sch SOpen); destruct (sch SDumps); destruct (sch SWrite);
      destruct (sch SClose); destruct (e_late ev); cbn in H; inversion H; subst; reflexivity.
  Qed.

  Lemma save_trP_own_steps : forall sh ev keep new (sch : schedule X) f es f' k s,
      save_trP X S P sh ev keep new sch f = (es, f', Raised k s) -> save_step s = true.
  Proof.
    intros sh ev keep new sch f es f' k s H. unfold save_trP in H.
    destruct (dumps_at (match sh with ShBuf DFirst => true | _ => false end) sch new); [inversion H; reflexivity|].
    destruct (sch SBackup); [inversion H; reflexivity|].
    destruct (p_fwd X S P f) as [rb|]; [|inversion H; reflexivity].
    destruct (body_tr X S P sh ev new sch (snd rb)) as [[es1 f2] [|[] s1]] eqn:Eb.
    - destruct keep; [discriminate|]. destruct (sch SRemove); [inversion H; reflexivity|].
      destruct (p_rm X S P f2); [discriminate|inversion H; reflexivity].
    - destruct (sch SRestore); [inversion H; reflexivity|].
      destruct (p_back X S P f2); inversion H; subst; [|reflexivity].
      exact (body_tr_own_steps _ _ _ _ _ _ _ _ _ Eb).
    - inversion H; subst. exact (body_tr_own_steps _ _ _ _ _ _ _ _ _ Eb).
  Qed.
End OwnSteps.

Theorem save_g_own_steps : forall (X : Type) sh (ev : env X) keep new A (sch : schedule X) (f f' : fs X) k s,
    save_g sh ev keep new A sch f = (f', Raised k s) -> save_step s = true.
Proof.
  intros X sh ev keep new A sch f f' k s H. unfold save_g, save_tr in H.
  destruct (save_trP X (fs X) (fs_prims A) sh ev keep new sch f) as [[es g] o] eqn:E.
  inversion H; subst. exact (save_trP_own_steps _ _ _ _ _ _ _ _ _ _ _ _ _ E).
Qed.

(** Proofs about the model of the CLI save path (Cli/FsModel.v).
    Everything is stated for an arbitrary content type, arbitrary contents,
    arbitrary initial file systems, every placement of the serialisation step
    and - unless a theorem names a particular schedule - EVERY fault schedule
    (any number of faults, of either kind, with arbitrary on-disk debris). *)
From Coq Require Import List Bool NArith String Lia.
Import ListNotations.
From DD Require Import Base.Sx Base.PyStr Cli.FsModel.

Lemma bak_neq : forall p : path, bak p <> p.
Proof.
  (* no arithmetic tactic: the proof term stays tiny (Print Assumptions walks it for every theorem) *)
  intros p. unfold bak. induction p as [|c p IH]; cbn [app]; intro H.
  - discriminate.
  - injection H as H. exact (IH H).
Qed.

Lemma step_eqb_eq : forall a b, step_eqb a b = true <-> a = b.
Proof. intros a b; split; [destruct a, b; cbn; congruence | intros ->; destruct b; reflexivity]. Qed.

Section Proofs.
  Variable X : Type.
  Notation content := (content X).
  Notation fs := (fs X).
  Notation schedule := (schedule X).
  Notation fault := (fault X).

  (** the steps whose failure the property talks about ("up to and including close") *)
  Definition write_step (s : step) : bool :=
    match s with SBackup | SOpen | SDumps | SWrite | SClose => true | _ => false end.
  (** the steps executed inside the try block, after the file was renamed away *)
  Definition body_step (s : step) : bool :=
    match s with SOpen | SDumps | SWrite | SClose => true | _ => false end.

  (** the part of the file system that is neither A nor A.bak *)
  Definition frame (A : path) (f f' : fs) : Prop :=
    forall q, q <> A -> q <> bak A -> f' q = f q.

  (** ** Footprint semantics
      [save] only ever reads and writes the two paths A and A.bak.  [save2] is
      the same program on that footprint (a pair of cells); [save_sim] proves
      that [save] on any file system acts on (A, A.bak) exactly as [save2] and
      leaves every other path alone.  The theorems are then proved on [save2]
      by symbolic evaluation and transferred. *)
  Definition cell := option content.

  Definition body2 (pos : dumps_pos) (new : option content) (sch : schedule) (a : cell)
    : cell * outcome :=
    match dumps_at (match pos with DBeforeOpen => true | _ => false end) sch new with
    | Some k => (a, Raised k SDumps)
    | None =>
    match sch SOpen with
    | Some ft => (fdisk ft, Raised (fkind ft) SOpen)
    | None =>
        let '(a2, body) :=
          match dumps_at (match pos with DInside => true | _ => false end) sch new with
          | Some k => (Some [], Raised k SDumps)
          | None =>
              match new with
              | None => (Some [], Raised KExc SDumps)
              | Some c =>
                  match sch SWrite with
                  | Some ft => (fdisk ft, Raised (fkind ft) SWrite)
                  | None => (Some ([] ++ c), Done)
                  end
              end
          end in
        match sch SClose with
        | Some ft => (fdisk ft, Raised (fkind ft) SClose)
        | None => (a2, body)
        end
    end
    end.

  Definition save2 (pos : dumps_pos) (keep : bool) (new : option content) (sch : schedule)
             (v : cell * cell) : (cell * cell) * outcome :=
    match dumps_at (match pos with DFirst => true | _ => false end) sch new with
    | Some k => (v, Raised k SDumps)
    | None =>
    match sch SBackup with
    | Some ft => (v, Raised (fkind ft) SBackup)
    | None =>
    match fst v with
    | None => (v, Raised KExc SBackup)
    | Some c0 =>
        let '(a2, r) := body2 pos new sch None in
        match r with
        | Raised KExc s =>
            match sch SRestore with
            | Some ft => ((a2, Some c0), Raised (fkind ft) SRestore)
            | None => ((Some c0, None), Raised KExc s)
            end
        | Raised KBase s => ((a2, Some c0), Raised KBase s)
        | Done =>
            if keep then ((a2, Some c0), Done)
            else match sch SRemove with
                 | Some ft => ((a2, Some c0), Raised (fkind ft) SRemove)
                 | None => ((a2, None), Done)
                 end
        end
    end
    end
    end.

  (* g is f with the footprint set to v *)
  Definition agrees (A : path) (f g : fs) (v : cell * cell) : Prop :=
    g A = fst v /\ g (bak A) = snd v /\ frame A f g.

  Lemma agrees_refl : forall A f, agrees A f f (f A, f (bak A)).
  Proof. intros; repeat split; auto. Qed.

  Lemma upd_same : forall p v (f : fs), upd p v f p = v.
  Proof. intros; unfold upd. destruct (path_eq_dec p p); congruence. Qed.
  Lemma upd_other : forall p q v (f : fs), q <> p -> upd p v f q = f q.
  Proof. intros; unfold upd. destruct (path_eq_dec q p); congruence. Qed.

  Lemma agrees_upd : forall A f g a b v, agrees A f g (a, b) -> agrees A f (upd A v g) (v, b).
  Proof.
    intros A f g a b v [Ha [Hb Hf]]. pose proof (bak_neq A). cbn in *.
    repeat split; cbn.
    - apply upd_same.
    - rewrite upd_other; auto.
    - intros q H1 H2. rewrite upd_other; auto.
  Qed.

  Lemma agrees_rename_fwd : forall A f g c b,
      agrees A f g (Some c, b) ->
      exists g', rename A (bak A) g = Some g' /\ agrees A f g' (None, Some c).
  Proof.
    intros A f g c b [Ha [Hb Hf]]. pose proof (bak_neq A) as Hn. cbn in *.
    unfold rename. rewrite Ha. destruct (path_eq_dec A (bak A)); [congruence|].
    eexists; split; [reflexivity|]. repeat split; cbn.
    - apply upd_same.
    - rewrite upd_other, upd_same; auto.
    - intros q H1 H2. rewrite !upd_other; auto.
  Qed.
  Lemma agrees_rename_fwd_none : forall A f g b,
      agrees A f g (None, b) -> rename A (bak A) g = None.
  Proof. intros A f g b [Ha _]. cbn in Ha. unfold rename. rewrite Ha. reflexivity. Qed.

  Lemma agrees_rename_back : forall A f g a c,
      agrees A f g (a, Some c) ->
      exists g', rename (bak A) A g = Some g' /\ agrees A f g' (Some c, None).
  Proof.
    intros A f g a c [Ha [Hb Hf]]. pose proof (bak_neq A) as Hn. cbn in *.
    unfold rename. rewrite Hb. destruct (path_eq_dec (bak A) A); [congruence|].
    eexists; split; [reflexivity|]. repeat split; cbn.
    - rewrite upd_other, upd_same; auto.
    - apply upd_same.
    - intros q H1 H2. rewrite !upd_other; auto.
  Qed.

  Lemma agrees_remove : forall A f g a c,
      agrees A f g (a, Some c) ->
      exists g', remove (bak A) g = Some g' /\ agrees A f g' (a, None).
  Proof.
    intros A f g a c [Ha [Hb Hf]]. pose proof (bak_neq A) as Hn. cbn in *.
    unfold remove. rewrite Hb.
    eexists; split; [reflexivity|]. repeat split; cbn.
    - rewrite upd_other; auto.
    - apply upd_same.
    - intros q H1 H2. rewrite !upd_other; auto.
  Qed.

  (* split lazily on the schedule entries the evaluation actually consults *)
  Ltac split_goal sch :=
    repeat match goal with
           | |- context [sch ?s] => destruct (sch s) as [[[|] ?]|]; cbn [fkind fdisk]
           end.
  Ltac split_hyp sch H :=
    repeat match type of H with
           | context [sch ?s] => destruct (sch s) as [[[|] ?]|]; cbn [fkind fdisk] in H
           end.

  Lemma save_content_sim :
    forall pos new A (sch : schedule) f g a b,
      agrees A f g (a, b) ->
      snd (save_content pos new A sch g) = snd (body2 pos new sch a) /\
      agrees A f (fst (save_content pos new A sch g)) (fst (body2 pos new sch a), b).
  Proof.
    intros pos new A sch f g a b Hag.
    unfold save_content, body2, dumps_at, dumps_res.
    destruct pos, new as [c|]; split_goal sch; cbn [fst snd];
      (split; [reflexivity|]); eauto using agrees_upd.
  Qed.

  Theorem save_sim :
    forall pos keep new A (sch : schedule) (f : fs),
      snd (save pos keep new A sch f) = snd (save2 pos keep new sch (f A, f (bak A))) /\
      agrees A f (fst (save pos keep new A sch f)) (fst (save2 pos keep new sch (f A, f (bak A)))).
  Proof.
    intros pos keep new A sch f.
    pose proof (agrees_refl A f) as H0.
    unfold save, save2.
    destruct (dumps_at match pos with DFirst => true | _ => false end sch new) as [k|];
      [cbn; split; [reflexivity | exact H0]|].
    destruct (sch SBackup) as [ft|]; [cbn; split; [reflexivity | exact H0]|].
    cbn [fst].
    destruct (f A) as [c0|] eqn:HA.
    2:{ rewrite (agrees_rename_fwd_none A f f _ H0). cbn. split; [reflexivity | exact H0]. }
    destruct (agrees_rename_fwd A f f c0 _ H0) as [g1 [Hr H1]]. rewrite Hr.
    destruct (save_content_sim pos new A sch f g1 None (Some c0) H1) as [Ho H2].
    destruct (save_content pos new A sch g1) as [g2 r]. destruct (body2 pos new sch None) as [a2 r2].
    cbn [fst snd] in Ho, H2. subst r2.
    destruct r as [|[|] s].
    - destruct keep; [cbn; split; [reflexivity | exact H2]|].
      destruct (sch SRemove) as [ft|]; [cbn; split; [reflexivity | exact H2]|].
      destruct (agrees_remove A f g2 a2 c0 H2) as [g3 [Hrm H3]]. rewrite Hrm.
      cbn; split; [reflexivity | exact H3].
    - destruct (sch SRestore) as [ft|]; [cbn; split; [reflexivity | exact H2]|].
      destruct (agrees_rename_back A f g2 a2 c0 H2) as [g3 [Hrb H3]]. rewrite Hrb.
      cbn; split; [reflexivity | exact H3].
    - cbn; split; [reflexivity | exact H2].
  Qed.

  (* transfer: what [save] returns, read on the footprint *)
  Lemma save_view :
    forall pos keep new A (sch : schedule) (f f' : fs) o,
      save pos keep new A sch f = (f', o) ->
      save2 pos keep new sch (f A, f (bak A)) = ((f' A, f' (bak A)), o) /\ frame A f f'.
  Proof.
    intros pos keep new A sch f f' o H.
    destruct (save_sim pos keep new A sch f) as [Ho [Ha [Hb Hf]]].
    rewrite H in *. cbn [fst snd] in *.
    destruct (save2 pos keep new sch (f A, f (bak A))) as [[a b] o2]. cbn [fst snd] in *.
    subst. split; auto.
  Qed.

  (** ** Results that hold for every fault schedule, on the footprint *)

  Lemma save2_done_correct :
    forall pos keep new (sch : schedule) old b a' b',
      save2 pos keep new sch (Some old, b) = ((a', b'), Done) ->
      exists c, new = Some c /\ a' = Some c /\ b' = (if keep then Some old else None).
  Proof.
    intros pos keep new sch old b a' b' H.
    unfold save2, body2, dumps_at, dumps_res in H; cbn [fst snd] in H.
    destruct pos, new as [c|], keep; split_hyp sch H; cbn in H;
      try discriminate; inversion H; subst; eauto.
  Qed.

  Lemma save2_raised_keeps_old :
    forall pos keep new (sch : schedule) old b a' b' k s,
      save2 pos keep new sch (Some old, b) = ((a', b'), Raised k s) ->
      a' = Some old \/ b' = Some old.
  Proof.
    intros pos keep new sch old b a' b' k s H.
    unfold save2, body2, dumps_at, dumps_res in H; cbn [fst snd] in H.
    destruct pos, new as [c|], keep; split_hyp sch H; cbn in H;
      try discriminate; inversion H; subst; auto.
  Qed.

  Lemma save2_exception_restores :
    forall pos keep new (sch : schedule) old b a' b' s,
      save2 pos keep new sch (Some old, b) = ((a', b'), Raised KExc s) ->
      s <> SRestore -> s <> SRemove ->
      a' = Some old /\
      (body_step s = true -> (pos = DFirst -> s <> SDumps) -> b' = None) /\
      (b = None -> b' = None).
  Proof.
    intros pos keep new sch old b a' b' s H H1 H2.
    unfold save2, body2, dumps_at, dumps_res in H; cbn [fst snd] in H.
    destruct pos, new as [c|], keep; split_hyp sch H; cbn in H;
      try discriminate; inversion H; subst; try congruence;
      (repeat split; auto; intros; try discriminate; try congruence;
       try (exfalso; match goal with Hx : _ = _ -> _ <> _ |- _ => apply Hx; reflexivity end)).
  Qed.

  Lemma save2_interrupt_keeps_backup :
    forall pos keep new (sch : schedule) old b a' b' s,
      save2 pos keep new sch (Some old, b) = ((a', b'), Raised KBase s) ->
      body_step s = true -> (pos = DFirst -> s <> SDumps) ->
      b' = Some old.
  Proof.
    intros pos keep new sch old b a' b' s H H1 H2.
    unfold save2, body2, dumps_at, dumps_res in H; cbn [fst snd] in H.
    destruct pos, new as [c|], keep; split_hyp sch H; cbn in H;
      try discriminate; inversion H; subst; try discriminate; try congruence; auto;
      exfalso; apply H2; reflexivity.
  Qed.

  (** ** The same, for [save] on an arbitrary file system *)

  (** Whenever [save] returns normally - under any schedule whatsoever - the
      target holds the new content, the backup holds the old content iff
      keep_backup, and nothing else changed. *)
  Theorem save_done_correct :
    forall pos keep new A (sch : schedule) (f f' : fs) old,
      f A = Some old ->
      save pos keep new A sch f = (f', Done) ->
      exists c, new = Some c /\ f' A = Some c /\
                f' (bak A) = (if keep then Some old else None) /\ frame A f f'.
  Proof.
    intros pos keep new A sch f f' old HA H.
    destruct (save_view _ _ _ _ _ _ _ _ H) as [H2 Hf]. rewrite HA in H2.
    destruct (save2_done_correct _ _ _ _ _ _ _ _ H2) as [c [? [? ?]]].
    exists c; auto.
  Qed.

  (** Whenever [save] raises - any schedule, any kind of exception, any step -
      the old content is not lost: it is in A or in A.bak; and nothing else
      changed. *)
  Theorem save_raised_keeps_old :
    forall pos keep new A (sch : schedule) (f f' : fs) old k s,
      f A = Some old ->
      save pos keep new A sch f = (f', Raised k s) ->
      (f' A = Some old \/ f' (bak A) = Some old) /\ frame A f f'.
  Proof.
    intros pos keep new A sch f f' old k s HA H.
    destruct (save_view _ _ _ _ _ _ _ _ H) as [H2 Hf]. rewrite HA in H2.
    split; [exact (save2_raised_keeps_old _ _ _ _ _ _ _ _ _ _ H2) | exact Hf].
  Qed.

  (** Whenever an [Exception] propagates out of [save] from any step other than
      the restoring rename and the final remove - whatever else failed on the
      way (e.g. write and then close) - A has its old content again and the
      backup file this call created is gone.  If the failing step is the first
      rename (or a serialisation placed before it) the file system is
      untouched. *)
  Theorem save_exception_restores :
    forall pos keep new A (sch : schedule) (f f' : fs) old s,
      f A = Some old ->
      save pos keep new A sch f = (f', Raised KExc s) ->
      s <> SRestore -> s <> SRemove ->
      f' A = Some old /\
      (body_step s = true -> (pos = DFirst -> s <> SDumps) -> f' (bak A) = None) /\
      (f (bak A) = None -> f' (bak A) = None) /\
      frame A f f'.
  Proof.
    intros pos keep new A sch f f' old s HA H Hs1 Hs2.
    destruct (save_view _ _ _ _ _ _ _ _ H) as [H2 Hf]. rewrite HA in H2.
    destruct (save2_exception_restores _ _ _ _ _ _ _ _ _ H2 Hs1 Hs2) as [? [? ?]].
    auto.
  Qed.

  (** a BaseException that is not an Exception (KeyboardInterrupt) raised inside
      the try block is not caught: the backup stays, holding the old content *)
  Theorem save_interrupt_keeps_backup :
    forall pos keep new A (sch : schedule) (f f' : fs) old s,
      f A = Some old ->
      save pos keep new A sch f = (f', Raised KBase s) ->
      body_step s = true -> (pos = DFirst -> s <> SDumps) ->
      f' (bak A) = Some old.
  Proof.
    intros pos keep new A sch f f' old s HA H Hb1 Hb2.
    destruct (save_view _ _ _ _ _ _ _ _ H) as [H2 Hf]. rewrite HA in H2.
    exact (save2_interrupt_keeps_backup _ _ _ _ _ _ _ _ _ H2 Hb1 Hb2).
  Qed.

  (** [save] only raises from its own steps *)
  Definition save_step (s : step) : bool :=
    match s with SLoadDelta | SLoadDoc | SApply => false | _ => true end.
  Lemma save2_raises_own_steps :
    forall pos keep new (sch : schedule) v v' k s,
      save2 pos keep new sch v = (v', Raised k s) -> save_step s = true.
  Proof.
    intros pos keep new sch [a b] v' k s H.
    unfold save2, body2, dumps_at, dumps_res in H; cbn [fst snd] in H.
    destruct pos, new as [c|], keep, a; split_hyp sch H; cbn in H;
      try discriminate; inversion H; subst; reflexivity.
  Qed.
  Lemma save_raises_own_steps :
    forall pos keep new A (sch : schedule) (f f' : fs) k s,
      save pos keep new A sch f = (f', Raised k s) -> save_step s = true.
  Proof.
    intros pos keep new A sch f f' k s H.
    destruct (save_view _ _ _ _ _ _ _ _ H) as [H2 _].
    exact (save2_raises_own_steps _ _ _ _ _ _ _ _ H2).
  Qed.

  (** ** Particular schedules *)

  (* [save] on a concrete schedule: compute on the footprint, transfer *)
  Lemma save_by_view :
    forall pos keep new A (sch : schedule) (f : fs) a' b' o,
      save2 pos keep new sch (f A, f (bak A)) = ((a', b'), o) ->
      exists f', save pos keep new A sch f = (f', o) /\ f' A = a' /\ f' (bak A) = b' /\ frame A f f'.
  Proof.
    intros pos keep new A sch f a' b' o H2.
    destruct (save_sim pos keep new A sch f) as [Ho [Ha [Hb Hf]]].
    rewrite H2 in *. cbn [fst snd] in *.
    destruct (save pos keep new A sch f) as [f' o']. cbn [fst snd] in *. subst o'.
    exists f'; auto.
  Qed.

  Theorem save_success :
    forall pos keep c A (f : fs) old,
      f A = Some old ->
      exists f', save pos keep (Some c) A no_fault f = (f', Done) /\
                 f' A = Some c /\
                 f' (bak A) = (if keep then Some old else None) /\
                 frame A f f'.
  Proof.
    intros pos keep c A f old HA.
    apply save_by_view. rewrite HA.
    destruct pos, keep; reflexivity.
  Qed.

  Lemma single_same : forall k (ft : fault), single k ft k = Some ft.
  Proof. intros; unfold single. destruct k; reflexivity. Qed.
  Lemma single_other : forall k s (ft : fault), s <> k -> single k ft s = None.
  Proof.
    intros k s ft H; unfold single. destruct (step_eqb s k) eqn:E; auto.
    apply step_eqb_eq in E; congruence.
  Qed.

  (** exactly one fault, an Exception, at any step up to and including close:
      that exception propagates, A = old, no A.bak (if there was none before),
      nothing else touched *)
  Theorem save_single_fault_restores :
    forall pos keep c A (f : fs) old k (ft : fault),
      f A = Some old ->
      write_step k = true -> fkind ft = KExc ->
      exists f', save pos keep (Some c) A (single k ft) f = (f', Raised KExc k) /\
                 f' A = Some old /\
                 (k <> SBackup -> (pos = DFirst -> k <> SDumps) -> f' (bak A) = None) /\
                 (f (bak A) = None -> f' (bak A) = None) /\
                 frame A f f'.
  Proof.
    intros pos keep c A f old k [kk d] HA Hk Hkind. cbn in Hkind; subst kk.
    assert (H2 : exists b', save2 pos keep (Some c) (single k (mkFault KExc d)) (f A, f (bak A))
                            = ((Some old, b'), Raised KExc k) /\
                            (k <> SBackup -> (pos = DFirst -> k <> SDumps) -> b' = None) /\
                            (f (bak A) = None -> b' = None)).
    { rewrite HA. destruct k; try discriminate; destruct pos, keep; cbn;
        eexists; (split; [reflexivity|]); split; intros; auto; try congruence;
        exfalso; match goal with Hx : _ = _ -> _ <> _ |- _ => apply Hx; reflexivity end. }
    destruct H2 as [b' [H2 [Hb1 Hb2]]].
    destruct (save_by_view _ _ _ _ _ _ _ _ _ H2) as [f' [Hs [Ha [Hb Hf]]]].
    exists f'. subst b'. auto.
  Qed.

  (** the serialiser itself rejects the document (new = None), nothing else
      fails: same outcome as an injected failure of the serialisation step *)
  Theorem save_unserialisable_restores :
    forall pos keep A (f : fs) old,
      f A = Some old ->
      exists f', save pos keep None A no_fault f = (f', Raised KExc SDumps) /\
                 f' A = Some old /\ (f (bak A) = None -> f' (bak A) = None) /\ frame A f f'.
  Proof.
    intros pos keep A f old HA.
    assert (H2 : exists b', save2 pos keep None no_fault (f A, f (bak A)) = ((Some old, b'), Raised KExc SDumps) /\
                            (f (bak A) = None -> b' = None)).
    { rewrite HA. destruct pos, keep; cbn; eexists; split; try reflexivity; auto. }
    destruct H2 as [b' [H2 Hb2]].
    destruct (save_by_view _ _ _ _ _ _ _ _ _ H2) as [f' [Hs [Ha [Hb Hf]]]].
    exists f'. subst b'. auto.
  Qed.

  (** the target does not exist: FileNotFoundError from the first rename, nothing changes *)
  Theorem save_missing_target :
    forall pos keep c A (f : fs),
      f A = None -> save pos keep (Some c) A no_fault f = (f, Raised KExc SBackup).
  Proof.
    intros pos keep c A f HA.
    unfold save, dumps_at, dumps_res, rename, no_fault. rewrite HA. destruct pos; reflexivity.
  Qed.

  (** ** What happens outside the statement (stated, not hidden) *)

  (** one fault of kind KeyboardInterrupt inside the try block: NOT restored -
      A holds whatever the interrupted step left, the backup stays (with the
      old content).  So "any failure restores A" is false for BaseExceptions. *)
  Theorem save_interrupt_not_restored :
    forall pos keep c A (f : fs) old k d,
      f A = Some old -> body_step k = true -> (pos = DFirst -> k <> SDumps) ->
      exists f', save pos keep (Some c) A (single k (mkFault KBase d)) f = (f', Raised KBase k) /\
                 f' (bak A) = Some old /\
                 f' A = (match k with SDumps => match pos with DInside => Some [] | _ => None end | _ => d end).
  Proof.
    intros pos keep c A f old k d HA Hk Hp.
    assert (H2 : save2 pos keep (Some c) (single k (mkFault KBase d)) (f A, f (bak A))
                 = ((match k with SDumps => match pos with DInside => Some [] | _ => None end | _ => d end,
                     Some old), Raised KBase k)).
    { rewrite HA. destruct k; try discriminate; destruct pos, keep; cbn; try reflexivity;
        exfalso; apply Hp; reflexivity. }
    destruct (save_by_view _ _ _ _ _ _ _ _ _ H2) as [f' [Hs [Ha [Hb Hf]]]].
    exists f'; auto.
  Qed.

  (** the final os.remove fails (no --backup): the new content is in place, the
      backup stays, and the call raises although the data was written *)
  Theorem save_remove_fault :
    forall pos c A (f : fs) old (ft : fault),
      f A = Some old ->
      exists f', save pos false (Some c) A (single SRemove ft) f = (f', Raised (fkind ft) SRemove) /\
                 f' A = Some c /\ f' (bak A) = Some old.
  Proof.
    intros pos c A f old ft HA.
    assert (H2 : save2 pos false (Some c) (single SRemove ft) (f A, f (bak A))
                 = ((Some c, Some old), Raised (fkind ft) SRemove)).
    { rewrite HA. destruct pos; reflexivity. }
    destruct (save_by_view _ _ _ _ _ _ _ _ _ H2) as [f' [Hs [Ha [Hb Hf]]]].
    exists f'; auto.
  Qed.

  (** double fault: a body step fails and then the restoring rename fails too:
      A holds the debris, the old content survives in A.bak *)
  Theorem save_restore_fault :
    forall pos keep c A (f : fs) old k d (ft2 : fault),
      f A = Some old -> body_step k = true -> k <> SDumps ->
      exists f', save pos keep (Some c) A (sched_of [(k, mkFault KExc d); (SRestore, ft2)]) f
                 = (f', Raised (fkind ft2) SRestore) /\
                 f' A = d /\ f' (bak A) = Some old.
  Proof.
    intros pos keep c A f old k d ft2 HA Hk Hd.
    assert (H2 : save2 pos keep (Some c) (sched_of [(k, mkFault KExc d); (SRestore, ft2)]) (f A, f (bak A))
                 = ((d, Some old), Raised (fkind ft2) SRestore)).
    { rewrite HA. destruct k; try discriminate; try congruence; destruct pos, keep; reflexivity. }
    destruct (save_by_view _ _ _ _ _ _ _ _ _ H2) as [f' [Hs [Ha [Hb Hf]]]].
    exists f'; auto.
  Qed.

  (** an A.bak that existed before the call is silently replaced, and deleted
      at the end unless --backup *)
  Theorem save_preexisting_backup_lost :
    forall pos c A (f : fs) old x,
      f A = Some old -> f (bak A) = Some x ->
      exists f', save pos false (Some c) A no_fault f = (f', Done) /\ f' (bak A) = None.
  Proof.
    intros pos c A f old x HA HB.
    assert (H2 : save2 pos false (Some c) no_fault (f A, f (bak A)) = ((Some c, None), Done)).
    { rewrite HA. destruct pos; reflexivity. }
    destruct (save_by_view _ _ _ _ _ _ _ _ _ H2) as [f' [Hs [Ha [Hb Hf]]]].
    exists f'; auto.
  Qed.

  (** ** The command line level *)
  Section CliProofs.
    Variables doc delta : Type.
    Variable parse : content -> option doc.
    Variable dump : doc -> option content.
    Variable pickle : delta -> content.
    Variable unpickle : content -> option delta.
    Variable mk_delta : doc -> doc -> delta.
    Variable apply_delta : delta -> doc -> doc.

    (* property C01: the delta of (a, b) applied to a gives b *)
    Hypothesis C01_delta_reproduces : forall a b, apply_delta (mk_delta a b) a = b.
    (* property C14: a persisted delta is the same delta *)
    Hypothesis C14_pickle_roundtrip : forall d, unpickle (pickle d) = Some d.
    (* JSON text layer: what json_dumps writes, json_loads reads back *)
    Hypothesis json_roundtrip : forall d c, dump d = Some c -> parse c = Some d.

    Notation load := (load (X:=X) parse).
    Notation diff_cmd := (diff_cmd (X:=X) parse pickle mk_delta).
    Notation patch_cmd := (patch_cmd (X:=X) parse dump unpickle apply_delta).

    (** the patch command never touches the file system before the save path *)
    Lemma patch_cmd_presave :
      forall pos keep A P (sch : schedule) (f f' : fs) k s,
        patch_cmd pos keep A P sch f = (f', Raised k s) ->
        (s = SLoadDelta \/ s = SLoadDoc \/ s = SApply) -> f' = f.
    Proof.
      intros pos keep A P sch f f' k s H Hs.
      unfold patch_cmd in H.
      destruct (sch SLoadDelta); [inversion H; auto|].
      destruct (match f P with Some c => unpickle c | None => None end); [|inversion H; auto].
      destruct (sch SLoadDoc); [inversion H; auto|].
      destruct (load f A) as [a|]; [|inversion H; auto].
      destruct (sch SApply); [inversion H; auto|].
      apply save_raises_own_steps in H.
      destruct Hs as [Hs|[Hs|Hs]]; subst s; discriminate.
    Qed.

    (** deep diff A B --create-patch > P ; deep patch A P [--backup]
        with no failure: A now loads as the document B loads as, the backup is
        kept iff --backup and holds A's previous bytes, B and every other file
        are untouched. *)
    Theorem patch_reproduces :
      forall pos keep A B P (f : fs) ca a b pd cb',
        f A = Some ca -> parse ca = Some a -> load f B = Some b ->
        P <> A -> P <> bak A ->
        diff_cmd A B f = Some pd ->
        dump b = Some cb' ->
        exists f', patch_cmd pos keep A P no_fault (upd P (Some pd) f) = (f', Done) /\
                   load f' A = Some b /\
                   f' A = Some cb' /\
                   f' (bak A) = (if keep then Some ca else None) /\
                   (forall q, q <> A -> q <> bak A -> q <> P -> f' q = f q).
    Proof.
      intros pos keep A B P f ca a b pd cb' HA Hpa HB HPA HPb Hdiff Hdump.
      unfold FsModel.diff_cmd, FsModel.load in Hdiff. rewrite HA, Hpa in Hdiff.
      unfold FsModel.load in HB. rewrite HB in Hdiff. inversion Hdiff; subst pd; clear Hdiff.
      set (f1 := upd P (Some (pickle (mk_delta a b))) f).
      assert (H1A : f1 A = Some ca).
      { unfold f1, upd. destruct (path_eq_dec A P); [congruence | exact HA]. }
      unfold FsModel.patch_cmd, no_fault, FsModel.load.
      assert (H1P : f1 P = Some (pickle (mk_delta a b))).
      { unfold f1, upd. destruct (path_eq_dec P P); congruence. }
      rewrite H1P, C14_pickle_roundtrip, H1A, Hpa, C01_delta_reproduces, Hdump.
      destruct (save_success pos keep cb' A f1 ca H1A) as [f' [Hs [HfA [Hfb Hfr]]]].
      unfold no_fault in Hs.
      exists f'. split; [exact Hs|]. repeat split; auto.
      - unfold FsModel.load. rewrite HfA. apply json_roundtrip; exact Hdump.
      - intros q HqA Hqb HqP. rewrite (Hfr q HqA Hqb). unfold f1, upd.
        destruct (path_eq_dec q P); congruence.
    Qed.

    (** any single Exception anywhere in `deep patch` - loading the patch,
        loading the document, applying the delta, or any step of the save path
        up to and including close: A keeps its bytes, no A.bak appears, the
        failure is reported (non-zero exit status or a propagating exception). *)
    Theorem patch_single_fault_restores :
      forall pos keep debug A P (f : fs) ca a dl cnew k (ft : fault),
        f A = Some ca -> parse ca = Some a ->
        (match f P with Some c => unpickle c | None => None end) = Some dl ->
        dump (apply_delta dl a) = Some cnew ->
        f (bak A) = None ->
        (write_step k = true \/ k = SLoadDelta \/ k = SLoadDoc \/ k = SApply) ->
        fkind ft = KExc ->
        exists f', patch_cmd pos keep A P (single k ft) f = (f', Raised KExc k) /\
                   f' A = Some ca /\ f' (bak A) = None /\
                   (forall q, q <> A -> q <> bak A -> f' q = f q) /\
                   cli_report debug (Raised KExc k) <> CExit 0.
    Proof.
      intros pos keep debug A P f ca a dl cnew k [kk d] HA Hpa HP Hdump Hbak Hk Hkind.
      cbn in Hkind; subst kk.
      assert (Hrep : cli_report debug (Raised KExc k) <> CExit 0).
      { destruct k, debug; cbn; discriminate. }
      unfold FsModel.patch_cmd, FsModel.load.
      destruct Hk as [Hk|[Hk|[Hk|Hk]]].
      - rewrite !single_other by (intro; subst k; discriminate).
        rewrite HP, HA, Hpa, Hdump.
        destruct (save_single_fault_restores pos keep cnew A f ca k (mkFault KExc d) HA Hk eq_refl)
          as [f' [Hs [HfA [_ [Hfb Hfr]]]]].
        exists f'. repeat split; auto.
      - subst k. rewrite single_same. cbn. exists f. repeat split; auto.
      - subst k. rewrite single_other by discriminate. rewrite HP, single_same. cbn.
        exists f. repeat split; auto.
      - subst k. rewrite single_other by discriminate. rewrite HP.
        rewrite single_other by discriminate. rewrite HA, Hpa, single_same. cbn.
        exists f. repeat split; auto.
    Qed.

    (** the process reports success exactly when the save returned normally *)
    Lemma cli_report_zero : forall debug o, cli_report debug o = CExit 0 <-> o = Done.
    Proof.
      intros debug o; split.
      - destruct o as [|[|] s]; cbn; auto; destruct s, debug; discriminate.
      - intros ->; reflexivity.
    Qed.
  End CliProofs.
End Proofs.

(** the guards of the theorems above are satisfiable by non-trivial values *)
Example ex_single_fault :
  let A := s2p "a.json" in
  let f : fs N := upd A (Some [1%N]) (fun _ => None) in
  let '(f', o) := save DInside false (Some [2%N]) A (single SWrite (mkFault KExc (Some [9%N]))) f in
  (f' A, f' (bak A), o) = (Some [1%N], None, Raised KExc SWrite).
Proof. vm_compute. reflexivity. Qed.

Example ex_interrupt :
  let A := s2p "a.json" in
  let f : fs N := upd A (Some [1%N]) (fun _ => None) in
  let '(f', o) := save DInside false (Some [2%N]) A (single SWrite (mkFault KBase (Some [9%N]))) f in
  (f' A, f' (bak A), o) = (Some [9%N], Some [1%N], Raised KBase SWrite).
Proof. vm_compute. reflexivity. Qed.

(** "whatever exception is raised at a step up to and including close, A is
    restored" is false of the model (and of the code): a KeyboardInterrupt
    during the write leaves a truncated A and the backup file behind. *)
Theorem single_fault_any_kind_refuted :
  exists (A : path) (f : fs N) (old c : list N) (k : step) (ft : fault N),
    f A = Some old /\ write_step k = true /\
    fst (save DInside false (Some c) A (single k ft) f) A <> Some old /\
    fst (save DInside false (Some c) A (single k ft) f) (bak A) <> None.
Proof.
  exists (s2p "a.json"), (upd (s2p "a.json") (Some [1%N]) (fun _ => None)), [1%N], [2%N],
         SWrite, (mkFault KBase (Some [])).
  repeat split; vm_compute; discriminate.
Qed.

(** C08: symmetry of the ordered diff in positional mode
    (zip_ordered_iterables=True).  For two values whose dicts list their common
    keys in the same relative order ([korder]), without ==-aliased atoms and
    without hidden private keys, the result tree of DeepDiff(t2, t1) is - kind
    by kind and up to the diff text - the mirrored result tree of
    DeepDiff(t1, t2) ([keq], DeltaReverseKinds.v).  Also: in positional mode no
    opcodes are recorded and no item is reported as moved. *)
From Coq Require Import List ZArith NArith Bool Arith Lia Permutation.
Import ListNotations.
From DD Require Import Base.PyStr Base.Value Base.ValueFacts Path.PathModel
  Diff.Tree Diff.DiffModel Diff.DiffFacts Diff.DiffFaithful
  Delta.DeltaModel Delta.DeltaGuard Delta.DeltaReverse Delta.DeltaReverseKinds.

Definition nos (_ : path) : bool := false.

(* ------------------------------------------------------------------ *)
(* positional mode: no recorded opcodes, no moved items                *)
(* ------------------------------------------------------------------ *)
Section ZipShape.
Variable hatom : atom -> pystr.
Variable udiff : pystr -> pystr -> pystr.
Variable ops : path -> list value -> list value -> list opcode.
Variable skip excl : path -> bool.
Variable c : cfg.
Hypothesis Hzip : zip c = true.
Notation diff := (diff hatom udiff ops skip excl c).
Notation NM := (Forall (fun e => ekind e <> KIterMoved)).

Lemma NM_report k p1 p2 a b d : k <> KIterMoved -> NM (report skip k p1 p2 a b d).
Proof. intros N. unfold report. destruct (skip p1); constructor; [exact N|constructor]. Qed.

Lemma NM_diff_atom a b p1 p2 : NM (diff_atom udiff skip a b p1 p2).
Proof.
  unfold diff_atom. destruct (skip p1); [constructor|].
  destruct (negb _); [apply NM_report; discriminate|].
  destruct a, b; try (destruct (py_eq _ _); [constructor|apply NM_report; discriminate]).
  - destruct (diff_str udiff false s s0) as [ch d]. destruct ch; [apply NM_report; discriminate|constructor].
  - destruct (diff_str udiff true s s0) as [ch d]. destruct ch; [apply NM_report; discriminate|constructor].
Qed.

Lemma NM_removed_from xs i p1 p2 : NM (removed_from skip xs i p1 p2).
Proof.
  revert i; induction xs as [|x xs IH]; intros i; cbn; [constructor|].
  apply Forall_app; split; [apply NM_report; discriminate|apply IH].
Qed.
Lemma NM_added_from ys j p1 p2 : NM (added_from skip ys j p1 p2).
Proof.
  revert j; induction ys as [|y ys IH]; intros j; cbn; [constructor|].
  apply Forall_app; split; [apply NM_report; discriminate|apply IH].
Qed.

Definition IHZ (t1 : value) : Prop :=
  forall t2 p1 p2, snd (diff t1 t2 p1 p2) = [] /\ NM (fst (diff t1 t2 p1 p2)).

Lemma Z_go_list xs : Forall IHZ xs -> forall ys i p1 p2,
  snd (go_list skip diff p1 p2 xs ys i) = [] /\ NM (fst (go_list skip diff p1 p2 xs ys i)).
Proof.
  induction 1 as [|x xs Hx _ IH]; intros ys i p1 p2.
  - cbn. split; [reflexivity|apply NM_added_from].
  - destruct ys as [|y ys]; [cbn [go_list fst snd]; split; [reflexivity|apply NM_removed_from]|].
    cbn [go_list]. unfold app2. cbn [fst snd].
    destruct (Hx y (snoc p1 (PIdx i)) (snoc p2 (PIdx i))) as [S1 N1]. destruct (IH ys (S i) p1 p2) as [S2 N2].
    rewrite S1, S2. split; [reflexivity|apply Forall_app; split; assumption].
Qed.

Lemma Z_seq_body xs ys p1 p2 : Forall IHZ xs ->
  snd (seq_body hatom udiff ops skip excl c xs ys p1 p2) = [] /\
  NM (fst (seq_body hatom udiff ops skip excl c xs ys p1 p2)).
Proof. intros IH. unfold seq_body. rewrite Hzip. cbn [negb andb]. apply Z_go_list. exact IH. Qed.

Lemma Z_go_common kvs2 k2 p1 p2 l : Forall (fun kv => IHZ (snd kv)) l ->
  snd (go_common c diff kvs2 k2 p1 p2 l) = [] /\ NM (fst (go_common c diff kvs2 k2 p1 p2 l)).
Proof.
  induction 1 as [|[k v1] l Hk _ IH]; cbn; [split; [reflexivity|constructor]|].
  destruct (keep_key c k); [|exact IH].
  destruct (find (py_eq k) k2) as [k'|]; [|exact IH].
  destruct (assoc k' kvs2) as [v2|]; [|exact IH].
  unfold app2. cbn [fst snd]. destruct IH as [S2 N2]. cbn [snd] in Hk.
  destruct (Hk v2 (snoc p1 (PKey k')) (snoc p2 (PKey k'))) as [S1 N1].
  rewrite S1, S2. split; [reflexivity|apply Forall_app; split; assumption].
Qed.

Lemma Z_dict_body kvs1 kvs2 p1 p2 : Forall (fun kv => IHZ (snd kv)) kvs1 ->
  snd (dict_body hatom udiff ops skip excl c kvs1 kvs2 p1 p2) = [] /\
  NM (fst (dict_body hatom udiff ops skip excl c kvs1 kvs2 p1 p2)).
Proof.
  intros IH. unfold dict_body. destruct (dict_shortcut _ _ _ _ _); cbn [fst snd].
  - split; [reflexivity|apply NM_report; discriminate].
  - destruct (Z_go_common kvs2 (keys_of c kvs2) p1 p2 kvs1 IH) as [S1 N1]. split; [exact S1|].
    apply Forall_app; split; [|apply Forall_app; split; [|exact N1]].
    + apply Forall_forall. intros e He. apply in_flat_map in He as (k & _ & He). destruct (mem_atom k _); [destruct He|].
      pose proof (NM_report KDictAdd (snoc p1 (PKey k)) (snoc p2 (PKey k)) None (assoc k kvs2) None) as F.
      eapply Forall_forall in F; [exact F|discriminate|exact He].
    + apply Forall_forall. intros e He. apply in_flat_map in He as (k & _ & He). destruct (mem_atom k _); [destruct He|].
      pose proof (NM_report KDictRem (snoc p1 (PKey k)) (snoc p2 (PKey k)) (assoc k kvs1) None None) as F.
      eapply Forall_forall in F; [exact F|discriminate|exact He].
Qed.

Lemma NM_diff_set xs ys p1 p2 : NM (diff_set hatom skip xs ys p1 p2).
Proof.
  unfold diff_set. apply Forall_app; split; apply Forall_forall; intros e He;
    apply in_flat_map in He as (y & _ & He); (destruct (existsb _ _); [destruct He|]);
    unfold report_set in He; (destruct (skip p1); [destruct He|]); destruct He as [<-|[]]; discriminate.
Qed.

Theorem zip_shape : forall t1, IHZ t1.
Proof.
  induction t1 as [a|xs IH|xs IH|kvs IH|xs|xs] using value_ind'; intros t2 p1 p2;
    (destruct (skip p1) eqn:Hs; [rewrite diff_skip by exact Hs; split; [reflexivity|constructor]|]);
    (match goal with |- context [diff ?t1 t2 _ _] => destruct (ty_eqb (type_of t1) (type_of t2)) eqn:T end;
     [|rewrite diff_type by assumption; cbn [fst snd]; split; [reflexivity|apply NM_report; discriminate]]);
    apply ty_eqb_true in T; destruct t2; try discriminate T; try (destruct a; discriminate T).
  - rewrite diff_atom_eq by exact Hs. cbn in T. rewrite T.
    replace (ty_eqb (atom_ty a0) (atom_ty a0)) with true by (destruct (atom_ty a0); reflexivity).
    cbn [negb fst snd]. split; [reflexivity|apply NM_diff_atom].
  - rewrite diff_list by exact Hs. apply Z_seq_body. exact IH.
  - rewrite diff_tuple by exact Hs. apply Z_seq_body. exact IH.
  - rewrite diff_dict by exact Hs. apply Z_dict_body. exact IH.
  - rewrite diff_vset by exact Hs. cbn [fst snd]. split; [reflexivity|apply NM_diff_set].
  - rewrite diff_vfrozen by exact Hs. cbn [fst snd]. split; [reflexivity|apply NM_diff_set].
Qed.

End ZipShape.

(* ------------------------------------------------------------------ *)
(* the guard of the symmetry                                           *)
(* ------------------------------------------------------------------ *)
Definition has_key {B} (kvs : list (atom * B)) (k : atom) : bool := mem_atom k (map fst kvs).

(* dicts paired by the diff list their common keys in the same order *)
Fixpoint korder (t1 t2 : value) {struct t1} : Prop :=
  match t1, t2 with
  | VList xs, VList ys | VTuple xs, VTuple ys =>
      (fix go (xs ys : list value) {struct xs} : Prop :=
         match xs, ys with
         | x :: xs', y :: ys' => korder x y /\ go xs' ys'
         | _, _ => True
         end) xs ys
  | VDict kvs1, VDict kvs2 =>
      filter (has_key kvs2) (map fst kvs1) = filter (has_key kvs1) (map fst kvs2) /\
      (fix go (l : list (atom * value)) : Prop :=
         match l with
         | [] => True
         | (k, v1) :: r => match assoc k kvs2 with Some v2 => korder v1 v2 | None => True end /\ go r
         end) kvs1
  | _, _ => True
  end.

Section Sym.
Variable hatom : atom -> pystr.
Variable udiff : pystr -> pystr -> pystr.
Variable ops : path -> list value -> list value -> list opcode.
Variable c : cfg.
Hypothesis Hzip : zip c = true.
Notation diff := (diff hatom udiff ops nos nos c).
Notation dF t1 t2 p := (fst (diff t1 t2 p p)).

(* every dict key is visible to the diff *)
Fixpoint allkeep (v : value) : bool :=
  match v with
  | VAtom _ | VSet _ | VFrozen _ => true
  | VList xs | VTuple xs => forallb allkeep xs
  | VDict kvs => forallb (fun kv => keep_key c (fst kv) && allkeep (snd kv)) kvs
  end.

Definition sg (t1 t2 : value) : Prop :=
  wf t1 = true /\ wf t2 = true /\ alias_free (atoms_of t1 ++ atoms_of t2) /\
  allkeep t1 = true /\ allkeep t2 = true /\ korder t1 t2.

(* ---- small facts ---- *)
Lemma pystr_eqb_sym s t : pystr_eqb s t = pystr_eqb t s.
Proof.
  destruct (pystr_eqb s t) eqn:E.
  - apply pystr_eqb_eq in E. subst. symmetry. apply pystr_eqb_refl.
  - destruct (pystr_eqb t s) eqn:E2; [|reflexivity]. apply pystr_eqb_eq in E2. subst.
    rewrite pystr_eqb_refl in E. discriminate.
Qed.

Lemma ty_eqb_sym a b : ty_eqb a b = ty_eqb b a.
Proof. destruct a, b; reflexivity. Qed.

Lemma is_kind_strip k e : is_kind k (strip e) = is_kind k e.
Proof. reflexivity. Qed.

Lemma keq_of_strip a b : map strip a = map strip b -> keq a b.
Proof.
  intros H k. unfold ksub.
  assert (X : forall l, map strip (filter (is_kind k) l) = filter (is_kind k) (map strip l)).
  { induction l as [|e l IH]; [reflexivity|]. cbn [filter map]. rewrite is_kind_strip.
    destruct (is_kind k e); cbn [map]; rewrite IH; reflexivity. }
  rewrite !X, H. reflexivity.
Qed.

Lemma report_nos k p1 p2 a b d : report nos k p1 p2 a b d = [mkEntry k p1 p2 a b d].
Proof. reflexivity. Qed.

Lemma diff_str_ch b s t : fst (diff_str udiff b s t) = negb (pystr_eqb s t).
Proof.
  unfold diff_str. destruct (pystr_eqb s t); [reflexivity|].
  destruct ((if b then is_ascii s && is_ascii t else true) && (has_nl s || has_nl t)); reflexivity.
Qed.

(* ---- atoms ---- *)
Lemma sym_diff_atom a b p :
  keq (diff_atom udiff nos b a p p) (map mirror_entry (diff_atom udiff nos a b p p)).
Proof.
  apply keq_of_strip. unfold diff_atom. cbn [nos]. rewrite (ty_eqb_sym (atom_ty b) (atom_ty a)).
  destruct (negb (ty_eqb (atom_ty a) (atom_ty b))) eqn:T; [reflexivity|].
  destruct a as [|ba|za|ta|sa|sa], b as [|bb|zb|tb|sb|sb]; try discriminate T; cbv beta iota;
    try (match goal with |- context [py_eq ?x ?y] => rewrite (py_eq_sym x y) end;
         match goal with |- context [py_eq ?x ?y] => destruct (py_eq x y) end; reflexivity);
    try (match goal with |- context [py_eq ?x ?y] => destruct (py_eq x y) end; reflexivity).
  - pose proof (diff_str_ch false sa sb) as C1. pose proof (diff_str_ch false sb sa) as C2.
    rewrite (pystr_eqb_sym sb sa) in C2.
    destruct (diff_str udiff false sa sb) as [c1 d1], (diff_str udiff false sb sa) as [c2 d2]. cbn [fst] in C1, C2.
    subst c1 c2. destruct (negb (pystr_eqb sa sb)); reflexivity.
  - pose proof (diff_str_ch true sa sb) as C1. pose proof (diff_str_ch true sb sa) as C2.
    rewrite (pystr_eqb_sym sb sa) in C2.
    destruct (diff_str udiff true sa sb) as [c1 d1], (diff_str udiff true sb sa) as [c2 d2]. cbn [fst] in C1, C2.
    subst c1 c2. destruct (negb (pystr_eqb sa sb)); reflexivity.
Qed.

(* ---- sequences ---- *)
Lemma mirror_added_from ys i p : map mirror_entry (added_from nos ys i p p) = removed_from nos ys i p p.
Proof. revert i; induction ys as [|y ys IH]; intros i; cbn; [reflexivity|]. rewrite IH. reflexivity. Qed.
Lemma mirror_removed_from xs i p : map mirror_entry (removed_from nos xs i p p) = added_from nos xs i p p.
Proof. revert i; induction xs as [|x xs IH]; intros i; cbn; [reflexivity|]. rewrite IH. reflexivity. Qed.

Definition SYM (t1 : value) : Prop :=
  forall t2 p, sg t1 t2 -> keq (dF t2 t1 p) (map mirror_entry (dF t1 t2 p)).

Lemma sg_cons_list x xs y ys (tup : bool) :
  sg (if tup then VTuple (x :: xs) else VList (x :: xs)) (if tup then VTuple (y :: ys) else VList (y :: ys)) ->
  sg x y /\ sg (if tup then VTuple xs else VList xs) (if tup then VTuple ys else VList ys).
Proof.
  intros (W1 & W2 & AF & K1 & K2 & KO).
  assert (E1 : wf x = true /\ forallb wf xs = true) by (destruct tup; cbn in W1; apply andb_true_iff in W1; exact W1).
  assert (E2 : wf y = true /\ forallb wf ys = true) by (destruct tup; cbn in W2; apply andb_true_iff in W2; exact W2).
  assert (E3 : allkeep x = true /\ forallb allkeep xs = true) by (destruct tup; cbn in K1; apply andb_true_iff in K1; exact K1).
  assert (E4 : allkeep y = true /\ forallb allkeep ys = true) by (destruct tup; cbn in K2; apply andb_true_iff in K2; exact K2).
  assert (E5 : korder x y /\ korder (if tup then VTuple xs else VList xs) (if tup then VTuple ys else VList ys))
    by (destruct tup; exact KO).
  assert (A1 : atoms_of (if tup then VTuple (x :: xs) else VList (x :: xs)) = atoms_of x ++ atoms_of (if tup then VTuple xs else VList xs))
    by (destruct tup; reflexivity).
  assert (A2 : atoms_of (if tup then VTuple (y :: ys) else VList (y :: ys)) = atoms_of y ++ atoms_of (if tup then VTuple ys else VList ys))
    by (destruct tup; reflexivity).
  rewrite A1, A2 in AF.
  split; (split; [|split; [|split; [|split; [|split]]]]); try tauto.
  - eapply alias_free_sub; [|exact AF]. intros a Ha. rewrite !in_app_iff in *. tauto.
  - destruct tup; cbn; tauto.
  - destruct tup; cbn; tauto.
  - eapply alias_free_sub; [|exact AF]. intros a Ha. rewrite !in_app_iff in *. tauto.
  - destruct tup; cbn; tauto.
  - destruct tup; cbn; tauto.
Qed.

Lemma sym_go_list (tup : bool) xs : Forall SYM xs -> forall ys i p,
  sg (if tup then VTuple xs else VList xs) (if tup then VTuple ys else VList ys) ->
  keq (fst (go_list nos diff p p ys xs i)) (map mirror_entry (fst (go_list nos diff p p xs ys i))).
Proof.
  induction 1 as [|x xs Hx _ IH]; intros ys i p G.
  - destruct ys as [|y ys]; cbn [go_list fst].
    + apply keq_refl.
    + rewrite mirror_added_from. apply keq_refl.
  - destruct ys as [|y ys].
    + cbn [go_list fst]. rewrite mirror_removed_from. apply keq_refl.
    + cbn [go_list]. unfold app2. cbn [fst]. rewrite map_app.
      destruct (sg_cons_list x xs y ys tup G) as [G1 G2].
      apply keq_app; [apply Hx; exact G1|apply IH; exact G2].
Qed.

Lemma seq_body_zip xs ys p : seq_body hatom udiff ops nos nos c xs ys p p = go_list nos diff p p xs ys 0.
Proof. unfold seq_body. rewrite Hzip. reflexivity. Qed.

(* ---- sets ---- *)
Lemma sym_diff_set xs ys p :
  keq (diff_set hatom nos ys xs p p) (map mirror_entry (diff_set hatom nos xs ys p p)).
Proof.
  unfold diff_set. rewrite map_app, !map_flat_map'.
  set (A := flat_map _ (first_per_hash hatom xs [])) at 1.
  set (Rm := flat_map _ (first_per_hash hatom ys [])) at 1.
  match goal with |- keq _ (?X ++ ?Y) => assert (EX : X = Rm) end.
  { unfold Rm. apply flat_map_ext_in. intros y _. destruct (existsb _ _); reflexivity. }
  match goal with |- keq _ (?X ++ ?Y) => assert (EY : Y = A) end.
  { unfold A. apply flat_map_ext_in. intros x _. destruct (existsb _ _); reflexivity. }
  rewrite EX, EY. apply keq_swap.
  intros x y Hx Hy. unfold A in Hx. unfold Rm in Hy.
  apply in_flat_map in Hx as (a & _ & Hx). apply in_flat_map in Hy as (b & _ & Hy).
  destruct (existsb _ _); [destruct Hx|]. destruct (existsb _ _); [destruct Hy|].
  destruct Hx as [<-|[]]. destruct Hy as [<-|[]]. discriminate.
Qed.

(* ---- dicts ---- *)
Section Dict.
Variables kvs1 kvs2 : list (atom * value).
Variable p : path.
Hypothesis N1 : nodup_atoms (map fst kvs1) = true.
Hypothesis N2 : nodup_atoms (map fst kvs2) = true.
Hypothesis Keep1 : forall k, In k (map fst kvs1) -> keep_key c k = true.
Hypothesis Keep2 : forall k, In k (map fst kvs2) -> keep_key c k = true.
Hypothesis Ident : forall k k', In k (map fst kvs1) -> In k' (map fst kvs2) -> py_eq k k' = true -> k = k'.

Lemma keys_all1 : keys_of c kvs1 = map fst kvs1.
Proof. unfold keys_of. apply filter_all. exact Keep1. Qed.
Lemma keys_all2 : keys_of c kvs2 = map fst kvs2.
Proof. unfold keys_of. apply filter_all. exact Keep2. Qed.

Lemma mem_In1 k : In k (map fst kvs2) -> mem_atom k (map fst kvs1) = true -> In k (map fst kvs1).
Proof.
  intros H2 M. apply mem_atom_In in M as (b & Hb & E). rewrite py_eq_sym in E.
  rewrite <- (Ident b k Hb H2 E). exact Hb.
Qed.
Lemma mem_In2 k : In k (map fst kvs1) -> mem_atom k (map fst kvs2) = true -> In k (map fst kvs2).
Proof.
  intros H1 M. apply mem_atom_In in M as (b & Hb & E).
  rewrite (Ident k b H1 Hb E). exact Hb.
Qed.

Lemma filter_length_split {A} (f : A -> bool) l :
  length (filter f l) + length (filter (fun x => negb (f x)) l) = length l.
Proof. induction l as [|x l IH]; cbn; [reflexivity|]. destruct (f x); cbn; lia. Qed.

Lemma inter_length :
  length (filter (fun k => mem_atom k (map fst kvs1)) (map fst kvs2)) =
  length (filter (fun k => mem_atom k (map fst kvs2)) (map fst kvs1)).
Proof.
  apply Permutation_length. apply NoDup_Permutation.
  - apply NoDup_filter. apply nodup_NoDup'. exact N2.
  - apply NoDup_filter. apply nodup_NoDup'. exact N1.
  - intros x. rewrite !filter_In. split; intros [H M].
    + split; [apply mem_In1; assumption|]. apply mem_atom_In. exists x. split; [exact H|apply py_eq_refl].
    + split; [apply mem_In2; assumption|]. apply mem_atom_In. exists x. split; [exact H|apply py_eq_refl].
Qed.

Lemma shortcut_sym :
  dict_shortcut nos c (map fst kvs2) (map fst kvs1) p = dict_shortcut nos c (map fst kvs1) (map fst kvs2) p.
Proof.
  unfold dict_shortcut. destruct (thr_num c =? 0); [reflexivity|].
  rewrite !(filter_all (fun k => negb (nos (snoc p (PKey k))))) by (intros; reflexivity).
  rewrite !app_length. rewrite inter_length.
  pose proof (filter_length_split (fun k => mem_atom k (map fst kvs2)) (map fst kvs1)) as P1.
  pose proof (filter_length_split (fun k => mem_atom k (map fst kvs1)) (map fst kvs2)) as P2.
  pose proof inter_length as IL.
  replace (length (map fst kvs1) + length (filter (fun k => negb (mem_atom k (map fst kvs1))) (map fst kvs2)))
    with (length (map fst kvs2) + length (filter (fun k => negb (mem_atom k (map fst kvs2))) (map fst kvs1))) by lia.
  reflexivity.
Qed.

(* the common part, over the keys of kvs1 that kvs2 has *)
Lemma find_key k : In k (map fst kvs1) ->
  match assoc k kvs2 with
  | Some _ => find (py_eq k) (map fst kvs2) = Some k
  | None => find (py_eq k) (map fst kvs2) = None
  end.
Proof.
  intros H1. destruct (assoc k kvs2) as [v2|] eqn:A.
  - destruct (find (py_eq k) (map fst kvs2)) as [k'|] eqn:F.
    + apply find_some in F as [H2 E]. rewrite (Ident k k' H1 H2 E). reflexivity.
    + apply assoc_In in A as (k' & Hin & E). exfalso.
      eapply find_none in F; [|apply in_map_iff; exists (k', v2); split; [reflexivity|exact Hin]].
      cbn in F. rewrite py_eq_sym in F. congruence.
  - destruct (find (py_eq k) (map fst kvs2)) as [k'|] eqn:F; [|reflexivity].
    apply find_some in F as [H2 E]. apply assoc_None in A.
    assert (mem_atom k (map fst kvs2) = true) by (apply mem_atom_In; exists k'; split; assumption). congruence.
Qed.

End Dict.

Lemma gc_fst (kvs1 kvs2 : list (atom * value)) p :
  (forall k, In k (map fst kvs1) -> keep_key c k = true) ->
  (forall k k', In k (map fst kvs1) -> In k' (map fst kvs2) -> py_eq k k' = true -> k = k') ->
  forall l, (forall kv, In kv l -> In (fst kv) (map fst kvs1)) ->
  fst (go_common c diff kvs2 (map fst kvs2) p p l) =
  flat_map (fun kv => match assoc (fst kv) kvs2 with
                      | Some v2 => dF (snd kv) v2 (snoc p (PKey (fst kv)))
                      | None => []
                      end) l.
Proof.
  intros Keep Ident. induction l as [|[k v1] l IH]; intros Sub; [reflexivity|].
  cbn [go_common flat_map fst snd].
  assert (Hk : In k (map fst kvs1)) by (apply (Sub (k, v1)); left; reflexivity).
  rewrite (Keep k Hk). pose proof (find_key kvs1 kvs2 Ident k Hk) as F.
  rewrite <- IH by (intros kv Hkv; apply Sub; right; exact Hkv).
  destruct (assoc k kvs2) as [v2|] eqn:A; rewrite F; [|reflexivity].
  rewrite A. reflexivity.
Qed.

(* over the list of common keys *)
Lemma common_by_keys {B} (kvs1 kvs2 : list (atom * value)) (H : atom -> value -> value -> list B) :
  nodup_atoms (map fst kvs1) = true ->
  forall l, (forall kv, In kv l -> In kv kvs1) ->
  flat_map (fun kv => match assoc (fst kv) kvs2 with Some v2 => H (fst kv) (snd kv) v2 | None => [] end) l =
  flat_map (fun k => match assoc k kvs1, assoc k kvs2 with Some v1, Some v2 => H k v1 v2 | _, _ => [] end)
           (filter (has_key kvs2) (map fst l)).
Proof.
  intros N. induction l as [|[k v1] l IH]; intros Sub; [reflexivity|].
  cbn [flat_map map filter fst snd]. rewrite IH by (intros kv Hkv; apply Sub; right; exact Hkv).
  unfold has_key at 2. destruct (assoc k kvs2) as [v2|] eqn:A.
  - assert (M : mem_atom k (map fst kvs2) = true).
    { destruct (mem_atom k (map fst kvs2)) eqn:M; [reflexivity|]. apply assoc_None in M. congruence. }
    rewrite M. cbn [flat_map].
    rewrite (assoc_nodup kvs1 k v1 k N (Sub _ (or_introl eq_refl)) (py_eq_refl k)), A. reflexivity.
  - apply assoc_None in A. rewrite A. reflexivity.
Qed.

Lemma assoc_In_key {B} k (l : list (atom * B)) :
  nodup_atoms (map fst l) = true -> In k (map fst l) -> exists v, assoc k l = Some v /\ In (k, v) l.
Proof.
  intros N H. apply in_map_iff in H as ([k0 v] & E & Hin). cbn in E. subst k0.
  exists v. split; [eapply assoc_nodup; [exact N|exact Hin|apply py_eq_refl]|exact Hin].
Qed.

Lemma sg_dict_child kvs1 kvs2 k v1 v2 :
  sg (VDict kvs1) (VDict kvs2) -> In (k, v1) kvs1 -> In (k, v2) kvs2 -> sg v1 v2.
Proof.
  intros (W1 & W2 & AF & K1 & K2 & KO) H1 H2.
  cbn in W1, W2. apply andb_true_iff in W1 as [N1 W1], W2 as [N2 W2].
  split; [eapply forallb_forall in W1; [|exact H1]; exact W1|].
  split; [eapply forallb_forall in W2; [|exact H2]; exact W2|].
  split; [|split; [|split]].
  - eapply alias_free_sub; [|exact AF]. intros a Ha. cbn [atoms_of]. rewrite in_app_iff in *.
    destruct Ha as [Ha|Ha]; [left|right]; apply in_flat_map; eexists; (split; [eassumption|right; exact Ha]).
  - cbn in K1. eapply forallb_forall in K1; [|exact H1]. apply andb_true_iff in K1 as [_ K1]. exact K1.
  - cbn in K2. eapply forallb_forall in K2; [|exact H2]. apply andb_true_iff in K2 as [_ K2]. exact K2.
  - destruct KO as [_ KO]. assert (A2 : assoc k kvs2 = Some v2) by (eapply assoc_nodup; [exact N2|exact H2|apply py_eq_refl]).
    clear -KO H1 A2. induction kvs1 as [|[k0 v0] l IH]; [destruct H1|].
    destruct KO as [K0 KO]. destruct H1 as [E|H1]; [inversion E; subst; rewrite A2 in K0; exact K0|apply IH; assumption].
Qed.

Lemma allkeep_keys kvs k : allkeep (VDict kvs) = true -> In k (map fst kvs) -> keep_key c k = true.
Proof.
  intros K H. cbn in K. apply in_map_iff in H as (kv & <- & Hin).
  eapply forallb_forall in K; [|exact Hin]. apply andb_true_iff in K as [K _]. exact K.
Qed.

Lemma sym_dict kvs1 kvs2 p :
  Forall (fun kv => SYM (snd kv)) kvs1 -> sg (VDict kvs1) (VDict kvs2) ->
  keq (fst (dict_body hatom udiff ops nos nos c kvs2 kvs1 p p))
      (map mirror_entry (fst (dict_body hatom udiff ops nos nos c kvs1 kvs2 p p))).
Proof.
  intros IH G. pose proof G as (W1 & W2 & AF & K1 & K2 & KO).
  cbn [wf] in W1, W2. apply andb_true_iff in W1 as [N1 W1], W2 as [N2 W2].
  assert (Keep1 : forall k, In k (map fst kvs1) -> keep_key c k = true) by (intros k; apply allkeep_keys; exact K1).
  assert (Keep2 : forall k, In k (map fst kvs2) -> keep_key c k = true) by (intros k; apply allkeep_keys; exact K2).
  assert (Ident : forall k k', In k (map fst kvs1) -> In k' (map fst kvs2) -> py_eq k k' = true -> k = k').
  { intros k k' Hk Hk' E. apply AF; [| |exact E]; cbn [atoms_of]; apply in_or_app; [left|right].
    - apply in_map_iff in Hk as (kv & <- & Hin). apply in_flat_map. exists kv. split; [exact Hin|left; reflexivity].
    - apply in_map_iff in Hk' as (kv & <- & Hin). apply in_flat_map. exists kv. split; [exact Hin|left; reflexivity]. }
  assert (Ident' : forall k k', In k (map fst kvs2) -> In k' (map fst kvs1) -> py_eq k k' = true -> k = k').
  { intros k k' Hk Hk' E. symmetry. apply Ident; [exact Hk'|exact Hk|rewrite py_eq_sym; exact E]. }
  unfold dict_body. rewrite (keys_all1 kvs1 Keep1), (keys_all2 kvs2 Keep2).
  rewrite (shortcut_sym kvs1 kvs2 p N1 N2 Ident).
  destruct (dict_shortcut nos c (map fst kvs1) (map fst kvs2) p); cbn [fst].
  - apply keq_of_strip. reflexivity.
  - rewrite !map_app, !map_flat_map'.
    (* reverse = added' ++ removed' ++ common' ; mirrored forward = m(added) ++ m(removed) ++ m(common) *)
    match goal with |- keq (?A' ++ ?R' ++ ?C') (?MA ++ ?MR ++ ?MC) =>
      assert (EA : MR = A'); [|assert (ER : MA = R')] end.
    { apply flat_map_ext_in. intros k _. destruct (mem_atom k (map fst kvs2)); reflexivity. }
    { apply flat_map_ext_in. intros k _. destruct (mem_atom k (map fst kvs1)); reflexivity. }
    rewrite EA, ER. rewrite !app_assoc. apply keq_app.
    + apply keq_swap. intros x y Hx Hy.
      apply in_flat_map in Hx as (a & _ & Hx). apply in_flat_map in Hy as (b & _ & Hy).
      destruct (mem_atom a _); [destruct Hx|]. destruct (mem_atom b _); [destruct Hy|].
      destruct Hx as [<-|[]]. destruct Hy as [<-|[]]. discriminate.
    + (* the common part *)
      rewrite (gc_fst kvs2 kvs1 p Keep2 Ident' kvs2) by (intros kv H; apply in_map; exact H).
      rewrite (gc_fst kvs1 kvs2 p Keep1 Ident kvs1) by (intros kv H; apply in_map; exact H).
      rewrite (common_by_keys kvs2 kvs1 (fun k v2 v1 => dF v2 v1 (snoc p (PKey k))) N2 kvs2) by (intros kv H; exact H).
      rewrite (common_by_keys kvs1 kvs2 (fun k v1 v2 => dF v1 v2 (snoc p (PKey k))) N1 kvs1) by (intros kv H; exact H).
      destruct KO as [KO _]. rewrite <- KO. rewrite map_flat_map'.
      apply keq_flat_map. intros k Hk. apply filter_In in Hk as [Hk1 Hk2].
      destruct (assoc_In_key k kvs1 N1 Hk1) as (v1 & A1 & Hin1).
      assert (Hk2' : In k (map fst kvs2)) by (apply (mem_In2 kvs1 kvs2 Ident); assumption).
      destruct (assoc_In_key k kvs2 N2 Hk2') as (v2 & A2 & Hin2).
      rewrite A1, A2.
      eapply Forall_forall in IH; [|exact Hin1]. cbn [snd] in IH. apply IH.
      eapply sg_dict_child; eassumption.
Qed.

Theorem diff_sym : forall t1, SYM t1.
Proof.
  induction t1 as [a|xs IH|xs IH|kvs IH|xs|xs] using value_ind'; intros t2 p G;
    (match goal with |- keq (fst (DiffModel.diff _ _ _ _ _ _ t2 ?t1 _ _)) _ =>
       destruct (ty_eqb (type_of t1) (type_of t2)) eqn:T;
       [|rewrite (diff_type hatom udiff ops nos nos c t1 t2 p p eq_refl T);
         assert (T' : ty_eqb (type_of t2) (type_of t1) = false) by (rewrite ty_eqb_sym; exact T);
         rewrite (diff_type hatom udiff ops nos nos c t2 t1 p p eq_refl T');
         apply keq_of_strip; reflexivity]
     end);
    apply ty_eqb_true in T; destruct t2; try discriminate T; try (destruct a; discriminate T).
  - rewrite !diff_atom_eq by reflexivity. cbn in T. rewrite T.
    replace (ty_eqb (atom_ty a0) (atom_ty a0)) with true by (destruct (atom_ty a0); reflexivity).
    cbn [negb fst]. apply sym_diff_atom.
  - rewrite !diff_list by reflexivity. rewrite !seq_body_zip. apply (sym_go_list false); assumption.
  - rewrite !diff_tuple by reflexivity. rewrite !seq_body_zip. apply (sym_go_list true); assumption.
  - rewrite !diff_dict by reflexivity. apply sym_dict; assumption.
  - rewrite !diff_vset by reflexivity. cbn [fst]. apply sym_diff_set.
  - rewrite !diff_vfrozen by reflexivity. cbn [fst]. apply sym_diff_set.
Qed.

End Sym.

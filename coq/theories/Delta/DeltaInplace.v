(** C01 - a refinement of DeltaModel.apply in which a list / dict item of a TUPLE is edited IN PLACE, as the code does.
    deepdiff mutates the object it reaches through the path; a list or a dict that is an item of a tuple is therefore
    edited without anything being written into the tuple (([1,2],3) -> ([9,1,2],3) round-trips).  Only an item that has to be
    REPLACED as an object - a set / frozenset (rebuilt by union / difference), a nested tuple (coerced to a list and re-instated),
    an atom, a value whose type changes - needs `parent[elem] = new object`, which fails on a tuple (finding F4).
    DeltaModel.upd (shared; block C08's proofs depend on it) refuses EVERY write below a tuple.  Module [T] repeats
    DeltaModel's passes verbatim (generated from DeltaModel.v: set_new_value ... apply) over [upd_t], which differs from
    [upd] in one case: below a VTuple a child that is a VList before and after, or a VDict before and after, is put back.
    Definitions only; [DeltaInplaceProofs.v] relates the two. *)
From Coq Require Import List ZArith NArith Bool Arith.
Import ListNotations.
From DD Require Import Base.PyStr Base.Value Path.PathModel Diff.Tree Diff.DiffModel Delta.DeltaModel.

(* a child that Python mutates in place: a list stays a list, a dict a dict *)
Definition inplace_pair (a b : value) : bool :=
  match a, b with VList _, VList _ | VDict _, VDict _ => true | _, _ => false end.
Definition tuple_put (xs : list value) (k : atom) (v : value) : option (list value) :=
  match list_index xs k with
  | Some i => if Nat.ltb i (List.length xs) then list_set xs i v else None
  | None => None
  end.
(* re-instating the updated child c' (was c) at key k of v *)
Definition put_item (v : value) (k : atom) (c c' : value) : option value :=
  match v with
  | VTuple xs => if inplace_pair c c' then option_map VTuple (tuple_put xs k c') else None
  | _ => set_item v k c'
  end.

Module T.
Fixpoint upd (v : value) (p : path) (f : value -> option value) : option value :=
  match p with
  | [] => f v
  | k :: r =>
      match get_item v (key_atom k) with
      | Some child =>
          match upd child r f with
          | Some child' => put_item v (key_atom k) child child'
          | None => None
          end
      | None => None
      end
  end.

Section Delta.
Variable conv : ty -> value -> option value.
Variable rem_order : list (path * value) -> list (path * value).
Variable add_order : list (path * option value) -> list (path * option value).

Definition set_new_value (s : st) (p : path) (v : value) : st :=
  match p with
  | [] => with_root s v
  | _ =>
      let op := removelast p in
      let k := key_atom (last p (PIdx 0)) in
      match resolve (root s) op with
      | Some obj =>
          let coerced := is_tuple obj in
          match upd (root s) op (fun o => set_item (untuple o) k v) with
          | Some r' => mkSt r' (if coerced then post s ++ [op] else post s) (errs s)
          | None => err s
          end
      | None => err s
      end
  end.

Definition do_values_changed (bidir : bool) (l : list vchange) (s : st) : st :=
  fold_left (fun s c =>
    match current_at s (vc_path c) with
    | Some cur => verify bidir (vc_old c) cur (set_new_value s (vc_path c) (vc_new c))
    | None => err s
    end) l s.

Definition do_type_changes (bidir : bool) (l : list tchange) (s : st) : st :=
  fold_left (fun s c =>
    match current_at s (tc_path c) with
    | Some cur =>
        match (match tc_new c with Some v => Some v | None => conv (tc_new_ty c) cur end) with
        | Some nv => verify bidir (tc_old c) cur (set_new_value s (tc_path c) nv)
        | None => err s
        end
    | None => err s
    end) l s.

Definition do_set_items (f : value -> list atom -> option value) (l : list (path * list atom)) (s : st) : st :=
  fold_left (fun s pi =>
    match upd (root s) (fst pi) (fun o => f o (snd pi)) with
    | Some r' => with_root s r'
    | None => err s
    end) l s.

Definition do_opcodes (l : list (path * list opv)) (s : st) : st :=
  fold_left (fun s po =>
    match upd (root s) (fst po) (fun o => match o with
                                          | VList xs => Some (VList (transformed xs (snd po)))
                                          | VTuple xs => Some (VTuple (transformed xs (snd po)))
                                          | _ => None
                                          end) with
    | Some r' => with_root s r'
    | None => err s
    end) l s.

Definition del_elem (s : st) (op : path) (k : atom) : st :=
  match resolve (root s) op with
  | Some obj =>
      let coerced := is_tuple obj in
      match upd (root s) op (fun o => del_item (untuple o) k) with
      | Some r' => mkSt r' (if coerced then post s ++ [op] else post s) (errs s)
      | None => err s
      end
  | None => err s
  end.

Definition remove_one (bidir : bool) (s : st) (p : path) (expected : value) : st :=
  match p with
  | [] => s
  | _ =>
      let op := removelast p in
      let k := key_atom (last p (PIdx 0)) in
      match resolve (root s) op with
      | None => err s
      | Some obj =>
          let cur := get_item obj k in
          let look := match cur with Some c => negb (py_eqv c expected) | None => true end in
          match obj with
          | VList xs =>
              if look then
                match int_of_atom k with
                | Some z =>
                    match find_closest xs (Z.to_nat z) expected with
                    | Some i => verify bidir (Some expected) expected (del_elem s op (AInt (Z.of_nat i)))
                    | None => s
                    end
                | None => s
                end
              else verify bidir (Some expected) expected (del_elem s op k)
          | _ =>
              match cur with
              | Some c => verify bidir (Some expected) c (del_elem s op k)
              | None => s
              end
          end
      end
  end.

Definition do_item_removed (bidir : bool) (l : list (path * value)) (s : st) : st :=
  fold_left (fun s pv => remove_one bidir s (fst pv) (snd pv)) (rem_order l) s.

Definition add_one (ins : bool) (s : st) (p : path) (v : option value) : st :=
  let nv := match v with Some x => x | None => VAtom ANone end in
  match p with
  | [] => with_root s nv
  | _ =>
      let op := removelast p in
      let k := key_atom (last p (PIdx 0)) in
      match resolve (root s) op with
      | None => err s
      | Some obj =>
          let s1 :=
            match obj, ins with
            | VList xs, true =>
                match int_of_atom k with
                | Some z => if Z.ltb z (Z.of_nat (length xs)) && Z.leb 0 z
                            then match upd (root s) op (fun _ => Some (VList (list_insert xs (Z.to_nat z) (VAtom ANone)))) with
                                 | Some r' => with_root s r'
                                 | None => err s
                                 end
                            else s
                | None => s
                end
            | _, _ => s
            end in
          set_new_value s1 p nv
      end
  end.

Definition do_item_added (sort ins : bool) (l : list (path * option value)) (s : st) : st :=
  fold_left (fun s pv => add_one ins s (fst pv) (snd pv)) (if sort then add_order l else l) s.

Definition do_iterable_item_removed (bidir : bool) (d : delta) (s : st) : st :=
  do_item_removed bidir (d_irem d ++ map (fun m => (fst (fst m), snd m)) (d_moved d)) s.

Definition do_iterable_item_added (d : delta) (s : st) : st :=
  let added := map (fun pv => (fst pv, Some (snd pv))) (d_iadd d)
               ++ map (fun m => (snd (fst m), None)) (d_moved d) in
  let s1 := match added with [] => s | _ => do_item_added true true added s end in
  match d_moved d with
  | [] => s1
  | _ => do_item_added true false (map (fun m => (snd (fst m), Some (snd m))) (d_moved d)) s1
  end.

Definition do_post (s : st) : st :=
  fold_left (fun s p =>
    match upd (root s) p (fun o => match o with VList xs => Some (VTuple xs) | VTuple xs => Some (VTuple xs) | _ => None end) with
    | Some r' => with_root s r'
    | None => err s
    end) (post s) s.

Definition apply (d : delta) (v : value) : value * nat :=
  let b := d_bidir d in
  let s := mkSt v [] 0 in
  let s := do_values_changed b (d_val d) s in
  let s := do_set_items set_union (d_sadd d) s in
  let s := do_set_items set_difference (d_srem d) s in
  let s := do_type_changes b (d_type d) s in
  let s := do_opcodes (d_ops d) s in
  let s := do_iterable_item_removed b d s in
  let s := do_iterable_item_added d s in
  let s := do_item_added false false (map (fun pv => (fst pv, Some (snd pv))) (d_dadd d)) s in
  let s := do_item_removed b (d_drem d) s in
  let s := do_post s in
  (root s, errs s).

End Delta.
End T.

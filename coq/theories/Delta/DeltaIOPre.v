(** C01, ignore_order clause at ANY path, part 2: the payload of prefixed entries is the prefixed
    payload ([to_delta_io_pre]). *)
From Coq Require Import List ZArith NArith Bool Arith Lia Permutation.
Import ListNotations.
From DD Require Import Base.PyStr Base.Value Base.ValueFacts Path.PathModel Diff.Tree Diff.DiffModel
  Diff.DiffFacts Hash.HashModel DiffIO.DiffIOModel
  Delta.DeltaModel Delta.DeltaFacts Delta.DeltaEntries Delta.DeltaStruct Delta.DeltaGood Delta.DeltaIO Delta.DeltaIOProofs Delta.DeltaIOReloc.

(* ---- a payload with Q put in front of every path ---- *)
Definition dpre (Q : path) (d : delta) : delta :=
  mkDelta
    (map (fun c => mkVC (Q ++ vc_path c) (option_map (app Q) (vc_new_path c)) (vc_old c) (vc_new c)) (d_val d))
    (map (fun c => mkTC (Q ++ tc_path c) (option_map (app Q) (tc_new_path c)) (tc_old_ty c) (tc_new_ty c) (tc_old c) (tc_new c)) (d_type d))
    (map (fun pv => (Q ++ fst pv, snd pv)) (d_dadd d))
    (map (fun pv => (Q ++ fst pv, snd pv)) (d_drem d))
    (map (fun pv => (Q ++ fst pv, snd pv)) (d_iadd d))
    (map (fun pv => (Q ++ fst pv, snd pv)) (d_irem d))
    (map (fun m => (Q ++ fst (fst m), Q ++ snd (fst m), snd m)) (d_moved d))
    (map (fun pa => (Q ++ fst pa, snd pa)) (d_sadd d))
    (map (fun pa => (Q ++ fst pa, snd pa)) (d_srem d))
    (map (fun po => (Q ++ fst po, snd po)) (d_ops d))
    (d_bidir d).
Definition pmpre (Q : path) (l : list (path * imap)) : list (path * imap) := map (fun pm => (Q ++ fst pm, snd pm)) l.
Definition diopre (Q : path) (d : delta_io) : delta_io :=
  mkDIO (dpre Q (io_base d)) (pmpre Q (io_added d)) (pmpre Q (io_removed d)).

Lemma path_eqb_pre Q a b : path_eqb (Q ++ a) (Q ++ b) = path_eqb a b.
Proof. induction Q as [|k Q IH]; cbn; [reflexivity|]. rewrite pkey_eqb_refl. exact IH. Qed.

Lemma render_pre q p1 p2 : pystr_eqb (render (q ++ p1)) (render (q ++ p2)) = pystr_eqb (render p1) (render p2).
Proof.
  unfold render. rewrite !flat_map_app.
  destruct (pystr_eqb (root_str ++ flat_map render_key p1) (root_str ++ flat_map render_key p2)) eqn:E.
  - apply pystr_eqb_eq in E. apply app_inv_head in E. rewrite E. apply pystr_eqb_refl.
  - apply pystr_eqb_neq. intros E2. apply app_inv_head in E2. apply app_inv_head in E2.
    rewrite E2, pystr_eqb_refl in E. discriminate.
Qed.

Lemma new_path_opt_pre q e : new_path_opt (epre q e) = option_map (app (npath q)) (new_path_opt e).
Proof.
  unfold new_path_opt, epre. cbn [ep1 ep2]. rewrite render_pre.
  destruct (pystr_eqb _ _); cbn; [reflexivity|]. rewrite npath_app. reflexivity.
Qed.

Definition gpre (Q : path) (l : list (path * list atom)) : list (path * list atom) := map (fun pa => (Q ++ fst pa, snd pa)) l.

Lemma group_add_pre Q p a l : group_add (Q ++ p) a (gpre Q l) = gpre Q (group_add p a l).
Proof.
  unfold gpre. induction l as [|[p0 xs] l IH]; [reflexivity|]. cbn [map group_add fst snd]. rewrite path_eqb_pre.
  destruct (path_eqb p p0); cbn [map fst snd]; [reflexivity|]. rewrite IH. reflexivity.
Qed.

Lemma imap_set_fst m i v : forall k, In k (map fst (imap_set m i v)) <-> In k (map fst m) \/ k = i.
Proof.
  induction m as [|[j w] m IH]; intros k; cbn; [intuition|].
  destruct (Nat.eqb_spec j i) as [->|N]; cbn; [intuition|]. rewrite IH. intuition.
Qed.

Lemma pmap_set_pre Q p i v l : pmap_set (pmpre Q l) (Q ++ p) i v = pmpre Q (pmap_set l p i v).
Proof.
  unfold pmpre. induction l as [|[p0 m] l IH]; [reflexivity|]. cbn [map pmap_set fst snd]. rewrite path_eqb_pre.
  destruct (path_eqb p p0); cbn [map fst snd]; [reflexivity|]. rewrite IH. reflexivity.
Qed.

Lemma pmap_get_pre Q p l : pmap_get (pmpre Q l) (Q ++ p) = pmap_get l p.
Proof.
  unfold pmap_get, pmpre. induction l as [|[p0 m] l IH]; cbn; [reflexivity|]. rewrite path_eqb_pre.
  destruct (path_eqb p0 p); [reflexivity|exact IH].
Qed.

Lemma fm_pre {A B} (g : A -> A) (f f' : A -> list B) (h : B -> B) l :
  (forall x, f (g x) = map h (f' x)) -> flat_map f (map g l) = map h (flat_map f' l).
Proof.
  intros E. induction l as [|x l IH]; cbn; [reflexivity|]. rewrite map_app, E, IH. reflexivity.
Qed.

Lemma last_app_ne {A} (q p : list A) d : p <> [] -> last (q ++ p) d = last p d.
Proof.
  intros N. induction q as [|x q IH]; cbn; [reflexivity|]. destruct (q ++ p) eqn:E; [apply app_eq_nil in E as [_ E]; contradiction|exact IH].
Qed.

Lemma removelast_app_ne {A} (q p : list A) : p <> [] -> removelast (q ++ p) = q ++ removelast p.
Proof. intros N. apply removelast_app. exact N. Qed.

Section Payload.
Variable conv : ty -> value -> option value.
Variables bidir always : bool.
Notation td := (to_delta conv bidir always (fun _ _ _ => [])).

Lemma to_delta_pre t1 t2 t1' t2' q es :
  td t1 t2 (map (epre q) es) [] = dpre (npath q) (td t1' t2' es []).
Proof.
  unfold to_delta, dpre. cbn [d_val d_type d_dadd d_drem d_iadd d_irem d_moved d_sadd d_srem d_ops d_bidir map].
  f_equal.
  - apply fm_pre. intros e. unfold epre at 1. cbn [ekind]. destruct (ekind e); try reflexivity.
    cbn [map]. rewrite new_path_opt_pre. cbn [ep1 et1 et2 epre]. rewrite npath_app. reflexivity.
  - apply fm_pre. intros e. unfold epre at 1. cbn [ekind]. destruct (ekind e); try reflexivity.
    cbn [map]. rewrite new_path_opt_pre. cbn [ep1 et1 et2 epre tc_path tc_new_path tc_old_ty tc_new_ty tc_old tc_new]. rewrite npath_app. reflexivity.
  - apply fm_pre. intros e. unfold epre. cbn [ekind ep1 et2]. destruct (ekind e); try reflexivity. cbn. rewrite npath_app. reflexivity.
  - apply fm_pre. intros e. unfold epre. cbn [ekind ep1 et1]. destruct (ekind e); try reflexivity. cbn. rewrite npath_app. reflexivity.
  - apply fm_pre. intros e. unfold epre. cbn [ekind ep1 et2 in_paths existsb]. destruct (ekind e); try reflexivity. cbn. rewrite npath_app. reflexivity.
  - apply fm_pre. intros e. unfold epre. cbn [ekind ep1 et1 in_paths existsb]. destruct (ekind e); try reflexivity. cbn. rewrite npath_app. reflexivity.
  - apply fm_pre. intros e. unfold epre. cbn [ekind ep1 ep2 et2 in_paths existsb]. destruct (ekind e); try reflexivity. cbn. rewrite !npath_app. reflexivity.
  - change (@nil (path * list atom)) with (gpre (npath q) []) at 1. generalize (@nil (path * list atom)).
    induction es as [|e es IH]; intros acc; cbn [map fold_left]; [reflexivity|]. rewrite <- IH. f_equal.
    unfold epre. cbn [ekind et2 ep1]. destruct (ekind e); try reflexivity. destruct (et2 e) as [[a| | | | |]|]; try reflexivity.
    rewrite npath_app. apply group_add_pre.
  - change (@nil (path * list atom)) with (gpre (npath q) []) at 1. generalize (@nil (path * list atom)).
    induction es as [|e es IH]; intros acc; cbn [map fold_left]; [reflexivity|]. rewrite <- IH. f_equal.
    unfold epre. cbn [ekind et1 ep1]. destruct (ekind e); try reflexivity. destruct (et1 e) as [[a| | | | |]|]; try reflexivity.
    rewrite npath_app. apply group_add_pre.
Qed.

(* the entries that feed the index maps sit below the list they belong to *)
Definition iter_kind (e : entry) : bool :=
  match ekind e with KIterAdd | KIterRem => true | _ => false end.

Definition selA (e : entry) : option (path * nat * value) :=
  match ekind e with
  | KIterAdd => Some (npath (removelast (ep1 e)), last_idx (ep1 e), match et2 e with Some v => v | None => oval (et1 e) end)
  | _ => None end.
Definition selR (e : entry) : option (path * nat * value) :=
  match ekind e with
  | KIterRem => Some (npath (removelast (ep1 e)), last_idx (ep1 e), match et2 e with Some v => v | None => oval (et1 e) end)
  | _ => None end.
Definition pfold (sel : entry -> option (path * nat * value)) (es : list entry) (acc : list (path * imap)) : list (path * imap) :=
  fold_left (fun acc e => match sel e with Some (p, i, v) => pmap_set acc p i v | None => acc end) es acc.

Lemma pfold_pre sel q es :
  (forall e, In e es -> sel (epre q e) = option_map (fun piv => (npath q ++ fst (fst piv), snd (fst piv), snd piv)) (sel e)) ->
  forall acc, pfold sel (map (epre q) es) (pmpre (npath q) acc) = pmpre (npath q) (pfold sel es acc).
Proof.
  unfold pfold. induction es as [|e es IH]; intros Hs acc; cbn [map fold_left]; [reflexivity|].
  rewrite (Hs e (or_introl eq_refl)). destruct (sel e) as [[[p i] v]|]; cbn [option_map fst snd].
  - rewrite pmap_set_pre. apply IH. intros e0 H0. apply Hs. right. exact H0.
  - apply IH. intros e0 H0. apply Hs. right. exact H0.
Qed.

Lemma sel_pre_gen q e (k : rkind) :
  (ekind e = k -> ep1 e <> []) ->
  match ekind (epre q e) with
  | k' => if rkind_eqb k' k then
            (npath (removelast (ep1 (epre q e))), last_idx (ep1 (epre q e))) = (npath q ++ npath (removelast (ep1 e)), last_idx (ep1 e))
          else True
  end.
Proof.
  intros NE. unfold epre. cbn [ekind ep1]. destruct (rkind_eqb (ekind e) k) eqn:E; [|exact I].
  assert (N : ep1 e <> []). { apply NE. destruct (ekind e), k; cbn in E; try discriminate; reflexivity. }
  rewrite removelast_app_ne by exact N. rewrite npath_app. unfold last_idx. rewrite last_app_ne by exact N. reflexivity.
Qed.

Lemma to_delta_io_pre t1 t2 t1' t2' q es :
  (forall e, In e es -> iter_kind e = true -> ep1 e <> []) ->
  to_delta_io conv bidir always t1 t2 (map (epre q) es) [] = diopre (npath q) (to_delta_io conv bidir always t1' t2' es []).
Proof.
  intros NE.
  assert (A0 : forall l, fold_left (fun acc e => match ekind e with
      | KIterAdd => pmap_set acc (npath (removelast (ep1 e))) (last_idx (ep1 e))
                             (match et2 e with Some v => v | None => oval (et1 e) end)
      | _ => acc end) l [] = pfold selA l []).
  { intros l. unfold pfold. apply fold_left_ext'. intros acc e _. unfold selA. destruct (ekind e); reflexivity. }
  assert (R0 : forall l, fold_left (fun acc e => match ekind e with
      | KIterRem => pmap_set acc (npath (removelast (ep1 e))) (last_idx (ep1 e))
                             (match et2 e with Some v => v | None => oval (et1 e) end)
      | _ => acc end) l [] = pfold selR l []).
  { intros l. unfold pfold. apply fold_left_ext'. intros acc e _. unfold selR. destruct (ekind e); reflexivity. }
  unfold to_delta_io, diopre. cbn [io_base io_added io_removed]. f_equal.
  - apply to_delta_pre.
  - rewrite (fold_left_id _ (map (epre q) es)).
    2:{ intros acc e _. destruct (ekind e); reflexivity. }
    rewrite (fold_left_id _ es).
    2:{ intros acc e _. destruct (ekind e); reflexivity. }
    rewrite !A0. change (@nil (path * imap)) with (pmpre (npath q) []) at 1. apply pfold_pre.
    intros e He. unfold selA. pose proof (sel_pre_gen q e KIterAdd) as G. unfold epre in *. cbn [ekind ep1 et1 et2] in *.
    destruct (ekind e) eqn:K; try reflexivity. cbn [rkind_eqb] in G.
    assert (N : ep1 e <> []) by (apply NE; [exact He|unfold iter_kind; rewrite K; reflexivity]).
    specialize (G (fun _ => N)). inversion G as [[G1 G2]]. cbn [option_map fst snd]. rewrite G1, G2. reflexivity.
  - rewrite !R0. change (@nil (path * imap)) with (pmpre (npath q) []) at 1. apply pfold_pre.
    intros e He. unfold selR. pose proof (sel_pre_gen q e KIterRem) as G. unfold epre in *. cbn [ekind ep1 et1 et2] in *.
    destruct (ekind e) eqn:K; try reflexivity. cbn [rkind_eqb] in G.
    assert (N : ep1 e <> []) by (apply NE; [exact He|unfold iter_kind; rewrite K; reflexivity]).
    specialize (G (fun _ => N)). inversion G as [[G1 G2]]. cbn [option_map fst snd]. rewrite G1, G2. reflexivity.
Qed.

End Payload.

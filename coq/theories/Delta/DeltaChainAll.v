(** C01 - [okb_all] (the hypothesis of C01_chain_veq_partial: [okb] at EVERY well-formed value
    equal to the left end up to dict / set order) is decidable-sufficient: the values equal to a
    well-formed [a] up to that order are exactly the finitely many reorderings of [a] (every
    permutation of every dict's items and of every set's members, at every depth), so checking
    [okbb] on the enumeration proves [okb_all].  No hypothesis on [conv]. *)
From Coq Require Import List ZArith NArith Bool Arith Lia Permutation.
Import ListNotations.
From DD Require Import Base.PyStr Base.Value Base.ValueFacts Path.PathModel Diff.Tree Diff.DiffModel
  Delta.DeltaModel Delta.DeltaGuard Delta.DeltaGood Delta.DeltaRoundtrip Delta.DeltaChain Delta.DeltaChainRun.

(* ---- all permutations of a list, all choices from a list of lists ---- *)
Section Enum.
Context {A : Type}.

Fixpoint inserts (x : A) (l : list A) : list (list A) :=
  match l with
  | [] => [[x]]
  | y :: r => (x :: l) :: map (cons y) (inserts x r)
  end.
Fixpoint perms (l : list A) : list (list A) :=
  match l with
  | [] => [[]]
  | x :: r => flat_map (inserts x) (perms r)
  end.
Fixpoint prodl (ls : list (list A)) : list (list A) :=
  match ls with
  | [] => [[]]
  | l :: r => flat_map (fun x => map (cons x) (prodl r)) l
  end.

Lemma inserts_mid x l1 l2 : In (l1 ++ x :: l2) (inserts x (l1 ++ l2)).
Proof.
  induction l1 as [|y l1 IH]; cbn.
  - destruct l2; cbn; left; reflexivity.
  - right. apply in_map. exact IH.
Qed.

Lemma perms_complete l : forall l', Permutation l l' -> In l' (perms l).
Proof.
  induction l as [|x r IH]; intros l' P.
  - apply Permutation_nil in P. subst. left. reflexivity.
  - assert (Hx : In x l') by (eapply Permutation_in; [exact P|left; reflexivity]).
    apply in_split in Hx as (l1 & l2 & ->). apply Permutation_cons_app_inv in P.
    cbn. apply in_flat_map. exists (l1 ++ l2). split; [apply IH; exact P|apply inserts_mid].
Qed.

Lemma prodl_complete xs : forall ls, Forall2 (fun x l => In x l) xs ls -> In xs (prodl ls).
Proof.
  induction xs as [|x xs IH]; intros ls H; inversion H; subst; cbn.
  - left. reflexivity.
  - apply in_flat_map. exists x. split; [assumption|]. apply in_map. apply IH. assumption.
Qed.
End Enum.

(* ---- the reorderings of a value ---- *)
Fixpoint reorders (v : value) : list value :=
  match v with
  | VAtom _ => [v]
  | VList xs => map VList (prodl (map reorders xs))
  | VTuple xs => map VTuple (prodl (map reorders xs))
  | VDict kvs => map VDict (flat_map perms (prodl (map (fun kv => map (pair (fst kv)) (reorders (snd kv))) kvs)))
  | VSet xs => map VSet (perms xs)
  | VFrozen xs => map VFrozen (perms xs)
  end.

Lemma reorders_items vs xs :
  Forall (fun x => forall v, veqb v x = true -> wf x = true -> In v (reorders x)) xs ->
  Forall2 (fun w x => veqb w x = true) vs xs -> forallb wf xs = true ->
  Forall2 (fun w l => In w l) vs (map reorders xs).
Proof.
  intros IH H. revert IH. induction H as [|w x vs xs Hwx H IHH]; intros IH W; cbn; [constructor|].
  apply Forall_cons_iff in IH as [Hx IH]. cbn in W. apply andb_true_iff in W as [Wx W].
  constructor; [apply Hx; assumption|apply IHH; assumption].
Qed.

Lemma set_perm (vs xs : list atom) :
  Nat.eqb (length vs) (length xs) && forallb (fun x => has_atom x xs) vs && forallb (fun y => has_atom y vs) xs = true ->
  nodup_atoms xs = true -> Permutation xs vs.
Proof.
  intros V W. apply andb_true_iff in V as [V V3]. apply andb_true_iff in V as [V1 V2]. apply Nat.eqb_eq in V1.
  apply NoDup_Permutation_bis; [apply nodup_NoDup'; exact W|lia|].
  intros k Hk. eapply forallb_forall in V3; [|exact Hk]. apply has_atom_In. exact V3.
Qed.

(* every value equal to a up to dict / set order is one of the reorderings of a *)
Theorem reorders_complete : forall a v, veqb v a = true -> wf a = true -> In v (reorders a).
Proof.
  induction a as [x|xs IH|xs IH|kvs IH|xs|xs] using value_ind'; intros v V W;
    destruct v as [y|vs|vs|kvb|vs|vs]; try (cbn in V; discriminate V).
  - cbn in V. apply atom_eqb_eq in V. subst. left. reflexivity.
  - rewrite veqb_list in V. apply all2_Forall2 in V. cbn [wf] in W. cbn [reorders]. apply in_map. apply prodl_complete.
    apply reorders_items; assumption.
  - rewrite veqb_tuple in V. apply all2_Forall2 in V. cbn [wf] in W. cbn [reorders]. apply in_map. apply prodl_complete.
    apply reorders_items; assumption.
  - (* dicts: the items of kvs, each with the value kvb holds under its key, are a permutation of kvb *)
    pose proof V as V0. rewrite veqb_dict in V. apply andb_true_iff in V as [V V3]. apply andb_true_iff in V as [V1 V2].
    apply Nat.eqb_eq in V1. cbn [wf] in W. apply andb_true_iff in W as [N W].
    assert (KEY : forall k x, In (k, x) kvs -> exists w, In (k, w) kvb /\ veqb w x = true).
    { intros k x Hin. assert (Hk : In k (map fst kvs)) by (apply in_map_iff; exists (k, x); split; [reflexivity|exact Hin]).
      eapply forallb_forall in V2; [|exact Hk]. apply has_atom_In in V2. apply in_map_iff in V2 as ([k0 w] & E0 & Hw). cbn in E0. subst k0.
      exists w. split; [exact Hw|]. destruct (dict_veq_elim kvs kvb V3 k w Hw) as (x' & L & E).
      rewrite (lookup_nodup kvs k x N Hin) in L. inversion L; subst. exact E. }
    set (pick := fun kv : atom * value => (fst kv, match lookup (fst kv) kvb with Some w => w | None => snd kv end)).
    assert (Nb : nodup_atoms (map fst kvb) = true).
    { destruct (veqb_facts (VDict kvb) (VDict kvs) V0) as (Wb & _); [cbn [wf]; rewrite N, W; reflexivity|].
      cbn [wf] in Wb. apply andb_true_iff in Wb as [Nb _]. exact Nb. }
    assert (PICK : forall k x, In (k, x) kvs -> In (pick (k, x)) kvb /\ veqb (snd (pick (k, x))) x = true).
    { intros k x Hin. destruct (KEY k x Hin) as (w & Hw & E). unfold pick. cbn [fst snd].
      rewrite (lookup_nodup kvb k w Nb Hw). split; assumption. }
    cbn [reorders]. apply in_map. apply in_flat_map. exists (map pick kvs). split.
    + apply prodl_complete. clear V0 V1 V2 V3 N KEY Nb.
      assert (SUB : forall kv, In kv kvs -> In kv kvs) by (intros; assumption). revert SUB.
      generalize kvs at 1 3 4 as l. intros l SUB. induction l as [|[k x] l IHl]; cbn [map]; [constructor|].
      constructor.
      * destruct (PICK k x (SUB _ (or_introl eq_refl))) as [_ E]. unfold pick at 1. cbn [fst snd] in *.
        apply in_map. eapply Forall_forall in IH; [|apply (SUB _ (or_introl eq_refl))]. cbn [snd] in IH. apply IH; [exact E|].
        eapply forallb_forall in W; [|apply (SUB _ (or_introl eq_refl))]. exact W.
      * apply IHl. intros kv Hkv. apply SUB. right. exact Hkv.
    + apply perms_complete. apply NoDup_Permutation_bis.
      * apply (NoDup_map_inv fst). rewrite map_map. unfold pick. cbn [fst]. apply nodup_NoDup'. exact N.
      * rewrite map_length. lia.
      * intros kv Hkv. apply in_map_iff in Hkv as ([k x] & <- & Hin). apply (PICK k x Hin).
  - cbn in V. cbn [wf] in W. cbn [reorders]. apply in_map. apply perms_complete. apply set_perm; assumption.
  - cbn in V. cbn [wf] in W. cbn [reorders]. apply in_map. apply perms_complete. apply set_perm; assumption.
Qed.

(* ---- the decidable sufficient condition ---- *)
Section AllB.
Variable conv : ty -> value -> option value.
Variables bidir always : bool.

Definition okb_allb (a b : value) : bool := forallb (fun v => okbb conv bidir always v a b) (reorders a).

Theorem okb_allb_sound a b : wf a = true -> okb_allb a b = true -> okb_all conv bidir always a b.
Proof.
  intros W H v _ V. apply okbb_iff. unfold okb_allb in H. eapply forallb_forall in H; [exact H|].
  apply reorders_complete; assumption.
Qed.

(* a failing reordering refutes it *)
Lemma okb_all_refute a b v : wf v = true -> veqb v a = true -> okbb conv bidir always v a b = false ->
  ~ okb_all conv bidir always a b.
Proof. intros W V F H. apply (okbb_false conv bidir always v a b F). apply H; assumption. Qed.

Fixpoint chain_okvb (prev : value) (rest : list value) : bool :=
  match rest with
  | [] => true
  | t :: r => okb_allb prev t && chain_okvb t r
  end.

Theorem chain_okvb_sound rest : forall prev, wf prev = true -> forallb wf rest = true ->
  chain_okvb prev rest = true -> chain_okv conv bidir always prev rest.
Proof.
  induction rest as [|t r IH]; intros prev W WR H; [exact I|].
  cbn in WR, H. apply andb_true_iff in WR as [Wt WR]. apply andb_true_iff in H as [H1 H2].
  split; [apply okb_allb_sound; assumption|apply IH; assumption].
Qed.
End AllB.

(* the enumeration on the witness of DeltaExamples / DeltaChainRun: 2 reorderings of rb_t1, the second refutes *)
Lemma reorders_example :
  List.length (reorders DeltaExamples.rb_t1) = 2 /\ In DeltaExamples.rb_v (reorders DeltaExamples.rb_t1) /\
  okb_allb DeltaExamples.keys_conv false false DeltaExamples.rb_t1 DeltaExamples.rb_t2 = false /\
  okb_allb DeltaExamples.keys_conv false true DeltaExamples.rb_t1 DeltaExamples.rb_t2 = true /\
  okb_allb DeltaExamples.conv_none false false DeltaExamples.cv0 DeltaExamples.cv1 = true /\
  List.length (reorders DeltaExamples.cv0) = 8.
Proof. vm_compute. repeat split; try reflexivity. right. left. reflexivity. Qed.

Print Assumptions reorders_complete.
Print Assumptions okb_allb_sound.
Print Assumptions chain_okvb_sound.

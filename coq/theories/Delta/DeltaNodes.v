(** C01 - node lemmas: the round trip for the pairs at which the ordered diff
    does not recurse (atoms, type changes, whole-dict replacement, sets, tuples,
    all-atom lists under difflib alignment). *)
From Coq Require Import List ZArith NArith Bool Arith Lia Permutation.
Import ListNotations.
From DD Require Import Base.PyStr Base.Value Base.ValueFacts Path.PathModel Diff.Tree Diff.DiffModel
  Diff.DiffFacts Diff.DiffFaithful Delta.DeltaModel Delta.DeltaFacts Delta.DeltaLocal Delta.DeltaEntries
  Delta.DeltaStruct Delta.DeltaRun Delta.DeltaGuard Delta.DeltaGood.

Lemma skipn_npath_self q : skipn (length q) (npath q) = [].
Proof. rewrite <- (app_nil_r q) at 2. apply skipn_npath. Qed.

Section Nodes.
Variable hatom : atom -> pystr.
Variable udiff : pystr -> pystr -> pystr.
Variable ops : path -> list value -> list value -> list opcode.
Variable c : cfg.
Variable conv : ty -> value -> option value.
Variables bidir always : bool.
Notation E := (E hatom udiff ops c).
Notation D := (D hatom udiff ops c conv bidir always).
Notation GoodD := (GoodD conv bidir always).
Notation Good := (Good hatom udiff ops c conv bidir always).
Notation tc_guard := (tc_guard conv bidir always).
Notation irun := (irun conv bidir).
Notation finish := (finish conv bidir).

(* ---- one values_changed entry for the node itself ---- *)
Lemma good_single_value T1 T2 t1 t2 q dd :
  wf t1 = true -> wf t2 = true ->
  GoodD (to_delta conv bidir always ops T1 T2 [mkEntry KValue q q (Some t1) (Some t2) dd] []) (length q) t1 t2.
Proof.
  intros W1 W2. split; [reflexivity|]. intros v Wv Vv _.
  destruct (veqb_facts v t1 Vv W1) as (_ & _ & PE).
  apply runs_inplace; try reflexivity.
  - unfold p1, p2, p3, p4, p5. cbn. rewrite skipn_npath_self. cbn.
    unfold vc_step, current_at, finish. cbn. destruct bidir; cbn; [rewrite PE|]; reflexivity.
  - unfold p1, p2, p3, p4, p5. cbn. rewrite skipn_npath_self. cbn.
    unfold vc_step, current_at, finish. cbn. destruct bidir; cbn; [rewrite PE|]; cbn; apply veqb_refl; exact W2.
Qed.

(* ---- one type_changes entry for the node itself ---- *)
Lemma good_single_type T1 T2 t1 t2 q :
  ty_eqb (type_of t1) (type_of t2) = false -> wf t1 = true -> wf t2 = true ->
  GoodD (to_delta conv bidir always ops T1 T2 [mkEntry KType q q (Some t1) (Some t2) None] []) (length q) t1 t2.
Proof.
  intros T W1 W2. split; [reflexivity|]. intros v Wv Vv OB. pose proof (okb_tc conv bidir always v t1 t2 T OB) as G.
  destruct (veqb_facts v t1 Vv W1) as (_ & _ & PE).
  assert (X : forall s, s = finish (irun (map (istrip (length q))
               (p1 (to_delta conv bidir always ops T1 T2 [mkEntry KType q q (Some t1) (Some t2) None] []) ++
                p2 (to_delta conv bidir always ops T1 T2 [mkEntry KType q q (Some t1) (Some t2) None] []) ++
                p3 (to_delta conv bidir always ops T1 T2 [mkEntry KType q q (Some t1) (Some t2) None] []) ++
                p4 (to_delta conv bidir always ops T1 T2 [mkEntry KType q q (Some t1) (Some t2) None] []) ++
                p5 (to_delta conv bidir always ops T1 T2 [mkEntry KType q q (Some t1) (Some t2) None] []))) (mkSt v [] 0)) ->
             errs s = 0 /\ veqb (root s) t2 = true).
  { intros s ->. unfold p1, p2, p3, p4, p5. cbn. rewrite skipn_npath_self. cbn.
    unfold tc_step, current_at, finish. cbn.
    destruct (bidir || always) eqn:I; cbn.
    - destruct bidir; cbn; [rewrite PE|]; cbn; split; try reflexivity; apply veqb_refl; exact W2.
    - apply orb_false_iff in I as [-> ->]. cbn.
      destruct (conv (type_of t2) t1) as [a'|] eqn:Cv; cbn.
      + destruct (py_eqv a' t2) eqn:Ev; cbn.
        * destruct G as [G|G]; [discriminate|]. destruct (G a' Cv Ev) as (v' & Cv' & Vv'). rewrite Cv'. cbn. split; [reflexivity|exact Vv'].
        * split; [reflexivity|apply veqb_refl; exact W2].
      + split; [reflexivity|apply veqb_refl; exact W2]. }
  apply runs_inplace; try reflexivity; apply (X _ eq_refl).
Qed.


Lemma mutual_single e : iterk e = false -> mutual [e] = [e].
Proof.
  intros H. apply mutual_id. intros a r [<-|[]] _ K. unfold iterk in H. rewrite K in H. discriminate.
Qed.

Lemma ty_eqb_refl t : ty_eqb t t = true.
Proof. destruct t; reflexivity. Qed.

Lemma diff_atom_cases a b q : atom_ty a = atom_ty b ->
  (diff_atom udiff nos a b q q = [] /\ a = b) \/
  exists d, diff_atom udiff nos a b q q = [mkEntry KValue q q (Some (VAtom a)) (Some (VAtom b)) d].
Proof.
  intros T. unfold diff_atom. cbn [nos]. rewrite T, ty_eqb_refl. cbn [negb].
  destruct a as [|x|x|x|x|x], b as [|y|y|y|y|y]; try discriminate T;
    try (destruct (py_eq _ _) eqn:P; [left; split; [reflexivity|apply py_eq_same_ty; assumption]|right; eexists; reflexivity]).
  - unfold diff_str. destruct (pystr_eqb x y) eqn:P.
    + left. split; [reflexivity|]. apply pystr_eqb_eq in P. congruence.
    + right. destruct (true && _); eexists; reflexivity.
  - unfold diff_str. destruct (pystr_eqb x y) eqn:P.
    + left. split; [reflexivity|]. apply pystr_eqb_eq in P. congruence.
    + right. destruct (_ && _); eexists; reflexivity.
Qed.

(* the delta of an empty entry list does nothing *)
Lemma good_empty T1 T2 t n :
  GoodD (to_delta conv bidir always ops T1 T2 [] []) n t t.
Proof.
  split; [reflexivity|]. intros v Wv Vv _. apply runs_inplace; try reflexivity. exact Vv.
Qed.

Lemma Good_type t1 t2 q :
  ty_eqb (type_of t1) (type_of t2) = false -> wf t1 = true -> wf t2 = true -> Good t1 t2 q.
Proof.
  intros T W1 W2 T1 T2 _ _. unfold DeltaGood.D, DeltaGood.E. rewrite diff_type by (try reflexivity; exact T).
  cbn [fst snd report nos]. rewrite mutual_single by reflexivity. apply good_single_type; assumption.
Qed.

Lemma Good_atom a b q : Good (VAtom a) (VAtom b) q.
Proof.
  destruct (ty_eqb (atom_ty a) (atom_ty b)) eqn:T.
  - intros T1 T2 _ _. unfold DeltaGood.D, DeltaGood.E. rewrite diff_atom_eq by reflexivity. rewrite T. cbn [negb fst snd].
    apply ty_eqb_true in T. destruct (diff_atom_cases a b q T) as [[-> ->]|[d ->]].
    + cbn [mutual]. apply good_empty.
    + rewrite mutual_single by reflexivity. apply good_single_value; reflexivity.
  - apply Good_type; try reflexivity. exact T.
Qed.

End Nodes.

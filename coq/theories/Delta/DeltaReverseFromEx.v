(** C08, round 3: the hypotheses of the default-mode inversion theorems are
    satisfiable TOGETHER, including the opcode-oracle hypothesis (a GLOBAL oracle that
    is a valid alignment of every pair of all-atom lists): the oracle answers with
    difflib's opcodes on the K17 pair ['a','b','a','b'] -> ['c','a','b','b','a'] (a
    clash case: index 3 is both removed and added) and with the one-block alignment
    everywhere else. *)
From Coq Require Import List ZArith NArith Bool Arith String Lia Permutation.
Import ListNotations.
From DD Require Import Base.PyStr Base.Value Base.ValueFacts Path.PathModel
  Diff.Tree Diff.DiffModel Diff.DiffFacts Diff.DiffFaithful Diff.DiffPaths Diff.DiffShow
  Delta.DeltaModel Delta.DeltaGuard Delta.DeltaRun Delta.DeltaGood Delta.DeltaChain Delta.DeltaExamples
  Delta.DeltaVerify Delta.DeltaVerifyIndep Delta.DeltaVerifyHyp Delta.DeltaReverse Delta.DeltaReverseInplace
  Delta.DeltaReverseSym Delta.DeltaReverseDefault Delta.DeltaReverseSeq Delta.DeltaReverseFrom.

(* the coarsest valid alignment: one replace / insert / delete block *)
Definition triv_ops (xs ys : list value) : list opcode :=
  match xs, ys with
  | [], [] => []
  | [], _ :: _ => [mkOp OInsert 0 0 0 (List.length ys)]
  | _ :: _, [] => [mkOp ODelete 0 (List.length xs) 0 0]
  | _ :: _, _ :: _ => [mkOp OReplace 0 (List.length xs) 0 (List.length ys)]
  end.

Lemma triv_ops_valid xs ys : valid_ops xs ys (triv_ops xs ys).
Proof.
  destruct xs as [|x xs], ys as [|y ys]; cbn [triv_ops]; split.
  - cbn. auto.
  - constructor.
  - cbn. repeat split; lia.
  - constructor; [|constructor]. unfold block_ok. cbn. lia.
  - cbn. repeat split; lia.
  - constructor; [|constructor]. unfold block_ok. cbn. lia.
  - cbn. repeat split; lia.
  - constructor; [|constructor]. unfold block_ok. cbn. lia.
Qed.

Lemma triv_ops_sorted xs ys : ops_ok2 0 0 (triv_ops xs ys) = true.
Proof. destruct xs, ys; reflexivity. Qed.

Definition k17_xs : list value := map (fun ch => VAtom (AStr [ch])) [97; 98; 97; 98]%N.
Definition k17_ys : list value := map (fun ch => VAtom (AStr [ch])) [99; 97; 98; 98; 97]%N.

Definition k17g_ops (p : path) (xs ys : list value) : list opcode :=
  if vlist_eqb xs k17_xs && vlist_eqb ys k17_ys then k17_ops p xs ys else triv_ops xs ys.

Lemma vlist_eqb_eq xs ys : vlist_eqb xs ys = true -> xs = ys.
Proof.
  intros H. rewrite <- value_eqb_list in H. apply value_eqb_eq in H. congruence.
Qed.

Lemma k17g_valid p xs ys : valid_ops xs ys (k17g_ops p xs ys).
Proof.
  unfold k17g_ops. destruct (vlist_eqb xs k17_xs && vlist_eqb ys k17_ys) eqn:E; [|apply triv_ops_valid].
  apply andb_true_iff in E as [E1 E2]. apply vlist_eqb_eq in E1, E2. subst.
  apply valid_opsb_sound. vm_compute. reflexivity.
Qed.

Lemma k17g_sorted : ops_sorted2 k17g_ops.
Proof.
  intros p xs ys. unfold k17g_ops. destruct (_ && _); [reflexivity|apply triv_ops_sorted].
Qed.

Definition k17g_cfg : cfg := mkCfg false 33 100 true.
Definition k17g_r := run_diff hatom_ex (fun _ _ => []) k17g_ops DeltaReverseSym.nos DeltaReverseSym.nos k17g_cfg k17_t1 k17_t2.
Definition k17g_d : delta := to_delta conv_none true false k17g_ops k17_t1 k17_t2 (fst k17g_r) (snd k17g_r).
Definition id_ro (l : list (path * value)) := l.
Definition id_ao (l : list (path * option value)) := l.

(* a clash case with recorded opcodes and a merged value change *)
Lemma k17g_shape :
  no_clashb (fst (diff hatom_ex (fun _ _ => []) k17g_ops DeltaReverseSym.nos DeltaReverseSym.nos k17g_cfg k17_t1 k17_t2 [] [])) = false /\
  d_ops k17g_d <> [] /\ d_val k17g_d <> [].
Proof. split; [vm_compute; reflexivity|split; vm_compute; discriminate]. Qed.

Lemma orders_nil ro ao d : d_irem d = [] -> d_drem d = [] -> d_iadd d = [] -> ro [] = [] -> ao [] = [] -> orders_ok_at ro ao d.
Proof. intros E1 E2 E3 R A. unfold orders_ok_at. rewrite E1, E2, E3. cbn [map]. rewrite R, A. repeat split; constructor. Qed.

Theorem k17g_all_hypotheses :
  thr_num k17g_cfg <= thr_den k17g_cfg /\
  (forall p xs ys, forallb is_atom xs = true -> forallb is_atom ys = true -> valid_ops xs ys (k17g_ops p xs ys)) /\
  guards k17g_cfg conv_none true false k17_t2 k17_t1 /\ guards k17g_cfg conv_none true false k17_t1 k17_t2 /\
  ordfree k17_t1 = true /\ ordfree k17_t2 = true /\
  orders_ok_at id_ro id_ao k17g_d /\ orders_ok_at id_ro id_ao (reverse k17g_d) /\
  ops_sorted2 k17g_ops /\ (forall cc, In cc (d_val (reverse k17g_d)) -> ntp k17_t2 (vc_path cc)).
Proof.
  split; [cbn; lia|]. split; [intros; apply k17g_valid|].
  split; [apply (guardsb_sound _ _ _ _ conv_none_typed); vm_compute; reflexivity|]. split; [apply (guardsb_sound _ _ _ _ conv_none_typed); vm_compute; reflexivity|].
  split; [reflexivity|]. split; [reflexivity|].
  split; [apply orders_nil; reflexivity|]. split; [apply orders_nil; reflexivity|].
  split; [exact k17g_sorted|]. apply ntp_valsb_sound. vm_compute. reflexivity.
Qed.

(* hence, by the theorem (not by computation): t1 + d = t2, t2 - d = t1 and every
   alternating sequence, exactly *)
Theorem k17g_back_and_forth k :
  run_seq conv_none id_ro id_ao k17g_d (alternating Plus k) k17_t1 = Some (if Nat.even k then k17_t1 else k17_t2, 0) /\
  run_seq conv_none id_ro id_ao k17g_d (alternating Minus k) k17_t2 = Some (if Nat.even k then k17_t2 else k17_t1, 0).
Proof.
  destruct k17g_all_hypotheses as (H1 & H2 & G21 & G12 & O1 & O2 & HOf & HOr & S2 & N).
  apply (back_and_forth_exact hatom_ex (fun _ _ => []) k17g_ops k17g_cfg conv_none false H1 hatom_ex_inj conv_none_typed
           id_ro id_ao H2 k17_t1 k17_t2 G21 O1 HOr (or_intror (conj (or_intror S2) N)) G12 O2 HOf k).
Qed.

(* ---- a pair with a dict, a set, a grown list, a removed key and a type change, in
   DEFAULT mode with the same global oracle: the guards of the up-to-order theorems ---- *)
From DD Require Import Delta.DeltaVerifyEx.

Definition ex2g_cfg : cfg := mkCfg false 0 1 true.
Definition ex2g_r := run_diff hatom_ex (fun _ _ => []) k17g_ops DeltaReverseSym.nos DeltaReverseSym.nos ex2g_cfg ex2_t1 ex2_t2.
Definition ex2g_d : delta := to_delta conv_none true false k17g_ops ex2_t1 ex2_t2 (fst ex2g_r) (snd ex2g_r).

Lemma FOP_short {A} (R : A -> A -> Prop) l : List.length l <= 1 -> ForallOrdPairs R l.
Proof. destruct l as [|x [|y l]]; cbn; intros H; [constructor|constructor; constructor|lia]. Qed.

Lemma orders_short d :
  List.length (d_irem d) <= 1 -> List.length (d_drem d) <= 1 -> List.length (d_iadd d) <= 1 -> orders_ok_at id_ro id_ao d.
Proof.
  intros H1 H2 H3. unfold orders_ok_at, id_ro, id_ao.
  repeat split; try apply Permutation_refl; apply FOP_short; try assumption. rewrite map_length. exact H3.
Qed.

Theorem ex2g_all_hypotheses :
  zip ex2g_cfg = false /\
  guards ex2g_cfg conv_none true false ex2_t2 ex2_t1 /\ guards ex2g_cfg conv_none true false ex2_t1 ex2_t2 /\
  korder ex2_t1 ex2_t2 /\ orders_ok_at id_ro id_ao ex2g_d /\ orders_ok_at id_ro id_ao (reverse ex2g_d) /\
  no_clash (fst (diff hatom_ex (fun _ _ => []) k17g_ops DeltaReverseSym.nos DeltaReverseSym.nos ex2g_cfg ex2_t1 ex2_t2 [] [])) /\
  ordfree ex2_t1 = false /\
  d_sadd ex2g_d <> [] /\ d_iadd ex2g_d <> [] /\ d_drem ex2g_d <> [] /\ d_type ex2g_d <> [].
Proof.
  split; [reflexivity|].
  split; [apply (guardsb_sound _ _ _ _ conv_none_typed); vm_compute; reflexivity|].
  split; [apply (guardsb_sound _ _ _ _ conv_none_typed); vm_compute; reflexivity|].
  split; [apply korderb_sound; vm_compute; reflexivity|].
  split; [apply orders_short; vm_compute; lia|]. split; [apply orders_short; vm_compute; lia|].
  split; [apply no_clashb_sound; vm_compute; reflexivity|]. split; [reflexivity|].
  repeat split; vm_compute; discriminate.
Qed.

Theorem ex2g_back_and_forth k :
  (exists v, run_seq conv_none id_ro id_ao ex2g_d (alternating Plus k) ex2_t1 = Some (v, 0) /\
             veqb v (if Nat.even k then ex2_t1 else ex2_t2) = true) /\
  (exists v, run_seq conv_none id_ro id_ao ex2g_d (alternating Minus k) ex2_t2 = Some (v, 0) /\
             veqb v (if Nat.even k then ex2_t2 else ex2_t1) = true).
Proof.
  destruct ex2g_all_hypotheses as (_ & G21 & G12 & KO & HOf & HOr & NC & _).
  apply (back_and_forth_default hatom_ex (fun _ _ => []) k17g_ops ex2g_cfg conv_none false ltac:(cbn; lia) hatom_ex_inj conv_none_typed
           id_ro id_ao (fun p xs ys _ _ => k17g_valid p xs ys) ex2_t1 ex2_t2 G21 KO HOr (or_introl NC) G12 HOf k).
Qed.

(** C01 - the result relation (typed equality up to dict insertion order and set
    iteration order) and the guards of the round-trip theorem. *)
From Coq Require Import List ZArith NArith Bool Arith Lia Permutation.
Import ListNotations.
From DD Require Import Base.PyStr Base.Value Base.ValueFacts Path.PathModel Diff.Tree Diff.DiffModel
  Diff.DiffFacts Diff.DiffFaithful.

(* ---- typed equality up to dict insertion order and set order ---- *)
Definition has_atom (a : atom) (l : list atom) : bool := existsb (atom_eqb a) l.
Definition lookup {B} (k : atom) (l : list (atom * B)) : option B :=
  match find (fun kv => atom_eqb (fst kv) k) l with Some kv => Some (snd kv) | None => None end.

Fixpoint veqb (a b : value) {struct a} : bool :=
  match a, b with
  | VAtom x, VAtom y => atom_eqb x y
  | VList xs, VList ys | VTuple xs, VTuple ys =>
      (fix go (xs ys : list value) {struct xs} : bool :=
         match xs, ys with
         | [], [] => true
         | x :: xs', y :: ys' => veqb x y && go xs' ys'
         | _, _ => false
         end) xs ys
  | VDict xs, VDict ys =>
      Nat.eqb (length xs) (length ys) &&
      forallb (fun k => has_atom k (map fst xs)) (map fst ys) &&
      (fix go (l : list (atom * value)) : bool :=
         match l with
         | [] => true
         | (k, v) :: l' => match lookup k ys with
                           | Some v' => veqb v v'
                           | None => false
                           end && go l'
         end) xs
  | VSet xs, VSet ys | VFrozen xs, VFrozen ys =>
      Nat.eqb (length xs) (length ys) && forallb (fun x => has_atom x ys) xs && forallb (fun y => has_atom y xs) ys
  | _, _ => false
  end.

Fixpoint all2 {A} (f : A -> A -> bool) (xs ys : list A) : bool :=
  match xs, ys with
  | [], [] => true
  | x :: xs', y :: ys' => f x y && all2 f xs' ys'
  | _, _ => false
  end.

Lemma veqb_list xs ys : veqb (VList xs) (VList ys) = all2 veqb xs ys.
Proof. cbn. revert ys; induction xs as [|x xs IH]; intros [|y ys]; cbn; try reflexivity. rewrite IH. reflexivity. Qed.
Lemma veqb_tuple xs ys : veqb (VTuple xs) (VTuple ys) = all2 veqb xs ys.
Proof. cbn. revert ys; induction xs as [|x xs IH]; intros [|y ys]; cbn; try reflexivity. rewrite IH. reflexivity. Qed.

Definition dict_veq (ys : list (atom * value)) :=
  fix go (l : list (atom * value)) : bool :=
    match l with
    | [] => true
    | (k, v) :: l' => match lookup k ys with
                      | Some v' => veqb v v'
                      | None => false
                      end && go l'
    end.
Lemma veqb_dict xs ys :
  veqb (VDict xs) (VDict ys) =
  Nat.eqb (length xs) (length ys) && forallb (fun k => has_atom k (map fst xs)) (map fst ys) && dict_veq ys xs.
Proof. reflexivity. Qed.

Lemma dict_veq_intro ys xs :
  (forall k v, In (k, v) xs -> exists v', lookup k ys = Some v' /\ veqb v v' = true) -> dict_veq ys xs = true.
Proof.
  induction xs as [|[k v] xs IH]; intros H; cbn; [reflexivity|].
  destruct (H k v (or_introl eq_refl)) as (v' & L & E). rewrite L, E. cbn. apply IH.
  intros k2 v2 H2. apply H. right. exact H2.
Qed.

Lemma all2_refl {A} (f : A -> A -> bool) xs : (forall x, In x xs -> f x x = true) -> all2 f xs xs = true.
Proof.
  induction xs as [|x xs IH]; intros H; cbn; [reflexivity|].
  rewrite (H x (or_introl eq_refl)). cbn. apply IH. intros y Hy. apply H. right. exact Hy.
Qed.

Lemma has_atom_In a l : has_atom a l = true <-> In a l.
Proof.
  unfold has_atom. rewrite existsb_exists. split.
  - intros (x & Hx & E). apply atom_eqb_eq in E. subst. exact Hx.
  - intros H. exists a. split; [exact H|apply atom_eqb_refl].
Qed.

(* ---- Python == is reflexive on well-formed values ---- *)
Lemma dict_go_rfl kvs : nodup_atoms (map fst kvs) = true ->
  forall l, (forall kv, In kv l -> In kv kvs) ->
  Forall (fun kv => py_eqv (snd kv) (snd kv) = true) l -> dict_go kvs l = true.
Proof.
  intros N. induction l as [|[k v] l IH]; intros Sub HF; cbn; [reflexivity|].
  apply Forall_cons_iff in HF as [Hv HF].
  rewrite (assoc_nodup kvs k v k N (Sub _ (or_introl eq_refl)) (py_eq_refl k)).
  cbn in Hv. rewrite Hv. cbn. apply IH; [|exact HF]. intros kv Hkv. apply Sub. right. exact Hkv.
Qed.

Lemma py_eqv_rfl : forall v, wf v = true -> py_eqv v v = true.
Proof.
  induction v as [a|xs IH|xs IH|kvs IH|xs|xs] using value_ind'; intros W.
  - cbn. apply py_eq_refl.
  - cbn in W. cbn. revert W. induction IH as [|x xs Hx _ IHxs]; intros W; [reflexivity|].
    cbn in W. apply andb_true_iff in W as [W1 W2]. rewrite (Hx W1). cbn. apply IHxs. exact W2.
  - cbn in W. cbn. revert W. induction IH as [|x xs Hx _ IHxs]; intros W; [reflexivity|].
    cbn in W. apply andb_true_iff in W as [W1 W2]. rewrite (Hx W1). cbn. apply IHxs. exact W2.
  - cbn in W. apply andb_true_iff in W as [N W]. rewrite py_eqv_dict, Nat.eqb_refl. cbn.
    apply dict_go_rfl; [exact N|intros kv H; exact H|].
    apply Forall_forall. intros kv Hkv. eapply Forall_forall in IH; [|exact Hkv]. apply IH.
    eapply forallb_forall in W; [|exact Hkv]. exact W.
  - cbn. rewrite Nat.eqb_refl. cbn. apply forallb_forall. intros x Hx. apply mem_atom_In.
    exists x. split; [exact Hx|apply py_eq_refl].
  - cbn. rewrite Nat.eqb_refl. cbn. apply forallb_forall. intros x Hx. apply mem_atom_In.
    exists x. split; [exact Hx|apply py_eq_refl].
Qed.

(* ---- guards ---- *)
(* every atom of a value: leaves, dict keys, set members *)
Fixpoint atoms_of (v : value) : list atom :=
  match v with
  | VAtom a => [a]
  | VList xs | VTuple xs => flat_map atoms_of xs
  | VDict kvs => flat_map (fun kv => fst kv :: atoms_of (snd kv)) kvs
  | VSet xs | VFrozen xs => xs
  end.

(* no two atoms that are == but not identical (finding KA) *)
Definition alias_free (l : list atom) : Prop :=
  forall a b, In a l -> In b l -> py_eq a b = true -> a = b.

Lemma alias_free_sub l l' : (forall a, In a l' -> In a l) -> alias_free l -> alias_free l'.
Proof. intros S H a b Ha Hb. apply H; apply S; assumption. Qed.

(* no dict key that ignore_private_variables would hide *)
Fixpoint nopriv (v : value) : bool :=
  match v with
  | VAtom _ | VSet _ | VFrozen _ => true
  | VList xs | VTuple xs => forallb nopriv xs
  | VDict kvs => forallb (fun kv => negb (private_key (fst kv)) && nopriv (snd kv)) kvs
  end.

(* difflib opcodes: the blocks tile both lists in order; equal blocks are ==-equal item by item *)
Fixpoint tiles (os : list opcode) (i j n m : nat) : Prop :=
  match os with
  | [] => i = n /\ j = m
  | o :: r => oi1 o = i /\ oj1 o = j /\ oi1 o <= oi2 o /\ oj1 o <= oj2 o /\ tiles r (oi2 o) (oj2 o) n m
  end.
Definition block_ok (xs ys : list value) (o : opcode) : Prop :=
  match otag o with
  | OEqual => oi2 o - oi1 o = oj2 o - oj1 o /\
              Forall2 (fun x y => py_eq_leaf x y = true) (slice xs (oi1 o) (oi2 o)) (slice ys (oj1 o) (oj2 o))
  | OReplace => oi1 o < oi2 o /\ oj1 o < oj2 o
  | ODelete => oi1 o < oi2 o /\ oj1 o = oj2 o
  | OInsert => oi1 o = oi2 o /\ oj1 o < oj2 o
  end.
Definition valid_ops (xs ys : list value) (os : list opcode) : Prop :=
  tiles os 0 0 (length xs) (length ys) /\ Forall (block_ok xs ys) os.

(* ---- veqb is reflexive on well-formed values ---- *)
Lemma lookup_nodup {B} (l : list (atom * B)) k v :
  nodup_atoms (map fst l) = true -> In (k, v) l -> lookup k l = Some v.
Proof.
  unfold lookup. induction l as [|[k0 v0] l IH]; cbn; intros N H; [destruct H|].
  apply andb_true_iff in N as [N0 N]. destruct H as [H|H].
  - inversion H; subst. rewrite atom_eqb_refl. reflexivity.
  - destruct (atom_eqb k0 k) eqn:E; [|apply IH; assumption].
    exfalso. apply atom_eqb_eq in E. subst k0. apply negb_true_iff in N0.
    assert (mem_atom k (map fst l) = true).
    { apply mem_atom_In. exists k. split; [apply in_map_iff; exists (k, v); split; [reflexivity|exact H]|apply py_eq_refl]. }
    congruence.
Qed.

Lemma veqb_refl : forall v, wf v = true -> veqb v v = true.
Proof.
  induction v as [a|xs IH|xs IH|kvs IH|xs|xs] using value_ind'; intros W.
  - cbn. apply atom_eqb_refl.
  - rewrite veqb_list. cbn in W. apply all2_refl. intros x Hx. eapply Forall_forall in IH; [|exact Hx]. apply IH.
    eapply forallb_forall in W; eassumption.
  - rewrite veqb_tuple. cbn in W. apply all2_refl. intros x Hx. eapply Forall_forall in IH; [|exact Hx]. apply IH.
    eapply forallb_forall in W; eassumption.
  - cbn in W. apply andb_true_iff in W as [N W]. rewrite veqb_dict, Nat.eqb_refl. cbn [andb].
    apply andb_true_iff. split.
    + apply forallb_forall. intros k Hk. apply has_atom_In. exact Hk.
    + apply dict_veq_intro. intros k v Hkv. exists v. split; [apply lookup_nodup; assumption|].
      eapply Forall_forall in IH; [|exact Hkv]. apply IH. eapply forallb_forall in W; [|exact Hkv]. exact W.
  - cbn. rewrite Nat.eqb_refl. cbn. apply andb_true_iff. split; apply forallb_forall; intros x Hx; apply has_atom_In; exact Hx.
  - cbn. rewrite Nat.eqb_refl. cbn. apply andb_true_iff. split; apply forallb_forall; intros x Hx; apply has_atom_In; exact Hx.
Qed.

(* ---- extensional criterion for dicts ---- *)
Lemma nodup_NoDup' l : nodup_atoms l = true -> NoDup l.
Proof.
  induction l as [|x l IH]; cbn; intros N; [constructor|].
  apply andb_true_iff in N as [Nx N]. apply negb_true_iff in Nx. constructor; [|apply IH; exact N].
  intros H. assert (mem_atom x l = true) by (apply mem_atom_In; exists x; split; [exact H|apply py_eq_refl]). congruence.
Qed.

Lemma veqb_dict_ext kvs kvs2 :
  nodup_atoms (map fst kvs) = true -> nodup_atoms (map fst kvs2) = true ->
  (forall k, In k (map fst kvs) -> In k (map fst kvs2)) ->
  (forall k, In k (map fst kvs2) -> In k (map fst kvs)) ->
  (forall k v v2, In (k, v) kvs -> In (k, v2) kvs2 -> veqb v v2 = true) ->
  veqb (VDict kvs) (VDict kvs2) = true.
Proof.
  intros N N2 S1 S2 HV. rewrite veqb_dict. apply andb_true_iff. split; [apply andb_true_iff; split|].
  - apply Nat.eqb_eq. rewrite <- (map_length fst kvs), <- (map_length fst kvs2).
    apply Permutation_length. apply NoDup_Permutation; try (apply nodup_NoDup'; assumption).
    intros k. split; [apply S1|apply S2].
  - apply forallb_forall. intros k Hk. apply has_atom_In. apply S2. exact Hk.
  - apply dict_veq_intro. intros k v Hkv.
    assert (Hk : In k (map fst kvs)) by (apply in_map_iff; exists (k, v); split; [reflexivity|exact Hkv]).
    apply S1 in Hk. apply in_map_iff in Hk as ([k0 v2] & E0 & H2). cbn in E0. subst k0.
    exists v2. split; [apply lookup_nodup; assumption|]. eapply HV; eassumption.
Qed.

(* ---- veqb versus Python equality and well-formedness ---- *)
Lemma nodup_atoms_char l :
  nodup_atoms l = true <-> NoDup l /\ forall a b, In a l -> In b l -> py_eq a b = true -> a = b.
Proof.
  induction l as [|x l IH]; cbn.
  - split; [intros _; split; [constructor|intros a b []]|reflexivity].
  - rewrite andb_true_iff, negb_true_iff, IH. split.
    + intros [Nx [ND PW]]. assert (Nin : ~ In x l).
      { intros H. assert (mem_atom x l = true) by (apply mem_atom_In; exists x; split; [exact H|apply py_eq_refl]). congruence. }
      split; [constructor; assumption|]. intros a b Ha Hb E. destruct Ha as [Ea|Ha], Hb as [Eb|Hb].
      * congruence.
      * subst a. exfalso. assert (mem_atom x l = true) by (apply mem_atom_In; exists b; split; assumption). congruence.
      * subst b. exfalso. rewrite py_eq_sym in E. assert (mem_atom x l = true) by (apply mem_atom_In; exists a; split; assumption). congruence.
      * apply PW; assumption.
    + intros [ND PW]. inversion ND as [|? ? Nx ND']; subst. split; [|split; [exact ND'|intros a b Ha Hb; apply PW; right; assumption]].
      destruct (mem_atom x l) eqn:M; [|reflexivity]. apply mem_atom_In in M as (b & Hb & E).
      assert (x = b) by (apply PW; [left; reflexivity|right; exact Hb|exact E]). subst b. contradiction.
Qed.

Lemma nodup_atoms_perm l l' : Permutation l l' -> nodup_atoms l = true -> nodup_atoms l' = true.
Proof.
  intros P H. apply nodup_atoms_char in H as [ND PW]. apply nodup_atoms_char. split.
  - eapply Permutation_NoDup; eassumption.
  - intros a b Ha Hb. apply PW; eapply Permutation_in; try (apply Permutation_sym; exact P); assumption.
Qed.

Lemma all2_Forall2 {A} (f : A -> A -> bool) xs ys : all2 f xs ys = true <-> Forall2 (fun x y => f x y = true) xs ys.
Proof.
  revert ys; induction xs as [|x xs IH]; intros [|y ys]; cbn; split; intros H; try discriminate; try constructor; try (inversion H; fail).
  - apply andb_true_iff in H as [H1 H2]. exact H1.
  - apply andb_true_iff in H as [H1 H2]. apply IH. exact H2.
  - inversion H; subst. apply andb_true_iff. split; [assumption|apply IH; assumption].
Qed.

Lemma lookup_In {B} k (l : list (atom * B)) v : lookup k l = Some v -> In (k, v) l.
Proof.
  unfold lookup. destruct (find _ l) as [[k' v']|] eqn:F; [|discriminate]. intros E. inversion E; subst.
  apply find_some in F as [Hin Ek]. cbn in Ek. apply atom_eqb_eq in Ek. subst. exact Hin.
Qed.

Lemma dict_veq_elim ys xs : dict_veq ys xs = true -> forall k v, In (k, v) xs -> exists v', lookup k ys = Some v' /\ veqb v v' = true.
Proof.
  induction xs as [|[k0 v0] xs IH]; cbn; intros H k v Hin; [destruct Hin|].
  apply andb_true_iff in H as [H1 H2]. destruct Hin as [E|Hin]; [inversion E; subst|apply IH; assumption].
  destruct (lookup k ys) as [v'|]; [exists v'; auto|discriminate].
Qed.

(* the key lists of two veqb dicts are permutations of each other *)
Lemma veqb_dict_keys xs ys : veqb (VDict xs) (VDict ys) = true -> NoDup (map fst ys) -> Permutation (map fst ys) (map fst xs).
Proof.
  rewrite veqb_dict. intros H ND. apply andb_true_iff in H as [H H3]. apply andb_true_iff in H as [H1 H2]. apply Nat.eqb_eq in H1.
  apply NoDup_Permutation_bis; [exact ND|rewrite !map_length; lia|].
  intros k Hk. eapply forallb_forall in H2; [|exact Hk]. apply has_atom_In. exact H2.
Qed.

Lemma veqb_facts : forall a b, veqb a b = true -> wf b = true ->
  wf a = true /\ py_eqv a b = true /\ py_eqv b a = true.
Proof.
  induction a as [x|xs IH|xs IH|kvs IH|xs|xs] using value_ind'; intros b V W; destruct b as [y|ys|ys|kvs2|ys|ys]; try (cbn in V; discriminate V).
  - cbn in V. apply atom_eqb_eq in V. subst. cbn. rewrite py_eq_refl. auto.
  - rewrite veqb_list in V. apply all2_Forall2 in V. cbn [wf] in W |- *.
    assert (Q : forallb wf xs = true /\ py_eqv (VList xs) (VList ys) = true /\ py_eqv (VList ys) (VList xs) = true).
    { revert IH W. induction V as [|x y xs ys Hxy V IHV]; intros IH W; [cbn; auto|].
      apply Forall_cons_iff in IH as [Hx IH]. cbn in W. apply andb_true_iff in W as [Wy W].
      destruct (Hx y Hxy Wy) as (A1 & A2 & A3). destruct (IHV IH W) as (B1 & B2 & B3).
      cbn. cbn in B2, B3. rewrite A1, A2, A3, B1, B2, B3. auto. }
    exact Q.
  - rewrite veqb_tuple in V. apply all2_Forall2 in V. cbn [wf] in W |- *.
    assert (Q : forallb wf xs = true /\ py_eqv (VTuple xs) (VTuple ys) = true /\ py_eqv (VTuple ys) (VTuple xs) = true).
    { revert IH W. induction V as [|x y xs ys Hxy V IHV]; intros IH W; [cbn; auto|].
      apply Forall_cons_iff in IH as [Hx IH]. cbn in W. apply andb_true_iff in W as [Wy W].
      destruct (Hx y Hxy Wy) as (A1 & A2 & A3). destruct (IHV IH W) as (B1 & B2 & B3).
      cbn. cbn in B2, B3. rewrite A1, A2, A3, B1, B2, B3. auto. }
    exact Q.
  - pose proof V as V0. rewrite veqb_dict in V. apply andb_true_iff in V as [V V3]. apply andb_true_iff in V as [V1 V2]. apply Nat.eqb_eq in V1.
    cbn [wf] in W. apply andb_true_iff in W as [N2 W2].
    pose proof (veqb_dict_keys kvs kvs2 V0 (nodup_NoDup' _ N2)) as PK.
    assert (N1 : nodup_atoms (map fst kvs) = true) by (eapply nodup_atoms_perm; eassumption).
    assert (EL : forall k v, In (k, v) kvs -> exists v', In (k, v') kvs2 /\ veqb v v' = true).
    { intros k v Hin. destruct (dict_veq_elim kvs2 kvs V3 k v Hin) as (v' & L & E). exists v'. split; [apply lookup_In; exact L|exact E]. }
    assert (CH : forall k v v', In (k, v) kvs -> In (k, v') kvs2 -> wf v = true /\ py_eqv v v' = true /\ py_eqv v' v = true).
    { intros k v v' H1 H2. destruct (EL k v H1) as (v'' & H2' & E).
      assert (v'' = v'). { pose proof (assoc_nodup kvs2 k v'' k N2 H2' (py_eq_refl k)) as A1. pose proof (assoc_nodup kvs2 k v' k N2 H2 (py_eq_refl k)) as A2. congruence. }
      subst v''. eapply Forall_forall in IH; [|exact H1]. apply (IH v' E). eapply forallb_forall in W2; [|exact H2]. exact W2. }
    split; [|split].
    + cbn [wf]. rewrite N1. cbn. apply forallb_forall. intros [k v] Hin. cbn. destruct (EL k v Hin) as (v' & H2 & _). apply (CH k v v' Hin H2).
    + rewrite py_eqv_dict. apply andb_true_iff. split; [apply Nat.eqb_eq; exact V1|].
      assert (G : forall l, (forall kv, In kv l -> In kv kvs) -> dict_go kvs2 l = true).
      { induction l as [|[k v] l IHl]; intros Sub; [reflexivity|]. cbn. destruct (EL k v (Sub _ (or_introl eq_refl))) as (v' & H2 & _).
        rewrite (assoc_nodup kvs2 k v' k N2 H2 (py_eq_refl k)). destruct (CH k v v' (Sub _ (or_introl eq_refl)) H2) as (_ & A & _). rewrite A. cbn.
        apply IHl. intros kv Hkv. apply Sub. right. exact Hkv. }
      apply G. intros kv H0. exact H0.
    + rewrite py_eqv_dict. apply andb_true_iff. split; [apply Nat.eqb_eq; lia|].
      assert (G : forall l, (forall kv, In kv l -> In kv kvs2) -> dict_go kvs l = true).
      { induction l as [|[k v'] l IHl]; intros Sub; [reflexivity|]. cbn.
        assert (Hk : In k (map fst kvs)).
        { eapply Permutation_in; [exact PK|]. apply in_map_iff. exists (k, v'). split; [reflexivity|apply Sub; left; reflexivity]. }
        apply in_map_iff in Hk as ([k0 v] & E0 & Hin). cbn in E0. subst k0.
        rewrite (assoc_nodup kvs k v k N1 Hin (py_eq_refl k)). destruct (CH k v v' Hin (Sub _ (or_introl eq_refl))) as (_ & _ & A). rewrite A. cbn.
        apply IHl. intros kv Hkv. apply Sub. right. exact Hkv. }
      apply G. intros kv H0. exact H0.
  - cbn in V. apply andb_true_iff in V as [V V3]. apply andb_true_iff in V as [V1 V2]. apply Nat.eqb_eq in V1. cbn [wf] in W |- *.
    assert (PK : Permutation ys xs).
    { apply NoDup_Permutation_bis; [apply nodup_NoDup'; exact W|lia|]. intros k Hk. eapply forallb_forall in V3; [|exact Hk]. apply has_atom_In. exact V3. }
    split; [eapply nodup_atoms_perm; eassumption|]. cbn. rewrite V1, Nat.eqb_refl. cbn. split.
    + apply forallb_forall. intros x Hx. apply mem_atom_In. exists x. split; [eapply Permutation_in; [apply Permutation_sym; exact PK|exact Hx]|apply py_eq_refl].
    + apply forallb_forall. intros y Hy. apply mem_atom_In. exists y. split; [eapply Permutation_in; [exact PK|exact Hy]|apply py_eq_refl].
  - cbn in V. apply andb_true_iff in V as [V V3]. apply andb_true_iff in V as [V1 V2]. apply Nat.eqb_eq in V1. cbn [wf] in W |- *.
    assert (PK : Permutation ys xs).
    { apply NoDup_Permutation_bis; [apply nodup_NoDup'; exact W|lia|]. intros k Hk. eapply forallb_forall in V3; [|exact Hk]. apply has_atom_In. exact V3. }
    split; [eapply nodup_atoms_perm; eassumption|]. cbn. rewrite V1, Nat.eqb_refl. cbn. split.
    + apply forallb_forall. intros x Hx. apply mem_atom_In. exists x. split; [eapply Permutation_in; [apply Permutation_sym; exact PK|exact Hx]|apply py_eq_refl].
    + apply forallb_forall. intros y Hy. apply mem_atom_In. exists y. split; [eapply Permutation_in; [exact PK|exact Hy]|apply py_eq_refl].
Qed.

(* values without dicts and sets: typed equality up to order is equality *)
Fixpoint ordfree (v : value) : bool :=
  match v with
  | VAtom _ => true
  | VList xs | VTuple xs => forallb ordfree xs
  | _ => false
  end.

Lemma all2_eq (f : value -> value -> bool) xs : forall ys,
  Forall (fun x => forall y, f x y = true -> ordfree y = true -> x = y) xs ->
  all2 f xs ys = true -> forallb ordfree ys = true -> xs = ys.
Proof.
  induction xs as [|x xs IH]; intros [|y ys] HF H O; cbn in H; try discriminate; [reflexivity|].
  apply Forall_cons_iff in HF as [Hx HF]. apply andb_true_iff in H as [H1 H2]. cbn in O. apply andb_true_iff in O as [O1 O2].
  f_equal; [apply Hx; assumption|apply IH; assumption].
Qed.

Lemma veqb_ordfree : forall a b, veqb a b = true -> ordfree b = true -> a = b.
Proof.
  induction a as [x|xs IH|xs IH|kvs IH|xs|xs] using value_ind'; intros b H O; destruct b; cbn in O; try discriminate O;
    try (cbn in H; discriminate H).
  - cbn in H. apply atom_eqb_eq in H. congruence.
  - rewrite veqb_list in H. f_equal. eapply all2_eq; eassumption.
  - rewrite veqb_tuple in H. f_equal. eapply all2_eq; eassumption.
Qed.


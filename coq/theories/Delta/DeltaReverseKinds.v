(** C08: [to_delta] reads a result tree only through, for every report kind,
    the sub-list of the entries of that kind, and never reads the diff text:
    two entry lists that agree on these ([keq]) give the same delta. *)
From Coq Require Import List ZArith NArith Bool Arith Lia.
Import ListNotations.
From DD Require Import Base.PyStr Base.Value Base.ValueFacts Path.PathModel
  Diff.Tree Diff.DiffModel Diff.DiffFacts Diff.DiffFaithful Delta.DeltaModel Delta.DeltaReverse.

Definition strip (e : entry) : entry := mkEntry (ekind e) (ep1 e) (ep2 e) (et1 e) (et2 e) None.
Definition ksub (k : rkind) (es : list entry) : list entry := map strip (filter (is_kind k) es).
Definition keq (es es' : list entry) : Prop := forall k, ksub k es = ksub k es'.

Lemma keq_refl es : keq es es.
Proof. intros k. reflexivity. Qed.
Lemma keq_sym a b : keq a b -> keq b a.
Proof. intros H k. symmetry. apply H. Qed.
Lemma keq_trans a b c : keq a b -> keq b c -> keq a c.
Proof. intros H1 H2 k. rewrite H1. apply H2. Qed.

Lemma ksub_app k a b : ksub k (a ++ b) = ksub k a ++ ksub k b.
Proof. unfold ksub. rewrite filter_app, map_app. reflexivity. Qed.

Lemma keq_app a a' b b' : keq a a' -> keq b b' -> keq (a ++ b) (a' ++ b').
Proof. intros H1 H2 k. rewrite !ksub_app, H1, H2. reflexivity. Qed.

Lemma is_kind_true k e : is_kind k e = true -> ekind e = k.
Proof. unfold is_kind. destruct (ekind e), k; cbn; intros H; try discriminate; reflexivity. Qed.
Lemma is_kind_refl e : is_kind (ekind e) e = true.
Proof. unfold is_kind. destruct (ekind e); reflexivity. Qed.

(* two blocks of different kinds may be exchanged *)
Lemma keq_swap a b :
  (forall x y, In x a -> In y b -> ekind x <> ekind y) -> keq (a ++ b) (b ++ a).
Proof.
  intros H k. rewrite !ksub_app. unfold ksub.
  destruct (filter (is_kind k) a) as [|x fa] eqn:Ea; [rewrite app_nil_r; reflexivity|].
  destruct (filter (is_kind k) b) as [|y fb] eqn:Eb; [rewrite app_nil_r; reflexivity|].
  exfalso.
  assert (Hx : In x (filter (is_kind k) a)) by (rewrite Ea; left; reflexivity).
  assert (Hy : In y (filter (is_kind k) b)) by (rewrite Eb; left; reflexivity).
  apply filter_In in Hx as [Hx Kx], Hy as [Hy Ky].
  apply (H x y Hx Hy). rewrite (is_kind_true _ _ Kx), (is_kind_true _ _ Ky). reflexivity.
Qed.

Lemma keq_flat_map {A} (f g : A -> list entry) l :
  (forall x, In x l -> keq (f x) (g x)) -> keq (flat_map f l) (flat_map g l).
Proof.
  induction l as [|x l IH]; cbn; intros H; [apply keq_refl|].
  apply keq_app; [apply H; left; reflexivity|apply IH; intros y Hy; apply H; right; exact Hy].
Qed.

(* a per-entry function that reacts to one kind only and ignores the diff text *)
Lemma flat_map_ksub {B} (K : rkind) (f : entry -> list B) es :
  (forall e, ekind e <> K -> f e = []) -> (forall e, f (strip e) = f e) ->
  flat_map f es = flat_map f (ksub K es).
Proof.
  intros H1 H2. unfold ksub. induction es as [|e es IH]; [reflexivity|].
  cbn [flat_map filter]. destruct (is_kind K e) eqn:E.
  - cbn [map flat_map]. rewrite H2, IH. reflexivity.
  - rewrite H1; [exact IH|]. intros Ek. subst K. rewrite is_kind_refl in E. discriminate.
Qed.

Lemma fold_left_ksub {C} (K : rkind) (h : C -> entry -> C) es : forall acc,
  (forall a e, ekind e <> K -> h a e = a) -> (forall a e, h a (strip e) = h a e) ->
  fold_left h es acc = fold_left h (ksub K es) acc.
Proof.
  intros acc H1 H2. unfold ksub. revert acc. induction es as [|e es IH]; intros acc; [reflexivity|].
  cbn [fold_left filter]. destruct (is_kind K e) eqn:E.
  - cbn [map fold_left]. rewrite H2. apply IH.
  - rewrite H1; [apply IH|]. intros Ek. subst K. rewrite is_kind_refl in E. discriminate.
Qed.

Theorem to_delta_keq conv bidir always ops T1 T2 es es' rec :
  keq es es' ->
  to_delta conv bidir always ops T1 T2 es rec = to_delta conv bidir always ops T1 T2 es' rec.
Proof.
  intros H. unfold to_delta. f_equal.
  - rewrite (flat_map_ksub KValue _ es), (flat_map_ksub KValue _ es'), (H KValue); try reflexivity;
      intros e N; destruct (ekind e); try reflexivity; congruence.
  - rewrite (flat_map_ksub KType _ es), (flat_map_ksub KType _ es'), (H KType); try reflexivity;
      intros e N; destruct (ekind e); try reflexivity; congruence.
  - rewrite (flat_map_ksub KDictAdd _ es), (flat_map_ksub KDictAdd _ es'), (H KDictAdd); try reflexivity;
      intros e N; destruct (ekind e); try reflexivity; congruence.
  - rewrite (flat_map_ksub KDictRem _ es), (flat_map_ksub KDictRem _ es'), (H KDictRem); try reflexivity;
      intros e N; destruct (ekind e); try reflexivity; congruence.
  - rewrite (flat_map_ksub KIterAdd _ es), (flat_map_ksub KIterAdd _ es'), (H KIterAdd); try reflexivity;
      intros e N; destruct (ekind e); try reflexivity; congruence.
  - rewrite (flat_map_ksub KIterRem _ es), (flat_map_ksub KIterRem _ es'), (H KIterRem); try reflexivity;
      intros e N; destruct (ekind e); try reflexivity; congruence.
  - rewrite (flat_map_ksub KIterMoved _ es), (flat_map_ksub KIterMoved _ es'), (H KIterMoved); try reflexivity;
      intros e N; destruct (ekind e); try reflexivity; congruence.
  - rewrite (fold_left_ksub KSetAdd _ es), (fold_left_ksub KSetAdd _ es'), (H KSetAdd); try reflexivity;
      intros a e N; destruct (ekind e); try reflexivity; congruence.
  - rewrite (fold_left_ksub KSetRem _ es), (fold_left_ksub KSetRem _ es'), (H KSetRem); try reflexivity;
      intros a e N; destruct (ekind e); try reflexivity; congruence.
Qed.

(* mirroring and keq *)
Lemma strip_mirror e : strip (mirror_entry e) = mirror_entry (strip e).
Proof. reflexivity. Qed.

Lemma is_kind_mirror k e : is_kind k (mirror_entry e) = is_kind (mirror_kind k) e.
Proof. unfold is_kind, mirror_entry. cbn [ekind]. destruct (ekind e), k; reflexivity. Qed.

Lemma ksub_mirror k es : ksub k (map mirror_entry es) = map mirror_entry (ksub (mirror_kind k) es).
Proof.
  unfold ksub. induction es as [|e es IH]; [reflexivity|].
  cbn [map filter]. rewrite is_kind_mirror. destruct (is_kind (mirror_kind k) e); cbn [map]; rewrite IH; reflexivity.
Qed.

Lemma keq_map_mirror a b : keq a b -> keq (map mirror_entry a) (map mirror_entry b).
Proof. intros H k. rewrite !ksub_mirror, H. reflexivity. Qed.

(** C01, ignore_order clause at ANY path, part 3: locality of [apply_io].
    A payload all of whose paths start with the key k of a list / dict W acts on the child W[k]
    exactly as the payload with that key stripped acts on the child standing alone; iterated along a
    path through list / dict levels ([planted]). *)
From Coq Require Import List ZArith NArith Bool Arith Lia Permutation.
Import ListNotations.
From DD Require Import Base.PyStr Base.Value Base.ValueFacts Path.PathModel Diff.Tree Diff.DiffModel
  Diff.DiffFacts Hash.HashModel DiffIO.DiffIOModel
  Delta.DeltaModel Delta.DeltaFacts Delta.DeltaLocal Delta.DeltaEntries Delta.DeltaStruct Delta.DeltaGood
  Delta.DeltaIO Delta.DeltaIOProofs Delta.DeltaIOReloc Delta.DeltaIOPre.

(* one item of _do_ignore_order *)
Definition io_step (H : pystr -> pystr) (d : delta_io) (s : st) (p : path) : st :=
  match resolve (root s) p with
  | Some (VList xs) =>
      let '(zs, e) := rebuild H xs (pmap_get (io_added d) p) (pmap_get (io_removed d) p) in
      match upd (root s) p (fun _ => Some (VList zs)) with
      | Some r' => add_errs (with_root s r') e
      | None => err (add_errs s e)
      end
  | Some (VTuple xs) =>
      let '(zs, e) := rebuild H xs (pmap_get (io_added d) p) (pmap_get (io_removed d) p) in
      match upd (root s) p (fun _ => Some (VTuple zs)) with
      | Some r' => add_errs (with_root s r') e
      | None => err (add_errs s e)
      end
  | _ => err s
  end.

Lemma do_ignore_order_steps H d s : do_ignore_order H d s = fold_left (io_step H d) (io_paths d) s.
Proof. reflexivity. Qed.

Lemma fst_pmpre Q l : map fst (pmpre Q l) = map (app Q) (map fst l).
Proof. unfold pmpre. rewrite !map_map. reflexivity. Qed.

Lemma existsb_pre Q p l : existsb (path_eqb (Q ++ p)) (map (app Q) l) = existsb (path_eqb p) l.
Proof. induction l as [|p0 l IH]; cbn [map existsb]; [reflexivity|]. rewrite path_eqb_pre, IH. reflexivity. Qed.

Lemma io_paths_pre Q d : io_paths (diopre Q d) = map (app Q) (io_paths d).
Proof.
  unfold io_paths, diopre. cbn [io_added io_removed]. rewrite !fst_pmpre, map_app. f_equal.
  induction (map fst (io_removed d)) as [|p l IH]; cbn [map filter]; [reflexivity|].
  rewrite existsb_pre. destruct (existsb _ _); cbn [negb map]; rewrite IH; reflexivity.
Qed.

Section Level.
Variable H : pystr -> pystr.
Variable conv : ty -> value -> option value.
Variable W : value.
Variable k : atom.
Hypothesis BW : box W = true.

(* the run on W[k := .] simulated by the run on the child *)
Definition Sim (s s' : st) : Prop :=
  set_item W k (root s') = Some (root s) /\ post s = map (cons (PKey k)) (post s') /\ errs s = errs s'.

Lemma set_item_box_box v W' : set_item W k v = Some W' -> box W' = true.
Proof. destruct W; try discriminate BW; cbn; intros E. - destruct (list_index _ _); [|discriminate]. destruct (list_set _ _ _); inversion E; reflexivity. - inversion E; reflexivity. Qed.

Variable c0 : value.
Hypothesis G0 : get_item W k = Some c0.

Lemma Sim_get s s' : Sim s s' -> box (root s) = true /\ get_item (root s) k = Some (root s') /\
  forall w, set_item (root s) k w = set_item W k w.
Proof.
  intros (E & _ & _). destruct (box_get_set W k c0 (root s') BW G0) as (W' & E1 & B1 & G1 & S1).
  rewrite E in E1. inversion E1; subst W'. auto.
Qed.

Lemma Sim_init : Sim (mkSt W [] 0) (mkSt c0 [] 0).
Proof. unfold Sim. cbn [root post errs map]. split; [apply box_set_same; assumption|split; reflexivity]. Qed.

Section Items.
Variable bidir : bool.
Notation istep := (istep conv bidir).
Notation irun := (irun conv bidir).

Definition ipre (x : item) : item := DeltaFacts.imap (cons (PKey k)) x.

Lemma irestrict_ipre x : irestrict (ipre x) = x.
Proof. unfold irestrict, ipre. rewrite imap_imap. cbn [tl]. apply imap_id. Qed.

Lemma sim_istep s s' x : Sim s s' -> okr x (ipath x) -> Sim (istep s (ipre x)) (istep s' x).
Proof.
  intros HS HO. destruct (Sim_get s s' HS) as (B & G & SS). destruct HS as (E & P & R).
  destruct s as [W1 po e]. destruct s' as [c1 po1 e1]. cbn [root post errs] in *.
  assert (HP : ipath (ipre x) = PKey k :: ipath x) by (unfold ipre; apply ipath_imap).
  assert (HO' : okr (ipre x) (ipath x)) by (destruct x; exact HO).
  rewrite (istep_local conv bidir (ipre x) W1 k c1 (ipath x) po e HP HO' B G). rewrite irestrict_ipre.
  rewrite (framed_istep conv bidir x c1 po1 e1).
  set (L := istep (mkSt c1 [] 0) x).
  destruct (box_get_set W1 k c1 (root L) B G) as (W2 & E2 & _).
  unfold wrapst. rewrite E2. unfold Sim, frame. cbn [root post errs].
  split; [rewrite <- SS; exact E2|]. split; [rewrite P, map_app; reflexivity|lia].
Qed.

Lemma sim_irun l : forall s s', Sim s s' -> (forall x, In x l -> okr x (ipath x)) -> Sim (irun (map ipre l) s) (irun l s').
Proof.
  induction l as [|x l IH]; intros s s' HS HO; [exact HS|]. cbn [map irun fold_left].
  change (fold_left istep ?l ?s) with (irun l s). apply IH.
  - apply sim_istep; [exact HS|apply HO; left; reflexivity].
  - intros y Hy. apply HO. right. exact Hy.
Qed.
End Items.

Lemma sim_io_step d s s' p : Sim s s' -> Sim (io_step H (diopre [PKey k] d) s (PKey k :: p)) (io_step H d s' p).
Proof.
  intros HS. destruct (Sim_get s s' HS) as (B & G & SS). pose proof HS as (E & P & R).
  unfold io_step. rewrite (resolve_box (root s) k p (root s') G).
  change (PKey k :: p) with ([PKey k] ++ p). unfold diopre. cbn [io_added io_removed]. rewrite !pmap_get_pre.
  assert (ERR : forall t t', Sim t t' -> Sim (err t) (err t')).
  { intros t t' (A1 & A2 & A3). unfold Sim, err. cbn [root post errs]. repeat split; try assumption. lia. }
  assert (ADD : forall t t' n, Sim t t' -> Sim (add_errs t n) (add_errs t' n)).
  { intros t t' n (A1 & A2 & A3). unfold Sim, add_errs. cbn [root post errs]. repeat split; try assumption. lia. }
  assert (UPD : forall f e, Sim
     match upd (root s) ([PKey k] ++ p) f with Some r' => add_errs (with_root s r') e | None => err (add_errs s e) end
     match upd (root s') p f with Some r' => add_errs (with_root s' r') e | None => err (add_errs s' e) end).
  { intros f e. cbn [app]. rewrite (upd_box (root s) k p f (root s') B G).
    destruct (upd (root s') p f) as [c'|]; [|apply ERR; apply ADD; exact HS].
    destruct (box_get_set (root s) k (root s') c' B G) as (W2 & E2 & _). rewrite E2.
    apply ADD. unfold Sim, with_root. cbn [root post errs]. split; [rewrite <- SS; exact E2|split; assumption]. }
  destruct (resolve (root s') p) as [[a|xs|xs|kvs|xs|xs]|]; try (apply ERR; exact HS).
  - destruct (rebuild H xs _ _) as [zs e]. apply UPD.
  - destruct (rebuild H xs _ _) as [zs e]. apply UPD.
Qed.

Lemma sim_io d : forall s s', Sim s s' -> Sim (do_ignore_order H (diopre [PKey k] d) s) (do_ignore_order H d s').
Proof.
  intros s s' HS. rewrite !do_ignore_order_steps, io_paths_pre.
  assert (GEN : forall l t t', Sim t t' ->
     Sim (fold_left (io_step H (diopre [PKey k] d)) (map (app [PKey k]) l) t) (fold_left (io_step H d) l t')).
  { induction l as [|p l IH]; intros t t' HT; [exact HT|]. cbn [map fold_left app]. apply IH. apply sim_io_step. exact HT. }
  apply GEN. exact HS.
Qed.

(* [apply_io] below the key k *)
Theorem apply_io_level ro ao d r :
  d_dadd (io_base d) = [] -> d_drem (io_base d) = [] -> ro [] = [] ->
  apply_io H conv ro ao d c0 = (r, 0) ->
  exists W', set_item W k r = Some W' /\ apply_io H conv ro ao (diopre [PKey k] d) W = (W', 0).
Proof.
  intros DA DR Hro HA. unfold apply_io in *.
  set (b := io_base d) in *. set (bd := d_bidir b) in *.
  assert (Eb : io_base (diopre [PKey k] d) = dpre [PKey k] b) by reflexivity.
  rewrite Eb. assert (Ebd : d_bidir (dpre [PKey k] b) = bd) by reflexivity. rewrite Ebd.
  assert (DA' : d_dadd (dpre [PKey k] b) = []) by (unfold dpre; cbn [d_dadd]; rewrite DA; reflexivity).
  assert (DR' : d_drem (dpre [PKey k] b) = []) by (unfold dpre; cbn [d_drem]; rewrite DR; reflexivity).
  rewrite DA', DR' in *. rewrite DA, DR in HA. cbn [map] in *. unfold do_item_added, do_item_removed in *. rewrite Hro in *. cbn [fold_left] in *.
  rewrite !(do_values_changed_irun conv bd), !(do_set_union_irun conv bd), !(do_set_difference_irun conv bd), !(do_type_changes_irun conv bd) in *.
  rewrite !(do_post_irun conv bd) in *.
  assert (T : forall x, In x (map IVal (d_val b) ++ map (fun pi => ISet true (fst pi) (snd pi)) (d_sadd b) ++
                         map (fun pi => ISet false (fst pi) (snd pi)) (d_srem b) ++ map IType (d_type b)) -> okr x (ipath x)).
  { intros x Hx. repeat (apply in_app_or in Hx as [Hx|Hx]); apply in_map_iff in Hx as (y & <- & _); exact I. }
  assert (M1 : map IVal (d_val (dpre [PKey k] b)) = map ipre (map IVal (d_val b))) by (unfold dpre; cbn [d_val]; rewrite !map_map; reflexivity).
  assert (M2 : map (fun pi => ISet true (fst pi) (snd pi)) (d_sadd (dpre [PKey k] b)) = map ipre (map (fun pi => ISet true (fst pi) (snd pi)) (d_sadd b)))
    by (unfold dpre; cbn [d_sadd]; rewrite !map_map; reflexivity).
  assert (M3 : map (fun pi => ISet false (fst pi) (snd pi)) (d_srem (dpre [PKey k] b)) = map ipre (map (fun pi => ISet false (fst pi) (snd pi)) (d_srem b)))
    by (unfold dpre; cbn [d_srem]; rewrite !map_map; reflexivity).
  assert (M4 : map IType (d_type (dpre [PKey k] b)) = map ipre (map IType (d_type b))) by (unfold dpre; cbn [d_type]; rewrite !map_map; reflexivity).
  rewrite M1, M2, M3, M4.
  pose proof Sim_init as S0.
  apply (sim_irun bd (map IVal (d_val b))) in S0; [|intros x Hx; apply T; apply in_or_app; left; exact Hx].
  apply (sim_irun bd (map (fun pi => ISet true (fst pi) (snd pi)) (d_sadd b))) in S0;
    [|intros x Hx; apply T; apply in_or_app; right; apply in_or_app; left; exact Hx].
  apply (sim_irun bd (map (fun pi => ISet false (fst pi) (snd pi)) (d_srem b))) in S0;
    [|intros x Hx; apply T; do 2 (apply in_or_app; right); apply in_or_app; left; exact Hx].
  apply (sim_irun bd (map IType (d_type b))) in S0; [|intros x Hx; apply T; do 3 (apply in_or_app; right); exact Hx].
  apply (sim_io d) in S0.
  match type of S0 with Sim ?a ?a' => set (s5 := a) in *; set (s5' := a') in * end.
  assert (PP : map IPost (post s5) = map ipre (map IPost (post s5'))).
  { destruct S0 as (_ & P & _). rewrite P, !map_map. reflexivity. }
  rewrite PP. apply (sim_irun bd (map IPost (post s5'))) in S0; [|intros x Hx; apply in_map_iff in Hx as (y & <- & _); exact I].
  destruct S0 as (E & _ & R). pose proof (f_equal fst HA) as HR. pose proof (f_equal snd HA) as HE. cbn [fst snd] in HR, HE. rewrite HR in E. rewrite HE in R.
  eexists. split; [exact E|]. rewrite R. reflexivity.
Qed.

End Level.

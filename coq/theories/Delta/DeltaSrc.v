(** Statement-level vocabulary of the SOURCE TIE of deepdiff/delta.py (harness/translate/deltapasses.py,
    coq/srctie/DeltaGen.v / DeltaGenEquiv.v).  Types and primitive helpers ONLY: the Delta OBJECT as the
    methods of the fragment see it ([dobj]: self.diff, self._reversed_diff, self.mutate, and the state of the
    application in progress = DeltaModel.st: self.root, self.post_process_paths_to_convert, the count of
    _raise_or_log calls), the report keys ([cat]) with a uniform view of the payload record ([payload],
    [diff_get], [diff_set]), subscript readers named after the Python keys, and the WORKER methods of delta.py
    that the translator does not enter (their models are the pass functions of DeltaModel.v, tied to the code by
    the correspondence check only).  None of apply / reverse / sub / verify is used here.  Definitions only. *)
From Coq Require Import List ZArith NArith Bool Arith.
Import ListNotations.
From DD Require Import Base.PyStr Base.Value Path.PathModel Diff.Tree Diff.DiffModel Delta.DeltaModel.

(* ---- report keys of a delta dictionary ------------------------------------------------------------- *)
Inductive cat :=
| CValuesChanged | CTypeChanges | CDictionaryItemAdded | CDictionaryItemRemoved
| CIterableItemAdded | CIterableItemRemoved | CIterableItemMoved | CSetItemAdded | CSetItemRemoved
| CIterableOpcodes
  (* keys the value universe of DeltaModel.v never carries (always absent): *)
| CIterableItemsAddedAtIndexes | CIterableItemsRemovedAtIndexes | CAttributeAdded | CAttributeRemoved.

Definition cat_code (k : cat) : nat :=
  match k with
  | CValuesChanged => 0 | CTypeChanges => 1 | CDictionaryItemAdded => 2 | CDictionaryItemRemoved => 3
  | CIterableItemAdded => 4 | CIterableItemRemoved => 5 | CIterableItemMoved => 6 | CSetItemAdded => 7
  | CSetItemRemoved => 8 | CIterableOpcodes => 9 | CIterableItemsAddedAtIndexes => 10
  | CIterableItemsRemovedAtIndexes => 11 | CAttributeAdded => 12 | CAttributeRemoved => 13
  end.
Definition cat_eqb (a b : cat) : bool := Nat.eqb (cat_code a) (cat_code b).

(* the keys `for action, info in self.diff.items()` can meet in this universe (an absent key = an empty payload) *)
Definition diff_keys (d : delta) : list cat :=
  [CValuesChanged; CTypeChanges; CDictionaryItemAdded; CDictionaryItemRemoved; CIterableItemAdded;
   CIterableItemRemoved; CIterableItemMoved; CSetItemAdded; CSetItemRemoved; CIterableOpcodes].

(* str -> str dictionaries over report keys (SIMPLE_ACTION_TO_REVERSE) *)
Definition cat_table := list (cat * cat).
Fixpoint cat_assoc_get (t : cat_table) (k : cat) : option cat :=              (* t.get(k) *)
  match t with [] => None | (a, b) :: r => if cat_eqb a k then Some b else cat_assoc_get r k end.
Definition cat_assoc_sub (t : cat_table) (k : cat) : cat :=                    (* t[k]; KeyError is not modelled: k *)
  match cat_assoc_get t k with Some b => b | None => k end.
Fixpoint cat_assoc_set (t : cat_table) (k v : cat) : cat_table :=              (* t[k] = v *)
  match t with
  | [] => [(k, v)]
  | (a, b) :: r => if cat_eqb a k then (a, v) :: r else (a, b) :: cat_assoc_set r k v
  end.
Fixpoint cat_assoc_keys (t : cat_table) : list cat :=                          (* list(t.keys()) *)
  match t with [] => [] | (a, _) :: r => a :: cat_assoc_keys r end.

(* ---- the value stored under a report key ----------------------------------------------------------- *)
Inductive payload :=
| PAbsent                                             (* the key is not in the dictionary / {} / dict_() *)
| PVal (l : list vchange)
| PType (l : list tchange)
| PItems (l : list (path * option value))             (* path -> value; None = the Python value None used as a placeholder *)
| PMoved (l : list (path * path * value))
| PSets (l : list (path * list atom))
| POps (l : list (path * list opv))
| PPaths (l : list path).                             (* post_process_paths_to_convert: tuple paths -> {'old_type': list, 'new_type': tuple} *)

Definition some_snd {A B} (pv : A * B) : A * option B := (fst pv, Some (snd pv)).
Definition unsome_snd {A} (pv : A * option value) : A * value :=
  (fst pv, match snd pv with Some v => v | None => VAtom ANone end).

Definition diff_get (d : delta) (k : cat) : payload :=                           (* self.diff.get(k) *)
  match k with
  | CValuesChanged => PVal (d_val d)
  | CTypeChanges => PType (d_type d)
  | CDictionaryItemAdded => PItems (map some_snd (d_dadd d))
  | CDictionaryItemRemoved => PItems (map some_snd (d_drem d))
  | CIterableItemAdded => PItems (map some_snd (d_iadd d))
  | CIterableItemRemoved => PItems (map some_snd (d_irem d))
  | CIterableItemMoved => PMoved (d_moved d)
  | CSetItemAdded => PSets (d_sadd d)
  | CSetItemRemoved => PSets (d_srem d)
  | CIterableOpcodes => POps (d_ops d)
  | _ => PAbsent
  end.

Definition as_val (p : payload) : list vchange := match p with PVal l => l | _ => [] end.
Definition as_type (p : payload) : list tchange := match p with PType l => l | _ => [] end.
Definition as_items_opt (p : payload) : list (path * option value) := match p with PItems l => l | _ => [] end.
Definition as_items (p : payload) : list (path * value) := map unsome_snd (as_items_opt p).
Definition as_moved (p : payload) : list (path * path * value) := match p with PMoved l => l | _ => [] end.
Definition as_sets (p : payload) : list (path * list atom) := match p with PSets l => l | _ => [] end.
Definition as_ops (p : payload) : list (path * list opv) := match p with POps l => l | _ => [] end.
Definition as_paths (p : payload) : list path := match p with PPaths l => l | _ => [] end.

(* `if x:` on a dictionary: non-empty *)
Definition nonempty {A} (l : list A) : bool := match l with [] => false | _ => true end.
Definition payload_truthy (p : payload) : bool :=
  match p with
  | PAbsent => false | PVal l => nonempty l | PType l => nonempty l | PItems l => nonempty l
  | PMoved l => nonempty l | PSets l => nonempty l | POps l => nonempty l | PPaths l => nonempty l
  end.
(* a.update(b) on path -> value dictionaries (distinct keys: the paths of one delta are distinct, as in DeltaModel.v) *)
Definition items_update (a b : payload) : payload := PItems (as_items_opt a ++ as_items_opt b).
(* SetOrdered(a.keys()) | SetOrdered(b.keys()) over index dictionaries: never present in this universe *)
Definition payload_paths (p : payload) : list path :=
  match p with
  | PAbsent => [] | PVal l => map vc_path l | PType l => map tc_path l | PItems l => map fst l
  | PMoved l => map (fun m => fst (fst m)) l | PSets l => map fst l | POps l => map fst l | PPaths l => l
  end.
Definition paths_union (a b : list path) : list path :=
  a ++ filter (fun p => negb (existsb (path_eqb p) a)) b.

Definition set_d_val (d : delta) l := mkDelta l (d_type d) (d_dadd d) (d_drem d) (d_iadd d) (d_irem d) (d_moved d) (d_sadd d) (d_srem d) (d_ops d) (d_bidir d).
Definition set_d_type (d : delta) l := mkDelta (d_val d) l (d_dadd d) (d_drem d) (d_iadd d) (d_irem d) (d_moved d) (d_sadd d) (d_srem d) (d_ops d) (d_bidir d).
Definition set_d_dadd (d : delta) l := mkDelta (d_val d) (d_type d) l (d_drem d) (d_iadd d) (d_irem d) (d_moved d) (d_sadd d) (d_srem d) (d_ops d) (d_bidir d).
Definition set_d_drem (d : delta) l := mkDelta (d_val d) (d_type d) (d_dadd d) l (d_iadd d) (d_irem d) (d_moved d) (d_sadd d) (d_srem d) (d_ops d) (d_bidir d).
Definition set_d_iadd (d : delta) l := mkDelta (d_val d) (d_type d) (d_dadd d) (d_drem d) l (d_irem d) (d_moved d) (d_sadd d) (d_srem d) (d_ops d) (d_bidir d).
Definition set_d_irem (d : delta) l := mkDelta (d_val d) (d_type d) (d_dadd d) (d_drem d) (d_iadd d) l (d_moved d) (d_sadd d) (d_srem d) (d_ops d) (d_bidir d).
Definition set_d_moved (d : delta) l := mkDelta (d_val d) (d_type d) (d_dadd d) (d_drem d) (d_iadd d) (d_irem d) l (d_sadd d) (d_srem d) (d_ops d) (d_bidir d).
Definition set_d_sadd (d : delta) l := mkDelta (d_val d) (d_type d) (d_dadd d) (d_drem d) (d_iadd d) (d_irem d) (d_moved d) l (d_srem d) (d_ops d) (d_bidir d).
Definition set_d_srem (d : delta) l := mkDelta (d_val d) (d_type d) (d_dadd d) (d_drem d) (d_iadd d) (d_irem d) (d_moved d) (d_sadd d) l (d_ops d) (d_bidir d).
Definition set_d_ops (d : delta) l := mkDelta (d_val d) (d_type d) (d_dadd d) (d_drem d) (d_iadd d) (d_irem d) (d_moved d) (d_sadd d) (d_srem d) l (d_bidir d).

(* r_diff[k] = p ; a payload of the wrong shape for k cannot be stored in the record: the dictionary is left alone *)
Definition diff_set (d : delta) (k : cat) (p : payload) : delta :=
  match k, p with
  | CValuesChanged, PVal l => set_d_val d l
  | CTypeChanges, PType l => set_d_type d l
  | CDictionaryItemAdded, PItems l => set_d_dadd d (map unsome_snd l)
  | CDictionaryItemRemoved, PItems l => set_d_drem d (map unsome_snd l)
  | CIterableItemAdded, PItems l => set_d_iadd d (map unsome_snd l)
  | CIterableItemRemoved, PItems l => set_d_irem d (map unsome_snd l)
  | CIterableItemMoved, PMoved l => set_d_moved d l
  | CSetItemAdded, PSets l => set_d_sadd d l
  | CSetItemRemoved, PSets l => set_d_srem d l
  | CIterableOpcodes, POps l => set_d_ops d l
  | _, _ => d
  end.
(* r_diff = {} : an empty payload (the record also carries the flag self.bidirectional of its owner) *)
Definition diff_empty (bidirectional : bool) : delta := mkDelta [] [] [] [] [] [] [] [] [] [] bidirectional.

(* ---- subscripts of the entries (the Python key is in the name).  x['k'] on an entry whose key is absent raises
        KeyError in Python; DeltaModel.reverse totalises exactly these reads, and so do the readers here ------- *)
Definition vc_key (c : vchange) : path := vc_path c.                        (* the key of the item in values_changed *)
Definition vc_has_new_path (c : vchange) : bool := match vc_new_path c with Some _ => true | None => false end.  (* c.get('new_path') as a condition *)
Definition vc_sub_new_path (c : vchange) : path := match vc_new_path c with Some q => q | None => [] end.       (* c['new_path'] *)
Definition vc_sub_old_value (c : vchange) : value := match vc_old c with Some o => o | None => VAtom ANone end.  (* c['old_value'] *)
Definition vc_sub_new_value (c : vchange) : value := vc_new c.                                                  (* c['new_value'] *)
(* reverse_path -> {'new_value': nv, 'old_value': ov}  (no 'new_path' key) *)
Definition vc_make (key : path) (new_value old_value : value) : vchange := mkVC key None (Some old_value) new_value.

Definition tc_key (c : tchange) : path := tc_path c.
Definition tc_has_new_path (c : tchange) : bool := match tc_new_path c with Some _ => true | None => false end.
Definition tc_sub_new_path (c : tchange) : path := match tc_new_path c with Some q => q | None => [] end.
Definition tc_sub_old_type (c : tchange) : ty := tc_old_ty c.
Definition tc_sub_new_type (c : tchange) : ty := tc_new_ty c.
Definition tc_has_new_value (c : tchange) : bool := match tc_new c with Some _ => true | None => false end.     (* 'new_value' in c *)
Definition tc_has_old_value (c : tchange) : bool := match tc_old c with Some _ => true | None => false end.
Definition tc_sub_new_value (c : tchange) : value := match tc_new c with Some v => v | None => VAtom ANone end.
Definition tc_sub_old_value (c : tchange) : value := match tc_old c with Some v => v | None => VAtom ANone end.
(* key -> {'old_type': ot, 'new_type': nt} *)
Definition tc_make (key : path) (old_type new_type : ty) : tchange := mkTC key None old_type new_type None None.
Definition tc_store_old_value (c : tchange) (v : value) : tchange :=          (* c['old_value'] = v *)
  mkTC (tc_path c) (tc_new_path c) (tc_old_ty c) (tc_new_ty c) (Some v) (tc_new c).
Definition tc_store_new_value (c : tchange) (v : value) : tchange :=          (* c['new_value'] = v *)
  mkTC (tc_path c) (tc_new_path c) (tc_old_ty c) (tc_new_ty c) (tc_old c) (Some v).

Definition mv_key (m : path * path * value) : path := fst (fst m).
Definition mv_sub_new_path (m : path * path * value) : path := snd (fst m).
Definition mv_sub_value (m : path * path * value) : value := snd m.
(* key -> {'new_path': np, 'value': v} *)
Definition mv_make (key new_path : path) (v : value) : path * path * value := (key, new_path, v).

(* Opcode attributes; old_values may be None (a directed delta): read as [] where a list is needed *)
Definition op_tag (o : opv) : optag := ov_tag o.
Definition op_t1_from_index (o : opv) : nat := ov_i1 o.
Definition op_t1_to_index (o : opv) : nat := ov_i2 o.
Definition op_t2_from_index (o : opv) : nat := ov_j1 o.
Definition op_t2_to_index (o : opv) : nat := ov_j2 o.
Definition op_new_values (o : opv) : list value := ov_new o.
Definition op_old_values (o : opv) : list value := match ov_old o with Some l => l | None => [] end.
(* Opcode(tag=, t1_from_index=, t1_to_index=, t2_from_index=, t2_to_index=, new_values=, old_values=) *)
Definition op_make (tag : optag) (t1_from_index t1_to_index t2_from_index t2_to_index : nat)
    (new_values old_values : list value) : opv :=
  mkOV tag t1_from_index t1_to_index t2_from_index t2_to_index new_values (Some old_values).
Definition optag_eqb (a b : optag) : bool :=
  match a, b with OEqual, OEqual | OReplace, OReplace | ODelete, ODelete | OInsert, OInsert => true | _, _ => false end.
(* {'a': 'b', ...}.get(k, default) on opcode tags *)
Fixpoint tag_get (t : list (optag * optag)) (k default : optag) : optag :=
  match t with [] => default | (a, b) :: r => if optag_eqb a k then b else tag_get r k default end.

(* ---- the Delta object --------------------------------------------------------------------------------- *)
Record dobj := mkObj {
  o_diff : delta;              (* self.diff (self.bidirectional = d_bidir of it) *)
  o_rev : option delta;        (* self._reversed_diff *)
  o_mutate : bool;             (* self.mutate *)
  o_st : st                    (* self.root, self.post_process_paths_to_convert, the _raise_or_log counter *)
}.
Definition obj_set_diff (self : dobj) (d : delta) : dobj := mkObj d (o_rev self) (o_mutate self) (o_st self).
(* self.diff = <an expression that may be None>: None cannot be stored as a payload (never happens: __rsub__ fills
   self._reversed_diff before the exchange) - the object is left alone *)
Definition obj_set_diff_opt (self : dobj) (x : option delta) : dobj :=
  match x with Some d => obj_set_diff self d | None => self end.
Definition obj_set_rev (self : dobj) (r : option delta) : dobj := mkObj (o_diff self) r (o_mutate self) (o_st self).
Definition obj_set_st (self : dobj) (s : st) : dobj := mkObj (o_diff self) (o_rev self) (o_mutate self) s.
Definition on_st (f : st -> st) (self : dobj) : dobj := obj_set_st self (f (o_st self)).
Definition is_none {A} (x : option A) : bool := match x with None => true | Some _ => false end.
Definition obj_bidirectional (self : dobj) : bool := d_bidir (o_diff self).
Definition obj_root (self : dobj) : value := root (o_st self).
(* self.root = v : the start of an application; the _raise_or_log counter of THIS application starts at 0 *)
Definition obj_set_root (self : dobj) (v : value) : dobj := obj_set_st self (mkSt v (post (o_st self)) 0).
(* del self.root : nothing is left at the attribute *)
Definition obj_del_root (self : dobj) : dobj :=
  obj_set_st self (mkSt (VAtom ANone) (post (o_st self)) (errs (o_st self))).
Definition obj_post (self : dobj) : payload := PPaths (post (o_st self)).
Definition obj_set_post (self : dobj) (p : payload) : dobj :=
  obj_set_st self (mkSt (root (o_st self)) (as_paths p) (errs (o_st self))).
Definition obj_errs (self : dobj) : nat := errs (o_st self).
(* self._numpy_paths: deltas of numpy arrays are outside this universe (Delta/DeltaNp.v models them) *)
Definition obj_numpy_paths (self : dobj) : bool := false.
(* values are immutable in the model: a deep copy is the value itself (aliasing with the caller's object is not modelled) *)
Definition py_deepcopy (v : value) : value := v.
(* the body of a branch / loop the translator does not enter (reachable only with numpy paths / ignore_order payload) *)
Definition src_untranslated (self : dobj) : dobj := self.

(* an exception escapes: None *)
Definition res (A : Type) : Type := option A.
Definition rret {A} (x : A) : res A := Some x.
Definition rraise {A} : res A := None.
Definition rbind {A B} (r : res A) (f : A -> res B) : res B := match r with Some x => f x | None => None end.

(* `expected_old_value != current_old_value`, the expectation possibly the sentinel not_found (None here), which is != everything *)
Definition py_ne_opt (expected : option value) (current : value) : bool :=
  match expected with Some e => negb (py_eqv e current) | None => true end.
(* one call of _raise_or_log: logged (log_errors) and / or raised as DeltaError (raise_errors); the model counts it *)
Definition count_error (s : st) : st := mkSt (root s) (post s) (S (errs s)).

(* _do_post_process hands self.post_process_paths_to_convert to _do_values_or_type_changed: the list version of do_post *)
Definition do_post_list (l : list path) (s : st) : st :=
  fold_left (fun s p =>
    match upd (root s) p (fun o => match o with VList xs => Some (VTuple xs) | VTuple xs => Some (VTuple xs) | _ => None end) with
    | Some r' => with_root s r'
    | None => err s
    end) l s.

(* ---- worker methods the translator does not enter: their models are DeltaModel's pass functions -------- *)
Inductive setfunc := FUnion | FDifference.      (* func='union' / func='difference' *)
Section Workers.
Variable conv : ty -> value -> option value.
Variable rem_order : list (path * value) -> list (path * value).
Variable add_order : list (path * option value) -> list (path * option value).

(* self._do_values_or_type_changed(changes, is_type_change=False, verify_changes=True) *)
Definition w__do_values_or_type_changed (self : dobj) (changes : payload) (is_type_change verify_changes : bool) : dobj :=
  match changes, is_type_change, verify_changes with
  | PVal l, false, true => on_st (do_values_changed (obj_bidirectional self) l) self
  | PType l, true, true => on_st (do_type_changes conv (obj_bidirectional self) l) self
  | PPaths l, true, false => on_st (do_post_list l) self
  | _, _, _ => self
  end.
(* self._do_item_added(items, sort=True, insert=False) *)
Definition w__do_item_added (self : dobj) (items : payload) (sort insert : bool) : dobj :=
  on_st (do_item_added add_order sort insert (as_items_opt items)) self.
(* self._do_item_removed(items) *)
Definition w__do_item_removed (self : dobj) (items : payload) : dobj :=
  on_st (do_item_removed rem_order (obj_bidirectional self) (as_items items)) self.
(* self._do_set_or_frozenset_item(items, func) *)
Definition w__do_set_or_frozenset_item (self : dobj) (items : payload) (func : setfunc) : dobj :=
  on_st (do_set_items (match func with FUnion => set_union | FDifference => set_difference end) (as_sets items)) self.
(* self._do_iterable_opcodes() : not entered *)
Definition w__do_iterable_opcodes (self : dobj) : dobj := on_st (do_opcodes (d_ops (o_diff self))) self.
End Workers.

(* ---- names of the passes, for the ORDER statement ------------------------------------------------------ *)
Inductive pass :=
| P_do_pre_process | P_do_values_changed | P_do_set_item_added | P_do_set_item_removed | P_do_type_changes
| P_do_iterable_opcodes | P_do_iterable_item_removed | P_do_iterable_item_added | P_do_ignore_order
| P_do_dictionary_item_added | P_do_dictionary_item_removed | P_do_attribute_added | P_do_attribute_removed
| P_do_post_process.

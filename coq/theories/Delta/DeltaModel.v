(** Model of deepdiff/delta.py for the value universe: conversion of a result
    tree into the delta payload (model.py DeltaResult + serialization.py
    _to_delta_dict), Delta.__add__ as the fixed sequence of passes over an
    immutable root value, _get_reverse_diff, and the bidirectional
    verification.  Paths are key sequences as Delta sees them after parsing
    the path strings (every element a GET by an atom; C09 relates the two).

    Oracles (Section variables):
      conv       new_type(old_value): Python's constructor call used when a type
                 change carries no values
      rem_order  the order in which _do_item_removed visits its items
                 (sorted(..., reverse=True) with the mixed-type fallback)
      add_order  the order in which _do_item_added visits its items
    Errors: the model counts the calls of _raise_or_log; with raise_errors=True
    the real run raises at the first one.  Definitions only. *)
From Coq Require Import List ZArith NArith Bool Arith.
Import ListNotations.
From DD Require Import Base.PyStr Base.Value Path.PathModel Diff.Tree Diff.DiffModel.

Record vchange := mkVC { vc_path : path; vc_new_path : option path; vc_old : option value; vc_new : value }.
Record tchange := mkTC { tc_path : path; tc_new_path : option path; tc_old_ty : ty; tc_new_ty : ty;
                         tc_old : option value; tc_new : option value }.
Record opv := mkOV { ov_tag : optag; ov_i1 : nat; ov_i2 : nat; ov_j1 : nat; ov_j2 : nat;
                     ov_new : list value; ov_old : option (list value) }.
Record delta := mkDelta {
  d_val : list vchange;
  d_type : list tchange;
  d_dadd : list (path * value);
  d_drem : list (path * value);
  d_iadd : list (path * value);
  d_irem : list (path * value);
  d_moved : list (path * path * value);       (* path, new_path, value *)
  d_sadd : list (path * list atom);
  d_srem : list (path * list atom);
  d_ops : list (path * list opv);
  d_bidir : bool
}.

Definition npath (p : path) : path := norm p.   (* what Delta parses back: every element an atom *)

Section Delta.
Variable conv : ty -> value -> option value.
Variable rem_order : list (path * value) -> list (path * value).
Variable add_order : list (path * option value) -> list (path * option value).

(* ------------------------------------------------------------------ *)
(* tree -> delta payload                                               *)
(* ------------------------------------------------------------------ *)
Definition new_path_opt (e : entry) : option path :=
  if pystr_eqb (render (ep1 e)) (render (ep2 e)) then None else Some (npath (ep2 e)).

Definition in_paths (p : path) (l : list path) : bool := existsb (path_eqb p) l.

Fixpoint group_add (p : path) (a : atom) (l : list (path * list atom)) : list (path * list atom) :=
  match l with
  | [] => [(p, [a])]
  | (q, xs) :: r => if path_eqb p q then (q, xs ++ [a]) :: r else (q, xs) :: group_add p a r
  end.

Definition opv_of (bidir always : bool) (xs ys : list value) (o : opcode) : opv :=
  match otag o with
  | OEqual => mkOV OEqual (oi1 o) (oi2 o) (oj1 o) (oj2 o) [] None
  | t => mkOV t (oi1 o) (oi2 o) (oj1 o) (oj2 o) (slice ys (oj1 o) (oj2 o))
              (if bidir || always then Some (slice xs (oi1 o) (oi2 o)) else None)
  end.

Definition seq_of (v : option value) : list value :=
  match v with Some (VList xs) | Some (VTuple xs) => xs | _ => [] end.

Definition to_delta (bidir always : bool)
    (ops : path -> list value -> list value -> list opcode)
    (t1 t2 : value) (es : list entry) (rec : list path) : delta :=
  let inc := bidir || always in
  let ov (o : option value) := match o with Some v => v | None => VAtom ANone end in
  mkDelta
    (flat_map (fun e => match ekind e with
       | KValue => [mkVC (npath (ep1 e)) (new_path_opt e) (if bidir then et1 e else None) (ov (et2 e))]
       | _ => [] end) es)
    (flat_map (fun e => match ekind e with
       | KType =>
           let a := ov (et1 e) in let b := ov (et2 e) in
           let include := inc || match conv (type_of b) a with
                                 | Some a' => negb (py_eqv a' b)
                                 | None => true
                                 end in
           [mkTC (npath (ep1 e)) (new_path_opt e) (type_of a) (type_of b)
                 (if include && bidir then Some a else None) (if include then Some b else None)]
       | _ => [] end) es)
    (flat_map (fun e => match ekind e with KDictAdd => [(npath (ep1 e), ov (et2 e))] | _ => [] end) es)
    (flat_map (fun e => match ekind e with KDictRem => [(npath (ep1 e), ov (et1 e))] | _ => [] end) es)
    (flat_map (fun e => match ekind e with
       | KIterAdd => if in_paths (removelast (ep1 e)) rec then [] else [(npath (ep1 e), ov (et2 e))]
       | _ => [] end) es)
    (flat_map (fun e => match ekind e with
       | KIterRem => if in_paths (removelast (ep1 e)) rec then [] else [(npath (ep1 e), ov (et1 e))]
       | _ => [] end) es)
    (flat_map (fun e => match ekind e with
       | KIterMoved => if in_paths (removelast (ep1 e)) rec then []
                       else [(npath (ep1 e), npath (ep2 e), ov (et2 e))]
       | _ => [] end) es)
    (fold_left (fun acc e => match ekind e, et2 e with
       | KSetAdd, Some (VAtom a) => group_add (npath (ep1 e)) a acc | _, _ => acc end) es [])
    (fold_left (fun acc e => match ekind e, et1 e with
       | KSetRem, Some (VAtom a) => group_add (npath (ep1 e)) a acc | _, _ => acc end) es [])
    (map (fun p => let xs := seq_of (resolve t1 p) in let ys := seq_of (resolve t2 p) in
                   (npath p, map (opv_of bidir always xs ys) (ops p xs ys))) rec)
    bidir.

(* ------------------------------------------------------------------ *)
(* applying a delta                                                    *)
(* ------------------------------------------------------------------ *)
Record st := mkSt { root : value; post : list path; errs : nat }.
Definition err (s : st) : st := mkSt (root s) (post s) (S (errs s)).
Definition with_root (s : st) (v : value) : st := mkSt v (post s) (errs s).

(* obj[elem] = value on a Python object (after tuple coercion): dicts update
   the value of a ==-equal key or append a new item; lists replace, or append
   when the index is exactly len (the IndexError branch of _simple_set_elem_value) *)
Fixpoint dict_set (kvs : list (atom * value)) (k : atom) (v : value) : list (atom * value) :=
  match kvs with
  | [] => [(k, v)]
  | (k', v') :: r => if py_eq k' k then (k', v) :: r else (k', v') :: dict_set r k v
  end.
Fixpoint list_set (xs : list value) (i : nat) (v : value) : option (list value) :=
  match xs, i with
  | [], O => Some [v]                       (* elem == len(obj): append *)
  | [], S _ => None
  | _ :: r, O => Some (v :: r)
  | x :: r, S i' => option_map (cons x) (list_set r i' v)
  end.
Definition list_index (xs : list value) (a : atom) : option nat :=
  match int_of_atom a with
  | Some z => if Z.ltb z 0
              then (if Z.leb (- Z.of_nat (length xs)) z then Some (Z.to_nat (z + Z.of_nat (length xs))) else None)
              else Some (Z.to_nat z)
  | None => None
  end.
Definition set_item (obj : value) (k : atom) (v : value) : option value :=
  match obj with
  | VDict kvs => Some (VDict (dict_set kvs k v))
  | VList xs => match list_index xs k with
                | Some i => option_map VList (list_set xs i v)
                | None => None
                end
  | _ => None
  end.

(* del obj[elem] *)
Fixpoint dict_del (kvs : list (atom * value)) (k : atom) : option (list (atom * value)) :=
  match kvs with
  | [] => None
  | (k', v') :: r => if py_eq k' k then Some r else option_map (cons (k', v')) (dict_del r k)
  end.
Fixpoint list_del (xs : list value) (i : nat) : option (list value) :=
  match xs, i with
  | [], _ => None
  | _ :: r, O => Some r
  | x :: r, S i' => option_map (cons x) (list_del r i')
  end.
Definition del_item (obj : value) (k : atom) : option value :=
  match obj with
  | VDict kvs => option_map VDict (dict_del kvs k)
  | VList xs => match list_index xs k with
                | Some i => if Nat.ltb i (length xs) then option_map VList (list_del xs i) else None
                | None => None
                end
  | _ => None
  end.

(* functional update of the sub-object at a path (the paths of one delta never
   alias: the inputs are trees) *)
Fixpoint upd (v : value) (p : path) (f : value -> option value) : option value :=
  match p with
  | [] => f v
  | k :: r =>
      match get_item v (key_atom k) with
      | Some child =>
          match upd child r f with
          | Some child' =>
              match v with
              | VTuple xs =>      (* writing into a tuple fails: 'tuple' object does not support item assignment *)
                  None
              | _ => set_item v (key_atom k) child'
              end
          | None => None
          end
      | None => None
      end
  end.

Definition is_tuple (v : value) : bool := match v with VTuple _ => true | _ => false end.
Definition is_list (v : value) : bool := match v with VList _ => true | _ => false end.
Definition untuple (v : value) : value := match v with VTuple xs => VList xs | _ => v end.

(* _set_new_value at path p (non-empty: p = objpath ++ [elem]); the object is
   coerced from tuple to list first and remembered for post-processing *)
Definition set_new_value (s : st) (p : path) (v : value) : st :=
  match p with
  | [] => with_root s v
  | _ =>
      let op := removelast p in
      let k := key_atom (last p (PIdx 0)) in
      match resolve (root s) op with
      | Some obj =>
          let coerced := is_tuple obj in
          match upd (root s) op (fun o => set_item (untuple o) k v) with
          | Some r' => mkSt r' (if coerced then post s ++ [op] else post s) (errs s)
          | None => err s
          end
      | None => err s
      end
  end.

(* current value of obj[elem] for the last element of p *)
Definition current_at (s : st) (p : path) : option value := resolve (root s) p.

Definition verify (bidir : bool) (expected : option value) (current : value) (s : st) : st :=
  if bidir then
    match expected with
    | Some e => if py_eqv e current then s else err s
    | None => err s          (* expected_old_value = not_found != anything *)
    end
  else s.

Definition do_values_changed (bidir : bool) (l : list vchange) (s : st) : st :=
  fold_left (fun s c =>
    match current_at s (vc_path c) with
    | Some cur => verify bidir (vc_old c) cur (set_new_value s (vc_path c) (vc_new c))
    | None => err s
    end) l s.

Definition do_type_changes (bidir : bool) (l : list tchange) (s : st) : st :=
  fold_left (fun s c =>
    match current_at s (tc_path c) with
    | Some cur =>
        match (match tc_new c with Some v => Some v | None => conv (tc_new_ty c) cur end) with
        | Some nv => verify bidir (tc_old c) cur (set_new_value s (tc_path c) nv)
        | None => err s
        end
    | None => err s
    end) l s.

(* set items *)
Definition set_union (v : value) (items : list atom) : option value :=
  match v with
  | VSet xs => Some (VSet (xs ++ filter (fun a => negb (mem_atom a xs)) items))
  | VFrozen xs => Some (VFrozen (xs ++ filter (fun a => negb (mem_atom a xs)) items))
  | _ => None
  end.
Definition set_difference (v : value) (items : list atom) : option value :=
  match v with
  | VSet xs => Some (VSet (filter (fun a => negb (mem_atom a items)) xs))
  | VFrozen xs => Some (VFrozen (filter (fun a => negb (mem_atom a items)) xs))
  | _ => None
  end.
Definition do_set_items (f : value -> list atom -> option value) (l : list (path * list atom)) (s : st) : st :=
  fold_left (fun s pi =>
    match upd (root s) (fst pi) (fun o => f o (snd pi)) with
    | Some r' => with_root s r'
    | None => err s
    end) l s.

(* _do_iterable_opcodes *)
Definition transformed (obj : list value) (os : list opv) : list value :=
  flat_map (fun o => match ov_tag o with
                     | OEqual => slice obj (ov_i1 o) (ov_i2 o)
                     | ODelete => []
                     | _ => ov_new o
                     end) os.
Definition do_opcodes (l : list (path * list opv)) (s : st) : st :=
  fold_left (fun s po =>
    match upd (root s) (fst po) (fun o => match o with
                                          | VList xs => Some (VList (transformed xs (snd po)))
                                          | VTuple xs => Some (VTuple (transformed xs (snd po)))
                                          | _ => None
                                          end) with
    | Some r' => with_root s r'
    | None => err s
    end) l s.

(* _find_closest_iterable_element_for_index *)
Definition absdiff (a b : nat) : nat := (a - b) + (b - a).
Fixpoint closest_go (xs : list value) (idx elem : nat) (expected : value)
    (best : option nat) (bestd : option nat) : option nat :=
  match xs with
  | [] => best
  | x :: r =>
      let d := absdiff idx elem in
      match bestd with
      | Some bd => if Nat.ltb bd d then best
                   else if py_eqv x expected && Nat.ltb d bd then closest_go r (S idx) elem expected (Some idx) (Some d)
                   else closest_go r (S idx) elem expected best bestd
      | None => if py_eqv x expected then closest_go r (S idx) elem expected (Some idx) (Some d)
                else closest_go r (S idx) elem expected best bestd
      end
  end.
Definition find_closest (xs : list value) (elem : nat) (expected : value) : option nat :=
  closest_go xs 0 elem expected None None.

(* _del_elem at p: tuple coerced to list and remembered *)
Definition del_elem (s : st) (op : path) (k : atom) : st :=
  match resolve (root s) op with
  | Some obj =>
      let coerced := is_tuple obj in
      match upd (root s) op (fun o => del_item (untuple o) k) with
      | Some r' => mkSt r' (if coerced then post s ++ [op] else post s) (errs s)
      | None => err s
      end
  | None => err s
  end.

(* one item of _do_item_removed *)
Definition remove_one (bidir : bool) (s : st) (p : path) (expected : value) : st :=
  match p with
  | [] => s
  | _ =>
      let op := removelast p in
      let k := key_atom (last p (PIdx 0)) in
      match resolve (root s) op with
      | None => err s
      | Some obj =>
          let cur := get_item obj k in
          let look := match cur with Some c => negb (py_eqv c expected) | None => true end in
          match obj with
          | VList xs =>
              if look then
                match int_of_atom k with
                | Some z =>
                    match find_closest xs (Z.to_nat z) expected with
                    | Some i => verify bidir (Some expected) expected (del_elem s op (AInt (Z.of_nat i)))
                    | None => s
                    end
                | None => s
                end
              else verify bidir (Some expected) expected (del_elem s op k)
          | _ =>
              match cur with
              | Some c => verify bidir (Some expected) c (del_elem s op k)
              | None => s
              end
          end
      end
  end.
Definition do_item_removed (bidir : bool) (l : list (path * value)) (s : st) : st :=
  fold_left (fun s pv => remove_one bidir s (fst pv) (snd pv)) (rem_order l) s.

(* one item of _do_item_added; [ins] = insert a placeholder first when the
   index is inside the list *)
Definition list_insert (xs : list value) (i : nat) (v : value) : list value :=
  firstn i xs ++ v :: skipn i xs.
Definition add_one (ins : bool) (s : st) (p : path) (v : option value) : st :=
  let nv := match v with Some x => x | None => VAtom ANone end in
  match p with
  | [] => with_root s nv
  | _ =>
      let op := removelast p in
      let k := key_atom (last p (PIdx 0)) in
      match resolve (root s) op with
      | None => err s
      | Some obj =>
          let s1 :=
            match obj, ins with
            | VList xs, true =>
                match int_of_atom k with
                | Some z => if Z.ltb z (Z.of_nat (length xs)) && Z.leb 0 z
                            then match upd (root s) op (fun _ => Some (VList (list_insert xs (Z.to_nat z) (VAtom ANone)))) with
                                 | Some r' => with_root s r'
                                 | None => err s
                                 end
                            else s
                | None => s
                end
            | _, _ => s
            end in
          set_new_value s1 p nv
      end
  end.
Definition do_item_added (sort ins : bool) (l : list (path * option value)) (s : st) : st :=
  fold_left (fun s pv => add_one ins s (fst pv) (snd pv)) (if sort then add_order l else l) s.

Definition do_iterable_item_removed (bidir : bool) (d : delta) (s : st) : st :=
  do_item_removed bidir (d_irem d ++ map (fun m => (fst (fst m), snd m)) (d_moved d)) s.

Definition do_iterable_item_added (d : delta) (s : st) : st :=
  let added := map (fun pv => (fst pv, Some (snd pv))) (d_iadd d)
               ++ map (fun m => (snd (fst m), None)) (d_moved d) in
  let s1 := match added with [] => s | _ => do_item_added true true added s end in
  match d_moved d with
  | [] => s1
  | _ => do_item_added true false (map (fun m => (snd (fst m), Some (snd m))) (d_moved d)) s1
  end.

(* _do_post_process: coerced tuples become tuples again *)
Definition do_post (s : st) : st :=
  fold_left (fun s p =>
    match upd (root s) p (fun o => match o with VList xs => Some (VTuple xs) | VTuple xs => Some (VTuple xs) | _ => None end) with
    | Some r' => with_root s r'
    | None => err s
    end) (post s) s.

(* Delta.__add__ *)
Definition apply (d : delta) (v : value) : value * nat :=
  let b := d_bidir d in
  let s := mkSt v [] 0 in
  let s := do_values_changed b (d_val d) s in
  let s := do_set_items set_union (d_sadd d) s in
  let s := do_set_items set_difference (d_srem d) s in
  let s := do_type_changes b (d_type d) s in
  let s := do_opcodes (d_ops d) s in
  let s := do_iterable_item_removed b d s in
  let s := do_iterable_item_added d s in
  let s := do_item_added false false (map (fun pv => (fst pv, Some (snd pv))) (d_dadd d)) s in
  let s := do_item_removed b (d_drem d) s in
  let s := do_post s in
  (root s, errs s).

(* ------------------------------------------------------------------ *)
(* _get_reverse_diff                                                   *)
(* ------------------------------------------------------------------ *)
Definition rev_tag (t : optag) : optag :=
  match t with ODelete => OInsert | OInsert => ODelete | t => t end.
Definition reverse (d : delta) : delta :=
  mkDelta
    (map (fun c => mkVC (match vc_new_path c with Some q => q | None => vc_path c end) None
                        (Some (vc_new c)) (match vc_old c with Some o => o | None => VAtom ANone end)) (d_val d))
    (map (fun c => mkTC (match tc_new_path c with Some q => q | None => tc_path c end) None
                        (tc_new_ty c) (tc_old_ty c) (tc_new c) (tc_old c)) (d_type d))
    (d_drem d) (d_dadd d) (d_irem d) (d_iadd d)
    (map (fun m => (snd (fst m), fst (fst m), snd m)) (d_moved d))
    (d_srem d) (d_sadd d)
    (map (fun po => (fst po, map (fun o => mkOV (rev_tag (ov_tag o)) (ov_j1 o) (ov_j2 o) (ov_i1 o) (ov_i2 o)
                                     (match ov_old o with Some l => l | None => [] end) (Some (ov_new o))) (snd po))) (d_ops d))
    (d_bidir d).

(* t2 - delta ; a directed delta refuses *)
Definition sub (d : delta) (v : value) : option (value * nat) :=
  if d_bidir d then Some (apply (reverse d) v) else None.

End Delta.

(** Refinement of DeltaModel's item-added / item-removed passes that follows
    what delta.py DOES when a statement of these passes raises an exception
    that is NOT routed through _raise_or_log and therefore ESCAPES
    Delta.__add__ (the [finally] clause only cleans up).

    _do_item_added (delta.py 444-468), per item, with insert=True:
        if insert and elem < len(obj):   # TypeError: len(5), len(None), 'a' < 3, None < 3, b'a' < 3
            obj.insert(elem, None)       # AttributeError: tuple / dict / set / frozenset / str / bytes
                                         # TypeError: list.insert(0.5, None)
                                         # a negative int IS < len(obj): list.insert(-1, None) (Python clamps)
        self._set_new_value(...)         # never raises (everything is caught and logged); a tuple is coerced to a
                                         # list BEFORE the write: a failing write leaves the coercion behind
    DeltaModel.add_one only inserts into a list at 0 <= elem < len, never raises, and a failing write on a tuple
    only logs the error.

    _do_item_removed (delta.py 568-607), per item:
        current = obj[elem]              # KeyError/IndexError/AttributeError/TypeError caught -> look for the value
        if look and isinstance(obj, list):
            elem = self._find_closest_iterable_element_for_index(obj, elem, expected)
                                         # abs(index - elem): TypeError for elem a str / bytes / None (non-empty list);
                                         # fine for a float elem (DeltaModel skips a non-int elem)
        ...
        self._del_elem(...)              # del obj[elem]: _simple_delete_elem catches KeyError/IndexError/AttributeError
                                         # but NOT TypeError: del 'abc'[0] escapes
    DeltaModel.remove_one logs an error where the str/bytes deletion escapes, and does nothing for a non-int elem.

    _do_post_process (delta.py 480-484 -> _do_values_or_type_changed with is_type_change, no new_value), per
    coerced tuple path:
        current = self._get_elem_and_compare_to_old_value(obj, path_for_err_reporting=path, ...)
                                         # path is a TUPLE of elements here: when obj[elem] fails the error message is
                                         # built with '.'.join(i[0] for i in path): TypeError as soon as one key is
                                         # not a str ("sequence item 1: expected str instance, int found")
        new_value = tuple(current)       # succeeds on a dict (its keys), a set, a str (its characters), bytes (ints);
                                         # on failure the message formats obj[elem]: at the root path obj is the Delta:
                                         # TypeError ('Delta' object is not subscriptable)
    DeltaModel.do_post logs an error in all these cases.

    [res A] = [inl e]: the exception of class e escapes Delta.__add__;  [inr x]: normal completion.

    Two faithful runs:
      apply_f   DeltaModel's passes, with add_one_f (the insertion) in the item-added passes
      apply_ff  add_one_ff (the insertion, and the write that fails after a coercion), remove_one_f in the two
                item-removed passes, post_one_f in the post-processing
    Domain of faithfulness (explicit boolean [dom_delta], plus the standing assumptions of DeltaModel: tree-shaped
    inputs, no container inside a tuple): no removal path (iterable_item_removed, iterable_item_moved,
    dictionary_item_removed) is the root path: `del self.root` makes every later pass log errors and __add__ end in
    AttributeError unless a later dictionary_item_added at 'root' re-creates the attribute - not modelled
    (remove_one_f answers AttributeError at once; DeltaModel.remove_one ignores the item).

    Definitions only. *)
From Coq Require Import List ZArith NArith Bool Arith.
Import ListNotations.
From DD Require Import Base.PyStr Base.Value Path.PathModel Diff.Tree Diff.DiffModel Delta.DeltaModel.

Inductive exn := EAttribute | EType.
Definition res (A : Type) : Type := sum exn A.
Definition rbind {A B} (r : res A) (f : A -> res B) : res B :=
  match r with inl e => inl e | inr x => f x end.

(* len(obj): None = TypeError (object of type 'int' has no len()) *)
Definition py_len (v : value) : option nat :=
  match v with
  | VList xs | VTuple xs => Some (List.length xs)
  | VDict kvs => Some (List.length kvs)
  | VSet xs | VFrozen xs => Some (List.length xs)
  | VAtom (AStr s) | VAtom (ABytes s) => Some (List.length s)
  | VAtom _ => None
  end.

(* elem < n for an int n: defined for numbers (bool, int, float); None = TypeError ('a' < 3, None < 3, b'a' < 3) *)
Definition elem_lt (k : atom) (n : nat) : option bool :=
  match num2 k with
  | Some t => Some (Z.ltb t (2 * Z.of_nat n))
  | None => None
  end.

(* list.insert(z, v): a negative index counts from the end; out-of-range indexes are clamped *)
Definition clamp_index (n : nat) (z : Z) : nat :=
  let m := Z.of_nat n in
  Z.to_nat (if Z.ltb z 0 then Z.max 0 (z + m) else Z.min z m).
Definition py_insert (xs : list value) (z : Z) (v : value) : list value :=
  list_insert xs (clamp_index (List.length xs) z) v.

(* _set_new_value as _do_item_added uses it (no read of obj[elem] before the write, unlike values_changed /
   type_changes where a failing read skips the item): a tuple is coerced to a list, put back into its parent and
   registered for post-processing BEFORE the write is attempted, so a failing write (index out of range, float
   index) leaves the coercion behind: the object is a list for the later passes (_do_item_removed searches lists
   only) and whatever sits at that path at the end is converted with tuple(...).  DeltaModel.set_new_value only
   logs the error. *)
(* obj[k] = ... would succeed on the (coerced) object *)
Definition can_set (obj : value) (k : atom) : bool :=
  match set_item (untuple obj) k (VAtom ANone) with Some _ => true | None => false end.

Definition set_new_value_f (s : st) (p : path) (v : value) : st :=
  match p with
  | [] => with_root s v
  | _ =>
      let op := removelast p in
      let k := key_atom (last p (PIdx 0)) in
      match resolve (root s) op with
      | Some obj =>
          let coerced := is_tuple obj in
          match upd (root s) op (fun o => set_item (untuple o) k v) with
          | Some r' => mkSt r' (if coerced then post s ++ [op] else post s) (errs s)
          | None =>
              if coerced && negb (can_set obj k) then      (* the write itself fails, after the coercion *)
                match upd (root s) op (fun o => Some (untuple o)) with
                | Some r1 => err (mkSt r1 (post s ++ [op]) (errs s))
                | None => err s           (* the parent is a tuple: outside the domain *)
                end
              else err s
          end
      | None => err s
      end
  end.

(* one item of _do_item_added; [setv] = the model of _set_new_value used for the final write *)
Definition add_one_g (setv : st -> path -> value -> st) (ins : bool) (s : st) (p : path) (v : option value) : res st :=
  let nv := match v with Some x => x | None => VAtom ANone end in
  match p with
  | [] => if ins then inl EType            (* obj is the Delta itself: len(self) *)
          else inr (with_root s nv)
  | _ =>
      let op := removelast p in
      let k := key_atom (last p (PIdx 0)) in
      match resolve (root s) op with
      | None => inr (err s)
      | Some obj =>
          if ins then
            match py_len obj with
            | None => inl EType
            | Some n =>
                match elem_lt k n with
                | None => inl EType
                | Some false => inr (setv s p nv)
                | Some true =>
                    match obj with
                    | VList xs =>
                        match int_of_atom k with
                        | None => inl EType            (* list.insert(0.5, None) *)
                        | Some z =>
                            let s1 := match upd (root s) op (fun _ => Some (VList (py_insert xs z (VAtom ANone)))) with
                                      | Some r' => with_root s r'
                                      | None => err s
                                      end in
                            inr (set_new_value s1 p nv       (* obj is a list: no coercion *))
                        end
                    | _ => inl EAttribute              (* 'tuple' object has no attribute 'insert' *)
                    end
                end
            end
          else inr (setv s p nv)
      end
  end.

(* insertion faithful, final write as in DeltaModel *)
Definition add_one_f := add_one_g set_new_value.
(* insertion and final write faithful *)
Definition add_one_ff := add_one_g set_new_value_f.

(* _find_closest_iterable_element_for_index for a numeric elem given doubled (t = 2*elem: ints, bools, half-integer floats) *)
Fixpoint closest2_go (xs : list value) (idx : nat) (t : Z) (expected : value)
    (best : option nat) (bestd : option Z) : option nat :=
  match xs with
  | [] => best
  | x :: r =>
      let d := Z.abs (2 * Z.of_nat idx - t) in
      match bestd with
      | Some bd => if Z.ltb bd d then best
                   else if py_eqv x expected && Z.ltb d bd then closest2_go r (S idx) t expected (Some idx) (Some d)
                   else closest2_go r (S idx) t expected best bestd
      | None => if py_eqv x expected then closest2_go r (S idx) t expected (Some idx) (Some d)
                else closest2_go r (S idx) t expected best bestd
      end
  end.
Definition find_closest2 (xs : list value) (t : Z) (expected : value) : option nat :=
  closest2_go xs 0 t expected None None.

Definition is_text (v : value) : bool :=
  match v with VAtom (AStr _) | VAtom (ABytes _) => true | _ => false end.

(* one item of _do_item_removed *)
Definition remove_one_f (bidir : bool) (s : st) (p : path) (expected : value) : res st :=
  match p with
  | [] => inl EAttribute      (* outside dom_delta: see the header *)
  | _ =>
      let op := removelast p in
      let k := key_atom (last p (PIdx 0)) in
      match resolve (root s) op with
      | None => inr (err s)
      | Some obj =>
          let cur := get_item obj k in
          let look := match cur with Some c => negb (py_eqv c expected) | None => true end in
          match obj with
          | VList xs =>
              if look then
                match xs with
                | [] => inr s                      (* the loop body never runs *)
                | _ =>
                    match num2 k with
                    | None => inl EType            (* abs(index - 'a') *)
                    | Some t =>
                        match find_closest2 xs t expected with
                        | Some i => inr (verify bidir (Some expected) expected (del_elem s op (AInt (Z.of_nat i))))
                        | None => inr s
                        end
                    end
                end
              else inr (verify bidir (Some expected) expected (del_elem s op k))
          | _ =>
              match cur with
              | Some c => if is_text obj then inl EType     (* 'str' object doesn't support item deletion *)
                          else inr (verify bidir (Some expected) c (del_elem s op k))
              | None => inr s
              end
          end
      end
  end.

(* tuple(x) *)
Definition py_tuple (v : value) : option value :=
  match v with
  | VList xs | VTuple xs => Some (VTuple xs)
  | VDict kvs => Some (VTuple (map (fun kv => VAtom (fst kv)) kvs))
  | VSet xs | VFrozen xs => Some (VTuple (map VAtom xs))           (* iteration order *)
  | VAtom (AStr s) => Some (VTuple (map (fun c => VAtom (AStr [c])) s))
  | VAtom (ABytes s) => Some (VTuple (map (fun c => VAtom (AInt (Z.of_N c))) s))
  | VAtom _ => None
  end.
Definition all_str_keys (p : path) : bool :=
  forallb (fun k => match key_atom k with AStr _ => true | _ => false end) p.

(* one path of _do_post_process *)
Definition post_one_f (s : st) (p : path) : res st :=
  match p with
  | [] => match py_tuple (root s) with
          | Some r' => inr (with_root s r')
          | None => inl EType             (* the failure message subscripts the Delta *)
          end
  | _ =>
      match resolve (root s) (removelast p) with
      | None => inr (err s)
      | Some obj =>
          match get_item obj (key_atom (last p (PIdx 0))) with
          | None => if all_str_keys p then inr (err s) else inl EType     (* '.'.join over the elements *)
          | Some _ => inr (match upd (root s) p py_tuple with
                           | Some r' => with_root s r'
                           | None => err s
                           end)
          end
      end
  end.

Fixpoint fold_res {A} (f : st -> A -> res st) (l : list A) (s : st) : res st :=
  match l with
  | [] => inr s
  | x :: r => match f s x with inl e => inl e | inr s' => fold_res f r s' end
  end.

Definition lift_rem (bidir : bool) (s : st) (p : path) (e : value) : res st := inr (remove_one bidir s p e).
Definition lift_add (ins : bool) (s : st) (p : path) (v : option value) : res st := inr (add_one ins s p v).
Definition post_one (s : st) (p : path) : st :=
  match upd (root s) p (fun o => match o with VList xs => Some (VTuple xs) | VTuple xs => Some (VTuple xs) | _ => None end) with
  | Some r' => with_root s r'
  | None => err s
  end.
Definition lift_post (s : st) (p : path) : res st := inr (post_one s p).

Section Faithful.
Variable conv : ty -> value -> option value.
Variable rem_order : list (path * value) -> list (path * value).
Variable add_order : list (path * option value) -> list (path * option value).
(* the two per-item functions are parameters so that the runs below can be compared *)
Variable rem1 : bool -> st -> path -> value -> res st.
Variable add1 : bool -> st -> path -> option value -> res st.
Variable post1 : st -> path -> res st.

Definition do_item_removed_w (bidir : bool) (l : list (path * value)) (s : st) : res st :=
  fold_res (fun s pv => rem1 bidir s (fst pv) (snd pv)) (rem_order l) s.
Definition do_item_added_w (sort ins : bool) (l : list (path * option value)) (s : st) : res st :=
  fold_res (fun s pv => add1 ins s (fst pv) (snd pv)) (if sort then add_order l else l) s.

Definition do_iterable_item_removed_w (bidir : bool) (d : delta) (s : st) : res st :=
  do_item_removed_w bidir (d_irem d ++ map (fun m => (fst (fst m), snd m)) (d_moved d)) s.

Definition do_iterable_item_added_w (d : delta) (s : st) : res st :=
  let added := map (fun pv => (fst pv, Some (snd pv))) (d_iadd d)
               ++ map (fun m => (snd (fst m), None)) (d_moved d) in
  rbind (match added with [] => inr s | _ => do_item_added_w true true added s end) (fun s1 =>
  match d_moved d with
  | [] => inr s1
  | _ => do_item_added_w true false (map (fun m => (snd (fst m), Some (snd m))) (d_moved d)) s1
  end).

Definition do_post_w (s : st) : res st := fold_res post1 (post s) s.

Definition apply_w (d : delta) (v : value) : res (value * nat) :=
  let b := d_bidir d in
  let s := mkSt v [] 0 in
  let s := do_values_changed b (d_val d) s in
  let s := do_set_items set_union (d_sadd d) s in
  let s := do_set_items set_difference (d_srem d) s in
  let s := do_type_changes conv b (d_type d) s in
  let s := do_opcodes (d_ops d) s in
  rbind (do_iterable_item_removed_w b d s) (fun s =>
  rbind (do_iterable_item_added_w d s) (fun s =>
  rbind (do_item_added_w false false (map (fun pv => (fst pv, Some (snd pv))) (d_dadd d)) s) (fun s =>
  rbind (do_item_removed_w b (d_drem d) s) (fun s =>
  rbind (do_post_w s) (fun s =>
  inr (root s, errs s)))))).
End Faithful.

(* Delta.__add__ with the faithful item-added passes *)
Definition do_item_added_f add_order := do_item_added_w add_order add_one_f.
Definition do_iterable_item_added_f add_order := do_iterable_item_added_w add_order add_one_f.
Definition apply_f conv rem_order add_order : delta -> value -> res (value * nat) :=
  apply_w conv rem_order add_order lift_rem add_one_f lift_post.
(* ... and the faithful item-removed passes *)
Definition do_item_removed_f rem_order := do_item_removed_w rem_order remove_one_f.
Definition do_iterable_item_removed_f rem_order := do_iterable_item_removed_w rem_order remove_one_f.
Definition do_post_f := do_post_w post_one_f.
Definition apply_ff conv rem_order add_order : delta -> value -> res (value * nat) :=
  apply_w conv rem_order add_order remove_one_f add_one_ff post_one_f.

(* option view: None = some exception escapes *)
Definition res_opt {A} (r : res A) : option A := match r with inl _ => None | inr x => Some x end.

(* ------------------------------------------------------------------ *)
(* domain                                                              *)
(* ------------------------------------------------------------------ *)
Definition nonroot (p : path) : bool := match p with [] => false | _ => true end.
Definition dom_delta (d : delta) : bool :=
  forallb (fun pv => nonroot (fst pv)) (d_irem d) && forallb (fun pv => nonroot (fst pv)) (d_drem d)
  && forallb (fun m => nonroot (fst (fst m))) (d_moved d).

(* ------------------------------------------------------------------ *)
(* regularity: the steps on which DeltaModel and the code agree        *)
(* ------------------------------------------------------------------ *)
Definition nonneg_int (k : atom) : bool :=
  match int_of_atom k with Some z => Z.leb 0 z | None => false end.
(* the paths of the items added to iterables end in a non-negative int (True / False included): the case for every
   delta that comes from a diff (list positions) *)
Definition ends_nonneg (p : path) : bool :=
  match p with [] => true | _ => nonneg_int (key_atom (last p (PIdx 0))) end.
Definition nonneg_paths (d : delta) : bool :=
  forallb (fun pv => ends_nonneg (fst pv)) (d_iadd d) && forallb (fun m => ends_nonneg (snd (fst m))) (d_moved d).


(* an item-added step is insert-regular in state s: no insertion is attempted (insert=False, or elem >= len(obj)
   evaluates without raising), or the object is a list and elem a non-negative int (True/False included) *)
Definition add_reg (ins : bool) (s : st) (p : path) : bool :=
  negb ins ||
  match p with
  | [] => false
  | _ =>
      let k := key_atom (last p (PIdx 0)) in
      match resolve (root s) (removelast p) with
      | None => true
      | Some obj =>
          (is_list obj && nonneg_int k)
          || match py_len obj with
             | Some n => match elem_lt k n with Some b => negb b | None => false end
             | None => false
             end
      end
  end.

(* ... and no write fails on a tuple *)
Definition write_reg (s : st) (p : path) : bool :=
  match p with
  | [] => true
  | _ =>
      match resolve (root s) (removelast p) with
      | None => true
      | Some obj => negb (is_tuple obj) || can_set obj (key_atom (last p (PIdx 0)))
      end
  end.

(* an item-removed step is regular: not the root path; a list is searched only with an int elem (or is empty);
   nothing is deleted from a str / bytes *)
Definition rem_reg (s : st) (p : path) (expected : value) : bool :=
  match p with
  | [] => false
  | _ =>
      let k := key_atom (last p (PIdx 0)) in
      match resolve (root s) (removelast p) with
      | None => true
      | Some obj =>
          let cur := get_item obj k in
          match obj with
          | VList xs =>
              match cur with Some c => py_eqv c expected | None => false end
              || match xs with [] => true | _ => false end
              || match int_of_atom k with Some _ => true | None => false end
          | _ => match cur with Some _ => negb (is_text obj) | None => true end
          end
      end
  end.

(* a post-processing step is regular: the coerced tuple is still a list (or a tuple), or both sides log an error *)
Definition is_seq (v : value) : bool := match v with VList _ | VTuple _ => true | _ => false end.
Definition post_reg (s : st) (p : path) : bool :=
  match p with
  | [] => is_seq (root s)
  | _ =>
      match resolve (root s) (removelast p) with
      | None => true
      | Some obj =>
          match get_item obj (key_atom (last p (PIdx 0))) with
          | None => all_str_keys p
          | Some c => is_seq c || match py_tuple c with None => true | Some _ => false end
          end
      end
  end.

(* [reg] holds at every step of the run of [step] over l from s *)
Fixpoint fold_reg {A} (step : st -> A -> st) (reg : st -> A -> bool) (l : list A) (s : st) : bool :=
  match l with
  | [] => true
  | x :: r => reg s x && fold_reg step reg r (step s x)
  end.

Section Regular.
Variable conv : ty -> value -> option value.
Variable rem_order : list (path * value) -> list (path * value).
Variable add_order : list (path * option value) -> list (path * option value).

Definition added_reg (sort ins : bool) (l : list (path * option value)) (s : st) : bool :=
  fold_reg (fun s pv => add_one ins s (fst pv) (snd pv)) (fun s pv => add_reg ins s (fst pv))
           (if sort then add_order l else l) s.
Definition removed_reg (bidir : bool) (l : list (path * value)) (s : st) : bool :=
  fold_reg (fun s pv => remove_one bidir s (fst pv) (snd pv)) (fun s pv => rem_reg s (fst pv) (snd pv))
           (rem_order l) s.

(* the iterable-added pass of DeltaModel from state s meets insert-regular steps only *)
Definition iterable_added_reg (d : delta) (s : st) : bool :=
  let added := map (fun pv => (fst pv, Some (snd pv))) (d_iadd d)
               ++ map (fun m => (snd (fst m), None)) (d_moved d) in
  match added with [] => true | _ => added_reg true true added s end.
  (* the second pass over the moved items has insert=False: always regular *)

(* states of DeltaModel.apply before the passes 6, 7, 9 *)
Definition state5 (d : delta) (v : value) : st :=
  let b := d_bidir d in
  do_opcodes (d_ops d) (do_type_changes conv b (d_type d)
    (do_set_items set_difference (d_srem d) (do_set_items set_union (d_sadd d)
      (do_values_changed b (d_val d) (mkSt v [] 0))))).
Definition state6 (d : delta) (v : value) : st := do_iterable_item_removed rem_order (d_bidir d) d (state5 d v).
Definition state8 (d : delta) (v : value) : st :=
  do_item_added add_order false false (map (fun pv => (fst pv, Some (snd pv))) (d_dadd d))
    (do_iterable_item_added add_order d (state6 d v)).

(* DeltaModel's run of d on v is insert-regular *)
Definition insert_regular (d : delta) (v : value) : bool := iterable_added_reg d (state6 d v).
(* ... and its two removal passes are regular *)
Definition state9 (d : delta) (v : value) : st := do_item_removed rem_order (d_bidir d) (d_drem d) (state8 d v).
Definition removal_regular (d : delta) (v : value) : bool :=
  removed_reg (d_bidir d) (d_irem d ++ map (fun m => (fst (fst m), snd m)) (d_moved d)) (state5 d v)
  && removed_reg (d_bidir d) (d_drem d) (state8 d v).
(* ... and no write of its three item-added passes fails on a tuple *)
Definition written_reg (sort ins : bool) (l : list (path * option value)) (s : st) : bool :=
  fold_reg (fun s pv => add_one ins s (fst pv) (snd pv)) (fun s pv => write_reg s (fst pv))
           (if sort then add_order l else l) s.
Definition added_items (d : delta) : list (path * option value) :=
  map (fun pv => (fst pv, Some (snd pv))) (d_iadd d) ++ map (fun m => (snd (fst m), None)) (d_moved d).
Definition state7a (d : delta) (s : st) : st :=
  match added_items d with [] => s | _ => do_item_added add_order true true (added_items d) s end.
Definition write_regular (d : delta) (v : value) : bool :=
  (match added_items d with [] => true | _ => written_reg true true (added_items d) (state6 d v) end)
  && (match d_moved d with
      | [] => true
      | _ => written_reg true false (map (fun m => (snd (fst m), Some (snd m))) (d_moved d)) (state7a d (state6 d v))
      end)
  && written_reg false false (map (fun pv => (fst pv, Some (snd pv))) (d_dadd d))
                 (do_iterable_item_added add_order d (state6 d v)).
(* ... and its post-processing is regular *)
Definition post_regular (d : delta) (v : value) : bool :=
  fold_reg post_one (fun s p => post_reg s p) (post (state9 d v)) (state9 d v).
End Regular.

(** C08: the in-place inversion theorem for a FLAT TUPLE root (the case the
    general theorem excludes with [ntp]): the coercion of the tuple to a list
    by _set_new_value / _coerce_obj and its restoration by _do_post_process
    make the run on (x0,...,xn) the run on [x0,...,xn] with the result turned
    back into a tuple. *)
From Coq Require Import List ZArith NArith Bool Arith Lia.
Import ListNotations.
From DD Require Import Base.PyStr Base.Value Base.ValueFacts Path.PathModel
  Diff.Tree Diff.DiffModel Diff.DiffFacts Diff.DiffFaithful
  Delta.DeltaModel Delta.DeltaVerify Delta.DeltaReverse Delta.DeltaReverseInplace.

Definition flat_path (p : path) : Prop := exists k, p = [k].

(* the relation between the run on the tuple and the run on the list *)
Definition TL (xs0 : list value) (sT sL : st) : Prop :=
  errs sT = errs sL /\ post sL = [] /\
  ((root sT = VTuple xs0 /\ root sL = VList xs0 /\ post sT = []) \/
   (root sT = root sL /\ is_list (root sL) = true /\ exists n, post sT = repeat [] (S n))).

Lemma resolve_single v k : resolve v [k] = get_item v (key_atom k).
Proof. cbn. destruct (get_item v (key_atom k)); reflexivity. Qed.

Lemma TL_wstep xs0 sT sL w : flat_path (wpath w) -> TL xs0 sT sL -> TL xs0 (wstep sT w) (wstep sL w).
Proof.
  intros [k Hk] (E & PL & H). destruct w as [[p e] x]. cbn in Hk. subst p.
  unfold TL, wstep, current_at. cbn [fst snd]. rewrite !resolve_single.
  destruct H as [(RT & RL & PT)|(RR & IL & n & PT)].
  - rewrite RT, RL.
    change (get_item (VTuple xs0) (key_atom k)) with (get_item (VList xs0) (key_atom k)).
    destruct (get_item (VList xs0) (key_atom k)) as [cur|] eqn:G.
    2:{ split; [cbn; congruence|]. split; [exact PL|]. left. repeat split; assumption. }
    unfold set_new_value. cbn [removelast last resolve]. rewrite RT, RL. cbn [is_tuple upd untuple].
    destruct (set_item (VList xs0) (key_atom k) x) as [r'|] eqn:HS.
    + assert (IL' : is_list r' = true).
      { cbn in HS. destruct (list_index xs0 (key_atom k)); [|discriminate]. destruct (list_set xs0 n x); [|discriminate].
        inversion HS. reflexivity. }
      unfold verify. destruct (py_eqv e cur); unfold err; cbn [root post errs].
      * split; [exact E|]. split; [exact PL|]. right. split; [reflexivity|]. split; [exact IL'|]. exists 0. rewrite PT. reflexivity.
      * split; [congruence|]. split; [exact PL|]. right. split; [reflexivity|]. split; [exact IL'|]. exists 0. rewrite PT. reflexivity.
    + unfold verify. destruct (py_eqv e cur); unfold err; cbn [root post errs].
      * split; [congruence|]. split; [exact PL|]. left. repeat split; assumption.
      * split; [congruence|]. split; [exact PL|]. left. repeat split; assumption.
  - rewrite RR. destruct (get_item (root sL) (key_atom k)) as [cur|] eqn:G.
    2:{ split; [cbn; congruence|]. split; [exact PL|]. right. split; [exact RR|]. split; [exact IL|]. exists n. exact PT. }
    unfold set_new_value. cbn [removelast last resolve]. rewrite RR.
    destruct (root sL) as [a|ys|ys|kvs|ys|ys] eqn:RL; try discriminate IL. cbn [is_tuple upd untuple].
    destruct (set_item (VList ys) (key_atom k) x) as [r'|] eqn:HS.
    + assert (IL' : is_list r' = true).
      { cbn in HS. destruct (list_index ys (key_atom k)); [|discriminate]. destruct (list_set ys n0 x); [|discriminate].
        inversion HS. reflexivity. }
      unfold verify. destruct (py_eqv e cur); unfold err; cbn [root post errs].
      * split; [exact E|]. split; [exact PL|]. right. split; [reflexivity|]. split; [exact IL'|]. exists n. exact PT.
      * split; [congruence|]. split; [exact PL|]. right. split; [reflexivity|]. split; [exact IL'|]. exists n. exact PT.
    + unfold verify. destruct (py_eqv e cur); unfold err; cbn [root post errs].
      * split; [congruence|]. split; [exact PL|]. right. split; [congruence|]. split; [rewrite RL; reflexivity|]. exists n. exact PT.
      * split; [congruence|]. split; [exact PL|]. right. split; [congruence|]. split; [rewrite RL; reflexivity|]. exists n. exact PT.
Qed.

Lemma TL_fold xs0 L : Forall (fun w => flat_path (wpath w)) L ->
  forall sT sL, TL xs0 sT sL -> TL xs0 (fold_left wstep L sT) (fold_left wstep L sL).
Proof.
  induction 1 as [|w L Hw _ IH]; intros sT sL H; [exact H|]. cbn [fold_left]. apply IH. apply TL_wstep; assumption.
Qed.

Lemma do_post_repeat ys n e : 
  do_post (mkSt (VList ys) (repeat [] (S n)) e) = mkSt (VTuple ys) (repeat [] (S n)) e.
Proof.
  unfold do_post. cbn [post]. 
  assert (G : forall m r, (r = VList ys \/ r = VTuple ys) ->
            fold_left (fun s p => match upd (root s) p (fun o => match o with VList xs => Some (VTuple xs) | VTuple xs => Some (VTuple xs) | _ => None end) with
                                  | Some r' => with_root s r' | None => err s end) (repeat [] (S m)) (mkSt r (repeat [] (S n)) e)
            = mkSt (VTuple ys) (repeat [] (S n)) e).
  { induction m as [|m IHm]; intros r [->| ->]; cbn [repeat fold_left upd root with_root]; try reflexivity;
      apply (IHm (VTuple ys)); right; reflexivity. }
  apply G. left. reflexivity.
Qed.

Section Tuple.
Variable conv : ty -> value -> option value.
Variable rem_order : list (path * value) -> list (path * value).
Variable add_order : list (path * option value) -> list (path * option value).
Hypothesis rem_order_nil : rem_order [] = [].

(* the run on the tuple is the run on the list, re-tupled *)
Theorem flat_tuple_transfer d xs :
  inplace d -> d_bidir d = true -> Forall (fun w => flat_path (wpath w)) (writes d) ->
  exists ys n, apply conv rem_order add_order d (VList xs) = (VList ys, n) /\
               apply conv rem_order add_order d (VTuple xs) = (VTuple ys, n).
Proof.
  intros Hin B HF.
  rewrite !(apply_inplace conv rem_order add_order rem_order_nil d _ Hin B). cbv zeta.
  pose proof (TL_fold xs (writes d) HF (mkSt (VTuple xs) [] 0) (mkSt (VList xs) [] 0)) as H.
  destruct H as (E & PL & H).
  { split; [reflexivity|]. split; [reflexivity|]. left. repeat split. }
  set (sT := fold_left wstep (writes d) (mkSt (VTuple xs) [] 0)) in *.
  set (sL := fold_left wstep (writes d) (mkSt (VList xs) [] 0)) in *.
  destruct H as [(RT & RL & PT)|(RR & IL & n & PT)].
  - exists xs, (errs sL). rewrite !do_post_nil by assumption. rewrite RT, RL, E. split; reflexivity.
  - destruct (root sL) as [a|ys|ys|kvs|ys|ys] eqn:RL; try discriminate IL.
    exists ys, (errs sL). rewrite (do_post_nil sL PL), RL. split; [reflexivity|].
    destruct sT as [rT pT eT]. cbn [root post errs] in *. subst rT pT eT. rewrite do_post_repeat. reflexivity.
Qed.

Lemma flat_paths_reverse d : inplace d ->
  Forall (fun w => flat_path (wpath w)) (writes d) -> Forall (fun w => flat_path (wpath w)) (writes (reverse d)).
Proof.
  intros Hin H. rewrite (writes_reverse d Hin). apply Forall_forall. intros w Hw.
  apply in_map_iff in Hw as (w0 & <- & Hw0). eapply Forall_forall in H; [|exact Hw0]. exact H.
Qed.

Lemma ntp_flat r p : flat_path p -> is_tuple r = false -> ntp r p.
Proof. intros [k ->] H. exact H. Qed.

(* inversion for a flat tuple: (x0,..,xn) + d = v2 without error  ==>  v2 - d = (x0,..,xn) *)
Theorem flat_tuple_sub_inverts d xs v2 :
  inplace d -> d_bidir d = true -> Forall (fun w => flat_path (wpath w)) (writes d) ->
  pairwise_div (map wpath (writes d)) = true ->
  (forall w, In w (writes d) ->
     resolve (VTuple xs) (wpath w) = Some (snd (fst w)) /\ wf (snd w) = true) ->
  apply conv rem_order add_order d (VTuple xs) = (v2, 0) ->
  sub conv rem_order add_order d v2 = Some (VTuple xs, 0).
Proof.
  intros Hin B HF P H A.
  destruct (flat_tuple_transfer d xs Hin B HF) as (ys & n & AL & AT).
  rewrite AT in A. injection A as <- ->.
  assert (SL : sub conv rem_order add_order d (VList ys) = Some (VList xs, 0)).
  { apply (inplace_sub_inverts conv rem_order add_order rem_order_nil d (VList xs) (VList ys) Hin B P); [|exact AL].
    intros w Hw. destruct (H w Hw) as [R W]. split; [|split; [exact W|]].
    - eapply Forall_forall in HF; [|exact Hw]. destruct HF as [k Hk]. rewrite Hk in *. exact R.
    - apply ntp_flat; [|reflexivity]. eapply Forall_forall in HF; eassumption. }
  rewrite (bidir_sub_defined conv rem_order add_order d _ B) in SL.
  rewrite (bidir_sub_defined conv rem_order add_order d _ B).
  assert (SL' : apply conv rem_order add_order (reverse d) (VList ys) = (VList xs, 0)) by congruence.
  f_equal.
  destruct (flat_tuple_transfer (reverse d) ys (inplace_reverse d Hin) B (flat_paths_reverse d Hin HF))
    as (xs' & n' & AL' & AT').
  rewrite AL' in SL'. injection SL' as -> ->. exact AT'.
Qed.

End Tuple.

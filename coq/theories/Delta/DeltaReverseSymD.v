(** C08: symmetry of the ordered diff in BOTH alignment modes, before
    mutual_add_removes: with the mirrored opcode oracle, the tree of
    diff(t2,t1) is kind by kind (and up to the diff text) the mirrored tree of
    diff(t1,t2), and the same opcode paths are recorded.  Guard [sg]
    (DeltaReverseSym.v): no ==-aliased atoms, all dict keys visible, paired
    dicts list their common keys in the same order. *)
From Coq Require Import List ZArith NArith Bool Arith Lia Permutation.
Import ListNotations.
From DD Require Import Base.PyStr Base.Value Base.ValueFacts Path.PathModel
  Diff.Tree Diff.DiffModel Diff.DiffFacts Diff.DiffFaithful
  Delta.DeltaModel Delta.DeltaGuard Delta.DeltaReverse Delta.DeltaReverseKinds Delta.DeltaReverseSym.

Section SymD.
Variable hatom : atom -> pystr.
Variable udiff : pystr -> pystr -> pystr.
Variable ops : path -> list value -> list value -> list opcode.
Variable c : cfg.
Notation nos := DeltaReverseSym.nos.
Notation diffF := (diff hatom udiff ops nos nos c).
Notation diffR := (diff hatom udiff (mirror_ops ops) nos nos c).

(* ---- all-atom lists ---- *)
Lemma py_eq_leaf_sym x y : py_eq_leaf x y = py_eq_leaf y x.
Proof. destruct x, y; try reflexivity. cbn. apply py_eq_sym. Qed.

Lemma strip_diff_atom a b p1 p2 :
  map strip (diff_atom udiff nos b a p2 p1) = map strip (map mirror_entry (diff_atom udiff nos a b p1 p2)).
Proof.
  unfold diff_atom. cbn [nos]. rewrite (ty_eqb_sym (atom_ty b) (atom_ty a)).
  destruct (negb (ty_eqb (atom_ty a) (atom_ty b))) eqn:T; [reflexivity|].
  destruct a as [|ba|za|ta|sa|sa], b as [|bb|zb|tb|sb|sb]; try discriminate T; cbv beta iota;
    try (match goal with |- context [py_eq ?x ?y] => rewrite (py_eq_sym x y) end;
         match goal with |- context [py_eq ?x ?y] => destruct (py_eq x y) end; reflexivity);
    try (match goal with |- context [py_eq ?x ?y] => destruct (py_eq x y) end; reflexivity).
  - pose proof (diff_str_ch udiff false sa sb) as C1. pose proof (diff_str_ch udiff false sb sa) as C2.
    rewrite (pystr_eqb_sym sb sa) in C2.
    destruct (diff_str udiff false sa sb) as [c1 d1], (diff_str udiff false sb sa) as [c2 d2]. cbn [fst] in C1, C2.
    subst c1 c2. destruct (negb (pystr_eqb sa sb)); reflexivity.
  - pose proof (diff_str_ch udiff true sa sb) as C1. pose proof (diff_str_ch udiff true sb sa) as C2.
    rewrite (pystr_eqb_sym sb sa) in C2.
    destruct (diff_str udiff true sa sb) as [c1 d1], (diff_str udiff true sb sa) as [c2 d2]. cbn [fst] in C1, C2.
    subst c1 c2. destruct (negb (pystr_eqb sa sb)); reflexivity.
Qed.

Lemma strip_pairs_leaf xs : forall ys i j p,
  map strip (pairs_leaf udiff nos ys xs j i p p) = map strip (map mirror_entry (pairs_leaf udiff nos xs ys i j p p)).
Proof.
  induction xs as [|x xs IH]; intros ys i j p.
  - destruct ys as [|y ys]; [reflexivity|].
    cbn [pairs_leaf]. rewrite <- (mirror_added_from (y :: ys) j p). reflexivity.
  - destruct ys as [|y ys].
    + cbn [pairs_leaf]. rewrite (mirror_removed_from (x :: xs) i p). reflexivity.
    + cbn [pairs_leaf]. rewrite !map_app, (IH ys (S i) (S j) p). f_equal.
      rewrite (Nat.eqb_sym j i), (py_eq_leaf_sym y x).
      destruct (negb (i =? j) && py_eq_leaf x y); [reflexivity|].
      unfold diff_leaf. destruct x, y; try reflexivity. apply strip_diff_atom.
Qed.

Lemma strip_by_opcodes os xs ys p :
  map strip (by_opcodes udiff nos (map mirror_op os) ys xs p p) =
  map strip (map mirror_entry (by_opcodes udiff nos os xs ys p p)).
Proof.
  unfold by_opcodes. induction os as [|o os IH]; [reflexivity|].
  cbn [map flat_map]. rewrite !map_app, IH. f_equal.
  destruct o as [t i1 i2 j1 j2]. cbn [mirror_op otag oi1 oi2 oj1 oj2 rev_tag]. destruct t; cbn [rev_tag].
  - reflexivity.
  - apply strip_pairs_leaf.
  - rewrite (mirror_removed_from (slice xs i1 i2) i1 p). reflexivity.
  - rewrite <- (mirror_added_from (slice ys j1 j2) j1 p). reflexivity.
Qed.

Lemma strip_length (a b : list entry) : map strip a = map strip b -> length a = length b.
Proof. intros H. rewrite <- (map_length strip a), H. apply map_length. Qed.

Lemma sym_leaf xs ys p :
  map strip (fst (default_leaf_list udiff (mirror_ops ops) nos ys xs p p)) =
  map strip (map mirror_entry (fst (default_leaf_list udiff ops nos xs ys p p))) /\
  snd (default_leaf_list udiff (mirror_ops ops) nos ys xs p p) = snd (default_leaf_list udiff ops nos xs ys p p).
Proof.
  unfold default_leaf_list. cbv zeta. unfold mirror_ops.
  pose proof (strip_by_opcodes (ops p xs ys) xs ys p) as E1.
  pose proof (strip_pairs_leaf xs ys 0 0 p) as E2.
  assert (L1 : length (by_opcodes udiff nos (map mirror_op (ops p xs ys)) ys xs p p) =
               length (by_opcodes udiff nos (ops p xs ys) xs ys p p)).
  { rewrite (strip_length _ _ E1). apply map_length. }
  assert (L2 : length (pairs_leaf udiff nos ys xs 0 0 p p) = length (pairs_leaf udiff nos xs ys 0 0 p p)).
  { rewrite (strip_length _ _ E2). apply map_length. }
  rewrite L1, L2.
  destruct (1 <? _); [|split; [exact E1|reflexivity]].
  destruct (_ <=? _); split; try reflexivity; assumption.
Qed.

(* ---- the induction ---- *)
Definition SYM2 (t1 : value) : Prop :=
  forall t2 p, sg c t1 t2 ->
    keq (fst (diffR t2 t1 p p)) (map mirror_entry (fst (diffF t1 t2 p p))) /\
    snd (diffR t2 t1 p p) = snd (diffF t1 t2 p p).

Lemma sym2_go_list (tup : bool) xs : Forall SYM2 xs -> forall ys i p,
  sg c (if tup then VTuple xs else VList xs) (if tup then VTuple ys else VList ys) ->
  keq (fst (go_list nos diffR p p ys xs i)) (map mirror_entry (fst (go_list nos diffF p p xs ys i))) /\
  snd (go_list nos diffR p p ys xs i) = snd (go_list nos diffF p p xs ys i).
Proof.
  induction 1 as [|x xs Hx _ IH]; intros ys i p G.
  - destruct ys as [|y ys]; cbn [go_list fst snd].
    + split; [apply keq_refl|reflexivity].
    + rewrite mirror_added_from. split; [apply keq_refl|reflexivity].
  - destruct ys as [|y ys].
    + cbn [go_list fst snd]. rewrite mirror_removed_from. split; [apply keq_refl|reflexivity].
    + cbn [go_list]. unfold app2. cbn [fst snd]. rewrite map_app.
      destruct (sg_cons_list hatom udiff c x xs y ys tup G) as [G1 G2].
      destruct (Hx y (snoc p (PIdx i)) G1) as [K1 S1]. destruct (IH ys (S i) p G2) as [K2 S2].
      split; [apply keq_app; assumption|rewrite S1, S2; reflexivity].
Qed.

Lemma sym2_seq_body (tup : bool) xs ys p : Forall SYM2 xs ->
  sg c (if tup then VTuple xs else VList xs) (if tup then VTuple ys else VList ys) ->
  keq (fst (seq_body hatom udiff (mirror_ops ops) nos nos c ys xs p p))
      (map mirror_entry (fst (seq_body hatom udiff ops nos nos c xs ys p p))) /\
  snd (seq_body hatom udiff (mirror_ops ops) nos nos c ys xs p p) = snd (seq_body hatom udiff ops nos nos c xs ys p p).
Proof.
  intros IH G. unfold seq_body.
  replace (negb (zip c) && forallb is_atom ys && forallb is_atom xs)
    with (negb (zip c) && forallb is_atom xs && forallb is_atom ys)
    by (destruct (negb (zip c)), (forallb is_atom xs), (forallb is_atom ys); reflexivity).
  destruct (negb (zip c) && forallb is_atom xs && forallb is_atom ys).
  - destruct (sym_leaf xs ys p) as [E1 E2].
    destruct (default_leaf_list udiff (mirror_ops ops) nos ys xs p p) as [esR recR].
    destruct (default_leaf_list udiff ops nos xs ys p p) as [esF recF]. cbn [fst snd] in *.
    subst recR. split; [apply keq_of_strip; exact E1|reflexivity].
  - apply (sym2_go_list tup); assumption.
Qed.

Lemma gc_snd (o : path -> list value -> list value -> list opcode) (kvs1 kvs2 : list (atom * value)) p :
  (forall k, In k (map fst kvs1) -> keep_key c k = true) ->
  (forall k k', In k (map fst kvs1) -> In k' (map fst kvs2) -> py_eq k k' = true -> k = k') ->
  forall l, (forall kv, In kv l -> In (fst kv) (map fst kvs1)) ->
  snd (go_common c (diff hatom udiff o nos nos c) kvs2 (map fst kvs2) p p l) =
  flat_map (fun kv => match assoc (fst kv) kvs2 with
                      | Some v2 => snd (diff hatom udiff o nos nos c (snd kv) v2 (snoc p (PKey (fst kv))) (snoc p (PKey (fst kv))))
                      | None => []
                      end) l.
Proof.
  intros Keep Ident. induction l as [|[k v1] l IH]; intros Sub; [reflexivity|].
  cbn [go_common flat_map fst snd].
  assert (Hk : In k (map fst kvs1)) by (apply (Sub (k, v1)); left; reflexivity).
  rewrite (Keep k Hk). pose proof (find_key kvs1 kvs2 Ident k Hk) as F.
  rewrite <- IH by (intros kv Hkv; apply Sub; right; exact Hkv).
  destruct (assoc k kvs2) as [v2|] eqn:A; rewrite F; [|reflexivity].
  rewrite A. reflexivity.
Qed.

Lemma sym2_dict kvs1 kvs2 p :
  Forall (fun kv => SYM2 (snd kv)) kvs1 -> sg c (VDict kvs1) (VDict kvs2) ->
  keq (fst (dict_body hatom udiff (mirror_ops ops) nos nos c kvs2 kvs1 p p))
      (map mirror_entry (fst (dict_body hatom udiff ops nos nos c kvs1 kvs2 p p))) /\
  snd (dict_body hatom udiff (mirror_ops ops) nos nos c kvs2 kvs1 p p) = snd (dict_body hatom udiff ops nos nos c kvs1 kvs2 p p).
Proof.
  intros IH G. pose proof G as (W1 & W2 & AF & K1 & K2 & KO).
  cbn [wf] in W1, W2. apply andb_true_iff in W1 as [N1 W1], W2 as [N2 W2].
  assert (Keep1 : forall k, In k (map fst kvs1) -> keep_key c k = true) by (intros k; apply allkeep_keys; exact K1).
  assert (Keep2 : forall k, In k (map fst kvs2) -> keep_key c k = true) by (intros k; apply allkeep_keys; exact K2).
  assert (Ident : forall k k', In k (map fst kvs1) -> In k' (map fst kvs2) -> py_eq k k' = true -> k = k').
  { intros k k' Hk Hk' E. apply AF; [| |exact E]; cbn [atoms_of]; apply in_or_app; [left|right].
    - apply in_map_iff in Hk as (kv & <- & Hin). apply in_flat_map. exists kv. split; [exact Hin|left; reflexivity].
    - apply in_map_iff in Hk' as (kv & <- & Hin). apply in_flat_map. exists kv. split; [exact Hin|left; reflexivity]. }
  assert (Ident' : forall k k', In k (map fst kvs2) -> In k' (map fst kvs1) -> py_eq k k' = true -> k = k').
  { intros k k' Hk Hk' E. symmetry. apply Ident; [exact Hk'|exact Hk|rewrite py_eq_sym; exact E]. }
  unfold dict_body. rewrite (keys_all1 c kvs1 Keep1), (keys_all2 c kvs2 Keep2).
  rewrite (shortcut_sym c kvs1 kvs2 p N1 N2 Ident).
  destruct (dict_shortcut nos c (map fst kvs1) (map fst kvs2) p); cbn [fst snd].
  - split; [apply keq_of_strip; reflexivity|reflexivity].
  - (* the common part, by the common keys in their common order *)
    destruct KO as [KO KOc].
    assert (CH : forall k, In k (filter (has_key kvs2) (map fst kvs1)) ->
              exists v1 v2, assoc k kvs1 = Some v1 /\ assoc k kvs2 = Some v2 /\ In (k, v1) kvs1 /\ sg c v1 v2).
    { intros k Hk. apply filter_In in Hk as [Hk1 Hk2].
      destruct (assoc_In_key k kvs1 N1 Hk1) as (v1 & A1 & Hin1).
      assert (Hk2' : In k (map fst kvs2)) by (apply (mem_In2 kvs1 kvs2 Ident); assumption).
      destruct (assoc_In_key k kvs2 N2 Hk2') as (v2 & A2 & Hin2).
      exists v1, v2. split; [exact A1|]. split; [exact A2|]. split; [exact Hin1|]. eapply sg_dict_child; eassumption. }
    split.
    + rewrite !map_app, !map_flat_map'.
      match goal with |- keq (?A' ++ ?R' ++ ?C') (?MA ++ ?MR ++ ?MC) =>
        assert (EA : MR = A'); [|assert (ER : MA = R')] end.
      { apply flat_map_ext_in. intros k _. destruct (mem_atom k (map fst kvs2)); reflexivity. }
      { apply flat_map_ext_in. intros k _. destruct (mem_atom k (map fst kvs1)); reflexivity. }
      rewrite EA, ER. rewrite !app_assoc. apply keq_app.
      * apply keq_swap. intros x y Hx Hy.
        apply in_flat_map in Hx as (a & _ & Hx). apply in_flat_map in Hy as (b & _ & Hy).
        destruct (mem_atom a _); [destruct Hx|]. destruct (mem_atom b _); [destruct Hy|].
        destruct Hx as [<-|[]]. destruct Hy as [<-|[]]. discriminate.
      * rewrite (gc_fst hatom udiff (mirror_ops ops) c kvs2 kvs1 p Keep2 Ident' kvs2) by (intros kv H; apply in_map; exact H).
        rewrite (gc_fst hatom udiff ops c kvs1 kvs2 p Keep1 Ident kvs1) by (intros kv H; apply in_map; exact H).
        rewrite (common_by_keys kvs2 kvs1 (fun k v2 v1 => fst (diffR v2 v1 (snoc p (PKey k)) (snoc p (PKey k)))) N2 kvs2) by (intros kv H; exact H).
        rewrite (common_by_keys kvs1 kvs2 (fun k v1 v2 => fst (diffF v1 v2 (snoc p (PKey k)) (snoc p (PKey k)))) N1 kvs1) by (intros kv H; exact H).
        rewrite <- KO. rewrite map_flat_map'.
        apply keq_flat_map. intros k Hk. destruct (CH k Hk) as (v1 & v2 & A1 & A2 & Hin1 & Gc).
        rewrite A1, A2. eapply Forall_forall in IH; [|exact Hin1]. cbn [snd] in IH. apply IH. exact Gc.
    + rewrite (gc_snd (mirror_ops ops) kvs2 kvs1 p Keep2 Ident' kvs2) by (intros kv H; apply in_map; exact H).
      rewrite (gc_snd ops kvs1 kvs2 p Keep1 Ident kvs1) by (intros kv H; apply in_map; exact H).
      rewrite (common_by_keys kvs2 kvs1 (fun k v2 v1 => snd (diffR v2 v1 (snoc p (PKey k)) (snoc p (PKey k)))) N2 kvs2) by (intros kv H; exact H).
      rewrite (common_by_keys kvs1 kvs2 (fun k v1 v2 => snd (diffF v1 v2 (snoc p (PKey k)) (snoc p (PKey k)))) N1 kvs1) by (intros kv H; exact H).
      rewrite <- KO. apply flat_map_ext_in. intros k Hk. destruct (CH k Hk) as (v1 & v2 & A1 & A2 & Hin1 & Gc).
      rewrite A1, A2. eapply Forall_forall in IH; [|exact Hin1]. cbn [snd] in IH. apply IH. exact Gc.
Qed.

Theorem diff_sym2 : forall t1, SYM2 t1.
Proof.
  induction t1 as [a|xs IH|xs IH|kvs IH|xs|xs] using value_ind'; intros t2 p G;
    (match goal with |- keq (fst (DiffModel.diff _ _ _ _ _ _ t2 ?t1 _ _)) _ /\ _ =>
       destruct (ty_eqb (type_of t1) (type_of t2)) eqn:T;
       [|rewrite (diff_type hatom udiff ops nos nos c t1 t2 p p eq_refl T);
         assert (T' : ty_eqb (type_of t2) (type_of t1) = false) by (rewrite ty_eqb_sym; exact T);
         rewrite (diff_type hatom udiff (mirror_ops ops) nos nos c t2 t1 p p eq_refl T');
         split; [apply keq_of_strip; reflexivity|reflexivity]]
     end);
    apply ty_eqb_true in T; destruct t2; try discriminate T; try (destruct a; discriminate T).
  - rewrite !diff_atom_eq by reflexivity. cbn in T. rewrite T.
    replace (ty_eqb (atom_ty a0) (atom_ty a0)) with true by (destruct (atom_ty a0); reflexivity).
    cbn [negb fst snd]. split; [apply keq_of_strip; apply strip_diff_atom|reflexivity].
  - rewrite !diff_list by reflexivity. apply (sym2_seq_body false); assumption.
  - rewrite !diff_tuple by reflexivity. apply (sym2_seq_body true); assumption.
  - rewrite !diff_dict by reflexivity. apply sym2_dict; assumption.
  - rewrite !diff_vset by reflexivity. cbn [fst snd]. split; [apply sym_diff_set|reflexivity].
  - rewrite !diff_vfrozen by reflexivity. cbn [fst snd]. split; [apply sym_diff_set|reflexivity].
Qed.

End SymD.

(** C01 - the statement proved for every node of the two inputs, and the
    guard that follows the pairing of the ordered diff. *)
From Coq Require Import List ZArith NArith Bool Arith Lia Permutation.
Import ListNotations.
From DD Require Import Base.PyStr Base.Value Base.ValueFacts Path.PathModel Diff.Tree Diff.DiffModel
  Diff.DiffFacts Diff.DiffFaithful Delta.DeltaModel Delta.DeltaFacts Delta.DeltaLocal Delta.DeltaEntries
  Delta.DeltaStruct Delta.DeltaRun Delta.DeltaGuard.

Definition nos (_ : path) : bool := false.

Section Good.
Variable hatom : atom -> pystr.
Variable udiff : pystr -> pystr -> pystr.
Variable ops : path -> list value -> list value -> list opcode.
Variable c : cfg.
Variable conv : ty -> value -> option value.
Variables bidir always : bool.

Definition E (t1 t2 : value) (q : path) : list entry * list path :=
  diff hatom udiff ops nos nos c t1 t2 q q.
Definition D (T1 T2 t1 t2 : value) (q : path) : delta :=
  to_delta conv bidir always ops T1 T2 (mutual (fst (E t1 t2 q))) (snd (E t1 t2 q)).

(* the run of the delta d (paths cut by n leading keys) on the base v ends, for every
   admissible visiting order of the sorted passes, without error in t2 *)
Definition runs_to (d : delta) (n : nat) (v t2 : value) : Prop :=
  forall P, Arr (sbase n d) P ->
    errs (finish conv bidir (run_passes conv bidir P (mkSt v [] 0))) = 0 /\
    veqb (root (finish conv bidir (run_passes conv bidir P (mkSt v [] 0)))) t2 = true.

(* a type change whose values are omitted is rebuilt by the constructor call:
   the result must be the new value, not merely == to it (finding F7 and its family) *)
Definition tc_guard (t1 t2 : value) : Prop :=
  bidir || always = true \/
  forall v', conv (type_of t2) t1 = Some v' -> py_eqv v' t2 = true -> veqb v' t2 = true.

(* the same for a base v that equals t1 up to dict / set order: the constructor is called
   on the CURRENT value, so it has to rebuild t2 from v as well *)
Definition tc_b (v t1 t2 : value) : Prop :=
  bidir || always = true \/
  forall a', conv (type_of t2) t1 = Some a' -> py_eqv a' t2 = true ->
    exists v', conv (type_of t2) v = Some v' /\ veqb v' t2 = true.

(* [tc_b] along the pairing of the ordered diff (the shape of [okp] below) *)
Fixpoint okb (v t1 t2 : value) {struct t1} : Prop :=
  match t1, t2, v with
  | VList xs, VList ys, VList vs =>
      (fix go (xs ys vs : list value) {struct xs} : Prop :=
         match xs, ys, vs with
         | x :: xs', y :: ys', w :: vs' => okb w x y /\ go xs' ys' vs'
         | _, _, _ => True
         end) xs ys vs
  | VTuple _, VTuple _, _ => True
  | VDict kvs1, VDict kvs2, VDict kvb =>
      (fix go (l : list (atom * value)) : Prop :=
         match l with
         | [] => True
         | (k, v1) :: r =>
             match assoc k kvs2, assoc k kvb with Some v2, Some w => okb w v1 v2 | _, _ => True end /\ go r
         end) kvs1
  | _, _, _ => if ty_eqb (type_of t1) (type_of t2) then True else tc_b v t1 t2
  end.

Definition okb_list := fix go (xs ys vs : list value) {struct xs} : Prop :=
  match xs, ys, vs with
  | x :: xs', y :: ys', w :: vs' => okb w x y /\ go xs' ys' vs'
  | _, _, _ => True
  end.
Definition okb_dict (kvs2 kvb : list (atom * value)) := fix go (l : list (atom * value)) : Prop :=
  match l with
  | [] => True
  | (k, v1) :: r => match assoc k kvs2, assoc k kvb with Some v2, Some w => okb w v1 v2 | _, _ => True end /\ go r
  end.
Lemma okb_list_eq vs xs ys : okb (VList vs) (VList xs) (VList ys) = okb_list xs ys vs.
Proof. reflexivity. Qed.
Lemma okb_dict_eq kvb kvs1 kvs2 : okb (VDict kvb) (VDict kvs1) (VDict kvs2) = okb_dict kvs2 kvb kvs1.
Proof. reflexivity. Qed.

Lemma okb_list_nth vs xs ys : okb (VList vs) (VList xs) (VList ys) ->
  forall k w x y, nth_error vs k = Some w -> nth_error xs k = Some x -> nth_error ys k = Some y -> okb w x y.
Proof.
  rewrite okb_list_eq. revert ys vs. induction xs as [|x0 xs IH]; intros ys vs H k w x y Hw Hx Hy; [destruct k; discriminate|].
  destruct ys as [|y0 ys]; [destruct k; discriminate|]. destruct vs as [|w0 vs]; [destruct k; discriminate|].
  cbn in H. destruct H as [H0 H]. destruct k as [|k]; cbn in Hw, Hx, Hy.
  - inversion Hw; inversion Hx; inversion Hy; subst. exact H0.
  - apply (IH ys vs H k w x y Hw Hx Hy).
Qed.

Lemma okb_dict_in kvb kvs1 kvs2 : okb (VDict kvb) (VDict kvs1) (VDict kvs2) ->
  forall k v1 v2 w, In (k, v1) kvs1 -> assoc k kvs2 = Some v2 -> assoc k kvb = Some w -> okb w v1 v2.
Proof.
  rewrite okb_dict_eq. induction kvs1 as [|[k0 v0] l IH]; intros H k v1 v2 w Hin A2 Ab; [destruct Hin|].
  cbn in H. destruct H as [H0 H]. destruct Hin as [E|Hin].
  - inversion E; subst. rewrite A2, Ab in H0. exact H0.
  - apply (IH H k v1 v2 w Hin A2 Ab).
Qed.

Lemma okb_tc v t1 t2 : ty_eqb (type_of t1) (type_of t2) = false -> okb v t1 t2 -> tc_b v t1 t2.
Proof.
  intros T H. destruct t1, t2; cbn in T; try discriminate T; destruct v; cbn in H; try rewrite T in H; exact H.
Qed.

(* [okb] from [tc_b] at every node *)
Lemma okb_of_tc : (forall v t1 t2, tc_b v t1 t2) -> forall t1 t2 v, okb v t1 t2.
Proof.
  intros F.
  assert (TC : forall v t1 t2, (if ty_eqb (type_of t1) (type_of t2) then True else tc_b v t1 t2)).
  { intros v t1 t2. destruct (ty_eqb _ _); [exact I|apply F]. }
  induction t1 as [a|xs IH|xs IH|kvs IH|xs|xs] using value_ind'; intros t2 v.
  - destruct t2, v; apply (TC _ (VAtom a)).
  - destruct t2; try (destruct v; apply (TC _ (VList xs))). destruct v; try (cbn; exact I).
    rewrite okb_list_eq. revert xs0 xs1. induction IH as [|x xs Hx _ IHl]; intros ys vs; [exact I|].
    destruct ys; [exact I|]. destruct vs; [exact I|]. cbn. split; [apply Hx|apply IHl].
  - destruct t2; try (destruct v; apply (TC _ (VTuple xs))). destruct v; exact I.
  - destruct t2; try (destruct v; apply (TC _ (VDict kvs))). destruct v; try (cbn; exact I).
    rewrite okb_dict_eq. induction IH as [|[k v] l Hk _ IHl]; [exact I|]. cbn. split; [|exact IHl].
    destruct (assoc k kvs0); [|exact I]. destruct (assoc k kvs1); [apply Hk|exact I].
  - destruct t2, v; apply (TC _ (VSet xs)).
  - destruct t2, v; apply (TC _ (VFrozen xs)).
Qed.

(* nothing is asked when the values are stored in the delta *)
Lemma okb_flags : bidir || always = true -> forall t1 t2 v, okb v t1 t2.
Proof. intros F. apply okb_of_tc. intros v t1 t2. left. exact F. Qed.

(* from t1 itself *)
Definition GoodD0 (d : delta) (n : nat) (t1 t2 : value) : Prop := d_moved d = [] /\ runs_to d n t1 t2.
(* from every well-formed base that equals t1 up to dict / set order (and rebuilds the
   omitted values of type changes, [okb]) *)
Definition GoodD (d : delta) (n : nat) (t1 t2 : value) : Prop :=
  d_moved d = [] /\ forall v, wf v = true -> veqb v t1 = true -> okb v t1 t2 -> runs_to d n v t2.

Lemma GoodD0_exact d n t1 t2 : ordfree t1 = true -> GoodD0 d n t1 t2 -> GoodD d n t1 t2.
Proof. intros O [Hm H]. split; [exact Hm|]. intros v _ V _. apply veqb_ordfree in V; [|exact O]. subst v. exact H. Qed.

Definition Good (t1 t2 : value) (q : path) : Prop :=
  forall T1 T2, resolve T1 q = Some t1 -> resolve T2 q = Some t2 ->
    GoodD (D T1 T2 t1 t2 q) (length q) t1 t2.

(* the guard along the pairing of the ordered diff: tuples hold atoms only and keep
   their length (findings F4/F6); type changes satisfy [tc_guard] *)
Fixpoint okp (t1 t2 : value) {struct t1} : Prop :=
  match t1, t2 with
  | VList xs, VList ys =>
      (fix go (xs ys : list value) {struct xs} : Prop :=
         match xs, ys with
         | x :: xs', y :: ys' => okp x y /\ go xs' ys'
         | _, _ => True
         end) xs ys
  | VTuple xs, VTuple ys =>
      forallb is_atom xs = true /\ forallb is_atom ys = true /\ length xs = length ys
  | VDict kvs1, VDict kvs2 =>
      (fix go (l : list (atom * value)) : Prop :=
         match l with
         | [] => True
         | (k, v1) :: r => match assoc k kvs2 with Some v2 => okp v1 v2 | None => True end /\ go r
         end) kvs1
  | _, _ => if ty_eqb (type_of t1) (type_of t2) then True else tc_guard t1 t2
  end.

Definition okp_list := fix go (xs ys : list value) {struct xs} : Prop :=
  match xs, ys with
  | x :: xs', y :: ys' => okp x y /\ go xs' ys'
  | _, _ => True
  end.
Definition okp_dict (kvs2 : list (atom * value)) := fix go (l : list (atom * value)) : Prop :=
  match l with
  | [] => True
  | (k, v1) :: r => match assoc k kvs2 with Some v2 => okp v1 v2 | None => True end /\ go r
  end.
Lemma okp_list_eq xs ys : okp (VList xs) (VList ys) = okp_list xs ys.
Proof. reflexivity. Qed.
Lemma okp_dict_eq kvs1 kvs2 : okp (VDict kvs1) (VDict kvs2) = okp_dict kvs2 kvs1.
Proof. reflexivity. Qed.

(* the opcode oracle is a valid alignment wherever two all-atom sequences are compared *)
Fixpoint opsv (t1 t2 : value) (q : path) {struct t1} : Prop :=
  match t1, t2 with
  | VList xs, VList ys | VTuple xs, VTuple ys =>
      (forallb is_atom xs = true -> forallb is_atom ys = true -> valid_ops xs ys (ops q xs ys)) /\
      (fix go (xs ys : list value) (i : nat) {struct xs} : Prop :=
         match xs, ys with
         | x :: xs', y :: ys' => opsv x y (snoc q (PIdx i)) /\ go xs' ys' (S i)
         | _, _ => True
         end) xs ys 0
  | VDict kvs1, VDict kvs2 =>
      (fix go (l : list (atom * value)) : Prop :=
         match l with
         | [] => True
         | (k, v1) :: r => match assoc k kvs2 with Some v2 => opsv v1 v2 (snoc q (PKey k)) | None => True end /\ go r
         end) kvs1
  | _, _ => True
  end.

Definition opsv_list (q : path) := fix go (xs ys : list value) (i : nat) {struct xs} : Prop :=
  match xs, ys with
  | x :: xs', y :: ys' => opsv x y (snoc q (PIdx i)) /\ go xs' ys' (S i)
  | _, _ => True
  end.
Definition opsv_dict (q : path) (kvs2 : list (atom * value)) := fix go (l : list (atom * value)) : Prop :=
  match l with
  | [] => True
  | (k, v1) :: r => match assoc k kvs2 with Some v2 => opsv v1 v2 (snoc q (PKey k)) | None => True end /\ go r
  end.
Lemma opsv_list_eq xs ys q : opsv (VList xs) (VList ys) q =
  ((forallb is_atom xs = true -> forallb is_atom ys = true -> valid_ops xs ys (ops q xs ys)) /\ opsv_list q xs ys 0).
Proof. reflexivity. Qed.
Lemma opsv_tuple_eq xs ys q : opsv (VTuple xs) (VTuple ys) q =
  ((forallb is_atom xs = true -> forallb is_atom ys = true -> valid_ops xs ys (ops q xs ys)) /\ opsv_list q xs ys 0).
Proof. reflexivity. Qed.
Lemma opsv_dict_eq kvs1 kvs2 q : opsv (VDict kvs1) (VDict kvs2) q = opsv_dict q kvs2 kvs1.
Proof. reflexivity. Qed.

Lemma opsv_global : (forall p xs ys, forallb is_atom xs = true -> forallb is_atom ys = true -> valid_ops xs ys (ops p xs ys)) ->
  forall t1 t2 q, opsv t1 t2 q.
Proof.
  intros H. induction t1 as [a|xs IH|xs IH|kvs IH|xs|xs] using value_ind'; intros t2 q; destruct t2; try exact I.
  - rewrite opsv_list_eq. split; [apply H|]. generalize 0. revert xs0. induction IH as [|x xs Hx _ IHl]; intros ys i; [exact I|].
    destruct ys; [exact I|]. cbn. split; [apply Hx|apply IHl].
  - rewrite opsv_tuple_eq. split; [apply H|]. generalize 0. revert xs0. induction IH as [|x xs Hx _ IHl]; intros ys i; [exact I|].
    destruct ys; [exact I|]. cbn. split; [apply Hx|apply IHl].
  - rewrite opsv_dict_eq. induction IH as [|[k v] l Hk _ IHl]; [exact I|]. cbn. split; [|exact IHl].
    destruct (assoc k kvs0); [apply Hk|exact I].
Qed.

(* all guards of a pair *)
Definition guards (t1 t2 : value) : Prop :=
  wf t1 = true /\ wf t2 = true /\ alias_free (atoms_of t1 ++ atoms_of t2) /\ okp t1 t2 /\
  (ignore_private c = false \/ (nopriv t1 = true /\ nopriv t2 = true)).

(* ---- deltas without additions and removals ---- *)
Lemma Arr_inplace d n P :
  d_irem d = [] -> d_iadd d = [] -> d_dadd d = [] -> d_drem d = [] ->
  Arr (sbase n d) P ->
  forall s, run_passes conv bidir P s = irun conv bidir (map (istrip n) (p1 d ++ p2 d ++ p3 d ++ p4 d ++ p5 d)) s.
Proof.
  intros H6 H7 H8 H9 HA s. unfold sbase, base in HA. cbn [map] in HA.
  unfold p6, p7, p8, p9 in HA. rewrite H6, H7, H8, H9 in HA. cbn [map] in HA.
  destruct P as [|q1 [|q2 [|q3 [|q4 [|q5 [|q6 [|q7 [|q8 [|q9 [|]]]]]]]]]]; try contradiction.
  cbn in HA. destruct HA as (-> & -> & -> & -> & -> & [P6 _] & [P7 _] & -> & [P9 _]).
  apply Permutation_nil in P6, P7, P9. subst.
  unfold run_passes. cbn [fold_left]. rewrite !map_app, !irun_app. reflexivity.
Qed.

Lemma runs_inplace d n v t2 :
  d_irem d = [] -> d_iadd d = [] -> d_dadd d = [] -> d_drem d = [] ->
  errs (finish conv bidir (irun conv bidir (map (istrip n) (p1 d ++ p2 d ++ p3 d ++ p4 d ++ p5 d)) (mkSt v [] 0))) = 0 ->
  veqb (root (finish conv bidir (irun conv bidir (map (istrip n) (p1 d ++ p2 d ++ p3 d ++ p4 d ++ p5 d)) (mkSt v [] 0)))) t2 = true ->
  runs_to d n v t2.
Proof.
  intros H6 H7 H8 H9 HE HV P HA.
  rewrite (Arr_inplace d n P H6 H7 H8 H9 HA). split; assumption.
Qed.

Lemma GoodD_inplace d n t1 t2 :
  d_moved d = [] -> d_irem d = [] -> d_iadd d = [] -> d_dadd d = [] -> d_drem d = [] ->
  errs (finish conv bidir (irun conv bidir (map (istrip n) (p1 d ++ p2 d ++ p3 d ++ p4 d ++ p5 d)) (mkSt t1 [] 0))) = 0 ->
  veqb (root (finish conv bidir (irun conv bidir (map (istrip n) (p1 d ++ p2 d ++ p3 d ++ p4 d ++ p5 d)) (mkSt t1 [] 0)))) t2 = true ->
  GoodD0 d n t1 t2.
Proof.
  intros Hm H6 H7 H8 H9 HE HV. split; [exact Hm|]. apply runs_inplace; assumption.
Qed.

End Good.

(** C08, verification half: the error counter of [apply] never decreases
    through any pass, and a bidirectional delta applied to a base that does
    not carry the recorded old value at a changed location logs an error
    (= raises under raise_errors=True).  Everything here is for ALL deltas and
    ALL bases (no bounds, no reference to how the delta was built). *)
From Coq Require Import List ZArith NArith Bool Arith Lia.
Import ListNotations.
From DD Require Import Base.PyStr Base.Value Base.ValueFacts Path.PathModel
  Diff.Tree Diff.DiffModel Diff.DiffFacts Diff.DiffFaithful Delta.DeltaModel.

(* ------------------------------------------------------------------ *)
(* 1. the error counter is monotone                                    *)
(* ------------------------------------------------------------------ *)
Definition mono (f : st -> st) : Prop := forall s, errs s <= errs (f s).

Lemma mono_id : mono (fun s => s).
Proof. intros s. lia. Qed.

Lemma mono_comp f g : mono f -> mono g -> mono (fun s => g (f s)).
Proof. intros Hf Hg s. specialize (Hf s). specialize (Hg (f s)). lia. Qed.

Lemma fold_mono {A} (f : st -> A -> st) (l : list A) :
  (forall s x, errs s <= errs (f s x)) -> mono (fold_left f l).
Proof.
  intros H. induction l as [|x l IH]; intros s; cbn; [lia|].
  specialize (H s x). specialize (IH (f s x)). lia.
Qed.

Lemma err_errs s : errs (err s) = S (errs s).
Proof. reflexivity. Qed.
Lemma err_root s : root (err s) = root s.
Proof. reflexivity. Qed.
Lemma with_root_errs s v : errs (with_root s v) = errs s.
Proof. reflexivity. Qed.

Lemma set_new_value_mono s p v : errs s <= errs (set_new_value s p v).
Proof.
  unfold set_new_value. destruct p as [|k p]; [cbn; lia|].
  destruct (resolve (root s) (removelast (k :: p))); [|cbn; lia].
  destruct (upd _ _ _); cbn; lia.
Qed.

Lemma verify_mono b e c s : errs s <= errs (verify b e c s).
Proof.
  unfold verify. destruct b; [|lia]. destruct e as [e|]; [|cbn; lia].
  destruct (py_eqv e c); cbn; lia.
Qed.
Lemma verify_root b e c s : root (verify b e c s) = root s.
Proof.
  unfold verify. destruct b; [|reflexivity]. destruct e as [e|]; [|reflexivity].
  destruct (py_eqv e c); reflexivity.
Qed.

Lemma del_elem_mono s op k : errs s <= errs (del_elem s op k).
Proof.
  unfold del_elem. destruct (resolve (root s) op); [|cbn; lia].
  destruct (upd _ _ _); cbn; lia.
Qed.

(* the single steps of the passes, named *)
Definition vstep (b : bool) (s : st) (c : vchange) : st :=
  match current_at s (vc_path c) with
  | Some cur => verify b (vc_old c) cur (set_new_value s (vc_path c) (vc_new c))
  | None => err s
  end.

Lemma do_values_changed_fold b l s : do_values_changed b l s = fold_left (vstep b) l s.
Proof. reflexivity. Qed.

Lemma vstep_mono b s c : errs s <= errs (vstep b s c).
Proof.
  unfold vstep. destruct (current_at s (vc_path c)); [|cbn; lia].
  pose proof (set_new_value_mono s (vc_path c) (vc_new c)).
  pose proof (verify_mono b (vc_old c) v (set_new_value s (vc_path c) (vc_new c))). lia.
Qed.

Lemma do_values_changed_mono b l : mono (do_values_changed b l).
Proof. intros s. rewrite do_values_changed_fold. apply fold_mono. intros. apply vstep_mono. Qed.

Lemma do_set_items_mono f l : mono (do_set_items f l).
Proof.
  unfold do_set_items. apply fold_mono. intros s x. destruct (upd _ _ _); cbn; lia.
Qed.

Lemma do_opcodes_mono l : mono (do_opcodes l).
Proof.
  unfold do_opcodes. apply fold_mono. intros s x. destruct (upd _ _ _); cbn; lia.
Qed.

Lemma do_post_mono : mono do_post.
Proof.
  intros s. unfold do_post. apply fold_mono. intros s' x. destruct (upd _ _ _); cbn; lia.
Qed.

Section Passes.
Variable conv : ty -> value -> option value.
Variable rem_order : list (path * value) -> list (path * value).
Variable add_order : list (path * option value) -> list (path * option value).

Definition tstep (b : bool) (s : st) (c : tchange) : st :=
  match current_at s (tc_path c) with
  | Some cur =>
      match (match tc_new c with Some v => Some v | None => conv (tc_new_ty c) cur end) with
      | Some nv => verify b (tc_old c) cur (set_new_value s (tc_path c) nv)
      | None => err s
      end
  | None => err s
  end.

Lemma do_type_changes_fold b l s : do_type_changes conv b l s = fold_left (tstep b) l s.
Proof. reflexivity. Qed.

Lemma tstep_mono b s c : errs s <= errs (tstep b s c).
Proof.
  unfold tstep. destruct (current_at s (tc_path c)) as [cur|]; [|cbn; lia].
  destruct (match tc_new c with Some v => Some v | None => conv (tc_new_ty c) cur end) as [nv|]; [|cbn; lia].
  pose proof (set_new_value_mono s (tc_path c) nv).
  pose proof (verify_mono b (tc_old c) cur (set_new_value s (tc_path c) nv)). lia.
Qed.

Lemma do_type_changes_mono b l : mono (do_type_changes conv b l).
Proof. intros s. rewrite do_type_changes_fold. apply fold_mono. intros. apply tstep_mono. Qed.

Lemma remove_one_mono b s p e : errs s <= errs (remove_one b s p e).
Proof.
  unfold remove_one. destruct p as [|k p]; [lia|].
  set (op := removelast (k :: p)). set (kk := key_atom (last (k :: p) (PIdx 0))).
  destruct (resolve (root s) op) as [obj|]; [|cbn; lia].
  assert (V : forall x y k', errs s <= errs (verify b x y (del_elem s op k'))).
  { intros x y k'. pose proof (del_elem_mono s op k'). pose proof (verify_mono b x y (del_elem s op k')). lia. }
  destruct obj; try (destruct (get_item _ kk); [apply V|lia]).
  destruct (match get_item (VList xs) kk with Some c => negb (py_eqv c e) | None => true end); [|apply V].
  destruct (int_of_atom kk); [|lia]. destruct (find_closest _ _ _); [apply V|lia].
Qed.

Lemma do_item_removed_mono b l : mono (do_item_removed rem_order b l).
Proof. unfold do_item_removed. apply fold_mono. intros. apply remove_one_mono. Qed.

Lemma add_one_mono ins s p v : errs s <= errs (add_one ins s p v).
Proof.
  unfold add_one. destruct p as [|k p]; [cbn; lia|].
  set (op := removelast (k :: p)). set (kk := key_atom (last (k :: p) (PIdx 0))).
  destruct (resolve (root s) op) as [obj|]; [|cbn; lia].
  match goal with |- _ <= errs (set_new_value ?s1 _ _) => assert (H1 : errs s <= errs s1) end.
  { destruct obj; try lia. destruct ins; [|lia]. destruct (int_of_atom kk); [|lia].
    destruct (_ && _); [|lia]. destruct (upd _ _ _); cbn; lia. }
  match goal with |- _ <= errs (set_new_value ?s1 ?q ?x) => pose proof (set_new_value_mono s1 q x) end. lia.
Qed.

Lemma do_item_added_mono sort ins l : mono (do_item_added add_order sort ins l).
Proof. unfold do_item_added. apply fold_mono. intros. apply add_one_mono. Qed.

Lemma do_iterable_item_removed_mono b d : mono (do_iterable_item_removed rem_order b d).
Proof. unfold do_iterable_item_removed. apply do_item_removed_mono. Qed.

Lemma do_iterable_item_added_mono d : mono (do_iterable_item_added add_order d).
Proof.
  intros s. unfold do_iterable_item_added.
  set (added := _ ++ _).
  assert (H1 : errs s <= errs (match added with [] => s | _ => do_item_added add_order true true added s end)).
  { destruct added; [lia|]. apply do_item_added_mono. }
  destruct (d_moved d) eqn:M; [exact H1|].
  match goal with |- _ <= errs (do_item_added _ _ _ ?l ?s1) => pose proof (do_item_added_mono true false l s1) end. lia.
Qed.

(* Delta.__add__ as the list of its passes *)
Definition passes (d : delta) : list (st -> st) :=
  let b := d_bidir d in
  [ do_values_changed b (d_val d);
    do_set_items set_union (d_sadd d);
    do_set_items set_difference (d_srem d);
    do_type_changes conv b (d_type d);
    do_opcodes (d_ops d);
    do_iterable_item_removed rem_order b d;
    do_iterable_item_added add_order d;
    do_item_added add_order false false (map (fun pv => (fst pv, Some (snd pv))) (d_dadd d));
    do_item_removed rem_order b (d_drem d);
    do_post ].

Definition run_passes (l : list (st -> st)) (s : st) : st := fold_left (fun s f => f s) l s.

Lemma apply_passes d v :
  apply conv rem_order add_order d v =
  let s := run_passes (passes d) (mkSt v [] 0) in (root s, errs s).
Proof. reflexivity. Qed.

Lemma passes_mono d : Forall mono (passes d).
Proof.
  unfold passes. repeat constructor.
  - apply do_values_changed_mono.
  - apply do_set_items_mono.
  - apply do_set_items_mono.
  - apply do_type_changes_mono.
  - apply do_opcodes_mono.
  - apply do_iterable_item_removed_mono.
  - apply do_iterable_item_added_mono.
  - apply do_item_added_mono.
  - apply do_item_removed_mono.
  - apply do_post_mono.
Qed.

Lemma run_passes_mono l : Forall mono l -> mono (run_passes l).
Proof.
  induction 1 as [|f l Hf _ IH]; intros s; cbn; [lia|].
  specialize (Hf s). specialize (IH (f s)). unfold run_passes in IH. lia.
Qed.

Lemma run_passes_app l1 l2 s : run_passes (l1 ++ l2) s = run_passes l2 (run_passes l1 s).
Proof. unfold run_passes. apply fold_left_app. Qed.

(* the number of errors logged after the first k passes is a lower bound of
   the number logged by the whole run, for every k *)
Theorem errs_after_prefix d v k :
  errs (run_passes (firstn k (passes d)) (mkSt v [] 0)) <= snd (apply conv rem_order add_order d v).
Proof.
  rewrite apply_passes. cbn [snd].
  rewrite <- (firstn_skipn k (passes d)) at 2. rewrite run_passes_app.
  apply run_passes_mono.
  pose proof (passes_mono d) as H. rewrite <- (firstn_skipn k (passes d)) in H.
  apply Forall_app in H. tauto.
Qed.

End Passes.

(* ------------------------------------------------------------------ *)
(* 2. writes at a path leave diverging paths alone                     *)
(* ------------------------------------------------------------------ *)
(* two keys that can never address the same item of one container: not
   Python-equal, and no negative index (which could alias a positive one) *)
Definition nonneg_key (a : atom) : bool :=
  match int_of_atom a with Some z => Z.leb 0 z | None => true end.
Definition sep (a b : atom) : bool := negb (py_eq a b) && nonneg_key a && nonneg_key b.

(* the two paths leave a common prefix through separated keys: neither is a
   prefix of the other and they address different sub-objects of every root *)
Fixpoint diverge (p q : path) : bool :=
  match p, q with
  | a :: p', b :: q' => if pkey_eqb a b then diverge p' q' else sep (key_atom a) (key_atom b)
  | _, _ => false
  end.

Fixpoint pairwise_div (l : list path) : bool :=
  match l with
  | [] => true
  | p :: r => forallb (diverge p) r && pairwise_div r
  end.

Lemma sep_sym a b : sep a b = sep b a.
Proof. unfold sep. rewrite (py_eq_sym a b). destruct (py_eq b a), (nonneg_key a), (nonneg_key b); reflexivity. Qed.

Lemma pkey_eqb_refl a : pkey_eqb a a = true.
Proof. destruct a; cbn; [apply atom_eqb_refl|apply Nat.eqb_refl]. Qed.

Lemma pkey_eqb_sym a b : pkey_eqb a b = pkey_eqb b a.
Proof.
  destruct (pkey_eqb a b) eqn:E.
  - apply pkey_eqb_eq in E. subst. symmetry. apply pkey_eqb_refl.
  - destruct (pkey_eqb b a) eqn:E2; [|reflexivity]. apply pkey_eqb_eq in E2. subst.
    rewrite pkey_eqb_refl in E. discriminate.
Qed.

Lemma diverge_sym p q : diverge p q = diverge q p.
Proof.
  revert q; induction p as [|a p IH]; intros [|b q]; cbn; try reflexivity.
  rewrite (pkey_eqb_sym a b). destruct (pkey_eqb b a); [apply IH|apply sep_sym].
Qed.

Lemma pairwise_div_before l1 p l2 :
  pairwise_div (l1 ++ p :: l2) = true -> forallb (diverge p) l1 = true.
Proof.
  induction l1 as [|q l1 IH]; cbn; intros H; [reflexivity|].
  apply andb_true_iff in H as [H1 H2]. rewrite forallb_app in H1. apply andb_true_iff in H1 as [_ H1].
  cbn in H1. apply andb_true_iff in H1 as [H1 _]. rewrite diverge_sym, H1. cbn. apply IH. exact H2.
Qed.

Lemma pairwise_div_app_l l1 l2 : pairwise_div (l1 ++ l2) = true -> pairwise_div l1 = true.
Proof.
  induction l1 as [|q l1 IH]; cbn; intros H; [reflexivity|].
  apply andb_true_iff in H as [H1 H2]. rewrite forallb_app in H1. apply andb_true_iff in H1 as [H1 _].
  rewrite H1. cbn. apply IH. exact H2.
Qed.

(* ---- item level ---- *)
Lemma int_of_atom_py_eq a b za zb :
  int_of_atom a = Some za -> int_of_atom b = Some zb -> py_eq a b = Z.eqb za zb.
Proof.
  destruct a as [|ba|xa|ta|sa|sa], b as [|bb|xb|tb|sb|sb]; cbn [int_of_atom]; intros Ha Hb; try discriminate;
    injection Ha as <-; injection Hb as <-; unfold py_eq; cbn [num2];
    try destruct ba; try destruct bb;
    match goal with |- (?x =? ?y)%Z = (?u =? ?w)%Z =>
      destruct (Z.eqb_spec x y), (Z.eqb_spec u w); try reflexivity; lia end.
Qed.

Lemma seq_index_nonneg {A} (xs : list A) z : (0 <= z)%Z -> seq_index xs z = nth_error xs (Z.to_nat z).
Proof. intros H. rewrite <- (Z2Nat.id z H) at 1. apply seq_index_nat. Qed.

Lemma seq_index_at {A} (xs : list A) k x z :
  nth_error xs k = Some x ->
  (z = Z.of_nat k \/ z = (Z.of_nat k - Z.of_nat (length xs))%Z) -> seq_index xs z = Some x.
Proof.
  intros Hn Hz. assert (Hk : k < length xs) by (apply nth_error_Some; congruence).
  destruct Hz as [->| ->].
  - rewrite seq_index_nat. exact Hn.
  - unfold seq_index. cbv zeta.
    assert (E1 : (Z.of_nat k - Z.of_nat (length xs) <? 0)%Z = true) by (apply Z.ltb_lt; lia).
    rewrite E1.
    replace (Z.of_nat k - Z.of_nat (length xs) + Z.of_nat (length xs))%Z with (Z.of_nat k) by lia.
    assert (E2 : (Z.of_nat k <? 0)%Z = false) by (apply Z.ltb_ge; lia).
    assert (E3 : (Z.of_nat (length xs) <=? Z.of_nat k)%Z = false) by (apply Z.leb_gt; lia).
    rewrite E2, E3. cbn [orb]. rewrite Nat2Z.id. exact Hn.
Qed.

Lemma list_set_other xs : forall i x xs' j,
  list_set xs i x = Some xs' -> j <> i -> nth_error xs' j = nth_error xs j.
Proof.
  induction xs as [|y xs IH]; intros i x xs' j H N.
  - destruct i; cbn in H; [|discriminate]. inversion H; subst.
    destruct j as [|j]; [congruence|]. cbn. destruct j; reflexivity.
  - destruct i as [|i]; cbn in H.
    + inversion H; subst. destruct j; [congruence|reflexivity].
    + destruct (list_set xs i x) as [r|] eqn:E; [|discriminate]. inversion H; subst.
      destruct j as [|j]; [reflexivity|]. cbn. eapply IH; [exact E|lia].
Qed.

Lemma list_set_same xs : forall i x xs', list_set xs i x = Some xs' -> nth_error xs' i = Some x.
Proof.
  induction xs as [|y xs IH]; intros i x xs' H.
  - destruct i; cbn in H; [|discriminate]. inversion H; subst. reflexivity.
  - destruct i as [|i]; cbn in H.
    + inversion H; subst. reflexivity.
    + destruct (list_set xs i x) as [r|] eqn:E; [|discriminate]. inversion H; subst. cbn. eapply IH. exact E.
Qed.

Lemma list_set_length xs : forall i x xs', list_set xs i x = Some xs' -> i < length xs -> length xs' = length xs.
Proof.
  induction xs as [|y xs IH]; intros i x xs' H L; [cbn in L; lia|].
  destruct i as [|i]; cbn in H.
  - inversion H; subst. reflexivity.
  - destruct (list_set xs i x) as [r|] eqn:E; [|discriminate]. inversion H; subst. cbn. f_equal.
    eapply IH; [exact E|cbn in L; lia].
Qed.

Lemma assoc_dict_set_other kvs a b x : py_eq a b = false -> assoc a (dict_set kvs b x) = assoc a kvs.
Proof.
  intros N. induction kvs as [|[k v] r IH]; cbn.
  - rewrite py_eq_sym, N. reflexivity.
  - destruct (py_eq k b) eqn:E; cbn.
    + destruct (py_eq k a) eqn:E2; [|reflexivity].
      exfalso. rewrite py_eq_sym in E2. rewrite (py_eq_trans a k b E2 E) in N. discriminate.
    + rewrite IH. reflexivity.
Qed.

Lemma assoc_dict_set_same kvs b x : assoc b (dict_set kvs b x) = Some x.
Proof.
  induction kvs as [|[k v] r IH]; cbn.
  - rewrite py_eq_refl. reflexivity.
  - destruct (py_eq k b) eqn:E; cbn; rewrite E; [reflexivity|exact IH].
Qed.

Lemma list_index_nonneg xs b i z :
  list_index xs b = Some i -> int_of_atom b = Some z -> (0 <= z)%Z -> i = Z.to_nat z.
Proof.
  unfold list_index. intros H Hb Hz. rewrite Hb in H.
  assert (E : (z <? 0)%Z = false) by (apply Z.ltb_ge; lia). rewrite E in H. congruence.
Qed.

Lemma get_item_set_item_other obj a b x obj' :
  set_item obj b x = Some obj' -> sep a b = true -> get_item obj' a = get_item obj a.
Proof.
  unfold sep. intros S H. apply andb_true_iff in H as [H Nb]. apply andb_true_iff in H as [N Na].
  apply negb_true_iff in N.
  destruct obj; cbn in S; try discriminate.
  - (* list *)
    destruct (list_index xs b) as [i|] eqn:Li; [|discriminate].
    destruct (list_set xs i x) as [xs'|] eqn:Ls; [|discriminate]. inversion S; subst. cbn.
    destruct (int_of_atom a) as [za|] eqn:Ia; [|reflexivity].
    assert (exists zb, int_of_atom b = Some zb) as [zb Ib].
    { unfold list_index in Li. destruct (int_of_atom b); [eexists; reflexivity|discriminate]. }
    unfold nonneg_key in Na, Nb. rewrite Ia in Na. rewrite Ib in Nb. apply Z.leb_le in Na, Nb.
    rewrite (int_of_atom_py_eq a b za zb Ia Ib) in N. apply Z.eqb_neq in N.
    rewrite (list_index_nonneg xs b i zb Li Ib Nb) in Ls.
    rewrite !seq_index_nonneg by exact Na.
    eapply list_set_other; [exact Ls|]. intros E. apply N. apply Z2Nat.inj; assumption.
  - (* dict *)
    inversion S; subst. cbn. apply assoc_dict_set_other. exact N.
Qed.

Lemma get_item_set_item_same obj b x obj' :
  set_item obj b x = Some obj' -> get_item obj' b = Some x.
Proof.
  intros S. destruct obj; cbn in S; try discriminate.
  - destruct (list_index xs b) as [i|] eqn:Li; [|discriminate].
    destruct (list_set xs i x) as [xs'|] eqn:Ls; [|discriminate]. inversion S; subst. cbn.
    unfold list_index in Li. destruct (int_of_atom b) as [z|]; [|discriminate].
    pose proof (list_set_same xs i x xs' Ls) as Hn.
    destruct (Z.ltb_spec z 0) as [Hneg|Hpos].
    + destruct (Z.leb_spec (- Z.of_nat (length xs)) z) as [Hge|]; [|discriminate]. inversion Li; subst i.
      assert (HL : length xs' = length xs) by (eapply list_set_length; [exact Ls|lia]).
      eapply seq_index_at; [exact Hn|]. right. rewrite HL. lia.
    + inversion Li; subst i. eapply seq_index_at; [exact Hn|]. left. lia.
  - inversion S; subst. cbn. apply assoc_dict_set_same.
Qed.

Lemma get_item_untuple o a : get_item (untuple o) a = get_item o a.
Proof. destruct o; reflexivity. Qed.

(* ---- path level ---- *)
Lemma upd_cons v k r f :
  upd v (k :: r) f =
  match get_item v (key_atom k) with
  | Some child =>
      match upd child r f with
      | Some child' => match v with VTuple _ => None | _ => set_item v (key_atom k) child' end
      | None => None
      end
  | None => None
  end.
Proof. reflexivity. Qed.

Lemma upd_cons_inv v k r f v' :
  upd v (k :: r) f = Some v' ->
  exists child child', get_item v (key_atom k) = Some child /\ upd child r f = Some child' /\
                       set_item v (key_atom k) child' = Some v'.
Proof.
  rewrite upd_cons. destruct (get_item v (key_atom k)) as [child|]; [|discriminate].
  destruct (upd child r f) as [child'|] eqn:U; [|discriminate]. intros H. exists child, child'.
  split; [reflexivity|]. split; [exact U|]. destruct v; try exact H; discriminate H.
Qed.

(* writing below q does not disturb what a diverging path p resolves to *)
Lemma upd_frame : forall q v f v' p,
  upd v q f = Some v' -> diverge p q = true -> resolve v' p = resolve v p.
Proof.
  induction q as [|b q IH]; intros v f v' p U D.
  - destruct p; discriminate.
  - destruct p as [|a p]; [discriminate|]. cbn [diverge] in D.
    apply upd_cons_inv in U as (child & child' & G & U' & S).
    destruct (pkey_eqb a b) eqn:E.
    + apply pkey_eqb_eq in E. subst a. cbn [resolve].
      rewrite (get_item_set_item_same _ _ _ _ S), G. eapply IH; eassumption.
    + cbn [resolve]. rewrite (get_item_set_item_other _ _ _ _ _ S D). reflexivity.
Qed.

(* the same when the written location is the item k of the object at op *)
Lemma upd_frame_item : forall op v f v' p k,
  upd v op f = Some v' ->
  (forall o o' a, f o = Some o' -> sep a (key_atom k) = true -> get_item o' a = get_item o a) ->
  diverge p (op ++ [k]) = true -> resolve v' p = resolve v p.
Proof.
  induction op as [|b op IH]; intros v f v' p k U F D.
  - cbn in U. destruct p as [|a p]; [discriminate|]. cbn in D.
    destruct (pkey_eqb a k); [destruct p; discriminate|].
    cbn [resolve]. rewrite (F _ _ _ U D). reflexivity.
  - destruct p as [|a p]; [discriminate|]. cbn [diverge app] in D.
    apply upd_cons_inv in U as (child & child' & G & U' & S).
    destruct (pkey_eqb a b) eqn:E.
    + apply pkey_eqb_eq in E. subst a. cbn [resolve].
      rewrite (get_item_set_item_same _ _ _ _ S), G. eapply IH; eassumption.
    + cbn [resolve]. rewrite (get_item_set_item_other _ _ _ _ _ S D). reflexivity.
Qed.

Lemma set_new_value_frame s q x p :
  diverge p q = true -> resolve (root (set_new_value s q x)) p = resolve (root s) p.
Proof.
  intros D. unfold set_new_value. destruct q as [|k0 q0]; [destruct p; discriminate|].
  set (q := k0 :: q0) in *.
  destruct (resolve (root s) (removelast q)) as [obj|]; [|reflexivity].
  destruct (upd (root s) (removelast q) _) as [r'|] eqn:U; [|reflexivity].
  cbn [root]. eapply upd_frame_item; [exact U| |].
  - intros o o' a Hs Hsep. cbn beta in Hs.
    rewrite (get_item_set_item_other _ _ _ _ _ Hs Hsep). apply get_item_untuple.
  - rewrite <- app_removelast_last by (unfold q; discriminate). exact D.
Qed.

Lemma vstep_frame b s c p :
  diverge p (vc_path c) = true -> resolve (root (vstep b s c)) p = resolve (root s) p.
Proof.
  intros D. unfold vstep. destruct (current_at s (vc_path c)); [|reflexivity].
  rewrite verify_root. apply set_new_value_frame. exact D.
Qed.

Lemma do_values_changed_frame b l p : forall s,
  forallb (fun c => diverge p (vc_path c)) l = true ->
  resolve (root (do_values_changed b l s)) p = resolve (root s) p.
Proof.
  induction l as [|c l IH]; intros s H; [reflexivity|].
  cbn in H. apply andb_true_iff in H as [H1 H2].
  rewrite do_values_changed_fold. cbn [fold_left]. rewrite <- do_values_changed_fold.
  rewrite IH by exact H2. apply vstep_frame. exact H1.
Qed.

Definition sstep (f : value -> list atom -> option value) (s : st) (pi : path * list atom) : st :=
  match upd (root s) (fst pi) (fun o => f o (snd pi)) with
  | Some r' => with_root s r'
  | None => err s
  end.
Lemma do_set_items_fold f l s : do_set_items f l s = fold_left (sstep f) l s.
Proof. reflexivity. Qed.

Lemma do_set_items_frame f l p : forall s,
  forallb (fun pi => diverge p (fst pi)) l = true ->
  resolve (root (do_set_items f l s)) p = resolve (root s) p.
Proof.
  induction l as [|pi l IH]; intros s H; [reflexivity|].
  cbn in H. apply andb_true_iff in H as [H1 H2].
  rewrite do_set_items_fold. cbn [fold_left]. rewrite <- do_set_items_fold.
  rewrite IH by exact H2. unfold sstep.
  destruct (upd (root s) (fst pi) _) as [r'|] eqn:U; [|reflexivity].
  cbn [root with_root]. eapply upd_frame; eassumption.
Qed.

Section Frames.
Variable conv : ty -> value -> option value.

Lemma tstep_frame b s c p :
  diverge p (tc_path c) = true -> resolve (root (tstep conv b s c)) p = resolve (root s) p.
Proof.
  intros D. unfold tstep. destruct (current_at s (tc_path c)) as [cur|]; [|reflexivity].
  destruct (match tc_new c with Some v => Some v | None => conv (tc_new_ty c) cur end); [|reflexivity].
  rewrite verify_root. apply set_new_value_frame. exact D.
Qed.

Lemma do_type_changes_frame b l p : forall s,
  forallb (fun c => diverge p (tc_path c)) l = true ->
  resolve (root (do_type_changes conv b l s)) p = resolve (root s) p.
Proof.
  induction l as [|c l IH]; intros s H; [reflexivity|].
  cbn in H. apply andb_true_iff in H as [H1 H2].
  rewrite do_type_changes_fold. cbn [fold_left]. rewrite <- do_type_changes_fold.
  rewrite IH by exact H2. apply tstep_frame. exact H1.
Qed.
End Frames.

(* ------------------------------------------------------------------ *)
(* 3. detection                                                        *)
(* ------------------------------------------------------------------ *)
(* "the base r does not verify against entry c": nothing at the path, or no
   old value was recorded, or the value found is != (Python) the recorded one *)
Definition old_mismatch (r : value) (p : path) (old : option value) : bool :=
  match resolve r p with
  | None => true
  | Some cur => match old with Some o => negb (py_eqv o cur) | None => true end
  end.
Definition vc_bad (r : value) (c : vchange) : bool := old_mismatch r (vc_path c) (vc_old c).
Definition tc_bad (r : value) (c : tchange) : bool := old_mismatch r (tc_path c) (tc_old c).

Lemma verify_detect e cur s :
  match e with Some o => negb (py_eqv o cur) | None => true end = true ->
  errs (verify true e cur s) = S (errs s).
Proof.
  unfold verify. destruct e as [o|]; [|reflexivity]. intros H. apply negb_true_iff in H. rewrite H. reflexivity.
Qed.

Lemma verify_pass e cur s :
  match e with Some o => negb (py_eqv o cur) | None => true end = false ->
  verify true e cur s = s.
Proof.
  unfold verify. destruct e as [o|]; [|discriminate]. intros H. apply negb_false_iff in H. rewrite H. reflexivity.
Qed.

(* the step whose current value mismatches increments the counter ... *)
Lemma vstep_detect s c : vc_bad (root s) c = true -> errs s < errs (vstep true s c).
Proof.
  unfold vc_bad, old_mismatch, vstep, current_at. destruct (resolve (root s) (vc_path c)) as [cur|]; [|cbn; lia].
  intros H. rewrite verify_detect by exact H.
  pose proof (set_new_value_mono s (vc_path c) (vc_new c)). lia.
Qed.

(* ... and a step whose current value matches adds no verification error *)
Lemma vstep_pass s c :
  vc_bad (root s) c = false -> vstep true s c = set_new_value s (vc_path c) (vc_new c).
Proof.
  unfold vc_bad, old_mismatch, vstep, current_at. destruct (resolve (root s) (vc_path c)) as [cur|]; [|discriminate].
  intros H. apply verify_pass. exact H.
Qed.

(* the statement for the base as seen by the step that reaches the entry *)
Theorem values_changed_detect_when_reached l1 c l2 s :
  vc_bad (root (do_values_changed true l1 s)) c = true ->
  errs s < errs (do_values_changed true (l1 ++ c :: l2) s).
Proof.
  intros H. rewrite do_values_changed_fold, fold_left_app. cbn [fold_left]. rewrite <- !do_values_changed_fold.
  pose proof (do_values_changed_mono true l1 s).
  pose proof (vstep_detect _ _ H).
  pose proof (do_values_changed_mono true l2 (vstep true (do_values_changed true l1 s) c)). lia.
Qed.

(* the statement for the initial base *)
Theorem values_changed_detect l1 c l2 s :
  forallb (fun c' => diverge (vc_path c) (vc_path c')) l1 = true ->
  vc_bad (root s) c = true ->
  errs s < errs (do_values_changed true (l1 ++ c :: l2) s).
Proof.
  intros D H. apply values_changed_detect_when_reached.
  unfold vc_bad, old_mismatch in *. rewrite do_values_changed_frame by exact D. exact H.
Qed.

Section Detect.
Variable conv : ty -> value -> option value.
Variable rem_order : list (path * value) -> list (path * value).
Variable add_order : list (path * option value) -> list (path * option value).
Notation apply := (apply conv rem_order add_order).
Notation passes := (passes conv rem_order add_order).

Lemma tstep_detect s c : tc_bad (root s) c = true -> errs s < errs (tstep conv true s c).
Proof.
  unfold tc_bad, old_mismatch, tstep, current_at. destruct (resolve (root s) (tc_path c)) as [cur|]; [|cbn; lia].
  intros H. destruct (match tc_new c with Some v => Some v | None => conv (tc_new_ty c) cur end) as [nv|]; [|cbn; lia].
  rewrite verify_detect by exact H.
  pose proof (set_new_value_mono s (tc_path c) nv). lia.
Qed.

Theorem type_changes_detect_when_reached l1 c l2 s :
  tc_bad (root (do_type_changes conv true l1 s)) c = true ->
  errs s < errs (do_type_changes conv true (l1 ++ c :: l2) s).
Proof.
  intros H. rewrite do_type_changes_fold, fold_left_app. cbn [fold_left]. rewrite <- !do_type_changes_fold.
  pose proof (do_type_changes_mono conv true l1 s).
  pose proof (tstep_detect _ _ H).
  pose proof (do_type_changes_mono conv true l2 (tstep conv true (do_type_changes conv true l1 s) c)). lia.
Qed.

Theorem type_changes_detect l1 c l2 s :
  forallb (fun c' => diverge (tc_path c) (tc_path c')) l1 = true ->
  tc_bad (root s) c = true ->
  errs s < errs (do_type_changes conv true (l1 ++ c :: l2) s).
Proof.
  intros D H. apply type_changes_detect_when_reached.
  unfold tc_bad, old_mismatch in *. rewrite do_type_changes_frame by exact D. exact H.
Qed.

(* ---- whole application ---- *)
Theorem apply_detects_value_when_reached d v l1 c l2 :
  d_bidir d = true -> d_val d = l1 ++ c :: l2 ->
  vc_bad (root (do_values_changed true l1 (mkSt v [] 0))) c = true ->
  0 < snd (apply d v).
Proof.
  intros B E H. pose proof (errs_after_prefix conv rem_order add_order d v 1) as P.
  cbn [firstn passes DeltaVerify.passes run_passes fold_left] in P. rewrite B, E in P.
  pose proof (values_changed_detect_when_reached l1 c l2 (mkSt v [] 0) H). cbn [errs] in *. lia.
Qed.

Theorem apply_detects_value d v l1 c l2 :
  d_bidir d = true -> d_val d = l1 ++ c :: l2 ->
  forallb (fun c' => diverge (vc_path c) (vc_path c')) l1 = true ->
  vc_bad v c = true ->
  0 < snd (apply d v).
Proof.
  intros B E D H. pose proof (errs_after_prefix conv rem_order add_order d v 1) as P.
  cbn [firstn passes DeltaVerify.passes run_passes fold_left] in P. rewrite B, E in P.
  pose proof (values_changed_detect l1 c l2 (mkSt v [] 0) D H). cbn [errs] in *. lia.
Qed.

Theorem apply_detects_type d v l1 c l2 :
  d_bidir d = true -> d_type d = l1 ++ c :: l2 ->
  forallb (fun c' => diverge (tc_path c) (vc_path c')) (d_val d) = true ->
  forallb (fun pi => diverge (tc_path c) (fst pi)) (d_sadd d) = true ->
  forallb (fun pi => diverge (tc_path c) (fst pi)) (d_srem d) = true ->
  forallb (fun c' => diverge (tc_path c) (tc_path c')) l1 = true ->
  tc_bad v c = true ->
  0 < snd (apply d v).
Proof.
  intros B E D1 D2 D3 D4 H. pose proof (errs_after_prefix conv rem_order add_order d v 4) as P.
  cbn [firstn passes DeltaVerify.passes run_passes fold_left] in P. rewrite B, E in P.
  set (s3 := do_set_items set_difference (d_srem d)
               (do_set_items set_union (d_sadd d) (do_values_changed true (d_val d) (mkSt v [] 0)))) in *.
  assert (R : resolve (root s3) (tc_path c) = resolve v (tc_path c)).
  { unfold s3. rewrite do_set_items_frame by exact D3. rewrite do_set_items_frame by exact D2.
    rewrite do_values_changed_frame by exact D1. reflexivity. }
  assert (H3 : tc_bad (root s3) c = true).
  { unfold tc_bad, old_mismatch in *. rewrite R. exact H. }
  pose proof (type_changes_detect l1 c l2 s3 D4 H3). lia.
Qed.

(* the state in which the type_changes pass starts *)
Definition before_types (d : delta) (v : value) : st :=
  do_set_items set_difference (d_srem d)
    (do_set_items set_union (d_sadd d) (do_values_changed (d_bidir d) (d_val d) (mkSt v [] 0))).

Theorem apply_detects_type_when_reached d v l1 c l2 :
  d_bidir d = true -> d_type d = l1 ++ c :: l2 ->
  tc_bad (root (do_type_changes conv true l1 (before_types d v))) c = true ->
  0 < snd (apply d v).
Proof.
  intros B E H. pose proof (errs_after_prefix conv rem_order add_order d v 4) as P.
  cbn [firstn passes DeltaVerify.passes run_passes fold_left] in P. fold (before_types d v) in P.
  rewrite B, E in P.
  pose proof (type_changes_detect_when_reached l1 c l2 (before_types d v) H). lia.
Qed.

(* the guard of the statements for the initial base, as one boolean: the
   values_changed paths diverge pairwise, the type_changes paths diverge
   pairwise, and every type_changes path diverges from every path written by
   the three passes that run before the type changes *)
Definition written_before_types (d : delta) : list path :=
  map vc_path (d_val d) ++ map fst (d_sadd d) ++ map fst (d_srem d).
Definition indep_verified (d : delta) : bool :=
  pairwise_div (map vc_path (d_val d)) && pairwise_div (map tc_path (d_type d))
  && forallb (fun c => forallb (diverge (tc_path c)) (written_before_types d)) (d_type d).

Lemma forallb_map_div {A} (f : A -> path) p l :
  forallb (diverge p) (map f l) = forallb (fun x => diverge p (f x)) l.
Proof. induction l as [|x l IH]; cbn; [reflexivity|]. rewrite IH. reflexivity. Qed.

Theorem apply_detects_value_indep d v c :
  d_bidir d = true -> pairwise_div (map vc_path (d_val d)) = true ->
  In c (d_val d) -> vc_bad v c = true -> 0 < snd (apply d v).
Proof.
  intros B P Hin H. apply in_split in Hin as (l1 & l2 & E).
  eapply apply_detects_value; try eassumption.
  rewrite E, map_app in P. cbn [map] in P. apply pairwise_div_before in P.
  rewrite forallb_map_div in P. exact P.
Qed.

Theorem apply_detects_type_indep d v c :
  d_bidir d = true -> indep_verified d = true ->
  In c (d_type d) -> tc_bad v c = true -> 0 < snd (apply d v).
Proof.
  intros B P Hin H. unfold indep_verified in P.
  apply andb_true_iff in P as [P Pw]. apply andb_true_iff in P as [_ Pt].
  pose proof (proj1 (forallb_forall _ _) Pw c Hin) as W. unfold written_before_types in W.
  rewrite !forallb_app in W. apply andb_true_iff in W as [W1 W]. apply andb_true_iff in W as [W2 W3].
  rewrite forallb_map_div in W1. rewrite forallb_map_div in W2. rewrite forallb_map_div in W3.
  apply in_split in Hin as (l1 & l2 & E).
  rewrite E, map_app in Pt. cbn [map] in Pt. apply pairwise_div_before in Pt.
  rewrite forallb_map_div in Pt.
  eapply apply_detects_type; eassumption.
Qed.

Theorem apply_detects_value_indep' d v c :
  d_bidir d = true -> indep_verified d = true ->
  In c (d_val d) -> vc_bad v c = true -> 0 < snd (apply d v).
Proof.
  intros B P. unfold indep_verified in P.
  apply andb_true_iff in P as [P _]. apply andb_true_iff in P as [P _].
  apply apply_detects_value_indep; assumption.
Qed.

End Detect.

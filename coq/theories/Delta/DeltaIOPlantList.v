(** C01, ignore_order clause at any path, part 5: LIST levels.  Below a list level the planted item takes part in the
    hash matching of that level.  [dio_list_level]: if the hasher separates the two planted items from their siblings
    and from each other, and the pairing oracle pairs them, the diff of the two lists is the diff of the planted pair
    one level down.  [lev_ok]: a context of dict levels (key not hidden) and such list levels;
    [io_roundtrip_levels]: the clause for a list of distinct scalars below any such context. *)
From Coq Require Import List ZArith NArith Bool Arith Lia Permutation.
Import ListNotations.
From DD Require Import Base.PyStr Base.Value Base.ValueFacts Path.PathModel Diff.Tree Diff.DiffModel
  Diff.DiffFacts Hash.HashModel Hash.HashProofsBase Hash.HashProofsC06 DiffIO.DiffIOModel DiffIO.DiffIOProofs
  Delta.DeltaModel Delta.DeltaFacts Delta.DeltaLocal Delta.DeltaEntries Delta.DeltaStruct Delta.DeltaGuard Delta.DeltaGood
  Delta.DeltaSets Delta.DeltaIO Delta.DeltaIOProofs Delta.DeltaIOReloc Delta.DeltaIOPre Delta.DeltaIOLocal Delta.DeltaIOPlant.

Lemma dIn1 x l : In x (dedup l) -> In x l.
Proof. apply dedup_In. Qed.
Lemma dIn2 x l : In x l -> In x (dedup l).
Proof. apply dedup_In. Qed.

Lemma filter_single {A} (f : A -> bool) (l : list A) b :
  NoDup l -> In b l -> (forall x, In x l -> f x = true -> x = b) -> f b = true -> filter f l = [b].
Proof.
  induction l as [|x l IH]; intros ND Hin Hu Hb; [destruct Hin|]. inversion ND as [|? ? Nx ND']; subst. cbn [filter].
  destruct Hin as [->|Hin].
  - rewrite Hb. f_equal. apply DiffIOProofs.filter_nil. intros y Hy. destruct (f y) eqn:E; [|reflexivity].
    assert (y = b) by (apply Hu; [right; exact Hy|exact E]). subst. contradiction.
  - destruct (f x) eqn:E.
    + assert (x = b) by (apply Hu; [left; reflexivity|exact E]). subst. contradiction.
    + apply IH; try assumption. intros y Hy. apply Hu. right. exact Hy.
Qed.

Lemma indexes_of_absent h l : forall i, ~ In h l -> indexes_of h l i = [].
Proof.
  induction l as [|x l IH]; intros i N; [reflexivity|]. cbn [indexes_of].
  rewrite pystr_eqb_neq by (intros ->; apply N; left; reflexivity). cbn [app]. apply IH. intros Hin. apply N. right. exact Hin.
Qed.

Lemma indexes_of_mid h l1 l2 : forall i, ~ In h l1 -> ~ In h l2 -> indexes_of h (l1 ++ h :: l2) i = [i + length l1].
Proof.
  induction l1 as [|x l1 IH]; intros i N1 N2; cbn [app indexes_of length].
  - rewrite pystr_eqb_refl, Nat.add_0_r. cbn [app]. f_equal. apply indexes_of_absent. exact N2.
  - rewrite pystr_eqb_neq by (intros ->; apply N1; left; reflexivity). cbn [app].
    rewrite IH; [f_equal; lia| |exact N2]. intros Hin. apply N1. right. exact Hin.
Qed.

Lemma nth_rec_map' (f : value -> rec_fn) xs i x : nth_error xs i = Some x -> nth_rec (map f xs) i = f x.
Proof. intros E. unfold nth_rec. apply nth_error_nth. rewrite nth_error_map, E. reflexivity. Qed.

Lemma count_app h l1 l2 : count h (l1 ++ l2) = count h l1 + count h l2.
Proof. unfold count. rewrite filter_app, app_length. reflexivity. Qed.

Section ListLevel.
Variable H : pystr -> pystr.
Variable udiff : pystr -> pystr -> pystr.
Variable c : cfg.
Variable pairs : path -> list (nat * nat).
Notation dio := (diff_io H udiff nos nos c true pairs).
Notation hvv := (hv H c true).

Lemma dio_list_level pre post u1 u2 p :
  let n := length pre in
  ~ In (hvv u1) (map hvv (pre ++ post)) -> ~ In (hvv u2) (map hvv (pre ++ post)) -> hvv u1 <> hvv u2 ->
  pairs p = [(n, n)] ->
  dio (VList (pre ++ u1 :: post)) (VList (pre ++ u2 :: post)) p p = dio u1 u2 (snoc p (PIdx n)) (snoc p (PIdx n)).
Proof.
  intros n Na Nb Nab Hp.
  set (xs := pre ++ u1 :: post). set (ys := pre ++ u2 :: post).
  set (a := hvv u1) in *. set (b := hvv u2) in *.
  set (S1 := map hvv pre). set (S2 := map hvv post).
  assert (Na1 : ~ In a S1) by (intros Hin; apply Na; rewrite map_app; apply in_or_app; left; exact Hin).
  assert (Na2 : ~ In a S2) by (intros Hin; apply Na; rewrite map_app; apply in_or_app; right; exact Hin).
  assert (Nb1 : ~ In b S1) by (intros Hin; apply Nb; rewrite map_app; apply in_or_app; left; exact Hin).
  assert (Nb2 : ~ In b S2) by (intros Hin; apply Nb; rewrite map_app; apply in_or_app; right; exact Hin).
  assert (E1 : h1 H c true xs = S1 ++ a :: S2) by (unfold h1, xs; rewrite map_app; reflexivity).
  assert (E2 : h2 H c true ys = S1 ++ b :: S2) by (unfold h2, ys; rewrite map_app; reflexivity).
  assert (LS : length S1 = n) by (unfold S1; apply map_length).
  cbn [diff_io nos type_of ty_eqb negb]. rewrite (recs_fix (diff_io H udiff nos nos c true pairs)).
  unfold iter_deephash, iter_rep.
  (* the two hash differences *)
  assert (HA : hashes_added H c true xs ys = [b]).
  { unfold hashes_added, t1_hashes, t2_hashes. rewrite E1, E2. apply filter_single.
    - apply dedup_NoDup.
    - apply dIn2. apply in_or_app. right. left. reflexivity.
    - intros x Hx Fx. apply negb_true_iff in Fx. apply mem_h_false in Fx. apply dIn1 in Hx.
      destruct (pystr_eqb x b) eqn:E; [apply pystr_eqb_eq in E; exact E|exfalso]. apply Fx. apply dIn2.
      apply in_app_or in Hx as [Hx|[Hx|Hx]]; apply in_or_app; [left; exact Hx|subst x; rewrite pystr_eqb_refl in E; discriminate|right; right; exact Hx].
    - apply negb_true_iff. apply mem_h_false. intros Hin. apply dIn1 in Hin.
      apply in_app_or in Hin as [Hin|[Hin|Hin]]; [apply Nb1; exact Hin|apply Nab; exact Hin|apply Nb2; exact Hin]. }
  assert (HR : hashes_removed H c true xs ys = [a]).
  { unfold hashes_removed, t1_hashes, t2_hashes. rewrite E1, E2. apply filter_single.
    - apply dedup_NoDup.
    - apply dIn2. apply in_or_app. right. left. reflexivity.
    - intros x Hx Fx. apply negb_true_iff in Fx. apply mem_h_false in Fx. apply dIn1 in Hx.
      destruct (pystr_eqb x a) eqn:E; [apply pystr_eqb_eq in E; exact E|exfalso]. apply Fx. apply dIn2.
      apply in_app_or in Hx as [Hx|[Hx|Hx]]; apply in_or_app; [left; exact Hx|subst x; rewrite pystr_eqb_refl in E; discriminate|right; right; exact Hx].
    - apply negb_true_iff. apply mem_h_false. intros Hin. apply dIn1 in Hin.
      apply in_app_or in Hin as [Hin|[Hin|Hin]]; [apply Na1; exact Hin|apply Nab; symmetry; exact Hin|apply Na2; exact Hin]. }
  rewrite HA, HR. cbn [added_loop].
  (* the one added hash, paired *)
  assert (JS : indexes_of b (h2 H c true ys) 0 = [n]) by (rewrite E2, indexes_of_mid by assumption; rewrite LS; reflexivity).
  assert (IS : indexes_of a (h1 H c true xs) 0 = [n]) by (rewrite E1, indexes_of_mid by assumption; rewrite LS; reflexivity).
  assert (NX : nth_error xs n = Some u1) by (unfold xs, n; rewrite nth_error_app2, Nat.sub_diag by lia; reflexivity).
  assert (NY : nth_error ys n = Some u2) by (unfold ys, n; rewrite nth_error_app2, Nat.sub_diag by lia; reflexivity).
  assert (PT : partner H c true pairs xs ys p b [a] = Some a).
  { unfold partner. rewrite Hp. cbn [find fst snd].
    assert (N2 : nth n (h2 H c true ys) [] = b).
    { rewrite E2. rewrite app_nth2 by lia. rewrite LS, Nat.sub_diag. reflexivity. }
    rewrite N2, pystr_eqb_refl.
    assert (N1 : nth_error (h1 H c true xs) n = Some a).
    { rewrite E1. rewrite nth_error_app2 by lia. rewrite LS, Nat.sub_diag. reflexivity. }
    cbn [snd]. rewrite N1. unfold mem_h. cbn [existsb]. rewrite pystr_eqb_refl. reflexivity. }
  unfold added_one_rep at 1. rewrite JS, PT, IS. cbn [first_of hd length Nat.eqb fold_right].
  unfold item2. rewrite NY.
  rewrite (nth_rec_map' _ xs n u1 NX).
  assert (RM : remove_h a [a] = []) by (unfold remove_h; cbn [filter]; rewrite pystr_eqb_refl; reflexivity).
  rewrite RM. cbn [map concat_res fold_right].
  (* common hashes: same multiplicity on both sides *)
  rewrite (concat_res_nil).
  - rewrite !app2_nil_r. reflexivity.
  - intros h0 Hh0. apply filter_In in Hh0 as [H2 H1]. apply mem_h_In in H1. apply dIn1 in H1. apply dIn1 in H2. rewrite E1 in H1. rewrite E2 in H2.
    unfold repetition_one. rewrite !indexes_length, E1, E2, !count_app.
    assert (Ca : count h0 (a :: S2) = count h0 S2).
    { unfold count. cbn [filter]. rewrite pystr_eqb_neq; [reflexivity|]. intros ->.
      apply in_app_or in H2 as [Q|[Q|Q]]; [apply Na1; exact Q|apply Nab; symmetry; exact Q|apply Na2; exact Q]. }
    assert (Cb : count h0 (b :: S2) = count h0 S2).
    { unfold count. cbn [filter]. rewrite pystr_eqb_neq; [reflexivity|]. intros ->.
      apply in_app_or in H1 as [Q|[Q|Q]]; [apply Nb1; exact Q|apply Nab; exact Q|apply Nb2; exact Q]. }
    rewrite Ca, Cb, Nat.eqb_refl. reflexivity.
Qed.

End ListLevel.

(* ---- contexts of dict levels and separated, paired list levels ---- *)
Section Levels.
Variable H : pystr -> pystr.
Variable udiff : pystr -> pystr -> pystr.
Variable c : cfg.
Variable pairs : path -> list (nat * nat).
Hypothesis thr_le_one : thr_num c <= thr_den c.
Notation dio := (diff_io H udiff nos nos c true pairs).
Notation hvv := (hv H c true).

(* [lev_ok a b p q u1 u2]: u1, u2 are the same context around a, b with the hole at q; p is the path of u1, u2
   themselves.  Dict level: the key is not hidden.  List level: the item hashes of the two planted items occur
   nowhere among the siblings' and differ, and the pairing of that level pairs the two. *)
Inductive lev_ok (a b : value) : path -> path -> value -> value -> Prop :=
| lo_here p : lev_ok a b p [] a b
| lo_dict p k l1 l2 q u1 u2 : keep_key c k = true -> lev_ok a b (snoc p (PKey k)) q u1 u2 ->
    lev_ok a b p (PKey k :: q) (VDict (l1 ++ (k, u1) :: l2)) (VDict (l1 ++ (k, u2) :: l2))
| lo_list p pre post q u1 u2 :
    ~ In (hvv u1) (map hvv (pre ++ post)) -> ~ In (hvv u2) (map hvv (pre ++ post)) -> hvv u1 <> hvv u2 ->
    pairs p = [(length pre, length pre)] ->
    lev_ok a b (snoc p (PIdx (length pre))) q u1 u2 ->
    lev_ok a b p (PIdx (length pre) :: q) (VList (pre ++ u1 :: post)) (VList (pre ++ u2 :: post)).

Lemma lev_ok_planted a b p q u1 u2 : lev_ok a b p q u1 u2 -> planted a b q u1 u2.
Proof. induction 1; constructor; assumption. Qed.

Lemma dict_levels_ok a b q u1 u2 : planted a b q u1 u2 -> Forall (dict_level c) q -> forall p, lev_ok a b p q u1 u2.
Proof.
  induction 1 as [|k l1 l2 q u1 u2 P IH|pre post q u1 u2 P IH]; intros DL p; [constructor| |].
  - inversion DL as [|? ? Dk DL']; subst. constructor; [exact Dk|apply IH; exact DL'].
  - inversion DL as [|? ? Dk DL']; subst. destruct Dk.
Qed.

Theorem dio_levels a b p q u1 u2 : lev_ok a b p q u1 u2 -> wf u1 = true -> wf u2 = true ->
  dio u1 u2 p p = dio a b (p ++ q) (p ++ q).
Proof.
  induction 1 as [p|p k l1 l2 q u1 u2 Kk L IH|p pre post q u1 u2 Na Nb Nab Hp L IH]; intros W1 W2.
  - rewrite app_nil_r. reflexivity.
  - rewrite (dio_dict_level H udiff c pairs thr_le_one) by assumption.
    cbn [wf] in W1, W2. apply andb_true_iff in W1 as [_ W1], W2 as [_ W2].
    rewrite IH.
    + unfold snoc. rewrite <- !app_assoc. reflexivity.
    + eapply forallb_forall in W1; [|apply in_or_app; right; left; reflexivity]. exact W1.
    + eapply forallb_forall in W2; [|apply in_or_app; right; left; reflexivity]. exact W2.
  - rewrite (dio_list_level H udiff c pairs pre post u1 u2 p Na Nb Nab Hp).
    cbn [wf] in W1, W2. rewrite IH.
    + unfold snoc. rewrite <- !app_assoc. reflexivity.
    + eapply forallb_forall in W1; [|apply in_or_app; right; left; reflexivity]. exact W1.
    + eapply forallb_forall in W2; [|apply in_or_app; right; left; reflexivity]. exact W2.
Qed.

End Levels.

Section LevelsRoundtrip.
Variable H : pystr -> pystr.
Variable udiff : pystr -> pystr -> pystr.
Variable c : cfg.
Variable pairs : path -> list (nat * nat).
Variable conv : ty -> value -> option value.
Variables bidir always : bool.
Variable ro : list (path * value) -> list (path * value).
Variable ao : list (path * option value) -> list (path * option value).
Variables X Y : list atom.
Notation h := (hatom_io H c true).
Hypothesis Hinj : forall a b, In a (X ++ Y) -> In b (X ++ Y) -> h a = h b -> a = b.
Hypothesis NX : NoDup X.
Hypothesis NY : NoDup Y.
Hypothesis AF : alias_free (X ++ Y).
Hypothesis Hconv : forall ty0 v v', conv ty0 v = Some v' -> type_of v' = ty0.
Hypothesis Hro : ro [] = [].
Hypothesis thr_le_one : thr_num c <= thr_den c.

Theorem io_roundtrip_levels q t1 t2 :
  lev_ok H c pairs (VList (xs X)) (VList (ys Y)) [] q t1 t2 -> wf t1 = true -> wf t2 = true ->
  let r := run_diff_io H udiff nos nos c true pairs t1 t2 in
  exists u' zs, apply_io H conv ro ao (to_delta_io conv bidir always t1 t2 (fst r) (snd r)) t1 = (u', 0)
                /\ planted (VList (xs X)) (VList zs) q t1 u' /\ Permutation zs (ys Y).
Proof.
  intros L W1 W2. cbv zeta. pose proof (lev_ok_planted H c pairs _ _ _ _ _ _ L) as P.
  destruct (io_facts H udiff c (shift pairs q) X Y Hinj NX NY) as (es & ER & SH & _).
  assert (RUN : run_diff_io H udiff nos nos c true pairs t1 t2 = (map (epre q) es, [])).
  { unfold run_diff_io. rewrite (dio_levels H udiff c pairs thr_le_one _ _ [] q t1 t2 L W1 W2). cbn [app].
    unfold xs. rewrite (run_flat_pre H udiff c pairs q X (ys Y)). fold (xs X). rewrite ER. reflexivity. }
  rewrite RUN. cbn [fst snd].
  assert (KD : forall e, In e es -> (ekind e = KValue \/ ekind e = KType \/ ekind e = KIterAdd \/ ekind e = KIterRem) /\ ep1 e <> []).
  { intros e He. eapply Forall_forall in SH; [|exact He].
    destruct SH as [(i & x & y & (A1 & A2 & _))|[(j & y & (A1 & A2 & _))|(i & x & -> & _)]].
    - split; [tauto|rewrite A2; discriminate].
    - split; [tauto|rewrite A2; discriminate].
    - split; [auto|discriminate]. }
  rewrite (to_delta_io_pre conv bidir always t1 t2 (VList (xs X)) (VList (ys Y)) q es) by (intros e He _; apply (KD e He)).
  pose proof (io_roundtrip H udiff c (shift pairs q) conv bidir always ro ao X Y Hinj NX NY AF Hconv Hro) as RT.
  cbv zeta in RT. rewrite ER in RT. cbn [fst snd] in RT. destruct RT as (zs & EA & PZ).
  set (d0 := to_delta_io conv bidir always (VList (xs X)) (VList (ys Y)) es []) in *.
  assert (DA : d_dadd (io_base d0) = []).
  { unfold d0, to_delta_io, to_delta. cbn [io_base d_dadd]. apply flat_map_nil_in. intros e He.
    destruct (KD e He) as [[Z|[Z|[Z|Z]]] _]; rewrite Z; reflexivity. }
  assert (DR : d_drem (io_base d0) = []).
  { unfold d0, to_delta_io, to_delta. cbn [io_base d_drem]. apply flat_map_nil_in. intros e He.
    destruct (KD e He) as [[Z|[Z|[Z|Z]]] _]; rewrite Z; reflexivity. }
  destruct (apply_io_planted H conv ro ao Hro _ _ q t1 t2 P W1 d0 (VList zs) DA DR EA) as (u' & E' & P').
  exists u', zs. split; [exact E'|]. split; [exact P'|exact PZ].
Qed.

End LevelsRoundtrip.

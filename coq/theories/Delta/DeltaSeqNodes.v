(** C01 - tuples and all-atom sequences compared position by position. *)
From Coq Require Import List ZArith NArith Bool Arith Lia Permutation.
Import ListNotations.
From DD Require Import Base.PyStr Base.Value Base.ValueFacts Path.PathModel Diff.Tree Diff.DiffModel
  Diff.DiffFacts Diff.DiffFaithful Delta.DeltaModel Delta.DeltaFacts Delta.DeltaLocal Delta.DeltaEntries
  Delta.DeltaStruct Delta.DeltaRun Delta.DeltaGuard Delta.DeltaGood Delta.DeltaNodes Delta.DeltaCompose
  Delta.DeltaListNode Delta.DeltaListSim Delta.DeltaSets Delta.DeltaSeq.

Lemma NoDup_map_inj {A B} (f : A -> B) l x y : NoDup (map f l) -> In x l -> In y l -> f x = f y -> x = y.
Proof.
  induction l as [|a l IH]; cbn; intros ND Hx Hy E; [destruct Hx|].
  inversion ND as [|? ? Na ND']; subst. destruct Hx as [->|Hx], Hy as [->|Hy].
  - reflexivity.
  - exfalso. apply Na. rewrite E. apply in_map. exact Hy.
  - exfalso. apply Na. rewrite <- E. apply in_map. exact Hx.
  - apply IH; assumption.
Qed.

Lemma NoDup_map_filter {A B} (f : A -> B) (p : A -> bool) l : NoDup (map f l) -> NoDup (map f (filter p l)).
Proof.
  induction l as [|a l IH]; cbn; intros ND; [constructor|]. inversion ND as [|? ? Na ND']; subst.
  destruct (p a); cbn; [constructor|]; try (apply IH; exact ND').
  intros H. apply Na. apply in_map_iff in H as (x & E & Hx). apply filter_In in Hx as [Hx _]. rewrite <- E. apply in_map. exact Hx.
Qed.

Lemma edv_fst es : map fst (edv es) = map eidx (filter (iskind KValue) es).
Proof. unfold edv. induction es as [|e es IH]; cbn; [reflexivity|]. destruct (iskind KValue e); cbn; rewrite IH; reflexivity. Qed.
Lemma edt_fst es : map fst (edt es) = map eidx (filter (iskind KType) es).
Proof. unfold edt. induction es as [|e es IH]; cbn; [reflexivity|]. destruct (iskind KType e); cbn; rewrite IH; reflexivity. Qed.

Lemma edits_nodup es : NoDup (map eidx es) -> NoDup (map fst (edv es ++ edt es)).
Proof.
  intros ND. rewrite map_app, edv_fst, edt_fst. apply NoDup_app'; try (apply NoDup_map_filter; exact ND).
  intros i H1 H2. apply in_map_iff in H1 as (e1 & E1 & F1). apply in_map_iff in H2 as (e2 & E2 & F2).
  apply filter_In in F1 as [I1 K1]. apply filter_In in F2 as [I2 K2].
  assert (e1 = e2) by (eapply NoDup_map_inj; [exact ND|exact I1|exact I2|congruence]). subst e2.
  unfold iskind in K1, K2. destruct (ekind e1); discriminate.
Qed.

Lemma edits_In es iv : In iv (edv es ++ edt es) ->
  exists e, In e es /\ (ekind e = KValue \/ ekind e = KType) /\ iv = (eidx e, eov (et2 e)).
Proof.
  intros H. apply in_app_or in H as [H|H]; apply in_flat_map in H as (e & He & H).
  - unfold iskind in H. destruct (ekind e) eqn:K; cbn in H; try destruct H as [<-|[]]; try contradiction. exists e. auto.
  - unfold iskind in H. destruct (ekind e) eqn:K; cbn in H; try destruct H as [<-|[]]; try contradiction. exists e. auto.
Qed.

Lemma edits_idx es i : In i (map eidx es) -> (forall e, In e es -> ekind e = KValue \/ ekind e = KType) ->
  In i (map fst (edv es ++ edt es)).
Proof.
  intros H K. apply in_map_iff in H as (e & <- & He). rewrite map_app, edv_fst, edt_fst. apply in_or_app.
  destruct (K e He) as [Kk|Kk]; [left|right]; apply in_map; apply filter_In; (split; [exact He|]); unfold iskind; rewrite Kk; reflexivity.
Qed.

Section SeqNodes.
Variable hatom : atom -> pystr.
Variable udiff : pystr -> pystr -> pystr.
Variable ops : path -> list value -> list value -> list opcode.
Variable c : cfg.
Variable conv : ty -> value -> option value.
Variables bidir always : bool.
Notation diff := (diff hatom udiff ops nos nos c).
Notation Good := (Good hatom udiff ops c conv bidir always).
Hypothesis Hconv : forall ty0 v v', conv ty0 v = Some v' -> type_of v' = ty0.

(* the entries for one pair of atoms *)
Lemma atom_pair_entries a b p :
  snd (diff (VAtom a) (VAtom b) p p) = [] /\
  ((fst (diff (VAtom a) (VAtom b) p p) = [] /\ a = b) \/
   exists k d, (k = KValue \/ k = KType) /\
     fst (diff (VAtom a) (VAtom b) p p) = [mkEntry k p p (Some (VAtom a)) (Some (VAtom b)) d]).
Proof.
  rewrite diff_atom_eq by reflexivity. destruct (ty_eqb (atom_ty a) (atom_ty b)) eqn:T; cbn [negb fst snd].
  - split; [reflexivity|]. apply ty_eqb_true in T. destruct (diff_atom_cases udiff a b p T) as [[-> ->]|[d ->]].
    + left. auto.
    + right. exists KValue, d. auto.
  - split; [reflexivity|]. right. exists KType, None. auto.
Qed.


Variable q : path.
Definition GLa (i : nat) (xs ys : list value) := go_list nos diff q q xs ys i.

Definition pos_entry (xs ys : list value) (i : nat) (e : entry) : Prop :=
  (ekind e = KValue \/ ekind e = KType) /\
  exists j a b, i <= j /\ ep1 e = snoc q (PIdx j) /\ et1 e = Some (VAtom a) /\ et2 e = Some (VAtom b) /\
                nth_error xs (j - i) = Some (VAtom a) /\ nth_error ys (j - i) = Some (VAtom b).

Lemma GL_atoms xs : forall ys i,
  forallb is_atom xs = true -> forallb is_atom ys = true -> length xs = length ys ->
  snd (GLa i xs ys) = [] /\
  (forall e, In e (fst (GLa i xs ys)) -> pos_entry xs ys i e) /\
  NoDup (map eidx (fst (GLa i xs ys))) /\
  (forall j, j < length xs -> In (i + j) (map eidx (fst (GLa i xs ys))) \/ nth_error xs j = nth_error ys j).
Proof.
  induction xs as [|x xs IH]; intros ys i Ax Ay L.
  - destruct ys; [|discriminate]. cbn. split; [reflexivity|]. split; [intros e []|]. split; [constructor|]. intros j0 Hj0. lia.
  - destruct ys as [|y ys]; [discriminate|]. cbn in Ax, Ay, L.
    apply andb_true_iff in Ax as [Hx Ax], Ay as [Hy Ay].
    destruct x as [a| | | | |]; try discriminate Hx. destruct y as [b| | | | |]; try discriminate Hy.
    destruct (IH ys (S i) Ax Ay ltac:(lia)) as (I1 & I2 & I3 & I4).
    unfold GLa. cbn [go_list]. unfold app2. cbn [fst snd]. fold (GLa (S i) xs ys).
    destruct (atom_pair_entries a b (snoc q (PIdx i))) as [S0 HE]. rewrite S0, I1.
    assert (W : forall e, In e (fst (GLa (S i) xs ys)) -> pos_entry (VAtom a :: xs) (VAtom b :: ys) i e /\ S i <= eidx e).
    { intros e He. destruct (I2 e He) as (K & j & a0 & b0 & Hj & Hp & H1 & H2 & N1 & N2). split.
      - split; [exact K|]. exists j, a0, b0. split; [lia|]. split; [exact Hp|]. split; [exact H1|]. split; [exact H2|].
        replace (j - i) with (S (j - S i)) by lia. split; assumption.
      - rewrite (eidx_of e q j Hp). exact Hj. }
    split; [reflexivity|]. destruct HE as [[-> ->]|(k & d & Hk & ->)]; cbn [app].
    + split; [intros e He; apply W; exact He|]. split; [exact I3|].
      intros [|j] Hj; [right; reflexivity|]. destruct (I4 j ltac:(cbn in Hj; lia)) as [H|H]; [left|right; exact H].
      replace (i + S j) with (S i + j) by lia. exact H.
    + split; [|split].
      * intros e [<-|He]; [|apply W; exact He]. split; [exact Hk|]. exists i, a, b. rewrite Nat.sub_diag. repeat split; try reflexivity; lia.
      * cbn [map]. rewrite eidx_snoc. constructor; [|exact I3].
        intros H. apply in_map_iff in H as (e & E0 & He). destruct (W e He) as [_ Z]. lia.
      * intros [|j] Hj.
        -- left. cbn [map]. rewrite eidx_snoc, Nat.add_0_r. left. reflexivity.
        -- destruct (I4 j ltac:(cbn in Hj; lia)) as [H|H]; [left|right; exact H].
           replace (i + S j) with (S i + j) by lia. right. exact H.
Qed.


Lemma sg_none sel es : (forall e, In e es -> sel e = None) -> sg sel es [] = [].
Proof. unfold sg. induction es as [|e es IH]; intros H; cbn; [reflexivity|]. rewrite (H e (or_introl eq_refl)). apply IH. intros e0 H0. apply H. right. exact H0. Qed.

Lemma ordfree_atoms (t : bool) l : forallb is_atom l = true -> ordfree (sroot t l) = true.
Proof.
  intros H. assert (forallb ordfree l = true).
  { apply forallb_forall. intros x Hx. eapply forallb_forall in H; [|exact Hx]. destruct x; try discriminate. reflexivity. }
  destruct t; exact H0.
Qed.

Lemma seq_positional_good tup xs ys es T1 T2 :
  (forall e, In e es -> pos_entry xs ys 0 e) -> NoDup (map eidx es) ->
  (forall j, j < length xs -> In j (map eidx es) \/ nth_error xs j = nth_error ys j) ->
  length xs = length ys -> forallb is_atom ys = true ->
  GoodD0 conv bidir (to_delta conv bidir always ops T1 T2 (mutual es) []) (length q) (sroot tup xs) (sroot tup ys).
Proof.
  intros HP ND HC L Ay.
  assert (K : forall e, In e es -> ekind e = KValue \/ ekind e = KType) by (intros e He; apply HP; exact He).
  rewrite mutual_id by (intros a r Ha _ Ka _; destruct (K a Ha) as [Z|Z]; rewrite Z in Ka; discriminate).
  assert (NIL : forall (B : Type) (f : entry -> list B), (forall e, ekind e = KValue \/ ekind e = KType -> f e = []) -> flat_map f es = []).
  { intros B f H. apply flat_map_nil_in. intros e He. apply H. apply K. exact He. }
  apply (seq_inplace conv bidir always ops T1 T2 q Hconv tup xs ys es [] None).
  - intros e He _. destruct (HP e He) as (_ & j & a & b & _ & Hp & H1 & H2 & N1 & _). rewrite Nat.sub_0_r in N1.
    exists j, a, b. auto.
  - unfold to_delta. cbn [d_irem]. apply NIL. intros e [-> | ->]; reflexivity.
  - unfold to_delta. cbn [d_iadd]. apply NIL. intros e [-> | ->]; reflexivity.
  - unfold to_delta. cbn [d_dadd]. apply NIL. intros e [-> | ->]; reflexivity.
  - unfold to_delta. cbn [d_drem]. apply NIL. intros e [-> | ->]; reflexivity.
  - unfold to_delta. cbn [d_moved]. apply NIL. intros e [-> | ->]; reflexivity.
  - rewrite td_sadd. apply sg_none. intros e He. unfold sel_add. destruct (K e He) as [-> | ->]; reflexivity.
  - rewrite td_srem. apply sg_none. intros e He. unfold sel_rem. destruct (K e He) as [-> | ->]; reflexivity.
  - reflexivity.
  - apply edits_nodup. exact ND.
  - intros iv Hiv. apply edits_In in Hiv as (e & He & _ & ->). cbn [fst].
    destruct (HP e He) as (_ & j & a & b & _ & Hp & _ & _ & N1 & _). rewrite Nat.sub_0_r in N1.
    rewrite (eidx_of e q j Hp). apply nth_error_Some. rewrite N1. discriminate.
  - apply apply_edits_target; [exact L| |].
    + intros iv Hiv. apply edits_In in Hiv as (e & He & _ & ->). cbn [fst snd].
      destruct (HP e He) as (_ & j & a & b & _ & Hp & _ & H2 & _ & N2). rewrite Nat.sub_0_r in N2.
      rewrite (eidx_of e q j Hp), H2. exact N2.
    + intros j. destruct (Nat.lt_ge_cases j (length xs)) as [Hj|Hj].
      * destruct (HC j Hj) as [H|H]; [left; apply edits_idx; assumption|right; exact H].
      * right. rewrite (proj2 (nth_error_None xs j)) by exact Hj. symmetry. apply nth_error_None. lia.
  - exact Ay.
Qed.

(* tuples compared position by position (zip_ordered_iterables) *)
Theorem Good_tuple_zip xs ys :
  zip c = true -> forallb is_atom xs = true -> forallb is_atom ys = true -> length xs = length ys ->
  Good (VTuple xs) (VTuple ys) q.
Proof.
  intros Z Ax Ay L T1 T2 _ _. unfold D, E. rewrite diff_tuple by reflexivity. unfold seq_body. rewrite Z. cbn [negb andb].
  fold (GLa 0 xs ys). destruct (GL_atoms xs ys 0 Ax Ay L) as (S0 & HP & ND & HC). rewrite S0.
  apply GoodD0_exact; [exact (ordfree_atoms true xs Ax)|].
  apply (seq_positional_good true xs ys _ T1 T2 HP ND HC L Ay).
Qed.


Lemma pairs_leaf_go_list xs : forall ys i,
  forallb is_atom xs = true -> forallb is_atom ys = true ->
  pairs_leaf udiff nos xs ys i i q q = fst (GLa i xs ys) /\ snd (GLa i xs ys) = [].
Proof.
  induction xs as [|x xs IH]; intros ys i Ax Ay.
  - cbn. destruct ys; split; reflexivity.
  - destruct ys as [|y ys]; [split; reflexivity|]. cbn in Ax, Ay.
    apply andb_true_iff in Ax as [Hx Ax], Ay as [Hy Ay].
    destruct x as [a| | | | |]; try discriminate Hx. destruct y as [b| | | | |]; try discriminate Hy.
    destruct (IH ys (S i) Ax Ay) as [I1 I2].
    unfold GLa. cbn [pairs_leaf go_list]. unfold app2. cbn [fst snd]. fold (GLa (S i) xs ys).
    rewrite Nat.eqb_refl. cbn [negb andb]. rewrite I1, I2.
    rewrite diff_atom_eq by reflexivity. cbn [diff_leaf].
    destruct (ty_eqb (atom_ty a) (atom_ty b)) eqn:T; cbn [negb fst snd]; [split; reflexivity|].
    split; [|reflexivity]. f_equal. unfold diff_atom. cbn [nos]. rewrite T. reflexivity.
Qed.

Lemma tc_guard_atoms a b : tc_guard conv bidir always (VAtom a) (VAtom b).
Proof.
  right. intros v' Cv Ev. apply Hconv in Cv. destruct v' as [a'| | | | |]; cbn in Ev; try discriminate.
  cbn in Cv. cbn. apply atom_eqb_eq. apply py_eq_same_ty; assumption.
Qed.

End SeqNodes.

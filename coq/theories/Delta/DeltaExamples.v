(** C01 - concrete oracles and a concrete pair inside the guards (non-vacuity),
    and the witnesses that refute the unguarded statement. *)
From Coq Require Import List ZArith NArith Bool Arith Lia Permutation String.
Import ListNotations.
From DD Require Import Base.PyStr Base.Value Base.ValueFacts Path.PathModel Diff.Tree Diff.DiffModel
  Diff.DiffFacts Delta.DeltaModel Delta.DeltaFacts Delta.DeltaStruct Delta.DeltaRun Delta.DeltaGuard
  Delta.DeltaGood Delta.DeltaRoundtrip Delta.DeltaChain.

(* ---- an injective stand-in for DeepHash on set members ---- *)
Definition zcode (z : Z) : N := if Z.ltb z 0 then 2 * Z.to_N (- z) + 1 else 2 * Z.to_N z.
Definition hatom_ex (a : atom) : pystr :=
  match a with
  | ANone => [0%N]
  | ABool b => [1%N; if b then 1%N else 0%N]
  | AInt z => [2%N; zcode z]
  | AHalf t => [3%N; zcode t]
  | AStr s => 4%N :: s
  | ABytes s => 5%N :: s
  end.

Lemma zcode_inj x y : zcode x = zcode y -> x = y.
Proof. unfold zcode. destruct (Z.ltb_spec x 0), (Z.ltb_spec y 0); lia. Qed.

Lemma hatom_ex_inj a b : hatom_ex a = hatom_ex b -> a = b.
Proof.
  destruct a as [|x|x|x|x|x], b as [|y|y|y|y|y]; cbn; intros H; try discriminate; try reflexivity; inversion H; subst; try reflexivity.
  - destruct x, y; try reflexivity; discriminate.
  - f_equal. apply zcode_inj. assumption.
  - f_equal. apply zcode_inj. assumption.
Qed.

Definition conv_none (_ : ty) (_ : value) : option value := None.
Lemma conv_none_typed ty0 v v' : conv_none ty0 v = Some v' -> type_of v' = ty0.
Proof. discriminate. Qed.

(* opcode oracle given as a table indexed by the path of the compared lists *)
Definition ops_tbl (t : list (path * list opcode)) (p : path) (_ _ : list value) : list opcode :=
  match find (fun x => path_eqb (fst x) p) t with Some x => snd x | None => [] end.

Definition s (x : string) : atom := AStr (s2p x).
Definition I (z : Z) : value := VAtom (AInt z).
Definition Sv (x : string) : value := VAtom (s x).

Definition ex_cfg : cfg := mkCfg false 0 1 true.
Definition ex_t1 : value :=
  VDict [ (s "a", VList [I 1; I 2; I 3; I 4]);
          (s "b", VTuple [I 1; Sv "x"]);
          (s "s", VSet [AInt 1; AInt 2]);
          (s "r", I 0);
          (s "q", I 5);
          (s "n", VList [VList [I 1]; VList [I 2]; I 6]) ].
Definition ex_t2 : value :=
  VDict [ (s "a", VList [I 1; I 9; I 8; I 2; I 3; I 4]);
          (s "b", VTuple [I 1; Sv "y"]);
          (s "s", VSet [AInt 2; AInt 3]);
          (s "z", Sv "new");
          (s "q", Sv "five");
          (s "n", VList [VList [I 1; I 7]]) ].
Definition ex_ops := ops_tbl
  [ ([PKey (s "a")], [mkOp OEqual 0 1 0 1; mkOp OInsert 1 1 1 3; mkOp OEqual 1 4 3 6]);
    ([PKey (s "b")], [mkOp OEqual 0 1 0 1; mkOp OReplace 1 2 1 2]);
    ([PKey (s "n"); PIdx 0], [mkOp OEqual 0 1 0 1; mkOp OInsert 1 1 1 2]) ].

Definition ex_delta : delta := delta_of hatom_ex (fun _ _ => []) ex_ops ex_cfg conv_none false false ex_t1 ex_t2.

Lemma ex_guards : guards ex_cfg conv_none false false ex_t1 ex_t2.
Proof. apply (guardsb_sound ex_cfg conv_none false false conv_none_typed). vm_compute. reflexivity. Qed.

Ltac conj := repeat match goal with |- _ /\ _ => split end.
Ltac valid_ops_tac :=
  intros _ _; split;
  [vm_compute; conj; try reflexivity; try lia
  |repeat (apply Forall_cons || apply Forall_nil); vm_compute; conj; try reflexivity; try lia; repeat constructor].

Lemma ex_opsv : opsv ex_ops ex_t1 ex_t2 [].
Proof.
  unfold ex_t1, ex_t2. rewrite opsv_dict_eq. cbn [opsv_dict].
  repeat match goal with |- context [assoc ?k ?l] => let r := eval vm_compute in (assoc k l) in change (assoc k l) with r end.
  cbn beta iota. conj; try exact Logic.I.
  - rewrite opsv_list_eq. split; [valid_ops_tac|cbn; conj; exact Logic.I].
  - rewrite opsv_tuple_eq. split; [valid_ops_tac|cbn; conj; exact Logic.I].
  - rewrite opsv_list_eq. split; [intros H; discriminate H|]. cbn [opsv_list]. conj; try exact Logic.I.
    rewrite opsv_list_eq. split; [valid_ops_tac|cbn; conj; exact Logic.I].
Qed.

Lemma ex_orders : orders_ok_at (@rev _) (fun l => l) ex_delta.
Proof.
  unfold orders_ok_at.
  repeat match goal with |- context [d_irem ex_delta] => let r := eval vm_compute in (d_irem ex_delta) in change (d_irem ex_delta) with r end.
  repeat match goal with |- context [d_drem ex_delta] => let r := eval vm_compute in (d_drem ex_delta) in change (d_drem ex_delta) with r end.
  repeat match goal with |- context [d_iadd ex_delta] => let r := eval vm_compute in (d_iadd ex_delta) in change (d_iadd ex_delta) with r end.
  repeat split; try apply Permutation_rev; try apply Permutation_refl; cbn [rev app map];
    repeat constructor; apply not_idx_lt; reflexivity.
Qed.

(* the theorem applies to the example, and the result is what the model computes *)
Lemma ex_roundtrip :
  exists t2', apply conv_none (@rev _) (fun l => l) ex_delta ex_t1 = (t2', 0) /\ veqb t2' ex_t2 = true.
Proof.
  apply (roundtrip_at hatom_ex (fun _ _ => []) ex_ops ex_cfg conv_none false false hatom_ex_inj conv_none_typed
           (@rev _) (fun l => l) ex_t1 ex_t2 ex_guards ex_opsv ex_orders).
Qed.

Lemma ex_nontrivial :
  List.length (d_val ex_delta) = 1 /\ List.length (d_type ex_delta) = 1 /\ List.length (d_dadd ex_delta) = 1 /\ List.length (d_drem ex_delta) = 1 /\
  List.length (d_iadd ex_delta) = 1 /\ List.length (d_irem ex_delta) = 2 /\ List.length (d_sadd ex_delta) = 1 /\ List.length (d_srem ex_delta) = 1 /\
  List.length (d_ops ex_delta) = 1 /\ veqb ex_t1 ex_t2 = false.
Proof. vm_compute. repeat split; reflexivity. Qed.

(* ---- the unguarded statement is false of the model ---- *)
Definition rt (hatom : atom -> pystr) ops c conv bidir always t1 t2 : value * nat :=
  apply conv (@rev _) (fun l => l) (delta_of hatom (fun _ _ => []) ops c conv bidir always t1 t2) t1.
Definition no_ops (_ : path) (_ _ : list value) : list opcode := [].

(* KA: == atoms of different type *)
Definition ka_t1 : value := VSet [ABool false; s "a"].
Definition ka_t2 : value := VSet [AInt 0; s "a"].
Definition ka_res : value := VSet [s "a"].
Lemma refuted_alias :
  wf ka_t1 = true /\ wf ka_t2 = true /\
  rt hatom_ex no_ops ex_cfg conv_none false false ka_t1 ka_t2 = (ka_res, 0) /\ veqb ka_res ka_t2 = false.
Proof. vm_compute. repeat split; reflexivity. Qed.

(* F4: a container inside a tuple *)
Definition f4_t1 : value := VTuple [I 1; VSet [AInt 2]].
Definition f4_t2 : value := VTuple [I 1; VSet [AInt 3]].
Lemma refuted_tuple_container :
  rt hatom_ex no_ops (mkCfg true 0 1 true) conv_none false false f4_t1 f4_t2 = (f4_t1, 2) /\ veqb f4_t1 f4_t2 = false.
Proof. vm_compute. split; reflexivity. Qed.

(* F6: a tuple that changes its length *)
Definition f6_t1 : value := VTuple [I 1; I 2].
Definition f6_t2 : value := VTuple [I 1; I 7; I 2].
Definition f6_ops := ops_tbl [([], [mkOp OEqual 0 1 0 1; mkOp OInsert 1 1 1 2; mkOp OEqual 1 2 2 3])].
Lemma refuted_tuple_length :
  rt hatom_ex f6_ops ex_cfg conv_none false false f6_t1 f6_t2 = (VTuple [I 1; I 7], 0) /\ veqb (VTuple [I 1; I 7]) f6_t2 = false.
Proof. vm_compute. split; reflexivity. Qed.

(* F7 family: values of a type change omitted although new_type(old) is only == to the new value *)
Definition f7_t1 : value := VList [VList [I 1; VSet [AInt 2]]].
Definition f7_t2 : value := VDict [(AInt 1, VFrozen [AInt 2])].
Definition f7_conv (t : ty) (v : value) : option value :=
  match t with TDict => if value_eqb v f7_t1 then Some (VDict [(AInt 1, VSet [AInt 2])]) else None | _ => None end.
Lemma f7_conv_typed ty0 v v' : f7_conv ty0 v = Some v' -> type_of v' = ty0.
Proof. unfold f7_conv. destruct ty0; try discriminate. destruct (value_eqb v f7_t1); [|discriminate]. intros H. inversion H. reflexivity. Qed.
Lemma refuted_omitted_values :
  wf f7_t1 = true /\ wf f7_t2 = true /\ alias_freeb (atoms_of f7_t1 ++ atoms_of f7_t2) = true /\
  rt hatom_ex no_ops ex_cfg f7_conv false false f7_t1 f7_t2 = (VDict [(AInt 1, VSet [AInt 2])], 0) /\
  veqb (VDict [(AInt 1, VSet [AInt 2])]) f7_t2 = false.
Proof. vm_compute. repeat split; reflexivity. Qed.

(* private keys are invisible to the diff *)
Definition pk_t1 : value := VDict [(s "__a", I 1)].
Definition pk_t2 : value := VDict [(s "__a", I 2)].
Lemma refuted_private_keys :
  rt hatom_ex no_ops ex_cfg conv_none false false pk_t1 pk_t2 = (pk_t1, 0) /\ veqb pk_t1 pk_t2 = false.
Proof. vm_compute. split; reflexivity. Qed.

(* ---- a chain through dicts and sets, started from a reordered copy ---- *)
Definition cv0 : value := VDict [(s "a", VSet [AInt 1; AInt 2]); (s "b", VDict [(s "x", I 1); (s "y", I 2)])].
Definition cv1 : value := VDict [(s "a", VSet [AInt 2; AInt 3]); (s "b", VDict [(s "y", I 7); (s "z", I 5)])].
Definition cv2 : value := VDict [(s "b", VDict [(s "z", I 5); (s "y", I 7); (s "w", VFrozen [AInt 1])]); (s "c", Sv "q")].
Definition cv_start : value := VDict [(s "b", VDict [(s "y", I 2); (s "x", I 1)]); (s "a", VSet [AInt 2; AInt 1])].

Lemma okb_all_conv_none a b : okb_all conv_none false false a b.
Proof. intros v _ _. apply okb_of_tc. intros v0 t1 t2. right. intros a' H. discriminate H. Qed.

Ltac orders_tac d :=
  unfold orders_ok_at;
  repeat match goal with |- context [d_irem d] => let r := eval vm_compute in (d_irem d) in change (d_irem d) with r end;
  repeat match goal with |- context [d_drem d] => let r := eval vm_compute in (d_drem d) in change (d_drem d) with r end;
  repeat match goal with |- context [d_iadd d] => let r := eval vm_compute in (d_iadd d) in change (d_iadd d) with r end;
  repeat split; try apply Permutation_rev; try apply Permutation_refl; cbn [rev app map];
    repeat constructor; apply not_idx_lt; reflexivity.

Ltac opsv_dict_tac :=
  rewrite opsv_dict_eq; cbn [opsv_dict];
  repeat match goal with |- context [assoc ?k ?l] => let r := eval vm_compute in (assoc k l) in change (assoc k l) with r end;
  cbn beta iota; conj; try exact Logic.I.

Lemma cv_step01 : step_ok hatom_ex (fun _ _ => []) no_ops ex_cfg conv_none false false (@rev _) (fun l => l) cv0 cv1.
Proof.
  split; [apply (guardsb_sound ex_cfg conv_none false false conv_none_typed); vm_compute; reflexivity|]. split.
  - unfold cv0, cv1. opsv_dict_tac. opsv_dict_tac.
  - orders_tac (delta_of hatom_ex (fun _ _ => []) no_ops ex_cfg conv_none false false cv0 cv1).
Qed.

Lemma cv_step12 : step_ok hatom_ex (fun _ _ => []) no_ops ex_cfg conv_none false false (@rev _) (fun l => l) cv1 cv2.
Proof.
  split; [apply (guardsb_sound ex_cfg conv_none false false conv_none_typed); vm_compute; reflexivity|]. split.
  - unfold cv1, cv2. opsv_dict_tac. opsv_dict_tac.
  - orders_tac (delta_of hatom_ex (fun _ _ => []) no_ops ex_cfg conv_none false false cv1 cv2).
Qed.

Lemma cv_chain_ok : chain_ok hatom_ex (fun _ _ => []) no_ops ex_cfg conv_none false false (@rev _) (fun l => l) cv0 [cv1; cv2].
Proof. exact (conj cv_step01 (conj cv_step12 Logic.I)). Qed.

Lemma cv_chain_okv : chain_okv conv_none false false cv0 [cv1; cv2].
Proof. exact (conj (okb_all_conv_none cv0 cv1) (conj (okb_all_conv_none cv1 cv2) Logic.I)). Qed.

Lemma cv_start_ok : wf cv_start = true /\ veqb cv_start cv0 = true /\ value_eqb cv_start cv0 = false /\ ordfree cv0 = false.
Proof. vm_compute. repeat split; reflexivity. Qed.

Lemma cv_chain :
  Forall2 (fun res t => snd res = 0 /\ veqb (fst res) t = true)
    (chain_from hatom_ex (fun _ _ => []) no_ops ex_cfg conv_none false false (@rev _) (fun l => l) cv_start cv0 [cv1; cv2])
    [cv1; cv2].
Proof.
  apply (chain_veq hatom_ex (fun _ _ => []) no_ops ex_cfg conv_none false false (@rev _) (fun l => l) hatom_ex_inj conv_none_typed
           [cv1; cv2] cv_start cv0 cv_chain_ok cv_chain_okv); apply cv_start_ok.
Qed.

(* ---- without [okb_all]: the constructor call of a type change acts on the current value ----
   {'k': {'a':1,'b':2}} -> {'k': ['a','b']}: list(old) == new, the values are omitted; from
   the equal dict {'k': {'b':2,'a':1}} the delta builds {'k': ['b','a']} *)
Definition rb_t1 : value := VDict [(s "k", VDict [(s "a", I 1); (s "b", I 2)])].
Definition rb_t2 : value := VDict [(s "k", VList [Sv "a"; Sv "b"])].
Definition rb_v : value := VDict [(s "k", VDict [(s "b", I 2); (s "a", I 1)])].
Definition rb_res : value := VDict [(s "k", VList [Sv "b"; Sv "a"])].
(* list(dict) = the keys in insertion order *)
Definition keys_conv (t : ty) (v : value) : option value :=
  match t, v with TList, VDict kvs => Some (VList (map (fun kv => VAtom (fst kv)) kvs)) | _, _ => None end.
Lemma keys_conv_typed ty0 v v' : keys_conv ty0 v = Some v' -> type_of v' = ty0.
Proof. unfold keys_conv. destruct ty0; try discriminate. destruct v; try discriminate. intros H. inversion H. reflexivity. Qed.

Lemma rb_guards : guards ex_cfg keys_conv false false rb_t1 rb_t2.
Proof.
  split; [reflexivity|]. split; [reflexivity|]. split; [apply alias_freeb_sound; vm_compute; reflexivity|]. split.
  - unfold rb_t1, rb_t2. rewrite okp_dict_eq. cbn [okp_dict].
    match goal with |- context [assoc ?k ?l] => let r := eval vm_compute in (assoc k l) in change (assoc k l) with r end.
    cbn beta iota. split; [|exact Logic.I]. cbn. right. intros v' H _. vm_compute in H. inversion H. vm_compute. reflexivity.
  - right. vm_compute. split; reflexivity.
Qed.

Lemma refuted_rebuild :
  wf rb_v = true /\ veqb rb_v rb_t1 = true /\
  apply keys_conv (@rev _) (fun l => l) (delta_of hatom_ex (fun _ _ => []) no_ops ex_cfg keys_conv false false rb_t1 rb_t2) rb_t1 = (rb_t2, 0) /\
  apply keys_conv (@rev _) (fun l => l) (delta_of hatom_ex (fun _ _ => []) no_ops ex_cfg keys_conv false false rb_t1 rb_t2) rb_v = (rb_res, 0) /\
  veqb rb_res rb_t2 = false.
Proof. vm_compute. repeat split; reflexivity. Qed.

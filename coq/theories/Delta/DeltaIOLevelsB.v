(** C01, ignore_order clause below list / dict levels: the hypothesis [lev_ok] as a boolean on an explicit context
    ([lev_okb], sound), so that the harness can evaluate it inside Coq on the planted pairs it generates, with the
    pairings recorded from the implementation and the hasher of the correspondence. *)
From Coq Require Import List ZArith NArith Bool Arith Lia.
Import ListNotations.
From DD Require Import Base.Sx Base.PyStr Base.Value Base.ValueFacts Path.PathModel Diff.Tree Diff.DiffModel
  Hash.HashModel DiffIO.DiffIOModel Delta.DeltaIOProofs Delta.DeltaIOPlant Delta.DeltaIOPlantList.

Inductive level :=
| LDict (l1 : list (atom * value)) (k : atom) (l2 : list (atom * value))
| LList (pre post : list value).

Fixpoint fill (cx : list level) (v : value) : value :=
  match cx with
  | [] => v
  | LDict l1 k l2 :: r => VDict (l1 ++ (k, fill r v) :: l2)
  | LList pre post :: r => VList (pre ++ fill r v :: post)
  end.
Fixpoint cpath (cx : list level) : path :=
  match cx with
  | [] => []
  | LDict _ k _ :: r => PKey k :: cpath r
  | LList pre _ :: r => PIdx (length pre) :: cpath r
  end.

Definition pairs_eqb (l m : list (nat * nat)) : bool :=
  Nat.eqb (length l) (length m) && forallb (fun xy => Nat.eqb (fst (fst xy)) (fst (snd xy)) && Nat.eqb (snd (fst xy)) (snd (snd xy))) (combine l m).

Lemma pairs_eqb_eq l : forall m, pairs_eqb l m = true -> l = m.
Proof.
  unfold pairs_eqb. induction l as [|[a b] l IH]; intros [|[a' b'] m] E; cbn in E; try discriminate; [reflexivity|].
  apply andb_true_iff in E as [E1 E2]. apply andb_true_iff in E2 as [E2 E3]. apply andb_true_iff in E2 as [Ea Eb].
  apply Nat.eqb_eq in Ea, Eb. subst. f_equal. apply IH. rewrite E1, E3. reflexivity.
Qed.

Section B.
Variable H : pystr -> pystr.
Variable c : cfg.
Variable pairs : path -> list (nat * nat).
Notation hvv := (hv H c true).

Fixpoint lev_okb (cx : list level) (a b : value) (p : path) : bool :=
  match cx with
  | [] => true
  | LDict l1 k l2 :: r => keep_key c k && lev_okb r a b (snoc p (PKey k))
  | LList pre post :: r =>
      let u1 := fill r a in
      let u2 := fill r b in
      negb (mem_h (hvv u1) (map hvv (pre ++ post))) && negb (mem_h (hvv u2) (map hvv (pre ++ post))) &&
      negb (pystr_eqb (hvv u1) (hvv u2)) && pairs_eqb (pairs p) [(length pre, length pre)] &&
      lev_okb r a b (snoc p (PIdx (length pre)))
  end.

Theorem lev_okb_sound cx a b : forall p, lev_okb cx a b p = true -> lev_ok H c pairs a b p (cpath cx) (fill cx a) (fill cx b).
Proof.
  induction cx as [|[l1 k l2|pre post] r IH]; intros p E; cbn [lev_okb fill cpath] in *.
  - constructor.
  - apply andb_true_iff in E as [Kk E]. constructor; [exact Kk|apply IH; exact E].
  - apply andb_true_iff in E as [E E5]. apply andb_true_iff in E as [E E4]. apply andb_true_iff in E as [E E3].
    apply andb_true_iff in E as [E1 E2]. apply negb_true_iff in E1, E2, E3.
    constructor.
    + apply mem_h_false. exact E1.
    + apply mem_h_false. exact E2.
    + intros Q. rewrite Q, pystr_eqb_refl in E3. discriminate.
    + apply pairs_eqb_eq. exact E4.
    + apply IH. exact E5.
Qed.

End B.

(* for the harness: the boolean on the generated context + what the context fills to (compared with t1, t2 there) *)
Definition sx_lev_ok (H : pystr -> pystr) (c : cfg) (ps : path -> list (nat * nat)) (cx : list level) (a b : value) : sx :=
  sx_bool (lev_okb H c ps cx a b []).

(** C08, round 3: the all-category inversion theorems restated FROM ANY BASE that
    equals t2 (resp. t1) up to dict insertion order / set order.  C01 gives the sum
    t1 + d only up to that order ([veqb]); with the from-any-base form the two
    one-step facts chain:  (t1 + d) - d ~ t1,  ((t2 - d) + d) ~ t2,  and every
    +,-,+,... sequence of ANY length stays error-free and ends [veqb] to the right
    end.  Both modes (positional / difflib alignment with recorded opcodes and
    moved items), with or without clashes merged by mutual_add_removes.
    On values without dicts and sets ([ordfree]) everything is exact equality and
    the guards korder / keys_nonneg disappear. *)
From Coq Require Import List ZArith NArith Bool Arith Lia Permutation.
Import ListNotations.
From DD Require Import Base.PyStr Base.Value Base.ValueFacts Path.PathModel
  Diff.Tree Diff.DiffModel Diff.DiffFacts Diff.DiffFaithful Diff.DiffPaths
  Delta.DeltaModel Delta.DeltaEntries Delta.DeltaGuard Delta.DeltaRun Delta.DeltaGood Delta.DeltaRoundtrip
  Delta.DeltaVerify Delta.DeltaVerifyIndep Delta.DeltaVerifyPerm Delta.DeltaReverse Delta.DeltaReverseDiff
  Delta.DeltaReverseInplace Delta.DeltaReverseKinds Delta.DeltaReverseSym Delta.DeltaReverseSymD
  Delta.DeltaReverseZip Delta.DeltaReverseDefault Delta.DeltaReverseClash Delta.DeltaReverseClashInv
  Delta.DeltaReverseSeq.

(* ------------------------------------------------------------------ *)
(* 1. paths resolve alike in two values equal up to dict / set order   *)
(* ------------------------------------------------------------------ *)
Lemma veqb_is_tuple a b : veqb a b = true -> is_tuple a = is_tuple b.
Proof. destruct a, b; cbn; intros H; try discriminate H; reflexivity. Qed.

Lemma Forall2_nth_error {A B} (R : A -> B -> Prop) l l' : Forall2 R l l' ->
  forall n x, nth_error l n = Some x -> exists y, nth_error l' n = Some y /\ R x y.
Proof.
  induction 1 as [|a b l l' Hab H IH]; intros n x Hn; [destruct n; discriminate|].
  destruct n as [|n]; cbn in *.
  - inversion Hn; subst. exists b. split; [reflexivity|exact Hab].
  - apply IH. exact Hn.
Qed.

Lemma Forall2_len {A B} (R : A -> B -> Prop) l l' : Forall2 R l l' -> length l = length l'.
Proof. induction 1; cbn; congruence. Qed.

Lemma seq_index_Forall2 {A B} (R : A -> B -> Prop) (l : list A) (l' : list B) z x :
  Forall2 R l l' -> seq_index l z = Some x -> exists y, seq_index l' z = Some y /\ R x y.
Proof.
  intros F. unfold seq_index. cbv zeta. rewrite <- (Forall2_len _ _ _ F).
  destruct (_ || _); [discriminate|]. apply Forall2_nth_error. exact F.
Qed.

Lemma get_item_veqb a b k o :
  veqb a b = true -> wf b = true -> get_item a k = Some o ->
  exists o', get_item b k = Some o' /\ veqb o o' = true /\ wf o' = true.
Proof.
  intros V W G. destruct a as [x|xs|xs|kvs|xs|xs], b as [y|ys|ys|kvs2|ys|ys]; try (cbn in V; discriminate V); try discriminate G.
  - cbn in V. apply atom_eqb_eq in V. subst y. exists o. split; [exact G|].
    destruct x; try discriminate G; cbn in G; destruct (int_of_atom k); try discriminate G;
      destruct (seq_index _ _); try discriminate G; inversion G; subst; (split; [apply veqb_refl; reflexivity|reflexivity]).
  - rewrite veqb_list in V. apply all2_Forall2 in V. cbn in G |- *. destruct (int_of_atom k) as [z|]; [|discriminate].
    destruct (seq_index_Forall2 _ xs ys z o V G) as (y & Hy & E). exists y. split; [exact Hy|]. split; [exact E|].
    cbn in W. eapply forallb_forall in W; [exact W|]. unfold seq_index in Hy. cbv zeta in Hy. destruct (_ || _); [discriminate|].
    eapply nth_error_In. exact Hy.
  - rewrite veqb_tuple in V. apply all2_Forall2 in V. cbn in G |- *. destruct (int_of_atom k) as [z|]; [|discriminate].
    destruct (seq_index_Forall2 _ xs ys z o V G) as (y & Hy & E). exists y. split; [exact Hy|]. split; [exact E|].
    cbn in W. eapply forallb_forall in W; [exact W|]. unfold seq_index in Hy. cbv zeta in Hy. destruct (_ || _); [discriminate|].
    eapply nth_error_In. exact Hy.
  - cbn in G. rewrite veqb_dict in V. apply andb_true_iff in V as [V V3]. 
    cbn [wf] in W. apply andb_true_iff in W as [N2 W2].
    apply assoc_In in G as (k' & Hin & Ek).
    destruct (dict_veq_elim kvs2 kvs V3 k' o Hin) as (o' & L & E). apply lookup_In in L.
    exists o'. split; [|split; [exact E|]].
    + cbn. apply (assoc_nodup kvs2 k' o' k N2 L Ek).
    + eapply forallb_forall in W2; [|exact L]. exact W2.
Qed.

Lemma resolve_veqb : forall p a b o,
  veqb a b = true -> wf b = true -> resolve a p = Some o ->
  exists o', resolve b p = Some o' /\ veqb o o' = true /\ wf o' = true.
Proof.
  induction p as [|k p IH]; intros a b o V W R.
  - cbn in R. inversion R; subst. exists b. auto.
  - cbn [resolve] in R |- *. destruct (get_item a (key_atom k)) as [c|] eqn:G; [|discriminate].
    destruct (get_item_veqb a b _ c V W G) as (c' & G' & V' & W'). rewrite G'. eapply IH; eassumption.
Qed.

Lemma ntp_veqb v t p : veqb v t = true -> wf t = true -> ntp t p -> ntp v p.
Proof.
  intros V W N. unfold ntp in *. destruct p as [|k0 p0]; [exact I|].
  destruct (resolve v (removelast (k0 :: p0))) as [o|] eqn:R; [|exact I].
  destruct (resolve_veqb _ v t o V W R) as (o' & R' & V' & _). rewrite R' in N.
  rewrite (veqb_is_tuple _ _ V'). exact N.
Qed.

(* ------------------------------------------------------------------ *)
(* 2. values without dicts / sets satisfy korder and keys_nonneg       *)
(* ------------------------------------------------------------------ *)
Lemma korder_ordfree : forall t1 t2, ordfree t1 = true -> korder t1 t2.
Proof.
  induction t1 as [a|xs IH|xs IH|kvs IH|xs|xs] using value_ind'; intros t2 O; try discriminate O; destruct t2; try exact I.
  - cbn in O |- *. revert xs0 O. induction IH as [|x xs Hx _ IHl]; intros [|y ys] O; try exact I.
    cbn in O. apply andb_true_iff in O as [O1 O2]. split; [apply Hx; exact O1|apply IHl; exact O2].
  - cbn in O |- *. revert xs0 O. induction IH as [|x xs Hx _ IHl]; intros [|y ys] O; try exact I.
    cbn in O. apply andb_true_iff in O as [O1 O2]. split; [apply Hx; exact O1|apply IHl; exact O2].
Qed.

Lemma keys_nonneg_ordfree : forall t, ordfree t = true -> keys_nonneg t = true.
Proof.
  induction t as [a|xs IH|xs IH|kvs IH|xs|xs] using value_ind'; intros O; try discriminate O; try reflexivity.
  - cbn in O |- *. apply forallb_forall. intros x Hx. eapply Forall_forall in IH; [|exact Hx]. apply IH.
    eapply forallb_forall in O; eassumption.
  - cbn in O |- *. apply forallb_forall. intros x Hx. eapply Forall_forall in IH; [|exact Hx]. apply IH.
    eapply forallb_forall in O; eassumption.
Qed.

(* ------------------------------------------------------------------ *)
(* 3. t2' - delta ~ t1 from every base t2' ~ t2                        *)
(* ------------------------------------------------------------------ *)
Section From.
Variable hatom : atom -> pystr.
Variable udiff : pystr -> pystr -> pystr.
Variable ops : path -> list value -> list value -> list opcode.
Variable c : cfg.
Variable conv : ty -> value -> option value.
Variable always : bool.
Hypothesis Hthr : thr_num c <= thr_den c.
Hypothesis Hinj : forall a b, hatom a = hatom b -> a = b.
Hypothesis Hconv : forall ty0 v v', conv ty0 v = Some v' -> type_of v' = ty0.
Variable ro : list (path * value) -> list (path * value).
Variable ao : list (path * option value) -> list (path * option value).
Hypothesis Hops : forall p xs ys, forallb is_atom xs = true -> forallb is_atom ys = true ->
                                  valid_ops xs ys (ops p xs ys).
Variables t1 t2 : value.
Hypothesis G21 : guards c conv true always t2 t1.
Hypothesis KO : korder t1 t2.

Notation nos := DeltaReverseSym.nos.
Let esf := fst (diff hatom udiff ops nos nos c t1 t2 [] []).
Let r := run_diff hatom udiff ops nos nos c t1 t2.
Let d := to_delta conv true always ops t1 t2 (fst r) (snd r).

(* either mutual_add_removes changes nothing, or (clash case) the guards of the
   permutation argument: sorted opcodes in default mode, no negative int dict key in
   t1, no tuple is the parent (in t2) of a location the subtraction writes a value
   change to *)
(* the order oracles sort the lists of the REVERSED delta (removal pass: descending
   list indexes, addition pass: ascending); implied by [ro_ok ro] / [ao_ok ao] *)
Hypothesis HOr : orders_ok_at ro ao (reverse d).

Hypothesis Hclash :
  no_clash esf \/
  ((zip c = true \/ ops_sorted2 ops) /\ keys_nonneg t1 = true /\
   forall cc, In cc (d_val (reverse d)) -> ntp t2 (vc_path cc)).

Theorem sub_inverts_from v2 :
  wf v2 = true -> veqb v2 t2 = true ->
  exists t1', sub conv ro ao d v2 = Some (t1', 0) /\ veqb t1' t1 = true.
Proof.
  intros Wv Vv.
  pose proof G21 as (W2 & W1 & AF & _ & NP).
  assert (AF' : alias_free (atoms_of t1 ++ atoms_of t2)).
  { eapply alias_free_sub; [|exact AF]. intros a Ha. rewrite in_app_iff in *. tauto. }
  set (recf := snd (diff hatom udiff ops nos nos c t1 t2 [] [])).
  assert (Er : r = (mutual esf, recf)).
  { unfold r, run_diff, esf, recf. destruct (diff hatom udiff ops nos nos c t1 t2 [] []) as [es rec]. reflexivity. }
  pose proof (diff_faithful hatom udiff ops nos nos c t1 t2 Hthr t1 t2 [] [] eq_refl W1 W2 eq_refl eq_refl) as HF.
  fold esf in HF.
  assert (MI : moved_identical (fst r)).
  { rewrite Er. cbn [fst]. apply Forall_forall. intros e He K.
    assert (He0 : In e esf).
    { apply mutual_In in He as [He|(e0 & _ & K2 & _)]; [exact He|congruence]. }
    pose proof (diff_moved_atoms hatom udiff ops nos nos c (atoms_of t1) (atoms_of t2) t1 t2 [] []
                  (fun a H => H) (fun a H => H)) as MA.
    fold esf in MA.
    eapply Forall_forall in MA; [|exact He0]. destruct (MA K) as (x & y & E1 & E2 & Pe & Hx & Hy).
    rewrite E1, E2. f_equal. f_equal. apply AF'; [apply in_or_app; left; exact Hx|apply in_or_app; right; exact Hy|exact Pe]. }
  assert (SO : Forall sym_ok (fst r)) by (apply run_diff_sym_ok; assumption).
  pose proof (reverse_to_delta_mirror conv conv always ops t1 t2 (fst r) (snd r) SO) as SP. fold d in SP.
  assert (SUB : sub conv ro ao d v2 =
                Some (apply conv ro ao (to_delta conv true always (mirror_ops ops) t2 t1 (map mirror_entry (fst r)) (snd r)) v2))
    by (apply sub_same_payload; [exact SP|reflexivity]).
  rewrite SUB. rewrite Er in SP |- *. cbn [fst snd] in SP |- *.
  set (M := to_delta conv true always (mirror_ops ops) t2 t1 (map mirror_entry (mutual esf)) recf) in *.
  (* the reverse tree *)
  assert (SG : sg c t1 t2).
  { split; [exact W1|]. split; [exact W2|]. split; [exact AF'|].
    assert (AK : forall v, nopriv v = true \/ ignore_private c = false -> allkeep c v = true)
      by (intros v [H|H]; [apply allkeep_nopriv; exact H|apply allkeep_flag; exact H]).
    destruct NP as [NP|[NP2 NP1]]; (split; [apply AK; tauto|split; [apply AK; tauto|exact KO]]). }
  destruct (diff_sym2 hatom udiff ops c t1 t2 [] SG) as [KE RE]. fold esf in KE. fold recf in RE.
  set (esr := fst (diff hatom udiff (mirror_ops ops) nos nos c t2 t1 [] [])) in *.
  assert (Er' : run_diff hatom udiff (mirror_ops ops) nos nos c t2 t1 = (mutual esr, recf)).
  { unfold run_diff, esr. rewrite <- RE. destruct (diff hatom udiff (mirror_ops ops) nos nos c t2 t1 [] []) as [es rec]. reflexivity. }
  set (D' := to_delta conv true always (mirror_ops ops) t2 t1 (mutual esr) recf).
  (* C01 at (t2, t1) with the mirrored oracle, from the base v2 *)
  assert (Hops' : forall p xs ys, forallb is_atom xs = true -> forallb is_atom ys = true ->
                                  valid_ops xs ys (mirror_ops ops p xs ys)).
  { intros p xs ys Ax Ay. unfold mirror_ops. apply valid_ops_mirror. apply Hops; assumption. }
  assert (ISP : iterk_same_paths esf).
  { intros e He Ke. eapply Forall_forall in HF; [|exact He]. unfold faithful in HF.
    destruct Ke as [Ke|Ke]; rewrite Ke in HF; [destruct HF as (b & _ & _ & _ & E)|destruct HF as (a & _ & _ & _ & E)]; exact E. }
  (* apart from the order of the values_changed pass the two deltas coincide *)
  assert (MK : forall k, k <> KValue -> ksub k (mutual esr) = ksub k (map mirror_entry (mutual esf))).
  { destruct Hclash as [NC|(Hsorted & N1 & Hntp)].
    - assert (NCr : no_clash esr).
      { apply (no_clash_keq esf esr KE); [|exact NC]. intros e He [Ke|Ke]; apply (ISP e He); [left|right]; exact Ke. }
      intros k _. rewrite (mutual_id esf), (mutual_id esr).
      + apply KE.
      + intros a x Ha Hx Ka Kx. apply NCr; assumption.
      + intros a x Ha Hx Ka Kx. apply NC; assumption.
    - assert (Hleaf : zip c = false -> leaf_distinct udiff ops nos).
      { intros Z. destruct Hsorted as [Z'|O]; [congruence|]. apply leaf_distinct_of_sorted. exact O. }
      destruct (diff_distinct hatom udiff ops nos nos c Hleaf t1 t2 [] W1 W2) as [[DP _] _]. fold esf in DP.
      assert (ND : forall k, grp k <> None -> NoDup (map ep1 (filter (is_kind k) esf))).
      { intros k Gk. pose proof (dpairs_kind_NoDup k esf Gk DP) as H. unfold nloc in H.
        rewrite <- (map_map ep1 norm) in H. eapply NoDup_map_inv. exact H. }
      apply (mutual_mirror esf esr KE ISP (ND KIterAdd ltac:(discriminate)) (ND KIterRem ltac:(discriminate))). }
  assert (EM : M = with_val (d_val M) D').
  { unfold M, D'. apply to_delta_but_val. intros k Nk. symmetry. apply MK. exact Nk. }
  assert (HO' : orders_ok_at ro ao D').
  { destruct SP as [_ _ _ S4 S5 S6 _ _ _ _ _]. unfold orders_ok_at in *.
    rewrite S4, S5, S6 in HOr. rewrite EM in HOr. exact HOr. }
  pose proof (roundtrip_from hatom udiff (mirror_ops ops) c conv true always Hinj Hconv ro ao t2 t1 v2 G21
                (opsv_global (mirror_ops ops) Hops' t2 t1 []) Wv Vv (okb_flags conv true always eq_refl t2 t1 v2)) as RT.
  cbv zeta in RT. change DeltaGood.nos with nos in RT. rewrite Er' in RT. cbn [fst snd] in RT. fold D' in RT.
  destruct (RT HO') as (t1' & A & V).
  exists t1'. split; [|exact V]. f_equal. rewrite <- A.
  rewrite EM. apply apply_with_val.
  assert (BD : d_bidir D' = true) by reflexivity. rewrite BD.
  destruct Hclash as [NC|(Hsorted & N1 & Hntp)].
  - (* mutual_add_removes is the identity on both trees: the same values_changed pass *)
    assert (NCr : no_clash esr).
    { apply (no_clash_keq esf esr KE); [|exact NC]. intros e He [Ke|Ke]; apply (ISP e He); [left|right]; exact Ke. }
    assert (E : M = D'); [|rewrite E; reflexivity].
    unfold M, D'. rewrite (mutual_id esf), (mutual_id esr).
    + symmetry. apply to_delta_keq. exact KE.
    + intros a x Ha Hx Ka Kx. apply NCr; assumption.
    + intros a x Ha Hx Ka Kx. apply NC; assumption.
  - (* clash case: the values_changed passes are permutations of each other *)
    assert (Hleaf : zip c = false -> leaf_distinct udiff ops nos).
    { intros Z. destruct Hsorted as [Z'|O]; [congruence|]. apply leaf_distinct_of_sorted. exact O. }
    destruct (diff_distinct hatom udiff ops nos nos c Hleaf t1 t2 [] W1 W2) as [[DP _] _]. fold esf in DP.
    assert (ND : forall k, grp k <> None -> NoDup (map ep1 (filter (is_kind k) esf))).
    { intros k Gk. pose proof (dpairs_kind_NoDup k esf Gk DP) as H. unfold nloc in H.
      rewrite <- (map_map ep1 norm) in H. eapply NoDup_map_inv. exact H. }
    destruct (mutual_mirror esf esr KE ISP (ND KIterAdd ltac:(discriminate)) (ND KIterRem ltac:(discriminate))) as [_ MV].
    assert (PV : Permutation (d_val D') (d_val M)) by (unfold D', M; apply d_val_perm; exact MV).
    apply values_changed_perm_clean.
    + exact PV.
    + assert (I : indep_verified D' = true).
      { assert (E1 : mutual esr = fst (run_diff hatom udiff (mirror_ops ops) nos nos c t2 t1)) by (rewrite Er'; reflexivity).
        assert (E2 : recf = snd (run_diff hatom udiff (mirror_ops ops) nos nos c t2 t1)) by (rewrite Er'; reflexivity).
        unfold D'. rewrite E1, E2.
        destruct Hsorted as [Z|O]; [apply diff_delta_indep_zip; assumption|].
        apply diff_delta_indep_ops; try assumption.
        intros p xs ys. unfold mirror_ops. apply (ops_ok_mirror _ 0 0). apply O. }
      unfold indep_verified in I. apply andb_true_iff in I as [I _]. apply andb_true_iff in I as [I _]. exact I.
    + apply Forall_forall. intros cc Hcc. unfold D', to_delta in Hcc. cbn [d_val] in Hcc.
      apply in_flat_map in Hcc as (e & He & Hcc).
      assert (HeR : In e (fst (run_diff hatom udiff (mirror_ops ops) nos nos c t2 t1))) by (rewrite Er'; exact He).
      destruct (run_diff_faithful hatom udiff (mirror_ops ops) nos nos c t2 t1 Hthr W2 W1 e HeR) as [F _].
      unfold faithful in F. destruct (ekind e); try (destruct Hcc; fail). destruct Hcc as [<-|[]].
      destruct F as (a & b & E1 & _). cbn. exists a. exact E1.
    + intros cc Hcc. cbn [root].
      assert (In cc (d_val M)) by (eapply Permutation_in; [exact PV|exact Hcc]).
      destruct SP as [SPv _ _ _ _ _ _ _ _ _ _].
      assert (Hin : In (vc_core cc) (map vc_core (d_val M))) by (apply in_map; exact H).
      rewrite <- SPv in Hin.
      apply in_map_iff in Hin as (c0 & E0 & H0). unfold vc_core in E0. injection E0 as Ep _ _.
      rewrite <- Ep. apply (ntp_veqb v2 t2); [exact Vv|exact W2|]. apply Hntp. exact H0.
    + pose proof (errs_after_prefix conv ro ao D' v2 1) as P. rewrite A in P.
      cbn [firstn passes DeltaVerify.passes DeltaVerify.run_passes fold_left snd] in P. rewrite BD in P.
      cbn [errs]. apply (proj1 (Nat.le_0_r _)). exact P.
Qed.

(* Python equality instead of veqb (the "==" of the property's text) *)
Corollary sub_inverts_py :
  exists t1', sub conv ro ao d t2 = Some (t1', 0) /\ wf t1' = true /\ py_eqv t1' t1 = true /\ py_eqv t1 t1' = true.
Proof.
  pose proof G21 as (W2 & W1 & _).
  destruct (sub_inverts_from t2 W2 (veqb_refl t2 W2)) as (t1' & S & V).
  exists t1'. split; [exact S|]. apply veqb_facts; assumption.
Qed.

(* ------------------------------------------------------------------ *)
(* 4. with C01 at (t1, t2): the two directions chain                   *)
(* ------------------------------------------------------------------ *)
Hypothesis G12 : guards c conv true always t1 t2.
Hypothesis HOf : orders_ok_at ro ao d.

Theorem add_from v1 :
  wf v1 = true -> veqb v1 t1 = true ->
  exists t2', apply conv ro ao d v1 = (t2', 0) /\ veqb t2' t2 = true.
Proof.
  intros Wv Vv.
  pose proof (roundtrip_from hatom udiff ops c conv true always Hinj Hconv ro ao t1 t2 v1 G12
                (opsv_global ops Hops t1 t2 []) Wv Vv (okb_flags conv true always eq_refl t1 t2 v1)) as RT.
  cbv zeta in RT. exact (RT HOf).
Qed.

(* (t1 + d) - d ~ t1 and (t2 - d) + d ~ t2, all categories, both modes *)
Theorem add_then_sub_default :
  exists t2' t1', apply conv ro ao d t1 = (t2', 0) /\ veqb t2' t2 = true /\
                  sub conv ro ao d t2' = Some (t1', 0) /\ veqb t1' t1 = true.
Proof.
  pose proof G12 as (W1 & W2 & _).
  destruct (add_from t1 W1 (veqb_refl t1 W1)) as (t2' & A & V).
  destruct (veqb_facts t2' t2 V W2) as (W2' & _).
  destruct (sub_inverts_from t2' W2' V) as (t1' & S & V1).
  exists t2', t1'. auto.
Qed.

Theorem sub_then_add_default :
  exists t1' t2', sub conv ro ao d t2 = Some (t1', 0) /\ veqb t1' t1 = true /\
                  apply conv ro ao d t1' = (t2', 0) /\ veqb t2' t2 = true.
Proof.
  pose proof G12 as (W1 & W2 & _).
  destruct (sub_inverts_from t2 W2 (veqb_refl t2 W2)) as (t1' & S & V1).
  destruct (veqb_facts t1' t1 V1 W1) as (W1' & _).
  destruct (add_from t1' W1' V1) as (t2' & A & V).
  exists t1', t2'. auto.
Qed.

(* every +,-,+,... sequence of ANY length, from every base equal to the left end up
   to dict / set order: no error, and the result is the right end up to that order *)
Theorem seq_from : forall k,
  (forall v, wf v = true -> veqb v t1 = true ->
     exists v', run_seq conv ro ao d (alternating Plus k) v = Some (v', 0) /\
                veqb v' (if Nat.even k then t1 else t2) = true) /\
  (forall v, wf v = true -> veqb v t2 = true ->
     exists v', run_seq conv ro ao d (alternating Minus k) v = Some (v', 0) /\
                veqb v' (if Nat.even k then t2 else t1) = true).
Proof.
  pose proof G12 as (W1 & W2 & _).
  induction k as [|k [IH1 IH2]].
  - split; intros v Wv Vv; exists v; split; try reflexivity; exact Vv.
  - rewrite Nat.even_succ, <- Nat.negb_even. split; intros v Wv Vv; cbn [alternating flip_dir run_seq step_dir].
    + destruct (add_from v Wv Vv) as (v1 & A & V1). rewrite A.
      destruct (veqb_facts v1 t2 V1 W2) as (Wv1 & _).
      destruct (IH2 v1 Wv1 V1) as (v' & R & V'). rewrite R. exists v'. split; [reflexivity|].
      destruct (Nat.even k); exact V'.
    + destruct (sub_inverts_from v Wv Vv) as (v1 & S & V1). rewrite S.
      destruct (veqb_facts v1 t1 V1 W1) as (Wv1 & _).
      destruct (IH1 v1 Wv1 V1) as (v' & R & V'). rewrite R. exists v'. split; [reflexivity|].
      destruct (Nat.even k); exact V'.
Qed.

Theorem back_and_forth_default k :
  (exists v, run_seq conv ro ao d (alternating Plus k) t1 = Some (v, 0) /\
             veqb v (if Nat.even k then t1 else t2) = true) /\
  (exists v, run_seq conv ro ao d (alternating Minus k) t2 = Some (v, 0) /\
             veqb v (if Nat.even k then t2 else t1) = true).
Proof.
  pose proof G12 as (W1 & W2 & _). destruct (seq_from k) as [H1 H2].
  split; [apply H1|apply H2]; try assumption; apply veqb_refl; assumption.
Qed.

End From.

(* ------------------------------------------------------------------ *)
(* 5. no dict / set: exact equality, no korder, no keys_nonneg         *)
(* ------------------------------------------------------------------ *)
Section Exact.
Variable hatom : atom -> pystr.
Variable udiff : pystr -> pystr -> pystr.
Variable ops : path -> list value -> list value -> list opcode.
Variable c : cfg.
Variable conv : ty -> value -> option value.
Variable always : bool.
Hypothesis Hthr : thr_num c <= thr_den c.
Hypothesis Hinj : forall a b, hatom a = hatom b -> a = b.
Hypothesis Hconv : forall ty0 v v', conv ty0 v = Some v' -> type_of v' = ty0.
Variable ro : list (path * value) -> list (path * value).
Variable ao : list (path * option value) -> list (path * option value).
Hypothesis Hops : forall p xs ys, forallb is_atom xs = true -> forallb is_atom ys = true ->
                                  valid_ops xs ys (ops p xs ys).
Variables t1 t2 : value.
Hypothesis G21 : guards c conv true always t2 t1.
Hypothesis O1 : ordfree t1 = true.

Notation nos := DeltaReverseSym.nos.
Let esf := fst (diff hatom udiff ops nos nos c t1 t2 [] []).
Let r := run_diff hatom udiff ops nos nos c t1 t2.
Let d := to_delta conv true always ops t1 t2 (fst r) (snd r).

Hypothesis HOr : orders_ok_at ro ao (reverse d).

Hypothesis Hclash :
  no_clash esf \/
  ((zip c = true \/ ops_sorted2 ops) /\ forall cc, In cc (d_val (reverse d)) -> ntp t2 (vc_path cc)).

Theorem sub_inverts_exact : sub conv ro ao d t2 = Some (t1, 0).
Proof.
  pose proof G21 as (W2 & _).
  assert (HC : no_clash esf \/
               ((zip c = true \/ ops_sorted2 ops) /\ keys_nonneg t1 = true /\
                forall cc, In cc (d_val (reverse d)) -> ntp t2 (vc_path cc))).
  { destruct Hclash as [NC|[S N]]; [left; exact NC|right]. split; [exact S|]. split; [apply keys_nonneg_ordfree; exact O1|exact N]. }
  destruct (sub_inverts_from hatom udiff ops c conv always Hthr Hinj Hconv ro ao Hops t1 t2 G21
              (korder_ordfree t1 t2 O1) HOr HC t2 W2 (veqb_refl t2 W2)) as (t1' & S & V).
  apply veqb_ordfree in V; [|exact O1]. subst t1'. exact S.
Qed.

Hypothesis G12 : guards c conv true always t1 t2.
Hypothesis O2 : ordfree t2 = true.
Hypothesis HOf : orders_ok_at ro ao d.

Theorem add_exact : apply conv ro ao d t1 = (t2, 0).
Proof.
  destruct (roundtrip_at hatom udiff ops c conv true always Hinj Hconv ro ao t1 t2 G12 (opsv_global ops Hops t1 t2 []) HOf) as (t2' & A & V).
  apply veqb_ordfree in V; [|exact O2]. subst t2'. exact A.
Qed.

(* the property's first clause on this fragment, unconditionally: t1 + d = t2, t2 - d = t1,
   and every alternating sequence of any length *)
Theorem back_and_forth_exact k :
  run_seq conv ro ao d (alternating Plus k) t1 = Some (if Nat.even k then t1 else t2, 0) /\
  run_seq conv ro ao d (alternating Minus k) t2 = Some (if Nat.even k then t2 else t1, 0).
Proof. apply back_and_forth; [exact add_exact|exact sub_inverts_exact]. Qed.

End Exact.

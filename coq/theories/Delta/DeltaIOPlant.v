(** C01, ignore_order clause at ANY path, part 4: a list of distinct scalars planted below list / dict
    levels.  [planted a b q u1 u2]: u1 and u2 are the same context around a resp. b, the hole at path q.
    Apply side ([apply_io_planted]): any payload of the hole, prefixed with q, acts on the hole only -
    for contexts of list and dict levels.  Diff side ([dio_planted]): below DICT levels the
    ignore-order diff of the two planted values is the diff of the holes at path q.
    [io_roundtrip_planted]: C01's ignore-order clause for a list of distinct scalars at any path
    through dict levels. *)
From Coq Require Import List ZArith NArith Bool Arith Lia Permutation.
Import ListNotations.
From DD Require Import Base.PyStr Base.Value Base.ValueFacts Path.PathModel Diff.Tree Diff.DiffModel
  Diff.DiffFacts Hash.HashModel Hash.HashProofsC06 DiffIO.DiffIOModel DiffIO.DiffIOProofs
  Delta.DeltaModel Delta.DeltaFacts Delta.DeltaLocal Delta.DeltaEntries Delta.DeltaStruct Delta.DeltaGuard Delta.DeltaGood
  Delta.DeltaSets Delta.DeltaIO Delta.DeltaIOProofs Delta.DeltaIOReloc Delta.DeltaIOPre Delta.DeltaIOLocal.

Inductive planted (a b : value) : path -> value -> value -> Prop :=
| pl_here : planted a b [] a b
| pl_dict k l1 l2 q u1 u2 : planted a b q u1 u2 ->
    planted a b (PKey k :: q) (VDict (l1 ++ (k, u1) :: l2)) (VDict (l1 ++ (k, u2) :: l2))
| pl_list pre post q u1 u2 : planted a b q u1 u2 ->
    planted a b (PIdx (length pre) :: q) (VList (pre ++ u1 :: post)) (VList (pre ++ u2 :: post)).

(* the hole can be read back (the two contexts have the same keys) *)
Lemma planted_resolve a b q u1 u2 : planted a b q u1 u2 -> wf u1 = true -> resolve u2 q = Some b.
Proof.
  induction 1 as [|k l1 l2 q u1 u2 P IH|pre post q u1 u2 P IH]; intros W; [reflexivity| |].
  - cbn [wf] in W. apply andb_true_iff in W as [N W]. cbn [resolve key_atom get_item].
    assert (N2 : nodup_atoms (map fst (l1 ++ (k, u2) :: l2)) = true) by (rewrite map_app in *; exact N).
    rewrite (nodup_assoc k u2 (l1 ++ (k, u2) :: l2) N2) by (apply in_or_app; right; left; reflexivity).
    apply IH. eapply forallb_forall in W; [|apply in_or_app; right; left; reflexivity]. exact W.
  - cbn [wf] in W. cbn [resolve key_atom]. change (AInt (Z.of_nat (length pre))) with (ik (length pre)).
    rewrite get_item_list_ik, nth_error_app2, Nat.sub_diag by lia. cbn [nth_error].
    apply IH. eapply forallb_forall in W; [|apply in_or_app; right; left; reflexivity]. exact W.
Qed.
Lemma planted_sym1 a b q u1 u2 : planted a b q u1 u2 -> planted a a q u1 u1.
Proof. induction 1; constructor; assumption. Qed.
Lemma planted_resolve1 a b q u1 u2 : planted a b q u1 u2 -> wf u1 = true -> resolve u1 q = Some a.
Proof. intros P W. apply (planted_resolve a a q u1 u1 (planted_sym1 _ _ _ _ _ P) W). Qed.

(* ---- prefixes compose ---- *)
Lemma map_id_ext {A} (f : A -> A) l : (forall x, f x = x) -> map f l = l.
Proof. intros E. rewrite <- (map_id l) at 2. apply map_ext. exact E. Qed.

Lemma dpre_nil d : dpre [] d = d.
Proof.
  destruct d as [v t da dr ia ir mv sa sr op bd]. unfold dpre. cbn [d_val d_type d_dadd d_drem d_iadd d_irem d_moved d_sadd d_srem d_ops d_bidir app].
  f_equal; apply map_id_ext.
  - intros [p [np|] o n]; reflexivity.
  - intros [p [np|] a b o n]; reflexivity.
  - intros [x y]; reflexivity.
  - intros [x y]; reflexivity.
  - intros [x y]; reflexivity.
  - intros [x y]; reflexivity.
  - intros [[x y] z]; reflexivity.
  - intros [x y]; reflexivity.
  - intros [x y]; reflexivity.
  - intros [x y]; reflexivity.
Qed.
Lemma diopre_nil d : diopre [] d = d.
Proof.
  destruct d as [b a r]. unfold diopre, pmpre. cbn [io_base io_added io_removed app]. rewrite dpre_nil. f_equal; apply map_id_ext; intros [x y]; reflexivity.
Qed.

Lemma dpre_cons k Q d : dpre [PKey k] (dpre Q d) = dpre (PKey k :: Q) d.
Proof.
  unfold dpre. cbn [d_val d_type d_dadd d_drem d_iadd d_irem d_moved d_sadd d_srem d_ops d_bidir].
  rewrite !map_map. f_equal; try reflexivity.
  - apply map_ext. intros [p [np|] o n]; reflexivity.
  - apply map_ext. intros [p [np|] a b o n]; reflexivity.
Qed.
Lemma diopre_cons k Q d : diopre [PKey k] (diopre Q d) = diopre (PKey k :: Q) d.
Proof. unfold diopre, pmpre. cbn [io_base io_added io_removed]. rewrite dpre_cons, !map_map. reflexivity. Qed.

Lemma dict_set_mid (l1 l2 : list (atom * value)) k v w :
  nodup_atoms (map fst (l1 ++ (k, v) :: l2)) = true -> dict_set (l1 ++ (k, v) :: l2) k w = l1 ++ (k, w) :: l2.
Proof.
  induction l1 as [|[k' v'] l1 IH]; cbn [app map fst nodup_atoms dict_set]; intros N.
  - rewrite py_eq_refl. reflexivity.
  - apply andb_true_iff in N as [N1 N2]. apply negb_true_iff in N1.
    destruct (py_eq k' k) eqn:E.
    + exfalso. assert (M : mem_atom k' (map fst (l1 ++ (k, v) :: l2)) = true); [|congruence].
      apply mem_atom_In. exists k. split; [|exact E]. rewrite map_app. apply in_or_app. right. left. reflexivity.
    + rewrite IH by exact N2. reflexivity.
Qed.

Lemma repl_mid {A} (pre post : list A) x y : repl (length pre) y (pre ++ x :: post) = pre ++ y :: post.
Proof.
  unfold repl. induction pre as [|a pre IH]; [reflexivity|].
  cbn [length app firstn skipn]. cbn [skipn] in IH. rewrite IH. reflexivity.
Qed.

(* ---- apply side: any context of list / dict levels ---- *)
Section ApplyPlanted.
Variable H : pystr -> pystr.
Variable conv : ty -> value -> option value.
Variable ro : list (path * value) -> list (path * value).
Variable ao : list (path * option value) -> list (path * option value).
Hypothesis Hro : ro [] = [].

Theorem apply_io_planted a b q u1 u2 : planted a b q u1 u2 -> wf u1 = true ->
  forall d r, d_dadd (io_base d) = [] -> d_drem (io_base d) = [] ->
  apply_io H conv ro ao d a = (r, 0) ->
  exists u', apply_io H conv ro ao (diopre (npath q) d) u1 = (u', 0) /\ planted a r q u1 u'.
Proof.
  induction 1 as [|k l1 l2 q u1 u2 P IH|pre post q u1 u2 P IH]; intros W d r DA DR HA.
  - exists r. cbn [npath norm map]. rewrite diopre_nil. split; [exact HA|constructor].
  - cbn [wf] in W. apply andb_true_iff in W as [N W].
    assert (W1 : wf u1 = true) by (eapply forallb_forall in W; [|apply in_or_app; right; left; reflexivity]; exact W).
    destruct (IH W1 d r DA DR HA) as (u' & E & P').
    assert (G : get_item (VDict (l1 ++ (k, u1) :: l2)) k = Some u1).
    { cbn [get_item]. apply nodup_assoc; [exact N|apply in_or_app; right; left; reflexivity]. }
    destruct (apply_io_level H conv (VDict (l1 ++ (k, u1) :: l2)) k eq_refl u1 G ro ao (diopre (npath q) d) u') as (W' & S' & A'); try assumption.
    + unfold diopre, dpre. cbn [io_base d_dadd]. rewrite DA. reflexivity.
    + unfold diopre, dpre. cbn [io_base d_drem]. rewrite DR. reflexivity.
    + rewrite diopre_cons in A'. exists W'. split; [exact A'|].
      cbn [set_item] in S'. rewrite dict_set_mid in S' by exact N. inversion S'; subst W'. constructor. exact P'.
  - cbn [wf] in W.
    assert (W1 : wf u1 = true) by (eapply forallb_forall in W; [|apply in_or_app; right; left; reflexivity]; exact W).
    destruct (IH W1 d r DA DR HA) as (u' & E & P').
    assert (G : get_item (VList (pre ++ u1 :: post)) (ik (length pre)) = Some u1).
    { rewrite get_item_list_ik, nth_error_app2, Nat.sub_diag by lia. reflexivity. }
    destruct (apply_io_level H conv (VList (pre ++ u1 :: post)) (ik (length pre)) eq_refl u1 G ro ao (diopre (npath q) d) u') as (W' & S' & A'); try assumption.
    + unfold diopre, dpre. cbn [io_base d_dadd]. rewrite DA. reflexivity.
    + unfold diopre, dpre. cbn [io_base d_drem]. rewrite DR. reflexivity.
    + rewrite diopre_cons in A'. exists W'. split; [exact A'|].
      rewrite set_item_list_ik in S' by (rewrite app_length; cbn; lia). rewrite repl_mid in S'. inversion S'; subst W'. constructor. exact P'.
Qed.
End ApplyPlanted.

Lemma app2_nil_r {A B} (r : list A * list B) : app2 r ([], []) = r.
Proof. destruct r. unfold app2. cbn. rewrite !app_nil_r. reflexivity. Qed.
Lemma app2_nil_l {A B} (r : list A * list B) : app2 ([], []) r = r.
Proof. destruct r. reflexivity. Qed.

(* ---- diff side: dict levels ---- *)
Definition dict_level (c : cfg) (k : pkey) : Prop := match k with PKey a => keep_key c a = true | PIdx _ => False end.

Section DiffPlanted.
Variable H : pystr -> pystr.
Variable udiff : pystr -> pystr -> pystr.
Variable c : cfg.
Variable pairs : path -> list (nat * nat).
Hypothesis thr_le_one : thr_num c <= thr_den c.
Notation dio := (diff_io H udiff nos nos c true pairs).

Lemma keys_same (l1 l2 : list (atom * value)) k u1 u2 :
  keys_of c (l1 ++ (k, u1) :: l2) = keys_of c (l1 ++ (k, u2) :: l2).
Proof. unfold keys_of. rewrite !map_app. reflexivity. Qed.

Lemma io_common_mid kvs2 k2 p l1 l2 k u1 u2 :
  keep_key c k = true -> find (py_eq k) k2 = Some k -> assoc k kvs2 = Some u2 ->
  (forall k' v, In (k', v) (l1 ++ l2) -> keep_key c k' = true ->
     find (py_eq k') k2 = Some k' /\ assoc k' kvs2 = Some v /\ wf v = true) ->
  io_common H udiff nos c true pairs kvs2 k2 p p (l1 ++ (k, u1) :: l2) = dio u1 u2 (snoc p (PKey k)) (snoc p (PKey k)).
Proof.
  intros Kk Fk Ak HO.
  assert (NIL : forall l, (forall k' v, In (k', v) l -> In (k', v) (l1 ++ l2)) ->
            io_common H udiff nos c true pairs kvs2 k2 p p l = ([], [])).
  { intros l Hl. apply (common_nil H udiff nos c true pairs). intros k' v Hin Kp.
    destruct (HO k' v (Hl k' v Hin) Kp) as (F & A & Wv). exists v. split; [exact F|]. split; [exact A|].
    intros q1 q2. apply (io_complete H udiff nos c true pairs thr_le_one); [exact Wv|apply eqv_refl]. }
  induction l1 as [|[k' v'] l1 IH]; cbn [app io_common].
  - fold (io_common H udiff nos c true pairs kvs2 k2 p p l2). rewrite NIL by (intros; assumption).
    rewrite Kk, Fk, Ak. apply app2_nil_r.
  - fold (io_common H udiff nos c true pairs kvs2 k2 p p (l1 ++ (k, u1) :: l2)).
    rewrite IH.
    + destruct (keep_key c k') eqn:Kp; [|reflexivity].
      destruct (HO k' v' (or_introl eq_refl) Kp) as (F & A & Wv). rewrite F, A.
      rewrite (io_complete H udiff nos c true pairs thr_le_one v' v' _ _ Wv (eqv_refl _ _)).
      apply app2_nil_l.
    + intros k0 v0 Hin. apply HO. right. exact Hin.
    + intros l Hl. apply (common_nil H udiff nos c true pairs). intros k0 v0 Hin Kp.
      destruct (HO k0 v0 (or_intror (Hl k0 v0 Hin)) Kp) as (F & A & Wv). exists v0. split; [exact F|]. split; [exact A|].
      intros q1 q2. apply (io_complete H udiff nos c true pairs thr_le_one); [exact Wv|apply eqv_refl].
Qed.

Lemma dio_dict_level l1 l2 k u1 u2 p :
  wf (VDict (l1 ++ (k, u1) :: l2)) = true -> wf (VDict (l1 ++ (k, u2) :: l2)) = true -> keep_key c k = true ->
  dio (VDict (l1 ++ (k, u1) :: l2)) (VDict (l1 ++ (k, u2) :: l2)) p p = dio u1 u2 (snoc p (PKey k)) (snoc p (PKey k)).
Proof.
  intros W1 W2 Kk. cbn [wf] in W1, W2. apply andb_true_iff in W1 as [N1 W1], W2 as [N2 W2].
  rewrite (dio_dict H udiff nos c true pairs). unfold io_dict. rewrite <- (keys_same l1 l2 k u1 u2).
  set (ks := keys_of c (l1 ++ (k, u1) :: l2)).
  assert (MM : forall x, In x ks -> mem_atom x ks = true).
  { intros x Hx. apply mem_atom_In. exists x. split; [exact Hx|apply py_eq_refl]. }
  rewrite (shortcut_same_keys nos c thr_le_one ks ks p MM MM).
  rewrite !(flat_map_nil) by (intros x Hx; rewrite (MM x Hx); reflexivity).
  cbn [app].
  assert (NK : nodup_atoms ks = true) by (unfold ks, keys_of; apply nodup_filter; exact N1).
  assert (INK : forall k' v, In (k', v) (l1 ++ (k, u1) :: l2) -> keep_key c k' = true -> In k' ks).
  { intros k' v Hin Kp. unfold ks, keys_of. apply filter_In. split; [|exact Kp]. apply in_map_iff. exists (k', v). auto. }
  rewrite (io_common_mid (l1 ++ (k, u2) :: l2) ks p l1 l2 k u1 u2 Kk).
  - symmetry. apply surjective_pairing.
  - apply nodup_find; [exact NK|]. apply (INK k u1); [apply in_or_app; right; left; reflexivity|exact Kk].
  - apply nodup_assoc; [exact N2|apply in_or_app; right; left; reflexivity].
  - intros k' v Hin Kp.
    assert (I1 : In (k', v) (l1 ++ (k, u1) :: l2)) by (apply in_app_or in Hin as [Hin|Hin]; apply in_or_app; [left|right; right]; exact Hin).
    assert (I2 : In (k', v) (l1 ++ (k, u2) :: l2)) by (apply in_app_or in Hin as [Hin|Hin]; apply in_or_app; [left|right; right]; exact Hin).
    split; [apply nodup_find; [exact NK|apply (INK k' v I1 Kp)]|]. split; [apply nodup_assoc; assumption|].
    eapply forallb_forall in W1; [|exact I1]. exact W1.
Qed.

Theorem dio_planted a b q u1 u2 : planted a b q u1 u2 -> Forall (dict_level c) q ->
  wf u1 = true -> wf u2 = true -> forall p, dio u1 u2 p p = dio a b (p ++ q) (p ++ q).
Proof.
  induction 1 as [|k l1 l2 q u1 u2 P IH|pre post q u1 u2 P IH]; intros DL W1 W2 p.
  - rewrite app_nil_r. reflexivity.
  - inversion DL as [|? ? Dk DL']; subst. cbn [dict_level] in Dk.
    rewrite dio_dict_level by assumption.
    cbn [wf] in W1, W2. apply andb_true_iff in W1 as [_ W1], W2 as [_ W2].
    rewrite IH.
    + unfold snoc. rewrite <- !app_assoc. reflexivity.
    + exact DL'.
    + eapply forallb_forall in W1; [|apply in_or_app; right; left; reflexivity]. exact W1.
    + eapply forallb_forall in W2; [|apply in_or_app; right; left; reflexivity]. exact W2.
  - inversion DL as [|? ? Dk DL']; subst. destruct Dk.
Qed.

End DiffPlanted.

(* ---- the ignore-order clause for a list of distinct scalars at any path through dict levels ---- *)
Section PlantedRoundtrip.
Variable H : pystr -> pystr.
Variable udiff : pystr -> pystr -> pystr.
Variable c : cfg.
Variable pairs : path -> list (nat * nat).
Variable conv : ty -> value -> option value.
Variables bidir always : bool.
Variable ro : list (path * value) -> list (path * value).
Variable ao : list (path * option value) -> list (path * option value).
Variables X Y : list atom.
Notation h := (hatom_io H c true).
Hypothesis Hinj : forall a b, In a (X ++ Y) -> In b (X ++ Y) -> h a = h b -> a = b.
Hypothesis NX : NoDup X.
Hypothesis NY : NoDup Y.
Hypothesis AF : alias_free (X ++ Y).
Hypothesis Hconv : forall ty0 v v', conv ty0 v = Some v' -> type_of v' = ty0.
Hypothesis Hro : ro [] = [].
Hypothesis thr_le_one : thr_num c <= thr_den c.

Theorem io_roundtrip_planted q t1 t2 :
  planted (VList (xs X)) (VList (ys Y)) q t1 t2 -> Forall (dict_level c) q -> wf t1 = true -> wf t2 = true ->
  let r := run_diff_io H udiff nos nos c true pairs t1 t2 in
  exists u' zs, apply_io H conv ro ao (to_delta_io conv bidir always t1 t2 (fst r) (snd r)) t1 = (u', 0)
                /\ planted (VList (xs X)) (VList zs) q t1 u' /\ Permutation zs (ys Y).
Proof.
  intros P DL W1 W2. cbv zeta.
  destruct (io_facts H udiff c (shift pairs q) X Y Hinj NX NY) as (es & ER & SH & _).
  assert (RUN : run_diff_io H udiff nos nos c true pairs t1 t2 = (map (epre q) es, [])).
  { unfold run_diff_io. rewrite (dio_planted H udiff c pairs thr_le_one _ _ q t1 t2 P DL W1 W2 []). cbn [app].
    unfold xs. rewrite (run_flat_pre H udiff c pairs q X (ys Y)). fold (xs X). rewrite ER. reflexivity. }
  rewrite RUN. cbn [fst snd].
  assert (KD : forall e, In e es -> (ekind e = KValue \/ ekind e = KType \/ ekind e = KIterAdd \/ ekind e = KIterRem) /\ ep1 e <> []).
  { intros e He. eapply Forall_forall in SH; [|exact He].
    destruct SH as [(i & x & y & (A1 & A2 & _))|[(j & y & (A1 & A2 & _))|(i & x & -> & _)]].
    - split; [tauto|rewrite A2; discriminate].
    - split; [tauto|rewrite A2; discriminate].
    - split; [auto|discriminate]. }
  rewrite (to_delta_io_pre conv bidir always t1 t2 (VList (xs X)) (VList (ys Y)) q es) by (intros e He _; apply (KD e He)).
  pose proof (io_roundtrip H udiff c (shift pairs q) conv bidir always ro ao X Y Hinj NX NY AF Hconv Hro) as RT.
  cbv zeta in RT. rewrite ER in RT. cbn [fst snd] in RT. destruct RT as (zs & EA & PZ).
  set (d0 := to_delta_io conv bidir always (VList (xs X)) (VList (ys Y)) es []) in *.
  assert (DA : d_dadd (io_base d0) = []).
  { unfold d0, to_delta_io, to_delta. cbn [io_base d_dadd]. apply flat_map_nil_in. intros e He.
    destruct (KD e He) as [[Z|[Z|[Z|Z]]] _]; rewrite Z; reflexivity. }
  assert (DR : d_drem (io_base d0) = []).
  { unfold d0, to_delta_io, to_delta. cbn [io_base d_drem]. apply flat_map_nil_in. intros e He.
    destruct (KD e He) as [[Z|[Z|[Z|Z]]] _]; rewrite Z; reflexivity. }
  destruct (apply_io_planted H conv ro ao Hro _ _ q t1 t2 P W1 d0 (VList zs) DA DR EA) as (u' & E' & P').
  exists u', zs. split; [exact E'|]. split; [exact P'|exact PZ].
Qed.

(* read at the path q: the result holds there a permutation of the list t2 holds there *)
Corollary io_roundtrip_at_path q t1 t2 :
  planted (VList (xs X)) (VList (ys Y)) q t1 t2 -> Forall (dict_level c) q -> wf t1 = true -> wf t2 = true ->
  let r := run_diff_io H udiff nos nos c true pairs t1 t2 in
  exists u' zs, apply_io H conv ro ao (to_delta_io conv bidir always t1 t2 (fst r) (snd r)) t1 = (u', 0)
                /\ resolve t1 q = Some (VList (xs X)) /\ resolve t2 q = Some (VList (ys Y)) /\ resolve u' q = Some (VList zs)
                /\ Permutation zs (ys Y).
Proof.
  intros P DL W1 W2. destruct (io_roundtrip_planted q t1 t2 P DL W1 W2) as (u' & zs & E & P' & PZ).
  exists u', zs. split; [exact E|]. split; [|split; [|split; [|exact PZ]]].
  - apply (planted_resolve1 _ _ q t1 t2 P W1).
  - apply (planted_resolve _ _ q t1 t2 P W1).
  - apply (planted_resolve _ _ q t1 u' P' W1).
Qed.

End PlantedRoundtrip.

(** C08: concrete instances - the guards of the C08 theorems are satisfiable
    by non-trivial deltas, and the witnesses of the refuted readings. *)
From Coq Require Import List ZArith NArith Bool Arith String Lia.
Import ListNotations.
From DD Require Import Base.PyStr Base.Value Path.PathModel Diff.Tree Diff.DiffModel Diff.DiffShow
  Delta.DeltaModel Delta.DeltaVerify Delta.DeltaReverse Delta.DeltaReverseDiff
  Delta.DeltaReverseInplace Delta.DeltaReverseTuple Delta.DeltaReverseSeq.
Local Open Scope string_scope.

Definition K (s : string) : atom := AStr (s2p s).
Definition I (z : Z) : value := VAtom (AInt z).

(* {'a': [1, 2, 3], 'b': 'x', 'c': 7}  ->  {'a': [1, 5, 3], 'b': 'y', 'c': '7'} *)
Definition ex_t1 : value := VDict [(K "a", VList [I 1; I 2; I 3]); (K "b", VAtom (K "x")); (K "c", I 7)].
Definition ex_t2 : value := VDict [(K "a", VList [I 1; I 5; I 3]); (K "b", VAtom (K "y")); (K "c", VAtom (K "7"))].
Definition ex_cfg : cfg := mkCfg true 0 1 true.
Definition ex_ops (_ : path) (_ _ : list value) : list opcode := [].
Definition ex_conv (_ : ty) (_ : value) : option value := None.
Definition ex_ro (l : list (path * value)) := l.
Definition ex_ao (l : list (path * option value)) := l.
Definition ex_r := run_diff hatom_simple (fun _ _ => []) ex_ops no_paths no_paths ex_cfg ex_t1 ex_t2.
Definition ex_d : delta := to_delta ex_conv true false ex_ops ex_t1 ex_t2 (fst ex_r) (snd ex_r).
Notation ex_apply := (apply ex_conv ex_ro ex_ao).
Notation ex_sub := (sub ex_conv ex_ro ex_ao).

Example ex_d_payload :
  map vc_path (d_val ex_d) = [[PKey (K "a"); PKey (AInt 1)]; [PKey (K "b")]] /\
  map tc_path (d_type ex_d) = [[PKey (K "c")]] /\ d_bidir ex_d = true.
Proof. vm_compute. repeat split. Qed.

Example ex_forward : ex_apply ex_d ex_t1 = (ex_t2, 0).
Proof. vm_compute. reflexivity. Qed.

Example ex_indep : indep_verified ex_d = true.
Proof. vm_compute. reflexivity. Qed.

(* corrupted bases *)
Definition ex_base_val : value :=      (* root['a'][1] is 99 instead of 2 *)
  VDict [(K "a", VList [I 1; I 99; I 3]); (K "b", VAtom (K "x")); (K "c", I 7)].
Definition ex_base_type : value :=     (* root['c'] is 8 instead of 7 *)
  VDict [(K "a", VList [I 1; I 2; I 3]); (K "b", VAtom (K "x")); (K "c", I 8)].
Definition ex_base_missing : value :=  (* root['b'] does not exist *)
  VDict [(K "a", VList [I 1; I 2; I 3]); (K "c", I 7)].
Definition ex_base_alias : value :=    (* root['a'][1] is 2.0 instead of 2 *)
  VDict [(K "a", VList [I 1; VAtom (AHalf 4); I 3]); (K "b", VAtom (K "x")); (K "c", I 7)].

Example ex_detect_value : 0 < snd (ex_apply ex_d ex_base_val).
Proof.
  apply (apply_detects_value_indep' ex_conv ex_ro ex_ao ex_d ex_base_val
           (mkVC [PKey (K "a"); PKey (AInt 1)] None (Some (I 2)) (I 5))).
  - reflexivity.
  - exact ex_indep.
  - vm_compute. left. reflexivity.
  - vm_compute. reflexivity.
Qed.

Example ex_detect_type : 0 < snd (ex_apply ex_d ex_base_type).
Proof.
  apply (apply_detects_type_indep ex_conv ex_ro ex_ao ex_d ex_base_type
           (mkTC [PKey (K "c")] None TInt TStr (Some (I 7)) (Some (VAtom (K "7"))))).
  - reflexivity.
  - exact ex_indep.
  - vm_compute. left. reflexivity.
  - vm_compute. reflexivity.
Qed.

Example ex_detect_missing : 0 < snd (ex_apply ex_d ex_base_missing).
Proof.
  apply (apply_detects_value_indep' ex_conv ex_ro ex_ao ex_d ex_base_missing
           (mkVC [PKey (K "b")] None (Some (VAtom (K "x"))) (VAtom (K "y")))).
  - reflexivity.
  - exact ex_indep.
  - vm_compute. right. left. reflexivity.
  - vm_compute. reflexivity.
Qed.

(* the comparison is Python !=: a base holding 2.0 where 2 was recorded differs
   from the recorded old value in the typed sense and is accepted silently *)
Example ex_typed_corruption_accepted :
  exists c cur old,
    In c (d_val ex_d) /\ resolve ex_base_alias (vc_path c) = Some cur /\ vc_old c = Some old /\
    value_eqb old cur = false /\ py_eqv old cur = true /\
    ex_apply ex_d ex_base_alias = (ex_t2, 0).
Proof.
  exists (mkVC [PKey (K "a"); PKey (AInt 1)] None (Some (I 2)) (I 5)), (VAtom (AHalf 4)), (I 2).
  vm_compute. repeat split. left. reflexivity.
Qed.

(* inversion by the theorem (not by computation) *)
Example ex_inplace : inplace ex_d.
Proof.
  constructor; try reflexivity.
  - vm_compute. repeat constructor; eexists; reflexivity.
  - vm_compute. repeat constructor; eexists; reflexivity.
Qed.

Example ex_writes_ok :
  pairwise_div (map wpath (writes ex_d)) = true /\
  forall w, In w (writes ex_d) ->
    resolve ex_t1 (wpath w) = Some (snd (fst w)) /\ wf (snd w) = true /\ ntp ex_t1 (wpath w).
Proof.
  split; [vm_compute; reflexivity|].
  intros w Hw. vm_compute in Hw.
  repeat (destruct Hw as [<-|Hw]; [vm_compute; repeat split|]). contradiction.
Qed.

Example ex_sub_inverts : ex_sub ex_d ex_t2 = Some (ex_t1, 0).
Proof.
  destruct ex_writes_ok as [P H].
  apply (inplace_sub_inverts ex_conv ex_ro ex_ao eq_refl ex_d ex_t1 ex_t2 ex_inplace eq_refl P H ex_forward).
Qed.

Example ex_back_and_forth_100 :
  run_seq ex_conv ex_ro ex_ao ex_d (alternating Plus 101) ex_t1 = Some (ex_t2, 0).
Proof.
  destruct (back_and_forth ex_conv ex_ro ex_ao ex_d ex_t1 ex_t2 ex_forward ex_sub_inverts 101) as [H _].
  exact H.
Qed.

(* the guard of the mirror theorem holds for the entries of this diff *)
Example ex_sym_ok : Forall sym_ok (fst ex_r).
Proof.
  apply run_diff_sym_ok; try reflexivity.
  - cbn. lia.
  - vm_compute. repeat constructor; discriminate.
Qed.

(* a delta outside the in-place fragment (set items, a grown list, a removed
   key), by computation: detection of a corrupted base, and subtraction *)
Definition ex2_t1 : value :=
  VDict [(K "s", VSet [AInt 1; AInt 2]); (K "l", VList [I 1; I 2]); (K "k", I 0); (K "v", I 4)].
Definition ex2_t2 : value :=
  VDict [(K "s", VSet [AInt 1; AInt 3]); (K "l", VList [I 1; I 2; I 3]); (K "v", VAtom (K "4"))].
Definition ex2_r := run_diff hatom_simple (fun _ _ => []) ex_ops no_paths no_paths ex_cfg ex2_t1 ex2_t2.
Definition ex2_d : delta := to_delta ex_conv true false ex_ops ex2_t1 ex2_t2 (fst ex2_r) (snd ex2_r).
Definition ex2_base : value :=
  VDict [(K "s", VSet [AInt 1; AInt 2]); (K "l", VList [I 1; I 2]); (K "k", I 0); (K "v", I 5)].

Example ex2_indep : indep_verified ex2_d = true.
Proof. vm_compute. reflexivity. Qed.

Example ex2_detect_type : 0 < snd (ex_apply ex2_d ex2_base).
Proof.
  apply (apply_detects_type_indep ex_conv ex_ro ex_ao ex2_d ex2_base
           (mkTC [PKey (K "v")] None TInt TStr (Some (I 4)) (Some (VAtom (K "4"))))).
  - reflexivity.
  - exact ex2_indep.
  - vm_compute. left. reflexivity.
  - vm_compute. reflexivity.
Qed.

Example ex2_sub_is_mirror_add :
  ex_sub ex2_d ex2_t2 =
  Some (ex_apply (to_delta ex_conv true false (mirror_ops ex_ops) ex2_t2 ex2_t1
                           (map mirror_entry (fst ex2_r)) (snd ex2_r)) ex2_t2).
Proof.
  apply sub_is_add_of_mirror. apply run_diff_sym_ok; try reflexivity.
  - cbn. lia.
  - vm_compute. repeat constructor; discriminate.
Qed.

Example ex_directed_refuses :
  ex_sub (to_delta ex_conv false false ex_ops ex_t1 ex_t2 (fst ex_r) (snd ex_r)) ex_t2 = None.
Proof. apply directed_refuses_sub. reflexivity. Qed.

(* beyond the property's quantifier: the verification of _do_item_removed does
   NOT report a list whose item at the removed index differs from the recorded
   one - it looks for the recorded value elsewhere and, not finding it, skips
   the removal silently.  [1,2,3] -> [1,2] applied to [1,2,9]: result [1,2,9],
   no error (same on the implementation, also with raise_errors=True). *)
Definition ex3_t1 : value := VList [I 1; I 2; I 3].
Definition ex3_t2 : value := VList [I 1; I 2].
Definition ex3_r := run_diff hatom_simple (fun _ _ => []) ex_ops no_paths no_paths ex_cfg ex3_t1 ex3_t2.
Definition ex3_d : delta := to_delta ex_conv true false ex_ops ex3_t1 ex3_t2 (fst ex3_r) (snd ex3_r).
Definition ex3_base : value := VList [I 1; I 2; I 9].

Example ex3_removed_item_mismatch_accepted :
  d_irem ex3_d = [([PKey (AInt 2)], I 3)] /\
  resolve ex3_base [PKey (AInt 2)] = Some (I 9) /\ py_eqv (I 3) (I 9) = false /\
  ex_apply ex3_d ex3_t1 = (ex3_t2, 0) /\
  ex_apply ex3_d ex3_base = (ex3_base, 0).
Proof. vm_compute. repeat split. Qed.

(* default mode with recorded opcodes: [1,2,3,4] -> [0,1,2,3,5], the opcodes
   difflib returns; the first pass wins, the value change 4 -> 5 is reported at
   root[3] with new_path root[4] *)
Definition ex4_t1 : value := VList [I 1; I 2; I 3; I 4].
Definition ex4_t2 : value := VList [I 0; I 1; I 2; I 3; I 5].
Definition ex4_cfg : cfg := mkCfg false 0 1 true.
Definition ex4_ops (_ : path) (_ _ : list value) : list opcode :=
  [mkOp OInsert 0 0 0 1; mkOp OEqual 0 3 1 4; mkOp OReplace 3 4 4 5].
Definition ex4_r := run_diff hatom_simple (fun _ _ => []) ex4_ops no_paths no_paths ex4_cfg ex4_t1 ex4_t2.
Definition ex4_d : delta := to_delta ex_conv true false ex4_ops ex4_t1 ex4_t2 (fst ex4_r) (snd ex4_r).
Definition ex4_base : value := VList [I 1; I 2; I 3; I 7].

Example ex4_shape :
  snd ex4_r = [[]] /\
  map (fun c => (vc_path c, vc_new_path c)) (d_val ex4_d) = [([PKey (AInt 3)], Some [PKey (AInt 4)])] /\
  ex_apply ex4_d ex4_t1 = (ex4_t2, 0) /\ ex_sub ex4_d ex4_t2 = Some (ex4_t1, 0).
Proof. vm_compute. repeat split. Qed.

(* a flat tuple: (1, 2, 'x') -> (1, 5, 'y'); inversion by the flat-tuple theorem *)
Definition ex5_xs : list value := [I 1; I 2; VAtom (K "x")].
Definition ex5_t2 : value := VTuple [I 1; I 5; VAtom (K "y")].
Definition ex5_r := run_diff hatom_simple (fun _ _ => []) ex_ops no_paths no_paths ex_cfg (VTuple ex5_xs) ex5_t2.
Definition ex5_d : delta := to_delta ex_conv true false ex_ops (VTuple ex5_xs) ex5_t2 (fst ex5_r) (snd ex5_r).

Example ex5_inplace : inplace ex5_d.
Proof.
  constructor; try reflexivity.
  - vm_compute. repeat constructor; eexists; reflexivity.
  - vm_compute. constructor.
Qed.

Example ex5_guards :
  Forall (fun w => flat_path (wpath w)) (writes ex5_d) /\
  pairwise_div (map wpath (writes ex5_d)) = true /\
  (forall w, In w (writes ex5_d) ->
     resolve (VTuple ex5_xs) (wpath w) = Some (snd (fst w)) /\ wf (snd w) = true) /\
  ex_apply ex5_d (VTuple ex5_xs) = (ex5_t2, 0) /\ List.length (writes ex5_d) = 2.
Proof.
  split; [vm_compute; repeat constructor; eexists; reflexivity|].
  split; [vm_compute; reflexivity|]. split; [|split; vm_compute; reflexivity].
  intros w Hw. vm_compute in Hw.
  repeat (destruct Hw as [<-|Hw]; [vm_compute; split; reflexivity|]). contradiction.
Qed.

Example ex5_sub_inverts : ex_sub ex5_d ex5_t2 = Some (VTuple ex5_xs, 0).
Proof.
  destruct ex5_guards as (F & P & H & A & _).
  exact (flat_tuple_sub_inverts ex_conv ex_ro ex_ao eq_refl ex5_d ex5_xs ex5_t2 ex5_inplace eq_refl F P H A).
Qed.

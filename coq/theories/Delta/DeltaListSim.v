(** C01 - the round trip for a list compared position by position, given the
    round trip for its paired children. *)
From Coq Require Import List ZArith NArith Bool Arith Lia Permutation.
Import ListNotations.
From DD Require Import Base.PyStr Base.Value Base.ValueFacts Path.PathModel Diff.Tree Diff.DiffModel
  Diff.DiffFacts Diff.DiffFaithful Delta.DeltaModel Delta.DeltaFacts Delta.DeltaLocal Delta.DeltaEntries
  Delta.DeltaStruct Delta.DeltaRun Delta.DeltaGuard Delta.DeltaGood Delta.DeltaCompose Delta.DeltaListNode.

Lemma repl_app_l {A} i (v : A) l1 l2 : i < length l1 -> repl i v (l1 ++ l2) = repl i v l1 ++ l2.
Proof.
  intros H. unfold repl. rewrite firstn_app, skipn_app.
  replace (i - length l1) with 0 by lia. replace (S i - length l1) with 0 by lia.
  cbn [firstn skipn]. rewrite app_nil_r, <- app_assoc. reflexivity.
Qed.

Lemma all2_nth {A} (f : A -> A -> bool) (b ys : list A) :
  length b = length ys ->
  (forall i x y, nth_error b i = Some x -> nth_error ys i = Some y -> f x y = true) -> all2 f b ys = true.
Proof.
  revert ys; induction b as [|x b IH]; intros [|y ys] L H; try discriminate L; [reflexivity|].
  cbn. rewrite (H 0 x y eq_refl eq_refl). cbn. apply IH; [cbn in L; lia|].
  intros i x0 y0 Hx Hy. apply (H (S i)); assumption.
Qed.

(* own_run from the subsequence of own items *)
Lemma own_run_filter (own : item -> bool) l :
  own_run (list item) (fun q x q' => q = x :: q') own (filter own l) l [].
Proof.
  induction l as [|x l IH]; cbn; [constructor|].
  destruct (own x) eqn:O.
  - eapply own_run_own; [exact O|reflexivity|exact IH].
  - apply own_run_child; [exact O|exact IH].
Qed.

Section OwnSteps.
Variable conv : ty -> value -> option value.
Variable bidir : bool.
Notation istep := (istep conv bidir).

Lemma own_rem_step b0 v' v po e : py_eqv v' v = true -> py_eqv v v = true ->
  istep (mkSt (VList (b0 ++ [v'])) po e) (IRem [PKey (ik (length b0))] v) = mkSt (VList b0) po e.
Proof.
  intros R' R. cbn [istep]. unfold remove_one. cbn [removelast last key_atom resolve root].
  rewrite get_item_list_ik. rewrite nth_error_app2 by lia. rewrite Nat.sub_diag. cbn [nth_error].
  rewrite R'. cbn [negb].
  unfold del_elem. cbn [resolve root is_tuple untuple upd post errs].
  rewrite del_item_list_ik by (rewrite app_length; cbn; lia).
  rewrite firstn_app, Nat.sub_diag, firstn_all. cbn [firstn]. rewrite app_nil_r.
  rewrite skipn_all2 by (rewrite app_length; cbn; lia). rewrite app_nil_r.
  unfold verify. destruct bidir; [rewrite R|]; reflexivity.
Qed.

Lemma own_add_step b v po e :
  istep (mkSt (VList b) po e) (IAdd true [PKey (ik (length b))] (Some v)) = mkSt (VList (b ++ [v])) po e.
Proof.
  cbn [istep]. unfold add_one. cbn [removelast last key_atom resolve root int_of_atom ik].
  rewrite Z.ltb_irrefl. cbn [andb].
  unfold set_new_value. cbn [removelast last key_atom resolve root is_tuple untuple upd post errs].
  change (AInt (Z.of_nat (length b))) with (ik (length b)). rewrite set_item_list_append. reflexivity.
Qed.
End OwnSteps.

(* ---- facts about the trailing items ---- *)
Lemma combine_seq_snoc {A} i (t : list A) v :
  combine (seq i (length (t ++ [v]))) (t ++ [v]) = combine (seq i (length t)) t ++ [(i + length t, v)].
Proof.
  revert i; induction t as [|x t IH]; intros i; cbn.
  - rewrite Nat.add_0_r. reflexivity.
  - rewrite IH. cbn. rewrite Nat.add_succ_r. reflexivity.
Qed.

Lemma tail_rem_snoc i t v : tail_rem i (t ++ [v]) = tail_rem i t ++ [IRem [PKey (ik (i + length t))] v].
Proof. unfold tail_rem. rewrite combine_seq_snoc, map_app. reflexivity. Qed.
Lemma tail_add_cons i y t : tail_add i (y :: t) = IAdd true [PKey (ik i)] (Some y) :: tail_add (S i) t.
Proof. reflexivity. Qed.

Lemma tail_rem_In i t x : In x (tail_rem i t) -> exists j v, x = IRem [PKey (ik j)] v /\ i <= j < i + length t /\ nth_error t (j - i) = Some v.
Proof.
  unfold tail_rem. intros H. apply in_map_iff in H as ([j v] & <- & Hj). apply in_combine_seq in Hj as [H1 H2].
  exists j, v. split; [reflexivity|]. split; [exact H1|exact H2].
Qed.
Lemma tail_add_In i t x : In x (tail_add i t) -> exists j v, x = IAdd true [PKey (ik j)] (Some v) /\ i <= j < i + length t /\ nth_error t (j - i) = Some v.
Proof.
  unfold tail_add. intros H. apply in_map_iff in H as ([j v] & <- & Hj). apply in_combine_seq in Hj as [H1 H2].
  exists j, v. split; [reflexivity|]. split; [exact H1|exact H2].
Qed.

Lemma kf1_rem j v : kf1 (IRem [PKey (ik j)] v) = Z.of_nat j.
Proof. reflexivity. Qed.
Lemma kf1_add j v : kf1 (IAdd true [PKey (ik j)] v) = Z.of_nat j.
Proof. reflexivity. Qed.

Lemma rev_tail_rem_sorted i t : ForallOrdPairs (fun x y => (kf1 y <= kf1 x)%Z) (rev (tail_rem i t)).
Proof.
  induction t as [|v t IH] using rev_ind; [constructor|].
  rewrite tail_rem_snoc, rev_app_distr. cbn [rev app]. constructor; [|exact IH].
  apply Forall_forall. intros y Hy. apply in_rev in Hy. apply tail_rem_In in Hy as (j & w & -> & Hj & _).
  rewrite !kf1_rem. lia.
Qed.
Lemma tail_add_sorted i t : ForallOrdPairs (fun x y => (kf1 x <= kf1 y)%Z) (tail_add i t).
Proof.
  revert i; induction t as [|v t IH]; intros i; [constructor|].
  rewrite tail_add_cons. constructor; [|apply IH].
  apply Forall_forall. intros y Hy. apply tail_add_In in Hy as (j & w & -> & Hj & _).
  rewrite !kf1_add. lia.
Qed.

Lemma tail_rem_kf_inj i t x y : In x (tail_rem i t) -> In y (tail_rem i t) -> kf1 x = kf1 y -> x = y.
Proof.
  intros Hx Hy E. apply tail_rem_In in Hx as (j & v & -> & Hj & Hv). apply tail_rem_In in Hy as (j2 & v2 & -> & Hj2 & Hv2).
  rewrite !kf1_rem in E. assert (j = j2) by lia. subst j2. congruence.
Qed.
Lemma tail_add_kf_inj i t x y : In x (tail_add i t) -> In y (tail_add i t) -> kf1 x = kf1 y -> x = y.
Proof.
  intros Hx Hy E. apply tail_add_In in Hx as (j & v & -> & Hj & Hv). apply tail_add_In in Hy as (j2 & v2 & -> & Hj2 & Hv2).
  rewrite !kf1_add in E. assert (j = j2) by lia. subst j2. congruence.
Qed.

Definition own6 (x : item) : bool := match x with IRem [_] _ => true | _ => false end.
Definition own7 (x : item) : bool := match x with IAdd _ [_] _ => true | _ => false end.

Lemma child_not_own6 K l x : child_items K l -> In x l -> own6 x = false.
Proof.
  intros H Hx. destruct (H x Hx) as (k & r & Hp & _ & Ho). destruct x as [| | | |p v| |]; try reflexivity.
  cbn in Hp, Ho. subst p. destruct r; [congruence|reflexivity].
Qed.
Lemma child_not_own7 K l x : child_items K l -> In x l -> own7 x = false.
Proof.
  intros H Hx. destruct (H x Hx) as (k & r & Hp & _ & Ho). destruct x as [| | | | |i p v|]; try reflexivity.
  cbn in Hp, Ho. subst p. destruct r; [congruence|reflexivity].
Qed.

Lemma filter_own_split (own : item -> bool) c t :
  (forall x, In x c -> own x = false) -> (forall x, In x t -> own x = true) -> filter own (c ++ t) = t.
Proof.
  intros Hc Ht. rewrite filter_app. rewrite (filter_nil own c Hc). cbn. apply filter_all. exact Ht.
Qed.

(* the own items of an admissible arrangement come in the expected order *)
Lemma own6_order K c i t q6 :
  child_items K c -> Permutation (c ++ tail_rem i t) q6 -> desc q6 -> filter own6 q6 = rev (tail_rem i t).
Proof.
  intros Hc HP HD.
  assert (P1 : Permutation (filter own6 q6) (rev (tail_rem i t))).
  { eapply Permutation_trans; [apply Permutation_sym, Permutation_filter'; exact HP|].
    rewrite filter_own_split.
    - apply Permutation_rev.
    - intros x Hx. eapply child_not_own6; eassumption.
    - intros x Hx. apply tail_rem_In in Hx as (j & v & -> & _). reflexivity. }
  apply (sorted_perm_unique kf1); [exact P1| | |apply rev_tail_rem_sorted].
  - intros x y Hx Hy. apply in_rev in Hx, Hy. apply (tail_rem_kf_inj i t); assumption.
  - apply desc_kf1.
    + intros x Hx. eapply Permutation_in in Hx; [|exact P1]. apply in_rev in Hx.
      apply tail_rem_In in Hx as (j & v & -> & _). exists (Z.of_nat j). reflexivity.
    + unfold desc. apply FOP_filter. exact HD.
Qed.

Lemma own7_order K c i t q7 :
  child_items K c -> Permutation (c ++ tail_add i t) q7 -> asc q7 -> filter own7 q7 = tail_add i t.
Proof.
  intros Hc HP HD.
  assert (P1 : Permutation (filter own7 q7) (tail_add i t)).
  { eapply Permutation_trans; [apply Permutation_sym, Permutation_filter'; exact HP|].
    rewrite filter_own_split.
    - apply Permutation_refl.
    - intros x Hx. eapply child_not_own7; eassumption.
    - intros x Hx. apply tail_add_In in Hx as (j & v & -> & _). reflexivity. }
  assert (G : forall l l', Permutation l l' ->
     (forall x y, In x l' -> In y l' -> kf1 x = kf1 y -> x = y) ->
     ForallOrdPairs (fun x y => (kf1 x <= kf1 y)%Z) l -> ForallOrdPairs (fun x y => (kf1 x <= kf1 y)%Z) l' -> l = l').
  { intros l l' Hp Hi S1 S2.
    apply (sorted_perm_unique (fun x => (- kf1 x)%Z)); try assumption.
    - intros x y Hx Hy E. apply Hi; try assumption. lia.
    - clear -S1. induction S1 as [|a l Fa S1 IH]; constructor; [|exact IH].
      eapply Forall_impl; [|exact Fa]. cbn. intros; lia.
    - clear -S2. induction S2 as [|a l Fa S2 IH]; constructor; [|exact IH].
      eapply Forall_impl; [|exact Fa]. cbn. intros; lia. }
  apply G; [exact P1| | |apply tail_add_sorted].
  - intros x y Hx Hy. apply (tail_add_kf_inj i t); assumption.
  - apply asc_kf1.
    + intros x Hx. eapply Permutation_in in Hx; [|exact P1].
      apply tail_add_In in Hx as (j & v & -> & _). exists (Z.of_nat j). reflexivity.
    + unfold asc. apply FOP_filter. exact HD.
Qed.

Lemma filter_ext_in' {A} (f g : A -> bool) l : (forall x, In x l -> f x = g x) -> filter f l = filter g l.
Proof.
  induction l as [|x l IH]; intros H; cbn; [reflexivity|].
  rewrite (H x (or_introl eq_refl)). rewrite IH; [reflexivity|]. intros y Hy. apply H. right. exact Hy.
Qed.

Section ListPasses.
Variable conv : ty -> value -> option value.
Variable bidir : bool.
Notation istep := (istep conv bidir).
Notation irun := (irun conv bidir).

Definition Kof (m : nat) : list atom := map ik (seq 0 m).
Lemma Kof_In m k : In k (Kof m) <-> exists i, k = ik i /\ i < m.
Proof.
  unfold Kof. rewrite in_map_iff. split.
  - intros (i & <- & Hi). apply in_seq in Hi. exists i. split; [reflexivity|lia].
  - intros (i & -> & Hi). exists i. split; [reflexivity|apply in_seq; lia].
Qed.

Lemma Rel_reroot m b b' po e S :
  Rel (Kof m) (mkSt (VList b) po e) S -> m <= length b' ->
  (forall i, i < m -> nth_error b' i = nth_error b i) ->
  Rel (Kof m) (mkSt (VList b') po e) S.
Proof.
  intros (H1 & H2 & H3 & H4 & H5) L N. unfold Rel. cbn [root post errs] in *. repeat split; try assumption.
  - cbn [sepK]. intros k Hk. apply Kof_In in Hk as (i & -> & Hi). exists i. split; [reflexivity|lia].
  - intros k Hk. pose proof (H2 k Hk) as G. apply Kof_In in Hk as (i & -> & Hi).
    rewrite get_item_list_ik in *. rewrite N by exact Hi. exact G.
Qed.

Definition pyeq (a b : value) : Prop := py_eqv a b = true.

Lemma Forall2_len {A B} (R : A -> B -> Prop) l l' : Forall2 R l l' -> length l = length l'.
Proof. induction 1; cbn; congruence. Qed.

Lemma Forall2_snoc_inv {A B} (R : A -> B -> Prop) l' t v : Forall2 R l' (t ++ [v]) ->
  exists t' v', l' = t' ++ [v'] /\ Forall2 R t' t /\ R v' v.
Proof.
  intros F. apply Forall2_app_inv_r in F as (t' & l2 & F1 & F2 & ->). inversion F2 as [|v' ? l2' ? Rv F3]; subst. inversion F3; subst.
  exists t', v'. auto.
Qed.

Lemma list_pass6 m s S c6 tail' tail q6 :
  Rel (Kof m) s S -> (exists b0, root s = VList (b0 ++ tail') /\ length b0 = m) -> Forall2 pyeq tail' tail -> forallb wf tail = true ->
  child_items (Kof m) c6 -> Permutation (c6 ++ tail_rem m tail) q6 -> desc q6 ->
  Rel (Kof m) (irun q6 s) (fun k => irun (restrictL k q6) (S k)) /\
  exists b0', root (irun q6 s) = VList b0' /\ length b0' = m.
Proof.
  intros HR (b0 & Hroot & Hb0) FT Wt Hc HP HD.
  set (Inv := fun (rest : list item) (W : value) =>
     exists b1 elems' elems, length b1 = m /\ W = VList (b1 ++ elems') /\ Forall2 pyeq elems' elems /\
                             rest = rev (tail_rem m elems) /\ forallb wf elems = true).
  destruct (rel_fold conv bidir (Kof m) (list item) Inv (fun q x q' => q = x :: q') own6) with
    (l := q6) (s := s) (S := S) (q := rev (tail_rem m tail)) (qf := @nil item) as [A B].
  - (* child steps keep the invariant *)
    intros rest W k v W' (b1 & elems' & elems & L1 & -> & FE & Hr & We) Hk HS.
    apply Kof_In in Hk as (i & -> & Hi).
    rewrite set_item_list_ik in HS by (rewrite app_length; lia). inversion HS; subst W'.
    exists (repl i v b1), elems', elems. split; [rewrite repl_length by lia; exact L1|].
    split; [rewrite repl_app_l by lia; reflexivity|]. split; [exact FE|]. split; assumption.
  - (* own steps *)
    intros rest rest' s0 S0 x HR0 (b1 & elems' & elems & L1 & Hr0 & FE & Hr & We) Ox ->.
    destruct elems as [|v t _] using rev_ind; [cbn in Hr; discriminate|].
    rewrite tail_rem_snoc, rev_app_distr in Hr. cbn [rev app] in Hr. inversion Hr; subst x rest'.
    apply Forall2_snoc_inv in FE as (t' & v' & -> & FE' & Rv).
    assert (Lt : length t' = length t) by (eapply Forall2_len; exact FE').
    destruct s0 as [W po e]. cbn [root] in Hr0. subst W.
    rewrite forallb_app in We. apply andb_true_iff in We as [Wt' Wv]. cbn in Wv. apply andb_true_iff in Wv as [Wv _].
    rewrite app_assoc. replace (m + length t) with (length (b1 ++ t')) by (rewrite app_length; lia).
    rewrite (own_rem_step conv bidir (b1 ++ t') v' v po e Rv (py_eqv_rfl v Wv)). cbn [root]. split.
    + rewrite app_assoc in HR0. eapply Rel_reroot; [exact HR0|rewrite app_length; lia|].
      intros i Hi. rewrite (nth_error_app1 (b1 ++ t')) by (rewrite app_length; lia). reflexivity.
    + exists b1, t', t. repeat split; assumption.
  - (* every other item is a child item *)
    intros x Hx Ox. apply (Permutation_in _ (Permutation_sym HP)) in Hx. apply in_app_or in Hx as [Hx|Hx].
    + apply Hc. exact Hx.
    + apply tail_rem_In in Hx as (j & v & -> & _). discriminate.
  - exact HR.
  - exists b0, tail', tail. repeat split; assumption.
  - rewrite <- (own6_order (Kof m) c6 m tail q6 Hc HP HD). apply own_run_filter.
  - split.
    + eapply Rel_ext; [|exact A]. intros k Hk. unfold runS, restrictL. f_equal. f_equal.
      apply filter_ext_in'. intros x Hx. unfold cls0, cls. destruct (own6 x) eqn:Ox; [|reflexivity].
      cbn [negb andb]. apply (Permutation_in _ (Permutation_sym HP)) in Hx. apply in_app_or in Hx as [Hx|Hx].
      * rewrite (child_not_own6 _ _ _ Hc Hx) in Ox. discriminate.
      * apply tail_rem_In in Hx as (j & v & -> & Hj & _). apply Kof_In in Hk as (i & -> & Hi).
        unfold fkey. cbn. destruct (Z.eqb_spec (Z.of_nat j) (Z.of_nat i)); [lia|reflexivity].
    + destruct B as (b1 & elems' & elems & L1 & Hr0 & FE & Hr & _). destruct elems as [|v t _] using rev_ind.
      * inversion FE; subst. exists b1. rewrite app_nil_r in Hr0. split; assumption.
      * rewrite tail_rem_snoc, rev_app_distr in Hr. discriminate.
Qed.

Lemma list_pass7 m s S c7 tail q7 :
  Rel (Kof m) s S -> (exists b0, root s = VList b0 /\ length b0 = m) ->
  child_items (Kof m) c7 -> Permutation (c7 ++ tail_add m tail) q7 -> asc q7 ->
  Rel (Kof m) (irun q7 s) (fun k => irun (restrictL k q7) (S k)) /\
  exists b0', root (irun q7 s) = VList (b0' ++ tail) /\ length b0' = m.
Proof.
  intros HR (b0 & Hroot & Hb0) Hc HP HD.
  set (Inv := fun (rest : list item) (W : value) =>
     exists b1 done todo, length b1 = m /\ W = VList (b1 ++ done) /\ done ++ todo = tail /\
                          rest = tail_add (m + length done) todo).
  destruct (rel_fold conv bidir (Kof m) (list item) Inv (fun q x q' => q = x :: q') own7) with
    (l := q7) (s := s) (S := S) (q := tail_add m tail) (qf := @nil item) as [A B].
  - intros rest W k v W' (b1 & done & todo & L1 & -> & Ht & Hr) Hk HS.
    apply Kof_In in Hk as (i & -> & Hi).
    rewrite set_item_list_ik in HS by (rewrite app_length; lia). inversion HS; subst W'.
    exists (repl i v b1), done, todo. split; [rewrite repl_length by lia; exact L1|].
    split; [rewrite repl_app_l by lia; reflexivity|]. split; assumption.
  - intros rest rest' s0 S0 x HR0 (b1 & done & todo & L1 & Hr0 & Ht & Hr) Ox ->.
    destruct todo as [|y todo]; [discriminate Hr|]. rewrite tail_add_cons in Hr. inversion Hr; subst x rest'.
    destruct s0 as [W po e]. cbn [root] in Hr0. subst W.
    replace (m + length done) with (length (b1 ++ done)) by (rewrite app_length; lia).
    rewrite own_add_step. cbn [root]. split.
    + eapply Rel_reroot; [exact HR0|rewrite !app_length; lia|].
      intros i Hi. rewrite nth_error_app1 by (rewrite app_length; lia). reflexivity.
    + exists b1, (done ++ [y]), todo. split; [exact L1|]. split; [rewrite app_assoc; reflexivity|].
      split; [rewrite <- app_assoc; exact Ht|]. rewrite !app_length. cbn [length].
      f_equal. lia.
  - intros x Hx Ox. apply (Permutation_in _ (Permutation_sym HP)) in Hx. apply in_app_or in Hx as [Hx|Hx].
    + apply Hc. exact Hx.
    + apply tail_add_In in Hx as (j & v & -> & _). discriminate.
  - exact HR.
  - exists b0, [], tail. rewrite app_nil_r, Nat.add_0_r. repeat split; assumption.
  - rewrite <- (own7_order (Kof m) c7 m tail q7 Hc HP HD). apply own_run_filter.
  - split.
    + eapply Rel_ext; [|exact A]. intros k Hk. unfold runS, restrictL. f_equal. f_equal.
      apply filter_ext_in'. intros x Hx. unfold cls0, cls. destruct (own7 x) eqn:Ox; [|reflexivity].
      cbn [negb andb]. apply (Permutation_in _ (Permutation_sym HP)) in Hx. apply in_app_or in Hx as [Hx|Hx].
      * rewrite (child_not_own7 _ _ _ Hc Hx) in Ox. discriminate.
      * apply tail_add_In in Hx as (j & v & -> & Hj & _). apply Kof_In in Hk as (i & -> & Hi).
        unfold fkey. cbn. destruct (Z.eqb_spec (Z.of_nat j) (Z.of_nat i)); [lia|reflexivity].
    + destruct B as (b1 & done & todo & L1 & Hr0 & Ht & Hr). destruct todo as [|y todo]; [|discriminate Hr].
      rewrite app_nil_r in Ht. subst done. exists b1. split; assumption.
Qed.

End ListPasses.

Lemma list_eq_nth {A} (a b : list A) : (forall j, nth_error a j = nth_error b j) -> a = b.
Proof.
  revert b; induction a as [|x a IH]; intros [|y b] H.
  - reflexivity.
  - specialize (H 0). discriminate.
  - specialize (H 0). discriminate.
  - pose proof (H 0) as H0. cbn in H0. inversion H0; subst. f_equal. apply IH. intros j. apply (H (S j)).
Qed.

Lemma split_tail {A} m (b xs : list A) : length b = length xs ->
  (forall j, m <= j -> nth_error b j = nth_error xs j) -> b = firstn m b ++ skipn m xs.
Proof.
  intros L H. rewrite <- (firstn_skipn m b) at 1. f_equal. apply list_eq_nth. intros j.
  rewrite !nth_error_skipn. apply H. lia.
Qed.

Lemma snoc_length (p : path) k : length (snoc p k) = S (length p).
Proof. unfold snoc. rewrite app_length. cbn. lia. Qed.

Lemma same_off_list K xs W : same_off K (VList xs) W ->
  exists b, W = VList b /\ length xs = length b /\ forall j, ~ In (ik j) K -> nth_error xs j = nth_error b j.
Proof. destruct W; cbn; try contradiction. intros [H1 H2]. eexists; split; [reflexivity|]. split; assumption. Qed.

Lemma child_items_perm K l l' : Permutation l l' -> child_items K l -> child_items K l'.
Proof. intros HP H x Hx. apply H. eapply Permutation_in; [apply Permutation_sym; exact HP|exact Hx]. Qed.

Section ListGood.
Variable hatom : atom -> pystr.
Variable udiff : pystr -> pystr -> pystr.
Variable ops : path -> list value -> list value -> list opcode.
Variable c : cfg.
Variable conv : ty -> value -> option value.
Variables bidir always : bool.
Variables T1 T2 : value.
Variable q : path.
Notation D := (D hatom udiff ops c conv bidir always T1 T2).
Notation DL := (DL hatom udiff ops c conv bidir always T1 T2 q).
Notation Good := (Good hatom udiff ops c conv bidir always).
Notation GoodD := (GoodD conv bidir always).
Notation irun := (irun conv bidir).
Notation run_passes := (run_passes conv bidir).
Notation finish := (finish conv bidir).

Lemma DL_moved xs : forall ys i,
  (forall k x y, nth_error xs k = Some x -> nth_error ys k = Some y -> d_moved (D x y (snoc q (PIdx (i + k)))) = []) ->
  d_moved (DL i xs ys) = [].
Proof.
  induction xs as [|x xs IH]; intros ys i H.
  - unfold DeltaListNode.DL, GL. cbn [go_list fst snd]. rewrite mutual_added, added_from_eq.
    unfold to_delta. cbn [d_moved]. apply flat_map_map_nil. reflexivity.
  - destruct ys as [|y ys].
    + unfold DeltaListNode.DL, GL. cbn [go_list fst snd]. rewrite mutual_removed, removed_from_eq.
      unfold to_delta. cbn [d_moved]. apply flat_map_map_nil. reflexivity.
    + rewrite DL_cons. cbn [dapp d_moved]. pose proof (H 0 x y eq_refl eq_refl) as H0. rewrite Nat.add_0_r in H0.
      rewrite H0. cbn [app]. apply IH. intros k x0 y0 Hx Hy. replace (S i + k) with (i + S k) by lia. apply H; assumption.
Qed.

Definition S0 (xs : list value) : atom -> st :=
  fun k => match k with
           | AInt z => mkSt (nth (Z.to_nat z) xs (VAtom ANone)) [] 0
           | _ => mkSt (VAtom ANone) [] 0
           end.

Lemma S0_ik xs i x : nth_error xs i = Some x -> S0 xs (ik i) = mkSt x [] 0.
Proof. intros H. unfold S0, ik. rewrite Nat2Z.id. rewrite (nth_error_nth xs i _ H). reflexivity. Qed.

Lemma Rel_init xs m : m <= length xs -> Rel (Kof m) (mkSt (VList xs) [] 0) (S0 xs).
Proof.
  intros L. unfold Rel. cbn [root post errs]. repeat split.
  - cbn [sepK]. intros k Hk. apply Kof_In in Hk as (i & -> & Hi). exists i. split; [reflexivity|lia].
  - intros k Hk. apply Kof_In in Hk as (i & -> & Hi). rewrite get_item_list_ik.
    destruct (nth_error xs i) eqn:E; [|apply nth_error_None in E; lia]. rewrite (S0_ik xs i v E). reflexivity.
  - intros k Hk. apply Kof_In in Hk as (i & -> & Hi).
    destruct (nth_error xs i) eqn:E; [|apply nth_error_None in E; lia]. rewrite (S0_ik xs i v E). reflexivity.
  - intros p [].
Qed.

Lemma veqb_list_inv v xs : veqb v (VList xs) = true -> exists vs, v = VList vs /\ Forall2 (fun a b => veqb a b = true) vs xs.
Proof.
  destruct v; cbn; try discriminate. intros V. exists xs0. split; [reflexivity|]. apply all2_Forall2. rewrite <- veqb_list. exact V.
Qed.

Lemma Forall2_nth {A B} (R : A -> B -> Prop) l l' : Forall2 R l l' ->
  forall i x y, nth_error l i = Some x -> nth_error l' i = Some y -> R x y.
Proof.
  induction 1 as [|a b l l' Hab F IH]; intros i x y Hx Hy; [destruct i; discriminate|].
  destruct i as [|i]; cbn in Hx, Hy; [inversion Hx; inversion Hy; subst; exact Hab|eapply IH; eassumption].
Qed.

Lemma Forall2_skipn {A B} (R : A -> B -> Prop) n l l' : Forall2 R l l' -> Forall2 R (skipn n l) (skipn n l').
Proof.
  revert l l'; induction n as [|n IH]; intros l l' F; [exact F|]. destruct F; cbn; [constructor|apply IH; assumption].
Qed.

Theorem list_node_good xs ys :
  resolve T1 q = Some (VList xs) -> resolve T2 q = Some (VList ys) ->
  forallb wf ys = true -> forallb wf xs = true ->
  (forall k x y, nth_error xs k = Some x -> nth_error ys k = Some y -> Good x y (snoc q (PIdx k))) ->
  GoodD (DL 0 xs ys) (length q) (VList xs) (VList ys).
Proof.
  intros R1 R2 Wy Wx HG.
  assert (HGD : forall k x y, nth_error xs k = Some x -> nth_error ys k = Some y ->
            DeltaGood.GoodD conv bidir always (D x y (snoc q (PIdx k))) (S (length q)) x y).
  { intros k x y Hx Hy. rewrite <- (snoc_length q (PIdx k)). apply (HG k x y Hx Hy).
    - eapply resolve_seq_item; [exact R1|reflexivity|exact Hx].
    - eapply resolve_seq_item; [exact R2|reflexivity|exact Hy]. }
  split.
  { apply DL_moved. intros k x y Hx Hy. cbn [Nat.add]. apply (HGD k x y Hx Hy). }
  intros v Wv Vv OB. apply veqb_list_inv in Vv as (vs & -> & FV). cbn [wf] in Wv.
  assert (LV : length vs = length xs) by (eapply Forall2_len; exact FV).
  intros P HA.
  set (m := Nat.min (length xs) (length ys)).
  destruct (DL_struct hatom udiff ops c conv bidir always T1 T2 q xs ys 0) as (Sa & Sb & Sc).
  fold m in Sb.
  (* the nine lists *)
  destruct (Sb 0) as (c1 & E1 & C1). destruct (Sb 1) as (c2 & E2 & C2). destruct (Sb 2) as (c3 & E3 & C3).
  destruct (Sb 3) as (c4 & E4 & C4). destruct (Sb 4) as (c5 & E5 & C5). destruct (Sb 5) as (c6 & E6 & C6).
  destruct (Sb 6) as (c7 & E7 & C7). destruct (Sb 7) as (c8 & E8 & C8). destruct (Sb 8) as (c9 & E9 & C9).
  unfold tailj in E1, E2, E3, E4, E5, E6, E7, E8, E9. fold m in E6, E7. cbn [Nat.add] in E6, E7.
  rewrite app_nil_r in E1, E2, E3, E4, E5, E8, E9.
  remember (sbase (length q) (DL 0 xs ys)) as B eqn:EB.
  assert (LB : length B = 9) by (subst B; reflexivity).
  destruct B as [|b1 [|b2 [|b3 [|b4 [|b5 [|b6 [|b7 [|b8 [|b9 [|]]]]]]]]]]; try discriminate LB.
  cbn [nth] in E1, E2, E3, E4, E5, E6, E7, E8, E9. subst b1 b2 b3 b4 b5 b6 b7 b8 b9.
  destruct P as [|q1 [|q2 [|q3 [|q4 [|q5 [|q6 [|q7 [|q8 [|q9 [|]]]]]]]]]]; try contradiction.
  pose proof HA as HA0.
  cbn in HA. destruct HA as (-> & -> & -> & -> & -> & [P6 D6] & [P7 D7] & -> & [P9 D9]).
  (* passes 1-5 *)
  assert (Lm1 : m <= length xs) by (unfold m; lia). assert (Lm2 : m <= length ys) by (unfold m; lia).
  assert (Lm0 : m <= length vs) by lia.
  pose proof (Rel_init vs m Lm0) as R0.
  destruct (rel_passes_children conv bidir (Kof m) [c1; c2; c3; c4; c5] _ _
              (Forall_cons _ C1 (Forall_cons _ C2 (Forall_cons _ C3 (Forall_cons _ C4 (Forall_cons _ C5 (Forall_nil _)))))) R0)
    as [R5 O5].
  cbn [root] in O5. apply same_off_list in O5 as (b5 & Hb5 & L5 & N5).
  set (s5 := run_passes [c1; c2; c3; c4; c5] (mkSt (VList vs) [] 0)) in *.
  assert (Hs5 : exists b0, root s5 = VList (b0 ++ skipn m vs) /\ length b0 = m).
  { exists (firstn m b5). split; [|rewrite firstn_length; lia]. rewrite Hb5. f_equal.
    apply split_tail; [lia|]. intros j Hj. symmetry. apply N5. intros Hin. apply Kof_In in Hin as (i & Ei & Hi).
    apply ik_inj in Ei. lia. }
  assert (Wt : forallb wf (skipn m xs) = true).
  { apply forallb_forall. intros v Hv. eapply forallb_forall in Wx; [exact Wx|]. rewrite <- (firstn_skipn m xs). apply in_or_app. right. exact Hv. }
  assert (FT : Forall2 pyeq (skipn m vs) (skipn m xs)).
  { apply Forall2_skipn. clear -FV Wx. induction FV as [|a b l l' Hab F IH]; [constructor|].
    cbn in Wx. apply andb_true_iff in Wx as [Wb Wx]. constructor; [|apply IH; exact Wx].
    destruct (veqb_facts a b Hab Wb) as (_ & A & _). exact A. }
  (* pass 6 *)
  destruct (list_pass6 conv bidir m s5 _ c6 (skipn m vs) (skipn m xs) q6 R5 Hs5 FT Wt C6 P6 D6) as [R6 Hs6].
  (* pass 7 *)
  destruct (list_pass7 conv bidir m _ _ c7 (skipn m ys) q7 R6 Hs6 C7 P7 D7) as [R7 (b7 & Hb7 & L7)].
  (* passes 8, 9 *)
  destruct (rel_passes_children conv bidir (Kof m) [c8; q9] _ _
              (Forall_cons _ C8 (Forall_cons _ (child_items_perm _ _ _ P9 C9) (Forall_nil _))) R7) as [R9 O9].
  (* post-processing *)
  destruct (rel_finish conv bidir (Kof m) _ _ R9) as [R10 O10].
  set (s9 := run_passes [c8; q9] (irun q7 (irun q6 s5))) in *.
  assert (Es9 : run_passes [c1; c2; c3; c4; c5; q6; q7; c8; q9] (mkSt (VList vs) [] 0) = s9) by reflexivity.
  rewrite Es9.
  (* the children *)
  assert (CH : forall i x y, nth_error xs i = Some x -> nth_error ys i = Some y ->
     errs (finish (run_passes (restrictP (ik i) [c1; c2; c3; c4; c5; q6; q7; c8; q9]) (S0 vs (ik i)))) = 0 /\
     veqb (root (finish (run_passes (restrictP (ik i) [c1; c2; c3; c4; c5; q6; q7; c8; q9]) (S0 vs (ik i))))) y = true).
  { intros i x y Hx Hy.
    destruct (nth_error vs i) as [v|] eqn:Hv; [|apply nth_error_None in Hv; assert (i < length xs) by (apply nth_error_Some; congruence); lia].
    rewrite (S0_ik vs i v Hv). destruct (HGD i x y Hx Hy) as [_ HR].
    apply (HR v).
    - eapply forallb_forall in Wv; [exact Wv|eapply nth_error_In; exact Hv].
    - eapply (Forall2_nth _ _ _ FV); eassumption.
    - apply (okb_list_nth conv bidir always vs xs ys OB i v x y Hv Hx Hy).
    - pose proof (Sa i x y Hx Hy) as SA. cbn [Nat.add] in SA. rewrite <- SA. apply Arr_restrict. exact HA0. }
  destruct R10 as (HS10 & HG10 & _ & _ & HE10).
  pose proof (same_off_trans _ _ _ _ O9 O10) as O. rewrite Hb7 in O.
  apply same_off_list in O as (b10 & Hb10 & L10 & N10).
  split.
  - apply HE10. intros k Hk. apply Kof_In in Hk as (i & -> & Hi).
    destruct (nth_error xs i) as [x|] eqn:Ex; [|apply nth_error_None in Ex; lia].
    destruct (nth_error ys i) as [y|] eqn:Ey; [|apply nth_error_None in Ey; lia].
    apply (CH i x y Ex Ey).
  - rewrite Hb10, veqb_list. rewrite app_length, skipn_length in L10.
    apply all2_nth; [lia|]. intros i x y Hx Hy.
    destruct (Nat.lt_ge_cases i m) as [Hi|Hi].
    + assert (Hk : In (ik i) (Kof m)) by (apply Kof_In; exists i; split; [reflexivity|exact Hi]).
      pose proof (HG10 (ik i) Hk) as G. rewrite Hb10, get_item_list_ik, Hx in G. inversion G; subst x.
      destruct (nth_error xs i) as [x|] eqn:Ex; [|apply nth_error_None in Ex; lia].
      apply (CH i x y Ex Hy).
    + assert (E0 : x = y).
      { rewrite <- N10 in Hx.
        - rewrite nth_error_app2 in Hx by lia. rewrite nth_error_skipn in Hx. replace (m + (i - length b7)) with i in Hx by lia. congruence.
        - intros Hin. apply Kof_In in Hin as (i' & Ei & Hi'). apply ik_inj in Ei. lia. }
      subst y. apply veqb_refl. eapply forallb_forall in Wy; [exact Wy|]. eapply nth_error_In. exact Hy.
Qed.

End ListGood.

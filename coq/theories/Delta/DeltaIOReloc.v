(** C01, ignore_order clause at ANY path, part 1: relocation.
    The ignore-order diff of a list of scalars that sits at path q reports exactly the entries of the
    same diff run at the root, with q put in front of every path (the pairing oracle is consulted at q
    instead of []); the Delta payload of prefixed entries is the prefixed payload. *)
From Coq Require Import List ZArith NArith Bool Arith Lia Permutation.
Import ListNotations.
From DD Require Import Base.PyStr Base.Value Base.ValueFacts Path.PathModel Diff.Tree Diff.DiffModel
  Diff.DiffFacts Hash.HashModel DiffIO.DiffIOModel
  Delta.DeltaModel Delta.DeltaFacts Delta.DeltaStruct Delta.DeltaGood Delta.DeltaIO Delta.DeltaIOProofs.

(* ---- prefixed entries ---- *)
Definition epre (q : path) (e : entry) : entry :=
  mkEntry (ekind e) (q ++ ep1 e) (q ++ ep2 e) (et1 e) (et2 e) (ediff e).
Definition rpre (q : path) (r : repinfo) : repinfo := mkRep (q ++ rpath r) (rold r) (rnew r).
Definition pre_res (q : path) (r : res) : res := (map (epre q) (fst r), map (rpre q) (snd r)).

Lemma pre_res_app2 q a b : pre_res q (app2 a b) = app2 (pre_res q a) (pre_res q b).
Proof. unfold pre_res, app2. cbn [fst snd]. rewrite !map_app. reflexivity. Qed.
Lemma pre_res_nil q : pre_res q ([], []) = ([], []).
Proof. reflexivity. Qed.

Lemma snoc_app q p k : snoc (q ++ p) k = q ++ snoc p k.
Proof. unfold snoc. rewrite app_assoc. reflexivity. Qed.

Lemma flat_rpt_pre q k p1 p2 a b js :
  flat_map (fun j => rpt nos k (snoc (q ++ p1) (PIdx j)) (snoc (q ++ p2) (PIdx j)) a b None) js
  = map (epre q) (flat_map (fun j => rpt nos k (snoc p1 (PIdx j)) (snoc p2 (PIdx j)) a b None) js).
Proof.
  induction js as [|j js IH]; cbn [flat_map map]; [reflexivity|].
  rewrite map_app, <- IH, !snoc_app. reflexivity.
Qed.

Section Reloc.
Variable H : pystr -> pystr.
Variable udiff : pystr -> pystr -> pystr.
Variable c : cfg.
Variable pairs : path -> list (nat * nat).
Variable q : path.

Definition shift (p : path) : list (nat * nat) := pairs (q ++ p).

Notation dioq := (diff_io H udiff nos nos c true pairs).
Notation dio0 := (diff_io H udiff nos nos c true shift).

Lemma rpt_pre k p1 p2 a b d :
  rpt nos k (q ++ p1) (q ++ p2) a b d = map (epre q) (rpt nos k p1 p2 a b d).
Proof. reflexivity. Qed.

Lemma diff_atom_pre a b p1 p2 :
  diff_atom udiff nos a b (q ++ p1) (q ++ p2) = map (epre q) (diff_atom udiff nos a b p1 p2).
Proof.
  unfold diff_atom. cbn [nos]. destruct (negb (ty_eqb (atom_ty a) (atom_ty b))); [reflexivity|].
  destruct a, b; try (destruct (py_eq _ _); reflexivity).
  - destruct (diff_str udiff false s s0) as [[|] d]; reflexivity.
  - destruct (diff_str udiff true s s0) as [[|] d]; reflexivity.
Qed.

(* the level of a scalar of t1 against anything *)
Lemma dio_atom_pre x y p1 p2 :
  dioq (VAtom x) y (q ++ p1) (q ++ p2) = pre_res q (dio0 (VAtom x) y p1 p2).
Proof.
  cbn [diff_io nos]. destruct (negb (ty_eqb (type_of (VAtom x)) (type_of y))); [reflexivity|].
  destruct y; try reflexivity. unfold pre_res. cbn [fst snd map]. rewrite diff_atom_pre. reflexivity.
Qed.

Section Level.
Variables X : list atom.
Variable ys : list value.
Variables p1 p2 : path.
Notation xs := (map VAtom X).
Notation recsq := (map dioq xs).
Notation recs0 := (map dio0 xs).

Lemma nth_rec_some (f : value -> rec_fn) i x : nth_error X i = Some x -> nth_rec (map f xs) i = f (VAtom x).
Proof. intros E. unfold nth_rec. apply nth_error_nth. rewrite !nth_error_map, E. reflexivity. Qed.
Lemma nth_rec_none (f : value -> rec_fn) i : nth_error X i = None -> nth_rec (map f xs) i = (fun _ _ _ => ([], [])).
Proof. intros E. unfold nth_rec. apply nth_overflow. rewrite !map_length. apply nth_error_None. exact E. Qed.

Lemma nth_rec_pre i y pa pb :
  nth_rec recsq i y (q ++ pa) (q ++ pb) = pre_res q (nth_rec recs0 i y pa pb).
Proof.
  destruct (nth_error X i) as [x|] eqn:E.
  - rewrite !(nth_rec_some _ i x E). apply dio_atom_pre.
  - rewrite !(nth_rec_none _ i E). reflexivity.
Qed.

Lemma partner_pre a rem :
  partner H c true pairs xs ys (q ++ p1) a rem = partner H c true shift xs ys p1 a rem.
Proof. reflexivity. Qed.

Lemma fold_rec_pre i0 y j0 (js : list nat) (is_ : list nat) :
  fold_right (fun i acc => app2 (nth_rec recsq i0 y (snoc (q ++ p1) (PIdx i))
                  (snoc (q ++ p2) (PIdx (if Nat.eqb (length js) 1 then j0 else i)))) acc) ([], []) is_
  = pre_res q (fold_right (fun i acc => app2 (nth_rec recs0 i0 y (snoc p1 (PIdx i))
                  (snoc p2 (PIdx (if Nat.eqb (length js) 1 then j0 else i)))) acc) ([], []) is_).
Proof.
  induction is_ as [|i l IH]; cbn [fold_right]; [reflexivity|].
  rewrite pre_res_app2, <- IH, !snoc_app, nth_rec_pre. reflexivity.
Qed.

Lemma added_one_rep_pre a rem :
  added_one_rep H nos c true pairs recsq xs ys (q ++ p1) (q ++ p2) a rem
  = (pre_res q (fst (added_one_rep H nos c true shift recs0 xs ys p1 p2 a rem)),
     snd (added_one_rep H nos c true shift recs0 xs ys p1 p2 a rem)).
Proof.
  unfold added_one_rep. rewrite partner_pre.
  destruct (partner H c true shift xs ys p1 a rem) as [r|]; cbn [fst snd].
  - f_equal. destruct (item2 ys (first_of (indexes_of a (h2 H c true ys) 0))) as [y|]; [|reflexivity].
    apply fold_rec_pre.
  - f_equal. unfold pre_res. cbn [fst snd map]. f_equal.
    apply flat_rpt_pre.
Qed.

Lemma added_loop_pre adds : forall rem,
  added_loop (added_one_rep H nos c true pairs recsq xs ys (q ++ p1) (q ++ p2)) adds rem
  = (pre_res q (fst (added_loop (added_one_rep H nos c true shift recs0 xs ys p1 p2) adds rem)),
     snd (added_loop (added_one_rep H nos c true shift recs0 xs ys p1 p2) adds rem)).
Proof.
  induction adds as [|a adds IH]; intros rem; cbn [added_loop]; [reflexivity|].
  rewrite added_one_rep_pre.
  destruct (added_one_rep H nos c true shift recs0 xs ys p1 p2 a rem) as [r1 rem1]. cbn [fst snd].
  rewrite IH.
  destruct (added_loop (added_one_rep H nos c true shift recs0 xs ys p1 p2) adds rem1) as [r2 rem2]. cbn [fst snd].
  rewrite pre_res_app2. reflexivity.
Qed.

Lemma removed_one_rep_pre r :
  removed_one_rep H nos c true xs (q ++ p1) (q ++ p2) r = pre_res q (removed_one_rep H nos c true xs p1 p2 r).
Proof. unfold removed_one_rep, pre_res. cbn [fst snd map]. rewrite flat_rpt_pre. reflexivity. Qed.

Lemma repetition_one_pre h0 :
  repetition_one H nos c true xs ys (q ++ p1) (q ++ p2) h0 = pre_res q (repetition_one H nos c true xs ys p1 p2 h0).
Proof.
  unfold repetition_one. destruct (Nat.eqb _ _); [reflexivity|]. cbn [nos]. rewrite !snoc_app. reflexivity.
Qed.

Lemma concat_res_pre {A} (f g : A -> res) l : (forall x, f x = pre_res q (g x)) ->
  concat_res (map f l) = pre_res q (concat_res (map g l)).
Proof.
  intros E. induction l as [|x l IH]; cbn [map concat_res fold_right]; [reflexivity|].
  fold (concat_res (map f l)). fold (concat_res (map g l)). rewrite pre_res_app2, <- IH, E. reflexivity.
Qed.

Lemma iter_rep_pre :
  iter_rep H nos c true pairs recsq xs ys (q ++ p1) (q ++ p2) = pre_res q (iter_rep H nos c true shift recs0 xs ys p1 p2).
Proof.
  unfold iter_rep. rewrite added_loop_pre.
  destruct (added_loop (added_one_rep H nos c true shift recs0 xs ys p1 p2) (hashes_added H c true xs ys) (hashes_removed H c true xs ys)) as [ra rem].
  cbn [fst snd]. rewrite !pre_res_app2.
  rewrite (concat_res_pre (removed_one_rep H nos c true xs (q ++ p1) (q ++ p2)) (removed_one_rep H nos c true xs p1 p2)) by exact removed_one_rep_pre.
  rewrite (concat_res_pre (repetition_one H nos c true xs ys (q ++ p1) (q ++ p2)) (repetition_one H nos c true xs ys p1 p2)) by exact repetition_one_pre.
  reflexivity.
Qed.

End Level.

(* a list of scalars at path q against any list: the entries of the run at the root, prefixed *)
Lemma recs_fix (f : value -> rec_fn) l :
  (fix go (l : list value) : list rec_fn := match l with [] => [] | x :: r => f x :: go r end) l = map f l.
Proof. induction l as [|x l IH]; cbn; [reflexivity|]. rewrite IH. reflexivity. Qed.

Theorem dio_flat_pre X ys p1 p2 :
  dioq (VList (map VAtom X)) (VList ys) (q ++ p1) (q ++ p2) = pre_res q (dio0 (VList (map VAtom X)) (VList ys) p1 p2).
Proof.
  cbn [diff_io nos type_of ty_eqb negb]. rewrite !recs_fix. unfold iter_deephash. apply iter_rep_pre.
Qed.

Theorem run_flat_pre X ys :
  diff_io H udiff nos nos c true pairs (VList (map VAtom X)) (VList ys) q q
  = pre_res q (run_diff_io H udiff nos nos c true shift (VList (map VAtom X)) (VList ys)).
Proof.
  unfold run_diff_io. pose proof (dio_flat_pre X ys [] []) as E. rewrite !app_nil_r in E. rewrite E.
  destruct (dio0 (VList (map VAtom X)) (VList ys) [] []) as [es rs]. reflexivity.
Qed.

End Reloc.

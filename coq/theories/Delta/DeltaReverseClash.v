(** C08: the clash case of default mode.  When a list index is both removed and
    added, mutual_add_removes_to_become_value_changes merges the two levels into
    a value change placed at the position of the removal; the tree of the
    reverse diff then is, kind by kind, the mirrored forward tree EXCEPT that
    its value changes come in another order ([mutual_mirror]). *)
From Coq Require Import List ZArith NArith Bool Arith Lia Permutation.
Import ListNotations.
From DD Require Import Base.PyStr Base.Value Base.ValueFacts Path.PathModel
  Diff.Tree Diff.DiffModel Diff.DiffFacts Diff.DiffFaithful Diff.DiffPaths
  Delta.DeltaModel Delta.DeltaEntries Delta.DeltaReverse Delta.DeltaReverseKinds.

Definition has_path (p : path) (l : list entry) : bool := existsb (fun e => path_eqb (ep1 e) p) l.

Lemma lwp_acc p l : forall acc,
  fold_left (fun acc e => if path_eqb (ep1 e) p then Some e else acc) l acc =
  match fold_left (fun acc e => if path_eqb (ep1 e) p then Some e else acc) l None with
  | Some x => Some x | None => acc end.
Proof.
  induction l as [|x l IH]; intros acc; cbn; [reflexivity|].
  rewrite (IH (if path_eqb (ep1 x) p then Some x else acc)), (IH (if path_eqb (ep1 x) p then Some x else None)).
  destruct (fold_left _ l None); [reflexivity|]. destruct (path_eqb (ep1 x) p); reflexivity.
Qed.

Lemma lwp_cons p x l :
  last_with_path p (x :: l) = match last_with_path p l with
                              | Some y => Some y
                              | None => if path_eqb (ep1 x) p then Some x else None
                              end.
Proof. unfold last_with_path. cbn [fold_left]. rewrite lwp_acc. reflexivity. Qed.

Lemma lwp_has p l : last_with_path p l = None <-> has_path p l = false.
Proof.
  induction l as [|x l IH]; [cbn; tauto|]. rewrite lwp_cons. unfold has_path in *. cbn [existsb].
  destruct (last_with_path p l) eqn:L.
  - split; [discriminate|]. intros H. apply orb_false_iff in H as [_ H]. apply IH in H. discriminate.
  - destruct (path_eqb (ep1 x) p); cbn; [split; discriminate|]. apply IH.
Qed.

Lemma lwp_strip p l : last_with_path p (map strip l) = option_map strip (last_with_path p l).
Proof.
  induction l as [|x l IH]; [reflexivity|]. cbn [map]. rewrite !lwp_cons, IH.
  destruct (last_with_path p l); cbn; [reflexivity|]. destruct (path_eqb (ep1 x) p); reflexivity.
Qed.

Lemma has_path_strip p l : has_path p (map strip l) = has_path p l.
Proof. unfold has_path. induction l as [|x l IH]; [reflexivity|]. cbn. rewrite IH. reflexivity. Qed.

Lemma lwp_filter_strip p k l :
  last_with_path p (ksub k l) = option_map strip (last_with_path p (filter (is_kind k) l)).
Proof. unfold ksub. apply lwp_strip. Qed.

Lemma ksub_flat_map k (g : entry -> list entry) l : ksub k (flat_map g l) = flat_map (fun e => ksub k (g e)) l.
Proof. induction l as [|x l IH]; [reflexivity|]. cbn [flat_map]. rewrite ksub_app, IH. reflexivity. Qed.

Lemma ksub_single k x : ksub k [x] = if is_kind k x then [strip x] else [].
Proof. unfold ksub. cbn. destruct (is_kind k x); reflexivity. Qed.

Lemma strip_idem e : strip (strip e) = strip e.
Proof. reflexivity. Qed.

Lemma flat_map_split {A B} (g1 g2 : A -> list B) l :
  Permutation (flat_map (fun e => g1 e ++ g2 e) l) (flat_map g1 l ++ flat_map g2 l).
Proof.
  induction l as [|x l IH]; cbn; [constructor|].
  rewrite <- !app_assoc. apply Permutation_app_head.
  eapply Permutation_trans; [apply Permutation_app_head; exact IH|].
  rewrite !app_assoc. apply Permutation_app_tail. apply Permutation_app_comm.
Qed.

(* the merged value change of a removed level r and an added level a *)
Definition merged (r a : entry) : entry := mkEntry KValue (ep1 r) (ep2 r) (et1 r) (et2 a) None.
Definition convlist (A R : list entry) : list entry :=
  flat_map (fun r => match last_with_path (ep1 r) A with Some a => [merged r a] | None => [] end) R.

Lemma ksub_cons k x l : ksub k (x :: l) = ksub k [x] ++ ksub k l.
Proof. change (x :: l) with ([x] ++ l). apply ksub_app. Qed.

Lemma has_path_lwp p l : has_path p l = match last_with_path p l with Some _ => true | None => false end.
Proof.
  destruct (last_with_path p l) eqn:L.
  - destruct (has_path p l) eqn:H; [reflexivity|]. apply lwp_has in H. congruence.
  - apply lwp_has. exact L.
Qed.

Section Mutual.
Variables A0 R0 : list entry.      (* the added / removed levels mutual looks at *)

Definition fA (a : entry) : list entry := if has_path (ep1 a) R0 then [] else [a].
Definition fR (r : entry) : list entry := if has_path (ep1 r) A0 then [] else [r].
Definition fC (r : entry) : list entry :=
  match last_with_path (ep1 r) A0 with Some a => [merged r a] | None => [] end.

Lemma mfun_add l : ksub KIterAdd (flat_map (mfun A0 R0) l) = flat_map fA (ksub KIterAdd l).
Proof.
  induction l as [|e l IH]; [reflexivity|].
  cbn [flat_map]. rewrite ksub_app, ksub_cons, flat_map_app, IH. f_equal.
  unfold mfun, fA. rewrite ksub_single. unfold is_kind. destruct (ekind e) eqn:K; cbn [rkind_eqb flat_map app];
    try (rewrite ksub_single; unfold is_kind; rewrite K; reflexivity).
  - cbn [ep1 strip]. rewrite has_path_lwp. destruct (last_with_path (ep1 e) R0); [reflexivity|].
    rewrite ksub_single. unfold is_kind. rewrite K. reflexivity.
  - destruct (last_with_path (ep1 e) A0); [|rewrite ksub_single; unfold is_kind; rewrite K; reflexivity].
    destruct (last_with_path (ep1 e) R0); rewrite ksub_single; unfold is_kind; cbn [ekind]; try rewrite K; reflexivity.
Qed.

Lemma mfun_rem l : (forall e, In e l -> ekind e = KIterRem -> has_path (ep1 e) R0 = true) ->
  ksub KIterRem (flat_map (mfun A0 R0) l) = flat_map fR (ksub KIterRem l).
Proof.
  induction l as [|e l IH]; intros H; [reflexivity|].
  cbn [flat_map]. rewrite ksub_app, ksub_cons, flat_map_app, IH by (intros x Hx; apply H; right; exact Hx). f_equal.
  unfold mfun, fR. rewrite (ksub_single KIterRem e). unfold is_kind. destruct (ekind e) eqn:K; cbn [rkind_eqb flat_map app];
    try (rewrite ksub_single; unfold is_kind; rewrite K; reflexivity).
  - destruct (last_with_path (ep1 e) R0); [reflexivity|]. rewrite ksub_single. unfold is_kind. rewrite K. reflexivity.
  - cbn [ep1 strip]. rewrite has_path_lwp. pose proof (H e (or_introl eq_refl) K) as HR. rewrite has_path_lwp in HR.
    destruct (last_with_path (ep1 e) A0); [|rewrite ksub_single; unfold is_kind; rewrite K; reflexivity].
    destruct (last_with_path (ep1 e) R0); [|discriminate]. rewrite ksub_single. reflexivity.
Qed.

Lemma mfun_val l : (forall e, In e l -> ekind e = KIterRem -> has_path (ep1 e) R0 = true) ->
  Permutation (ksub KValue (flat_map (mfun A0 R0) l)) (ksub KValue l ++ flat_map fC (ksub KIterRem l)).
Proof.
  induction l as [|e l IH]; intros H; [constructor|].
  cbn [flat_map]. rewrite ksub_app, (ksub_cons KValue e l), (ksub_cons KIterRem e l), flat_map_app.
  specialize (IH (fun x Hx => H x (or_intror Hx))).
  assert (E : Permutation (ksub KValue (mfun A0 R0 e)) (ksub KValue [e] ++ flat_map fC (ksub KIterRem [e]))).
  { unfold mfun, fC. rewrite !ksub_single. unfold is_kind. destruct (ekind e) eqn:K; cbn [rkind_eqb flat_map app];
      try (rewrite ksub_single; unfold is_kind; rewrite K; cbn; apply Permutation_refl).
    - destruct (last_with_path (ep1 e) R0); [constructor|]. rewrite ksub_single. unfold is_kind. rewrite K. constructor.
    - cbn [ep1 strip]. pose proof (H e (or_introl eq_refl) K) as HR. rewrite has_path_lwp in HR.
      destruct (last_with_path (ep1 e) A0); [|rewrite ksub_single; unfold is_kind; rewrite K; constructor].
      destruct (last_with_path (ep1 e) R0); [|discriminate]. rewrite ksub_single. cbn. apply Permutation_refl. }
  eapply Permutation_trans; [apply Permutation_app; [exact E|exact IH]|].
  rewrite <- !app_assoc. apply Permutation_app_head. rewrite !app_assoc. apply Permutation_app_tail. apply Permutation_app_comm.
Qed.

Lemma mfun_other k l : k <> KValue -> k <> KIterAdd -> k <> KIterRem ->
  ksub k (flat_map (mfun A0 R0) l) = ksub k l.
Proof.
  intros N1 N2 N3. induction l as [|e l IH]; [reflexivity|].
  cbn [flat_map]. rewrite ksub_app, (ksub_cons k e l), IH. f_equal.
  unfold mfun. destruct (ekind e) eqn:K; try reflexivity.
  - destruct (last_with_path _ _); [|reflexivity]. rewrite ksub_single. unfold is_kind. rewrite K.
    destruct k; try reflexivity; congruence.
  - assert (Z : ksub k [e] = []) by (rewrite ksub_single; unfold is_kind; rewrite K; destruct k; try reflexivity; congruence).
    rewrite Z. destruct (last_with_path _ A0); [|exact Z]. destruct (last_with_path _ R0); [|exact Z].
    rewrite ksub_single. unfold is_kind. cbn [ekind]. destruct k; try reflexivity; congruence.
Qed.

End Mutual.

(* ---- mirroring the three lists ---- *)
Lemma has_path_mirror p l : (forall e, In e l -> ep1 e = ep2 e) -> has_path p (map mirror_entry l) = has_path p l.
Proof.
  intros H. unfold has_path. induction l as [|x l IH]; [reflexivity|]. cbn.
  rewrite <- (H x (or_introl eq_refl)), IH by (intros e He; apply H; right; exact He). reflexivity.
Qed.

Lemma mirror_fA As Rs :
  (forall e, In e As -> ep1 e = ep2 e) -> (forall e, In e Rs -> ep1 e = ep2 e) ->
  flat_map (fA (map mirror_entry As)) (map mirror_entry Rs) = map mirror_entry (flat_map (fR As) Rs).
Proof.
  intros HA HR. induction Rs as [|r Rs IH]; [reflexivity|].
  cbn [map flat_map]. rewrite map_app, IH by (intros e He; apply HR; right; exact He). f_equal.
  unfold fA, fR. cbn [mirror_entry ep1]. rewrite (has_path_mirror _ As HA), <- (HR r (or_introl eq_refl)).
  destruct (has_path (ep1 r) As); reflexivity.
Qed.

Lemma mirror_fR As Rs :
  (forall e, In e As -> ep1 e = ep2 e) -> (forall e, In e Rs -> ep1 e = ep2 e) ->
  flat_map (fR (map mirror_entry Rs)) (map mirror_entry As) = map mirror_entry (flat_map (fA Rs) As).
Proof.
  intros HA HR. induction As as [|a As IH]; [reflexivity|].
  cbn [map flat_map]. rewrite map_app, IH by (intros e He; apply HA; right; exact He). f_equal.
  unfold fA, fR. cbn [mirror_entry ep1]. rewrite (has_path_mirror _ Rs HR), <- (HA a (or_introl eq_refl)).
  destruct (has_path (ep1 a) Rs); reflexivity.
Qed.

Lemma ep1_inj_NoDup l a b : NoDup (map ep1 l) -> In a l -> In b l -> ep1 a = ep1 b -> a = b.
Proof.
  induction l as [|x l IH]; intros N Ha Hb E; [destruct Ha|].
  cbn in N. inversion N as [|? ? Hx N']; subst.
  destruct Ha as [<-|Ha], Hb as [<-|Hb]; try reflexivity.
  - exfalso. apply Hx. rewrite E. apply in_map. exact Hb.
  - exfalso. apply Hx. rewrite <- E. apply in_map. exact Ha.
  - apply IH; assumption.
Qed.

Lemma lwp_unique p l a : NoDup (map ep1 l) -> (last_with_path p l = Some a <-> In a l /\ ep1 a = p).
Proof.
  intros N. split.
  - apply last_with_path_In.
  - intros [Ha E]. destruct (last_with_path p l) as [b|] eqn:L.
    + apply last_with_path_In in L as [Hb Eb]. f_equal. apply (ep1_inj_NoDup l); try assumption. congruence.
    + apply lwp_has in L. unfold has_path in L.
      assert (X : existsb (fun e => path_eqb (ep1 e) p) l = true).
      { apply existsb_exists. exists a. split; [exact Ha|]. rewrite E. apply path_eqb_refl. }
      congruence.
Qed.

Lemma In_fC A R x : NoDup (map ep1 A) ->
  (In x (flat_map (fC A) R) <-> exists r a, In r R /\ In a A /\ ep1 a = ep1 r /\ x = merged r a).
Proof.
  intros N. rewrite in_flat_map. split.
  - intros (r & Hr & Hx). unfold fC in Hx. destruct (last_with_path (ep1 r) A) as [a|] eqn:L; [|destruct Hx].
    destruct Hx as [<-|[]]. apply (lwp_unique _ _ _ N) in L as [Ha E]. exists r, a. repeat split; assumption.
  - intros (r & a & Hr & Ha & E & ->). exists r. split; [exact Hr|]. unfold fC.
    rewrite (proj2 (lwp_unique (ep1 r) A a N) (conj Ha E)). left. reflexivity.
Qed.

Lemma NoDup_fC A R : NoDup (map ep1 R) -> NoDup (flat_map (fC A) R).
Proof.
  intros N. apply (NoDup_map_inv ep1). induction R as [|r R IH]; [constructor|].
  cbn in N. inversion N as [|? ? Hr N']; subst. cbn [flat_map]. rewrite map_app.
  unfold fC at 1. destruct (last_with_path (ep1 r) A); [|apply IH; exact N'].
  cbn. constructor; [|apply IH; exact N'].
  intros Hin. apply Hr. apply in_map_iff in Hin as (x & E & Hx). apply in_flat_map in Hx as (r' & Hr' & Hx).
  unfold fC in Hx. destruct (last_with_path (ep1 r') A); [|destruct Hx]. destruct Hx as [<-|[]]. cbn in E.
  rewrite <- E. apply in_map. exact Hr'.
Qed.

Lemma mirror_entry_inj a b : mirror_entry a = mirror_entry b -> a = b.
Proof. intros H. rewrite <- (mirror_entry_invol a), <- (mirror_entry_invol b), H. reflexivity. Qed.

Lemma mirror_fC As Rs :
  (forall e, In e As -> ep1 e = ep2 e) -> (forall e, In e Rs -> ep1 e = ep2 e) ->
  NoDup (map ep1 As) -> NoDup (map ep1 Rs) ->
  Permutation (flat_map (fC (map mirror_entry Rs)) (map mirror_entry As)) (map mirror_entry (flat_map (fC As) Rs)).
Proof.
  intros HA HR NA NR.
  assert (E1 : map ep1 (map mirror_entry As) = map ep1 As).
  { rewrite map_map. apply map_ext_in. intros a Ha. cbn. symmetry. apply HA. exact Ha. }
  assert (E2 : map ep1 (map mirror_entry Rs) = map ep1 Rs).
  { rewrite map_map. apply map_ext_in. intros a Ha. cbn. symmetry. apply HR. exact Ha. }
  apply NoDup_Permutation.
  - apply NoDup_fC. rewrite E1. exact NA.
  - apply FinFun.Injective_map_NoDup; [intros a b; apply mirror_entry_inj|]. apply NoDup_fC. exact NR.
  - intros x. rewrite (In_fC _ _ x) by (rewrite E2; exact NR). rewrite in_map_iff. split.
    + intros (r' & a' & Hr' & Ha' & E & ->).
      apply in_map_iff in Hr' as (a & <- & Ha). apply in_map_iff in Ha' as (r & <- & Hr).
      cbn [mirror_entry ep1] in E.
      assert (P1 : ep2 r = ep2 a) by exact E.
      assert (P2 : ep1 r = ep1 a) by (rewrite (HR r Hr), (HA a Ha); exact P1).
      exists (merged r a). split.
      * unfold merged, mirror_entry. cbn. rewrite P1, P2. reflexivity.
      * apply (In_fC As Rs _ NA). exists r, a. repeat split; try assumption. symmetry. exact P2.
    + intros (y & <- & Hy). apply (In_fC As Rs y NA) in Hy as (r & a & Hr & Ha & E & ->).
      assert (P1 : ep2 r = ep2 a) by (rewrite <- (HR r Hr), <- (HA a Ha); symmetry; exact E).
      exists (mirror_entry a), (mirror_entry r). repeat split.
      * apply in_map. exact Ha.
      * apply in_map. exact Hr.
      * cbn. exact P1.
      * unfold merged, mirror_entry. cbn. rewrite P1, E. reflexivity.
Qed.

(* ---- mutual on one tree, in terms of the stripped kind lists ---- *)
Section OneTree.
Variable es : list entry.
Let As := ksub KIterAdd es.
Let Rs := ksub KIterRem es.
Let A0 := filter (is_kind KIterAdd) es.
Let R0 := filter (is_kind KIterRem) es.

Lemma rem_has_path e : In e es -> ekind e = KIterRem -> has_path (ep1 e) R0 = true.
Proof.
  intros He K. unfold has_path. apply existsb_exists. exists e. split; [|apply path_eqb_refl].
  apply filter_In. split; [exact He|]. rewrite <- K. apply is_kind_refl.
Qed.

Lemma fA_strip a : fA R0 a = fA Rs a.
Proof. unfold fA, Rs, ksub. rewrite has_path_strip. reflexivity. Qed.
Lemma fR_strip r : fR A0 r = fR As r.
Proof. unfold fR, As, ksub. rewrite has_path_strip. reflexivity. Qed.
Lemma fC_strip r : fC A0 r = fC As r.
Proof.
  unfold fC, As. rewrite lwp_filter_strip. fold A0. destruct (last_with_path (ep1 r) A0); reflexivity.
Qed.

Lemma mutual_add : ksub KIterAdd (mutual es) = flat_map (fA Rs) As.
Proof. rewrite mutual_mfun. fold A0 R0. rewrite mfun_add. apply flat_map_ext. exact fA_strip. Qed.
Lemma mutual_rem : ksub KIterRem (mutual es) = flat_map (fR As) Rs.
Proof. rewrite mutual_mfun. fold A0 R0. rewrite mfun_rem by exact rem_has_path. apply flat_map_ext. exact fR_strip. Qed.
Lemma mutual_val : Permutation (ksub KValue (mutual es)) (ksub KValue es ++ flat_map (fC As) Rs).
Proof.
  rewrite mutual_mfun. fold A0 R0. eapply Permutation_trans; [apply mfun_val; exact rem_has_path|].
  rewrite (flat_map_ext _ _ fC_strip). apply Permutation_refl.
Qed.
Lemma mutual_other k : k <> KValue -> k <> KIterAdd -> k <> KIterRem -> ksub k (mutual es) = ksub k es.
Proof. intros. rewrite mutual_mfun. apply mfun_other; assumption. Qed.

End OneTree.

Definition iterk_same_paths (es : list entry) : Prop :=
  forall e, In e es -> ekind e = KIterAdd \/ ekind e = KIterRem -> ep1 e = ep2 e.

Lemma ksub_ep e k es : In e (ksub k es) -> exists x, In x es /\ ekind x = k /\ e = strip x.
Proof.
  unfold ksub. intros H. apply in_map_iff in H as (x & <- & Hx). apply filter_In in Hx as [Hx K].
  exists x. split; [exact Hx|]. split; [apply is_kind_true; exact K|reflexivity].
Qed.

Lemma map_ep1_ksub k es : map ep1 (ksub k es) = map ep1 (filter (is_kind k) es).
Proof. unfold ksub. rewrite map_map. reflexivity. Qed.

(* the reverse tree after mutual vs the mirrored forward tree after mutual *)
Theorem mutual_mirror esf esr :
  keq esr (map mirror_entry esf) -> iterk_same_paths esf ->
  NoDup (map ep1 (filter (is_kind KIterAdd) esf)) -> NoDup (map ep1 (filter (is_kind KIterRem) esf)) ->
  (forall k, k <> KValue -> ksub k (mutual esr) = ksub k (map mirror_entry (mutual esf))) /\
  Permutation (ksub KValue (mutual esr)) (ksub KValue (map mirror_entry (mutual esf))).
Proof.
  intros KE HP NA NR.
  set (Af := ksub KIterAdd esf). set (Rf := ksub KIterRem esf).
  assert (EA : ksub KIterAdd esr = map mirror_entry Rf) by (rewrite (KE KIterAdd), ksub_mirror; reflexivity).
  assert (ER : ksub KIterRem esr = map mirror_entry Af) by (rewrite (KE KIterRem), ksub_mirror; reflexivity).
  assert (HA : forall e, In e Af -> ep1 e = ep2 e).
  { intros e He. apply ksub_ep in He as (x & Hx & K & ->). cbn. apply HP; [exact Hx|left; exact K]. }
  assert (HR : forall e, In e Rf -> ep1 e = ep2 e).
  { intros e He. apply ksub_ep in He as (x & Hx & K & ->). cbn. apply HP; [exact Hx|right; exact K]. }
  assert (NA' : NoDup (map ep1 Af)) by (unfold Af; rewrite map_ep1_ksub; exact NA).
  assert (NR' : NoDup (map ep1 Rf)) by (unfold Rf; rewrite map_ep1_ksub; exact NR).
  split.
  - intros k NV. rewrite ksub_mirror.
    destruct (rkind_eqb k KIterAdd) eqn:KA; [|destruct (rkind_eqb k KIterRem) eqn:KR].
    + assert (k = KIterAdd) by (destruct k; try discriminate; reflexivity). subst k. cbn [mirror_kind].
      rewrite mutual_add, mutual_rem, EA, ER. apply mirror_fA; assumption.
    + assert (k = KIterRem) by (destruct k; try discriminate; reflexivity). subst k. cbn [mirror_kind].
      rewrite mutual_add, mutual_rem, EA, ER. apply mirror_fR; assumption.
    + assert (N2 : k <> KIterAdd) by (intros ->; discriminate). assert (N3 : k <> KIterRem) by (intros ->; discriminate).
      rewrite (mutual_other esr k NV N2 N3), (KE k), ksub_mirror.
      rewrite (mutual_other esf (mirror_kind k)); [reflexivity| | |]; destruct k; try discriminate; congruence.
  - rewrite ksub_mirror. cbn [mirror_kind].
    eapply Permutation_trans; [apply mutual_val|].
    eapply Permutation_trans; [|apply Permutation_map; apply Permutation_sym; apply mutual_val].
    rewrite map_app, (KE KValue), ksub_mirror, EA, ER. cbn [mirror_kind].
    apply Permutation_app_head. apply mirror_fC; assumption.
Qed.

(** sx renderings of the numpy Delta model's payload and result for the correspondence
    check (mirrored by harness/c01np.py).  No theorem depends on this file. *)
From Coq Require Import List ZArith NArith Bool Arith String.
Import ListNotations.
From DD Require Import Base.Sx Base.PyStr Base.Value Path.PathModel Diff.Tree Diff.DiffModel Diff.NpModel
  Diff.NpShow Delta.DeltaNp.
Local Open Scope string_scope.

(* [path; new_value; old_value?] *)
Definition sx_npchange (c : npchange) : sx :=
  SL [SL (map sx_nat (nc_path c)); sx_atom (nc_new c); sx_opt sx_atom (nc_old c)].
(* values_changed in dict order, then _numpy_paths['root'] *)
Definition sx_npdelta (p : npdelta) : sx :=
  SL [SL (map sx_npchange (nd_changes p)); sx_opt sx_dtype (nd_numpy p)].
(* resulting array + number of _raise_or_log calls *)
Definition sx_npresult (r : narr * nat) : sx := SL [sx_narr (fst r); sx_nat (snd r)].

(* Delta(DeepDiff(a, b), bidirectional=bidir): is the diff representable, the payload, delta + c *)
Definition sx_np_roundtrip (ops : path -> list value -> list value -> list opcode) (zip bidir : bool)
                           (a b c : narr) : sx :=
  let es := np_run_diff ops zip a b in
  let d := delta_np bidir a b es in
  SL [sx_bool (np_in_model es); sx_npdelta d; sx_npresult (apply_np bidir d c)].

(* a hand-built payload applied to c, with the domain predicate *)
Definition sx_np_apply (bidir : bool) (p : npdelta) (c : narr) : sx :=
  SL [sx_bool (np_dom bidir p c); sx_npresult (apply_np bidir p c)].

(** C08, round 3: concrete instances for the theorems of DeltaVerifyMore.v /
    DeltaReverseFrom.v and the witnesses of what the verification does NOT cover
    (all replayed on the implementation by harness/props/c08.py, DOC_CASES). *)
From Coq Require Import List ZArith NArith Bool Arith String Lia.
Import ListNotations.
From DD Require Import Base.PyStr Base.Value Path.PathModel Diff.Tree Diff.DiffModel Diff.DiffShow
  Delta.DeltaModel Delta.DeltaGuard Delta.DeltaVerify Delta.DeltaVerifyMore Delta.DeltaVerifyEx.
Local Open Scope string_scope.

Definition mk_d (cf : cfg) (ops : path -> list value -> list value -> list opcode) (t1 t2 : value) : delta :=
  let r := run_diff hatom_simple (fun _ _ => []) ops no_paths no_paths cf t1 t2 in
  to_delta ex_conv true false ops t1 t2 (fst r) (snd r).

(* ---- dictionary_item_removed IS verified when the key exists ---- *)
(* {'a': 1, 'b': 2} -> {'a': 1}; base {'a': 1, 'b': 9} *)
Definition ex6_t1 : value := VDict [(K "a", I 1); (K "b", I 2)].
Definition ex6_t2 : value := VDict [(K "a", I 1)].
Definition ex6_d : delta := mk_d ex_cfg ex_ops ex6_t1 ex6_t2.
Definition ex6_base : value := VDict [(K "a", I 1); (K "b", I 9)].
Definition ex6_base_missing : value := VDict [(K "a", I 1)].

Example ex6_payload : d_drem ex6_d = [([PKey (K "b")], I 2)] /\ d_bidir ex6_d = true.
Proof. vm_compute. split; reflexivity. Qed.

Example ex6_detect : 0 < snd (ex_apply ex6_d ex6_base).
Proof.
  apply (apply_detects_removed_when_reached ex_conv ex_ro ex_ao ex6_d ex6_base [] [PKey (K "b")] (I 2) []);
    vm_compute; reflexivity.
Qed.

(* ... but a MISSING key is skipped silently (current_old_value is not_found: continue) *)
Example ex6_missing_key_accepted :
  rem_bad ex6_base_missing [PKey (K "b")] (I 2) = false /\
  ex_apply ex6_d ex6_base_missing = (ex6_base_missing, 0).
Proof. vm_compute. split; reflexivity. Qed.

(* ---- iterable_item_removed from a TUPLE is verified ((1,2,3) -> (1,2); base (1,2,9)) ---- *)
Definition ex7_t1 : value := VTuple [I 1; I 2; I 3].
Definition ex7_t2 : value := VTuple [I 1; I 2].
Definition ex7_d : delta := mk_d ex_cfg ex_ops ex7_t1 ex7_t2.
Definition ex7_base : value := VTuple [I 1; I 2; I 9].

Example ex7_detect : d_irem ex7_d = [([PKey (AInt 2)], I 3)] /\ 0 < snd (ex_apply ex7_d ex7_base).
Proof.
  split; [vm_compute; reflexivity|].
  apply (apply_detects_iter_removed_when_reached ex_conv ex_ro ex_ao ex7_d ex7_base [] [PKey (AInt 2)] (I 3) []);
    vm_compute; reflexivity.
Qed.

(* ---- NOT verified: set items, added items, opcodes (no error, result shown) ---- *)
(* {1,2} -> {1} on {1,5}: the absent member 2 is "removed" silently *)
Definition ex8_d : delta := mk_d ex_cfg ex_ops (VSet [AInt 1; AInt 2]) (VSet [AInt 1]).
Example ex8_set_item_not_verified :
  d_srem ex8_d = [([], [AInt 2])] /\
  ex_apply ex8_d (VSet [AInt 1; AInt 5]) = (VSet [AInt 1; AInt 5], 0).
Proof. vm_compute. split; reflexivity. Qed.

(* [1,2] -> [1,2,3] on [1,7]: the item is appended, the differing prefix is not looked at *)
Definition ex9_d : delta := mk_d ex_cfg ex_ops (VList [I 1; I 2]) (VList [I 1; I 2; I 3]).
Example ex9_added_item_not_verified :
  d_iadd ex9_d = [([PKey (AInt 2)], I 3)] /\
  ex_apply ex9_d (VList [I 1; I 7]) = (VList [I 1; I 7; I 3], 0).
Proof. vm_compute. split; reflexivity. Qed.

(* {'a':1} -> {'a':1,'b':2} on {'a':1,'b':7}: the existing value is overwritten silently *)
Definition ex10_d : delta := mk_d ex_cfg ex_ops (VDict [(K "a", I 1)]) (VDict [(K "a", I 1); (K "b", I 2)]).
Example ex10_added_key_not_verified :
  d_dadd ex10_d = [([PKey (K "b")], I 2)] /\
  ex_apply ex10_d (VDict [(K "a", I 1); (K "b", I 7)]) = (VDict [(K "a", I 1); (K "b", I 2)], 0).
Proof. vm_compute. split; reflexivity. Qed.

(* default mode, recorded opcodes ([1,2,3,4] -> [0,1,2,3,5], ex4): on [9,9,9,4] the equal
   block copies the base's items; only the values_changed entry (4 -> 5) is verified *)
Example ex4_opcodes_not_verified :
  d_ops ex4_d <> [] /\ ex_apply ex4_d (VList [I 9; I 9; I 9; I 4]) = (VList [I 0; I 9; I 9; I 9; I 5], 0).
Proof. split; [vm_compute; discriminate|vm_compute; reflexivity]. Qed.

(* ---- t2 - d is t1 only up to dict order: a removed key comes back at the end ---- *)
(* {'a': 1, 'b': 2} -> {'b': 2}: {'b': 2} - d = {'b': 2, 'a': 1} *)
Definition ex11_t1 : value := VDict [(K "a", I 1); (K "b", I 2)].
Definition ex11_t2 : value := VDict [(K "b", I 2)].
Definition ex11_d : delta := mk_d ex_cfg ex_ops ex11_t1 ex11_t2.
Example ex11_order :
  ex_sub ex11_d ex11_t2 = Some (VDict [(K "b", I 2); (K "a", I 1)], 0) /\
  VDict [(K "b", I 2); (K "a", I 1)] <> ex11_t1 /\
  veqb (VDict [(K "b", I 2); (K "a", I 1)]) ex11_t1 = true /\
  py_eqv (VDict [(K "b", I 2); (K "a", I 1)]) ex11_t1 = true.
Proof. split; [vm_compute; reflexivity|]. split; [discriminate|]. split; vm_compute; reflexivity. Qed.

(* ---- the tuple guard of the inversion theorems is needed: finding F4 seen through subtraction ---- *)
(* (1, {2}) -> (1, {3}): the set inside the tuple cannot be written back; t2 - d is t2 itself and two errors are logged *)
Definition f4s_t1 : value := VTuple [I 1; VSet [AInt 2]].
Definition f4s_t2 : value := VTuple [I 1; VSet [AInt 3]].
Definition f4s_d : delta := mk_d ex_cfg ex_ops f4s_t1 f4s_t2.
Example f4s_sub : wf f4s_t1 = true /\ wf f4s_t2 = true /\ ex_sub f4s_d f4s_t2 = Some (f4s_t2, 2) /\ py_eqv f4s_t2 f4s_t1 = false.
Proof. vm_compute. repeat split. Qed.

(* ---- subtraction from a corrupted t2: {'a':[1,5,3],'b':'y','c':'7'} with root['a'][1] = 99 / root['c'] = '8' ---- *)
Definition ex_t2_bad_val : value := VDict [(K "a", VList [I 1; I 99; I 3]); (K "b", VAtom (K "y")); (K "c", VAtom (K "7"))].
Definition ex_t2_bad_type : value := VDict [(K "a", VList [I 1; I 5; I 3]); (K "b", VAtom (K "y")); (K "c", VAtom (K "8"))].
Example ex_sub_detects :
  indep_verified (reverse ex_d) = true /\
  (exists r n, ex_sub ex_d ex_t2_bad_val = Some (r, n) /\ 0 < n) /\
  (exists r n, ex_sub ex_d ex_t2_bad_type = Some (r, n) /\ 0 < n) /\
  ex_sub ex_d ex_t2 = Some (ex_t1, 0).
Proof.
  assert (I0 : indep_verified (reverse ex_d) = true) by (vm_compute; reflexivity).
  split; [exact I0|]. split; [|split; [|vm_compute; reflexivity]].
  - apply (sub_detects_value ex_conv ex_ro ex_ao ex_d ex_t2_bad_val
             (mkVC [PKey (K "a"); PKey (AInt 1)] None (Some (I 2)) (I 5))).
    + reflexivity.
    + unfold indep_verified in I0. apply andb_true_iff in I0 as [I0 _]. apply andb_true_iff in I0 as [I0 _]. exact I0.
    + vm_compute. left. reflexivity.
    + vm_compute. reflexivity.
  - apply (sub_detects_type ex_conv ex_ro ex_ao ex_d ex_t2_bad_type
             (mkTC [PKey (K "c")] None TInt TStr (Some (I 7)) (Some (VAtom (K "7"))))).
    + reflexivity.
    + exact I0.
    + vm_compute. left. reflexivity.
    + vm_compute. reflexivity.
Qed.

(* ---- a differing removed dict item, from the INITIAL base, with a sibling value change in the same dict and a list
   removal elsewhere: {'d': {'a':1,'b':2,'c':3}, 'l': [1,2,3]} -> {'d': {'a':10,'c':3}, 'l': [1,2]}; base has d.b = 9 ---- *)
From DD Require Import Delta.DeltaVerifyBase.
Definition ex12_t1 : value := VDict [(K "d", VDict [(K "a", I 1); (K "b", I 2); (K "c", I 3)]); (K "l", VList [I 1; I 2; I 3])].
Definition ex12_t2 : value := VDict [(K "d", VDict [(K "a", I 10); (K "c", I 3)]); (K "l", VList [I 1; I 2])].
Definition ex12_base : value := VDict [(K "d", VDict [(K "a", I 1); (K "b", I 9); (K "c", I 3)]); (K "l", VList [I 1; I 2; I 3])].
Definition ex12_d : delta := mk_d ex_cfg ex_ops ex12_t1 ex12_t2.
Example ex12_detect :
  d_val ex12_d <> [] /\ d_irem ex12_d <> [] /\
  leaves_alone ([PKey (K "d")] ++ [PKey (K "b")])%list ex12_d = true /\ earlier_ok ([PKey (K "d")] ++ [PKey (K "b")])%list [] = true /\
  0 < snd (ex_apply ex12_d ex12_base).
Proof.
  split; [vm_compute; discriminate|]. split; [vm_compute; discriminate|].
  split; [vm_compute; reflexivity|]. split; [reflexivity|].
  apply (apply_detects_removed_initial ex_conv ex_ro ex_ao (fun l x H => H) (fun l x H => H)
           [PKey (K "d")] (PKey (K "b")) (I 9) ex12_d ex12_base [] (I 2) []
           [(K "a", I 1); (K "b", I 9); (K "c", I 3)]); vm_compute; reflexivity.
Qed.

(** C01 - node lemma for all-atom lists and tuples under difflib alignment. *)
From Coq Require Import List ZArith NArith Bool Arith Lia Permutation.
Import ListNotations.
From DD Require Import Base.PyStr Base.Value Base.ValueFacts Path.PathModel Diff.Tree Diff.DiffModel
  Diff.DiffFacts Diff.DiffFaithful Delta.DeltaModel Delta.DeltaFacts Delta.DeltaLocal Delta.DeltaEntries
  Delta.DeltaStruct Delta.DeltaRun Delta.DeltaGuard Delta.DeltaGood Delta.DeltaNodes Delta.DeltaCompose
  Delta.DeltaListNode Delta.DeltaListSim Delta.DeltaSets Delta.DeltaSeq Delta.DeltaSeqNodes Delta.DeltaOpcodes Delta.DeltaSingle.

Section Leaves.
Variable hatom : atom -> pystr.
Variable udiff : pystr -> pystr -> pystr.
Variable ops : path -> list value -> list value -> list opcode.
Variable c : cfg.
Variable conv : ty -> value -> option value.
Variables bidir always : bool.
Notation Good := (Good hatom udiff ops c conv bidir always).
Notation GoodD := (GoodD conv bidir always).
Notation td := (to_delta conv bidir always ops).

Hypothesis Hconv : forall ty0 v v', conv ty0 v = Some v' -> type_of v' = ty0.

(* at most one entry and nothing recorded: one removal, one insertion or one change *)
Lemma caseA (tup : bool) xs ys q T1 T2 :
  forallb is_atom xs = true -> forallb is_atom ys = true ->
  alias_free (flat_map atoms_of xs ++ flat_map atoms_of ys) ->
  (tup = true -> length xs = length ys) ->
  valid_ops xs ys (ops q xs ys) ->
  length (by_opcodes udiff nos (ops q xs ys) xs ys q q) <= 1 ->
  GoodD (td T1 T2 (mutual (by_opcodes udiff nos (ops q xs ys) xs ys q q)) []) (length q) (sroot tup xs) (sroot tup ys).
Proof.
  intros Ax Ay AF L [Tl HB] Len.
  apply GoodD0_exact; [exact (ordfree_atoms tup xs Ax)|].
  destruct (by_opcodes udiff nos (ops q xs ys) xs ys q q) as [|e [|e2 es']] eqn:Ees; [| |cbn in Len; lia].
  - (* nothing reported: the sequences coincide *)
    pose proof (bo_nil udiff q xs ys Ax Ay AF _ 0 0 Tl HB Ees) as E0. cbn [skipn] in E0. subst ys.
    split; [reflexivity|]. apply runs_inplace; try reflexivity. apply veqb_refl. apply wf_sroot. exact Ax.
  - destruct (bo_one udiff q xs ys Ax Ay AF _ 0 e Tl HB Ees) as (P & X & Y & Sx & Hx & Hy & Sh).
    cbn [skipn Nat.add] in Hx, Hy, Sh. subst xs ys.
    destruct Sh as [(x & -> & -> & ->)|[(y & -> & -> & ->)|(a & b & -> & -> & Hd)]].
    + destruct tup.
      * exfalso. specialize (L eq_refl). rewrite !app_length in L. cbn in L. lia.
      * cbn [sroot app]. apply good_single_rem. exact Ax.
    + destruct tup.
      * exfalso. specialize (L eq_refl). rewrite !app_length in L. cbn in L. lia.
      * cbn [sroot app]. apply good_single_add. exact Ay.
    + destruct (diff_atom_shape udiff a b (snoc q (PIdx (length P))) (snoc q (PIdx (length P)))) as [E0|(k & d & Hk & E0)];
        rewrite E0 in Hd; [discriminate|]. inversion Hd; subst e.
      apply seq_positional_good; try assumption.
      * intros e [<-|[]]. split; [cbn; tauto|]. exists (length P), a, b. rewrite Nat.sub_0_r.
        repeat split; try reflexivity; try lia; (rewrite nth_error_app2 by lia; rewrite Nat.sub_diag; reflexivity).
      * cbn [map]. rewrite eidx_snoc. constructor; [intros []|constructor].
      * intros j Hj. destruct (Nat.eq_dec j (length P)) as [->|Nj]; [left; cbn [map]; rewrite eidx_snoc; left; reflexivity|right].
        destruct (Nat.lt_ge_cases j (length P)) as [Hlt|Hge].
        -- rewrite (nth_error_app1 P ([VAtom a] ++ Sx) Hlt), (nth_error_app1 P ([VAtom b] ++ Sx) Hlt). reflexivity.
        -- rewrite (nth_error_app2 P ([VAtom a] ++ Sx) Hge), (nth_error_app2 P ([VAtom b] ++ Sx) Hge).
           destruct (j - length P) as [|m] eqn:Em; [lia|]. reflexivity.
      * rewrite !app_length. reflexivity.
Qed.

Lemma edv_filter es : edv (filter kvt es) = edv es.
Proof.
  unfold edv. induction es as [|e es IH]; cbn; [reflexivity|]. unfold kvt at 1, iskind at 2.
  destruct (ekind e) eqn:K; cbn [rkind_eqb flat_map app]; try exact IH; unfold iskind at 1; rewrite K; cbn [rkind_eqb app]; rewrite IH; reflexivity.
Qed.
Lemma edt_filter es : edt (filter kvt es) = edt es.
Proof.
  unfold edt. induction es as [|e es IH]; cbn; [reflexivity|]. unfold kvt at 1, iskind at 2.
  destruct (ekind e) eqn:K; cbn [rkind_eqb flat_map app]; try exact IH; unfold iskind at 1; rewrite K; cbn [rkind_eqb app]; rewrite IH; reflexivity.
Qed.

Lemma edits_nodup_kvt es : NoDup (map eidx (filter kvt es)) -> NoDup (map fst (edv es ++ edt es)).
Proof. intros H. rewrite <- edv_filter, <- edt_filter. apply edits_nodup. exact H. Qed.

Lemma seq_of_sroot t l : seq_of (Some (sroot t l)) = l.
Proof. destruct t; reflexivity. Qed.

(* the opcodes are recorded: stray in-place changes, then the rebuild *)
Lemma caseC (tup : bool) xs ys q T1 T2 :
  resolve T1 q = Some (sroot tup xs) -> resolve T2 q = Some (sroot tup ys) ->
  forallb is_atom xs = true -> forallb is_atom ys = true ->
  alias_free (flat_map atoms_of xs ++ flat_map atoms_of ys) ->
  valid_ops xs ys (ops q xs ys) ->
  GoodD (td T1 T2 (mutual (by_opcodes udiff nos (ops q xs ys) xs ys q q)) [q]) (length q) (sroot tup xs) (sroot tup ys).
Proof.
  intros R1 R2 Ax Ay AF [Tl HB].
  apply GoodD0_exact; [exact (ordfree_atoms tup xs Ax)|].
  set (os := ops q xs ys) in *. set (es := by_opcodes udiff nos os xs ys q q).
  destruct (bo_struct udiff q xs ys Ax Ay os 0 0 Tl) as (S1 & S2 & S3). fold es in S1, S2, S3.
  pose proof (mutual_ok q xs 0 (length xs) es S1) as MO.
  pose proof (mutual_subl es) as MS.
  assert (KS : forall e, In e (mutual es) -> (exists k, ep1 e = snoc q (PIdx k)) /\ seq_kind e).
  { intros e He. eapply Forall_forall in MO; [|exact He]. destruct MO as (A & B & _). auto. }
  assert (DROP : forall e, In e (mutual es) -> in_paths (removelast (ep1 e)) [q] = true).
  { intros e He. destruct (KS e He) as [(k & Hp) _]. rewrite Hp. unfold snoc. rewrite removelast_last.
    unfold in_paths. cbn. rewrite path_eqb_refl. reflexivity. }
  assert (EIN : forall iv, In iv (edv (mutual es) ++ edt (mutual es)) -> In (fst iv) (t1s es)).
  { intros iv Hiv. apply edits_In in Hiv as (e & He & K & ->). cbn [fst].
    eapply Forall_forall in MO; [|exact He]. destruct MO as (_ & _ & C). apply C.
    unfold kvt. destruct K as [-> | ->]; reflexivity. }
  apply (seq_inplace conv bidir always ops T1 T2 q Hconv tup xs ys (mutual es) [q]
           (Some (map (opv_of bidir always xs ys) os))).
  - intros e He K. eapply Forall_forall in MO; [|exact He]. destruct MO as (_ & _ & C). apply C.
    unfold kvt. destruct K as [-> | ->]; reflexivity.
  - unfold to_delta. cbn [d_irem]. apply flat_map_nil_in. intros e He. destruct (ekind e); try reflexivity. rewrite (DROP e He). reflexivity.
  - unfold to_delta. cbn [d_iadd]. apply flat_map_nil_in. intros e He. destruct (ekind e); try reflexivity. rewrite (DROP e He). reflexivity.
  - unfold to_delta. cbn [d_dadd]. apply flat_map_nil_in. intros e He. destruct (KS e He) as [_ [K|[K|[K|[K|K]]]]]; rewrite K; reflexivity.
  - unfold to_delta. cbn [d_drem]. apply flat_map_nil_in. intros e He. destruct (KS e He) as [_ [K|[K|[K|[K|K]]]]]; rewrite K; reflexivity.
  - unfold to_delta. cbn [d_moved]. apply flat_map_nil_in. intros e He. destruct (ekind e); try reflexivity. rewrite (DROP e He). reflexivity.
  - rewrite td_sadd. apply sg_none. intros e He. unfold sel_add. destruct (KS e He) as [_ [K|[K|[K|[K|K]]]]]; rewrite K; reflexivity.
  - rewrite td_srem. apply sg_none. intros e He. unfold sel_rem. destruct (KS e He) as [_ [K|[K|[K|[K|K]]]]]; rewrite K; reflexivity.
  - unfold to_delta. cbn [d_ops map]. rewrite R1, R2, !seq_of_sroot. reflexivity.
  - apply edits_nodup_kvt. apply sorted_NoDup. eapply subl_sorted; eassumption.
  - intros iv Hiv. apply EIN in Hiv. unfold t1s in Hiv. apply in_map_iff in Hiv as (e & <- & He). apply filter_In in He as [He S3'].
    eapply Forall_forall in S1; [|exact He]. destruct S1 as (_ & _ & C & _). destruct (C S3') as [Hr _]. lia.
  - rewrite (transformed_tiles bidir always xs ys AF _ os 0 0 Tl HB); [reflexivity|].
    intros o Ho Tg k Hk. apply apply_edits_off.
    + intros iv Hiv. apply EIN in Hiv. unfold t1s in Hiv. apply in_map_iff in Hiv as (e & <- & He). apply filter_In in He as [He S3'].
      eapply Forall_forall in S1; [|exact He]. destruct S1 as (_ & _ & C & _). destruct (C S3') as [Hr _]. lia.
    + intros Hin. apply in_map_iff in Hin as (iv & <- & Hiv). apply EIN in Hiv. destruct (S3 _ Hiv) as [_ Hcl].
      apply (Hcl o Ho Tg Hk).
  - exact Ay.
Qed.

Lemma Good_leaf_seq (tup : bool) xs ys q :
  zip c = false -> forallb is_atom xs = true -> forallb is_atom ys = true ->
  alias_free (flat_map atoms_of xs ++ flat_map atoms_of ys) ->
  (tup = true -> length xs = length ys) ->
  valid_ops xs ys (ops q xs ys) ->
  Good (if tup then VTuple xs else VList xs) (if tup then VTuple ys else VList ys) q.
Proof.
  intros Z Ax Ay AF L Hvalid T1 T2 R1 R2.
  change (if tup then VTuple xs else VList xs) with (sroot tup xs) in *.
  change (if tup then VTuple ys else VList ys) with (sroot tup ys) in *.
  assert (ED : E hatom udiff ops c (sroot tup xs) (sroot tup ys) q
               = (let '(es, rec) := default_leaf_list udiff ops nos xs ys q q in (es, if rec then [q] else []))).
  { unfold E. destruct tup; cbn [sroot]; [rewrite diff_tuple by reflexivity|rewrite diff_list by reflexivity];
      unfold seq_body; rewrite Z, Ax, Ay; reflexivity. }
  unfold D. rewrite ED. unfold default_leaf_list.
  destruct (1 <? length (by_opcodes udiff nos (ops q xs ys) xs ys q q)) eqn:L1.
  - destruct (length (pairs_leaf udiff nos xs ys 0 0 q q) <=? length (by_opcodes udiff nos (ops q xs ys) xs ys q q)) eqn:L2.
    + (* the pairwise pass wins *)
      cbn [fst snd]. destruct (pairs_leaf_go_list hatom udiff ops c q xs ys 0 Ax Ay) as [P1 P2]. rewrite P1.
      destruct tup.
      * destruct (GL_atoms hatom udiff ops c q xs ys 0 Ax Ay (L eq_refl)) as (S0 & HP & ND & HC).
        apply GoodD0_exact; [exact (ordfree_atoms true xs Ax)|].
        apply seq_positional_good; try assumption. apply (L eq_refl).
      * cbn [sroot] in *.
        assert (EDL : to_delta conv bidir always ops T1 T2 (mutual (fst (GLa hatom udiff ops c q 0 xs ys))) []
                      = DL hatom udiff ops c conv bidir always T1 T2 q 0 xs ys).
        { unfold DL. fold (GLa hatom udiff ops c q 0 xs ys). unfold GLa in P2. unfold GL. rewrite P2. reflexivity. }
        rewrite EDL. apply list_node_good; try assumption.
        -- apply forallb_forall. intros v Hv. eapply forallb_forall in Ay; [|exact Hv]. destruct v; try discriminate; reflexivity.
        -- apply forallb_forall. intros v Hv. eapply forallb_forall in Ax; [|exact Hv]. destruct v; try discriminate; reflexivity.
        -- intros k x y Hx Hy. pose proof (nth_error_In _ _ Hx) as Ix. pose proof (nth_error_In _ _ Hy) as Iy.
           eapply forallb_forall in Ax; [|exact Ix]. eapply forallb_forall in Ay; [|exact Iy].
           destruct x as [a| | | | |]; try discriminate. destruct y as [b| | | | |]; try discriminate.
           apply Good_atom.
    + cbn [fst snd]. apply caseC; try assumption.
  - cbn [fst snd]. apply caseA; try assumption.
    apply Nat.ltb_ge in L1. exact L1.
Qed.

End Leaves.

(** C08 - the hypotheses / guards of the C08 theorems as boolean observables,
    evaluated by the correspondence check on what the implementation supplies
    (the difflib opcodes, the result tree):
      [indep_verified d]      guard of the detection theorems (a theorem for diff deltas)
      [ops_table_disjointb]   [ops_ok 0] on every opcode list difflib returned
      [sym_okb]               guard of the mirror theorem, incl. "moved items identical"
      [keys_nonneg t2]        guard of the independence theorem
    [sym_okb] is sound for [sym_ok]. *)
From Coq Require Import List ZArith NArith Bool Arith Lia.
Import ListNotations.
From DD Require Import Base.Sx Base.PyStr Base.Value Base.ValueFacts Path.PathModel Diff.Tree Diff.DiffModel
  Diff.DiffFaithful Delta.DeltaModel Delta.DeltaVerify Delta.DeltaVerifyIndep Delta.DeltaReverse Delta.DeltaReverseDiff Delta.DeltaReverseSym Delta.DeltaReverseDefault Delta.DeltaReverseInplace Diff.DiffPaths Delta.DeltaGuard Delta.DeltaChain Delta.DeltaHyp.

Definition ops_table_disjointb (tbl : list (path * list opcode)) : bool :=
  forallb (fun pe => ops_ok 0 (snd pe)) tbl.

(* ---- structural equality of values is equality ---- *)
Fixpoint vlist_eqb (xs ys : list value) : bool :=
  match xs, ys with
  | [], [] => true
  | x :: xs', y :: ys' => value_eqb x y && vlist_eqb xs' ys'
  | _, _ => false
  end.
Fixpoint alist_eqb (xs ys : list atom) : bool :=
  match xs, ys with
  | [], [] => true
  | x :: xs', y :: ys' => atom_eqb x y && alist_eqb xs' ys'
  | _, _ => false
  end.
Fixpoint dlist_eqb (xs ys : list (atom * value)) : bool :=
  match xs, ys with
  | [], [] => true
  | (k, v) :: xs', (k', v') :: ys' => atom_eqb k k' && value_eqb v v' && dlist_eqb xs' ys'
  | _, _ => false
  end.

Lemma value_eqb_list xs ys : value_eqb (VList xs) (VList ys) = vlist_eqb xs ys.
Proof. reflexivity. Qed.
Lemma value_eqb_tuple xs ys : value_eqb (VTuple xs) (VTuple ys) = vlist_eqb xs ys.
Proof. reflexivity. Qed.
Lemma value_eqb_dict xs ys : value_eqb (VDict xs) (VDict ys) = dlist_eqb xs ys.
Proof. reflexivity. Qed.
Lemma value_eqb_set xs ys : value_eqb (VSet xs) (VSet ys) = alist_eqb xs ys.
Proof. reflexivity. Qed.
Lemma value_eqb_frozen xs ys : value_eqb (VFrozen xs) (VFrozen ys) = alist_eqb xs ys.
Proof. reflexivity. Qed.

Lemma alist_eqb_eq xs : forall ys, alist_eqb xs ys = true -> xs = ys.
Proof.
  induction xs as [|x xs IH]; intros [|y ys] H; cbn in H; try discriminate; [reflexivity|].
  apply andb_true_iff in H as [H1 H2]. apply atom_eqb_eq in H1. rewrite H1, (IH ys H2). reflexivity.
Qed.

Lemma value_eqb_eq : forall a b, value_eqb a b = true -> a = b.
Proof.
  induction a as [x|xs IH|xs IH|kvs IH|xs|xs] using value_ind'; intros b H; destruct b; try discriminate H.
  - cbn in H. apply atom_eqb_eq in H. congruence.
  - rewrite value_eqb_list in H. f_equal. revert xs0 H. induction IH as [|x xs Hx _ IHl]; intros [|y ys] H; cbn in H; try discriminate; [reflexivity|].
    apply andb_true_iff in H as [H1 H2]. rewrite (Hx y H1), (IHl ys H2). reflexivity.
  - rewrite value_eqb_tuple in H. f_equal. revert xs0 H. induction IH as [|x xs Hx _ IHl]; intros [|y ys] H; cbn in H; try discriminate; [reflexivity|].
    apply andb_true_iff in H as [H1 H2]. rewrite (Hx y H1), (IHl ys H2). reflexivity.
  - rewrite value_eqb_dict in H. f_equal. revert kvs0 H. induction IH as [|[k v] xs Hx _ IHl]; intros [|[k' v'] ys] H; cbn in H; try discriminate; [reflexivity|].
    apply andb_true_iff in H as [H H3]. apply andb_true_iff in H as [H1 H2]. apply atom_eqb_eq in H1.
    cbn in Hx. rewrite H1, (Hx v' H2), (IHl ys H3). reflexivity.
  - rewrite value_eqb_set in H. f_equal. apply alist_eqb_eq. exact H.
  - rewrite value_eqb_frozen in H. f_equal. apply alist_eqb_eq. exact H.
Qed.

Definition ovalue_eqb (a b : option value) : bool :=
  match a, b with Some x, Some y => value_eqb x y | None, None => true | _, _ => false end.
Lemma ovalue_eqb_eq a b : ovalue_eqb a b = true -> a = b.
Proof. destruct a, b; cbn; intros H; try discriminate; [apply value_eqb_eq in H; congruence|reflexivity]. Qed.

Definition path_guardb (e : entry) : bool :=
  implb (pystr_eqb (render (ep1 e)) (render (ep2 e))) (path_eqb (npath (ep1 e)) (npath (ep2 e))).

Definition sym_okb (e : entry) : bool :=
  match ekind e with
  | KValue => path_guardb e && match et2 e with Some _ => true | None => false end
  | KType => path_guardb e
  | KIterMoved => ovalue_eqb (et1 e) (et2 e) && path_eqb (removelast (ep1 e)) (removelast (ep2 e))
  | KRepetition => true
  | _ => path_eqb (ep1 e) (ep2 e)
  end.

Lemma path_guardb_sound e : path_guardb e = true -> path_guard e.
Proof.
  unfold path_guardb, path_guard. intros H R. apply pystr_eqb_eq in R. rewrite R in H. cbn in H.
  apply path_eqb_eq. exact H.
Qed.

Lemma sym_okb_sound e : sym_okb e = true -> sym_ok e.
Proof.
  unfold sym_okb, sym_ok. destruct (ekind e); intros H; try (apply path_eqb_eq; exact H); try exact I.
  - apply path_guardb_sound. exact H.
  - apply andb_true_iff in H as [H1 H2]. split; [apply path_guardb_sound; exact H1|].
    destruct (et2 e) as [b|]; [exists b; reflexivity|discriminate].
  - apply andb_true_iff in H as [H1 H2]. split; [apply ovalue_eqb_eq; exact H1|apply path_eqb_eq; exact H2].
Qed.

Lemma sym_okb_all_sound es : forallb sym_okb es = true -> Forall sym_ok es.
Proof. intros H. apply Forall_forall. intros e He. apply sym_okb_sound. eapply forallb_forall in H; eassumption. Qed.

(* ---- korder (guard of the positional-mode inversion theorem) ---- *)
Fixpoint korderb (t1 t2 : value) {struct t1} : bool :=
  match t1, t2 with
  | VList xs, VList ys | VTuple xs, VTuple ys =>
      (fix go (xs ys : list value) {struct xs} : bool :=
         match xs, ys with
         | x :: xs', y :: ys' => korderb x y && go xs' ys'
         | _, _ => true
         end) xs ys
  | VDict kvs1, VDict kvs2 =>
      alist_eqb (filter (has_key kvs2) (map fst kvs1)) (filter (has_key kvs1) (map fst kvs2)) &&
      (fix go (l : list (atom * value)) : bool :=
         match l with
         | [] => true
         | (k, v1) :: r => match assoc k kvs2 with Some v2 => korderb v1 v2 | None => true end && go r
         end) kvs1
  | _, _ => true
  end.

Lemma korderb_sound : forall t1 t2, korderb t1 t2 = true -> korder t1 t2.
Proof.
  induction t1 as [a|xs IH|xs IH|kvs IH|xs|xs] using value_ind'; intros t2 H; destruct t2; try exact I.
  - cbn in H |- *. revert xs0 H. induction IH as [|x xs Hx _ IHl]; intros [|y ys] H; try exact I.
    apply andb_true_iff in H as [H1 H2]. split; [apply Hx; exact H1|apply IHl; exact H2].
  - cbn in H |- *. revert xs0 H. induction IH as [|x xs Hx _ IHl]; intros [|y ys] H; try exact I.
    apply andb_true_iff in H as [H1 H2]. split; [apply Hx; exact H1|apply IHl; exact H2].
  - cbn in H |- *. apply andb_true_iff in H as [H1 H2]. split; [apply alist_eqb_eq; exact H1|].
    clear H1. induction IH as [|[k v] l Hk _ IHl]; [exact I|].
    apply andb_true_iff in H2 as [H2 H3]. split; [|apply IHl; exact H3].
    destruct (assoc k kvs0); [apply Hk; exact H2|exact I].
Qed.

(* ---- no_clash (guard of the default-mode inversion theorem) ---- *)
Definition no_clashb (es : list entry) : bool :=
  forallb (fun a => forallb (fun r => negb (is_kind KIterAdd a && is_kind KIterRem r && path_eqb (ep1 a) (ep1 r))) es) es.

Lemma path_eqb_rfl p : path_eqb p p = true.
Proof. induction p as [|k p IH]; [reflexivity|]. cbn. rewrite pkey_eqb_refl. exact IH. Qed.

Lemma no_clashb_sound es : no_clashb es = true -> no_clash es.
Proof.
  intros H a r Ha Hr Ka Kr E. unfold no_clashb in H.
  eapply forallb_forall in H; [|exact Ha]. eapply forallb_forall in H; [|exact Hr].
  unfold is_kind in H. rewrite Ka, Kr, E, path_eqb_rfl in H. discriminate.
Qed.

(* ---- guards of the clash-case theorem ---- *)
Definition ntpb (v : value) (p : path) : bool :=
  match p with
  | [] => true
  | _ => match resolve v (removelast p) with Some o => negb (is_tuple o) | None => true end
  end.
Lemma ntpb_sound v p : ntpb v p = true -> ntp v p.
Proof.
  unfold ntpb, ntp. destruct p; [intros _; exact I|]. destruct (resolve v (removelast (p :: p0))); [|intros _; exact I].
  intros H. apply negb_true_iff in H. exact H.
Qed.
Definition ntp_valsb (t2 : value) (d : delta) : bool := forallb (fun cc => ntpb t2 (vc_path cc)) (d_val (reverse d)).
Lemma ntp_valsb_sound t2 d : ntp_valsb t2 d = true -> forall cc, In cc (d_val (reverse d)) -> ntp t2 (vc_path cc).
Proof. intros H cc Hcc. apply ntpb_sound. eapply forallb_forall in H; eassumption. Qed.
Definition ops_table_sorted2b (tbl : list (path * list opcode)) : bool := forallb (fun pe => ops_ok2 0 0 (snd pe)) tbl.

Definition sx_c08hyp8 (indep disj sym kn ko nc nt s2 : bool) : sx :=
  SL [sx_bool indep; sx_bool disj; sx_bool sym; sx_bool kn; sx_bool ko; sx_bool nc; sx_bool nt; sx_bool s2].

Definition sx_c08hyp6 (indep disj sym kn ko nc : bool) : sx :=
  SL [sx_bool indep; sx_bool disj; sx_bool sym; sx_bool kn; sx_bool ko; sx_bool nc].

Definition sx_c08hyp (indep disj sym kn : bool) : sx := SL [sx_bool indep; sx_bool disj; sx_bool sym; sx_bool kn].
Definition sx_c08hyp5 (indep disj sym kn ko : bool) : sx := SL [sx_bool indep; sx_bool disj; sx_bool sym; sx_bool kn; sx_bool ko].

(* round 3: + the order oracles sort the lists of the REVERSED delta ([orders_ok_at ro ao (reverse d)], guard of
   C08_sub_inverts_from / C08_back_and_forth_default), + ordfree t1, ordfree t2 (the exact-equality fragment) *)
Definition sx_c08hyp11 (indep disj sym kn ko nc nt s2 ordr of1 of2 : bool) : sx :=
  SL [sx_bool indep; sx_bool disj; sx_bool sym; sx_bool kn; sx_bool ko; sx_bool nc; sx_bool nt; sx_bool s2;
      sx_bool ordr; sx_bool of1; sx_bool of2].

(* + [indep_verified (reverse d)]: guard of C08_sub_detects_corruption / _type *)
Definition sx_c08hyp12 (indep disj sym kn ko nc nt s2 ordr of1 of2 indr : bool) : sx :=
  SL [sx_bool indep; sx_bool disj; sx_bool sym; sx_bool kn; sx_bool ko; sx_bool nc; sx_bool nt; sx_bool s2;
      sx_bool ordr; sx_bool of1; sx_bool of2; sx_bool indr].

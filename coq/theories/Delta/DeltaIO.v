(** Model of the ignore_order part of deepdiff/delta.py + model.py DeltaResult:
    with ignore_order=True the added / removed items of a list are carried as index maps
    (iterable_items_added_at_indexes / iterable_items_removed_at_indexes, the new indexes of a
    repetition_change are added items), and Delta.__add__ rebuilds every such list in
    _do_ignore_order: the items fixed at their new indexes, the surviving old items in their old
    order in the remaining places (_do_ignore_order_get_old: an old item that is a member of the
    AnySet of added values is dropped, an old item at a removed index is dropped when it == the
    removed value, otherwise an error is logged and it stays).
    The other payload categories and passes are those of Delta/DeltaModel.v.  Definitions only. *)
From Coq Require Import List ZArith NArith Bool Arith.
Import ListNotations.
From DD Require Import Base.PyStr Base.Value Path.PathModel Diff.Tree Diff.DiffModel Hash.HashModel
  DiffIO.DiffIOModel Delta.DeltaModel.

(* index -> item, in insertion order (a Python dict) *)
Definition imap := list (nat * value).
Fixpoint imap_set (m : imap) (i : nat) (v : value) : imap :=
  match m with
  | [] => [(i, v)]
  | (j, w) :: r => if Nat.eqb j i then (j, v) :: r else (j, w) :: imap_set r i v
  end.
Fixpoint imap_get (m : imap) (i : nat) : option value :=
  match m with
  | [] => None
  | (j, w) :: r => if Nat.eqb j i then Some w else imap_get r i
  end.
Fixpoint imap_del (m : imap) (i : nat) : imap :=
  match m with
  | [] => []
  | (j, w) :: r => if Nat.eqb j i then r else (j, w) :: imap_del r i
  end.

Fixpoint pmap_set (l : list (path * imap)) (p : path) (i : nat) (v : value) : list (path * imap) :=
  match l with
  | [] => [(p, [(i, v)])]
  | (q, m) :: r => if path_eqb p q then (q, imap_set m i v) :: r else (q, m) :: pmap_set r p i v
  end.
Definition pmap_get (l : list (path * imap)) (p : path) : imap :=
  match find (fun x => path_eqb (fst x) p) l with Some x => snd x | None => [] end.

Record delta_io := mkDIO {
  io_base : delta;                       (* values_changed, type_changes, dict items, set items *)
  io_added : list (path * imap);         (* iterable_items_added_at_indexes *)
  io_removed : list (path * imap)        (* iterable_items_removed_at_indexes *)
}.

(* the param of the last step of a level path *)
Definition last_idx (p : path) : nat :=
  match last p (PIdx 0) with
  | PIdx i => i
  | PKey (AInt z) => Z.to_nat z
  | PKey _ => 0
  end.
Definition oval (o : option value) : value := match o with Some v => v | None => VAtom ANone end.

Section DeltaIO.
Variable H : pystr -> pystr.             (* the hasher of DeepHash (AnySet hashes unhashable members) *)
Variable conv : ty -> value -> option value.
Variable rem_order : list (path * value) -> list (path * value).
Variable add_order : list (path * option value) -> list (path * option value).

(* DeltaResult(tree_results=..., ignore_order=True) *)
Definition to_delta_io (bidir always : bool) (t1 t2 : value) (es : list entry) (reps : list repinfo) : delta_io :=
  let base := to_delta conv bidir always (fun _ _ _ => []) t1 t2 es [] in
  let added0 := fold_left (fun acc e => match ekind e with
      | KIterAdd => pmap_set acc (npath (removelast (ep1 e))) (last_idx (ep1 e))
                             (match et2 e with Some v => v | None => oval (et1 e) end)
      | _ => acc end) es [] in
  let removed := fold_left (fun acc e => match ekind e with
      | KIterRem => pmap_set acc (npath (removelast (ep1 e))) (last_idx (ep1 e))
                             (match et2 e with Some v => v | None => oval (et1 e) end)
      | _ => acc end) es [] in
  let added := fold_left (fun acc e => match ekind e with
      | KRepetition =>
          match find (fun r => path_eqb (rpath r) (ep1 e)) reps with
          | Some r => fold_left (fun a i => pmap_set a (npath (removelast (ep1 e))) i (oval (et1 e))) (rnew r) acc
          | None => acc
          end
      | _ => acc end) es added0 in
  mkDIO base added removed.

(* ---- AnySet membership ---- *)
Fixpoint hashable (v : value) : bool :=
  match v with
  | VAtom _ | VFrozen _ => true
  | VTuple xs => forallb hashable xs
  | _ => false
  end.
Definition anyset_mem (x : value) (vals : list value) : bool :=
  if hashable x then existsb (fun y => hashable y && py_eqv x y) vals
  else existsb (fun y => negb (hashable y) &&
                         pystr_eqb (hash_pure H default_opts x) (hash_pure H default_opts y)) vals.

(* next(_do_ignore_order_get_old): the next surviving old item; olds = the not yet visited
   (index, item) pairs.  Returns the item, the rest, the remove map and the number of errors logged *)
Fixpoint gen_next (olds : list (nat * value)) (remove : imap) (fixed_vals : list value)
  : option (value * list (nat * value) * imap * nat) :=
  match olds with
  | [] => None
  | (i, x) :: r =>
      if anyset_mem x fixed_vals then gen_next r remove fixed_vals
      else match imap_get remove i with
           | Some expected =>
               if py_eqv x expected then gen_next r (imap_del remove i) fixed_vals
               else Some (x, r, imap_del remove i, 1)
           | None => Some (x, r, remove, 0)
           end
  end.

(* the while loop of _do_ignore_order; acc is new_obj *)
Fixpoint io_loop (fuel : nat) (acc : list value) (fixed : imap) (olds : list (nat * value)) (remove : imap)
    (fixed_vals : list value) (there : bool) (e : nat) : list value * nat :=
  match fuel with
  | O => (acc, e)
  | S fuel' =>
      if there || negb (match fixed with [] => true | _ => false end) then
        match imap_get fixed (List.length acc) with
        | Some v => io_loop fuel' (acc ++ [v]) (imap_del fixed (List.length acc)) olds remove fixed_vals there e
        | None =>
            if there then
              match gen_next olds remove fixed_vals with
              | Some (x, olds', remove', de) => io_loop fuel' (acc ++ [x]) fixed olds' remove' fixed_vals there (e + de)
              | None => io_loop fuel' acc fixed [] remove fixed_vals false e
              end
            else
              match fixed with
              | (j, v) :: r => io_loop fuel' (acc ++ [v]) r olds remove fixed_vals there (S e)
              | [] => (acc, e)
              end
        end
      else (acc, e)
  end.

Fixpoint indexed {A} (l : list A) (i : nat) : list (nat * A) :=
  match l with [] => [] | x :: r => (i, x) :: indexed r (S i) end.

Definition rebuild (xs : list value) (fixed remove : imap) : list value * nat :=
  io_loop (List.length xs + List.length fixed + 2) [] fixed (indexed xs 0) remove (map snd fixed)
          (match xs with [] => false | _ => true end) 0.

(* _do_ignore_order *)
Definition io_paths (d : delta_io) : list path :=
  map fst (io_added d) ++ filter (fun p => negb (existsb (path_eqb p) (map fst (io_added d)))) (map fst (io_removed d)).

Definition add_errs (s : st) (n : nat) : st := mkSt (root s) (post s) (errs s + n).

Definition do_ignore_order (d : delta_io) (s : st) : st :=
  fold_left (fun s p =>
    match resolve (root s) p with
    | Some (VList xs) =>
        let '(zs, e) := rebuild xs (pmap_get (io_added d) p) (pmap_get (io_removed d) p) in
        match upd (root s) p (fun _ => Some (VList zs)) with
        | Some r' => add_errs (with_root s r') e
        | None => err (add_errs s e)
        end
    | Some (VTuple xs) =>
        let '(zs, e) := rebuild xs (pmap_get (io_added d) p) (pmap_get (io_removed d) p) in
        match upd (root s) p (fun _ => Some (VTuple zs)) with
        | Some r' => add_errs (with_root s r') e
        | None => err (add_errs s e)
        end
    | _ => err s
    end) (io_paths d) s.

(* Delta.__add__ for a delta built with ignore_order=True *)
Definition apply_io (d : delta_io) (v : value) : value * nat :=
  let b := io_base d in
  let bd := d_bidir b in
  let s := mkSt v [] 0 in
  let s := do_values_changed bd (d_val b) s in
  let s := do_set_items set_union (d_sadd b) s in
  let s := do_set_items set_difference (d_srem b) s in
  let s := do_type_changes conv bd (d_type b) s in
  let s := do_ignore_order d s in
  let s := do_item_added add_order false false (map (fun pv => (fst pv, Some (snd pv))) (d_dadd b)) s in
  let s := do_item_removed rem_order bd (d_drem b) s in
  let s := do_post s in
  (root s, errs s).

End DeltaIO.

(** C08: order (in)sensitivity of the values_changed / type_changes passes.

    The unguarded statement "a permutation of a values_changed pass whose paths
    diverge pairwise gives the same state" is FALSE of the faithful model (and
    of the code, finding F4): writing root[0] of the tuple (1, [2]) coerces the
    root to a list, after which root[1][0] can be written; in the other order
    the second write goes through the tuple and fails ([perm_refuted]).

    It holds for clean runs that coerce nothing ([wrun], DeltaReverseInplace):
    [wrun_perm], and on states [values_changed_perm_clean] /
    [type_changes_perm_clean] (same root, same post, same error count). *)
From Coq Require Import List ZArith NArith Bool Arith Lia Permutation.
Import ListNotations.
From DD Require Import Base.PyStr Base.Value Base.ValueFacts Path.PathModel
  Diff.Tree Diff.DiffModel Diff.DiffFacts Diff.DiffFaithful
  Delta.DeltaModel Delta.DeltaVerify Delta.DeltaReverse Delta.DeltaReverseInplace.

(* ---- pairwise divergence is a property of the set of paths ---- *)
Lemma forallb_perm {A} (f : A -> bool) l l' : Permutation l l' -> forallb f l = forallb f l'.
Proof.
  induction 1 as [|x l l' H IH|x y l|l l' l'' H1 IH1 H2 IH2]; cbn; try reflexivity.
  - rewrite IH. reflexivity.
  - destruct (f x), (f y); reflexivity.
  - rewrite IH1. exact IH2.
Qed.

Lemma pairwise_div_perm l l' : Permutation l l' -> pairwise_div l = true -> pairwise_div l' = true.
Proof.
  induction 1 as [|x l l' H IH|x y l|l l' l'' H1 IH1 H2 IH2]; cbn; intros P; try exact P.
  - apply andb_true_iff in P as [P1 P2]. rewrite <- (forallb_perm _ _ _ H), P1. cbn. apply IH. exact P2.
  - apply andb_true_iff in P as [P1 P2]. apply andb_true_iff in P1 as [Dyx Py]. apply andb_true_iff in P2 as [Px P2].
    rewrite (diverge_sym x y), Dyx, Px, Py, P2. reflexivity.
  - apply IH2. apply IH1. exact P.
Qed.

(* ---- a second write that succeeds after a first one succeeds on its own ---- *)
Lemma set_item_of_get obj k c x : get_item obj k = Some c -> settable obj = true -> exists o', set_item obj k x = Some o'.
Proof.
  intros G T. destruct obj; try discriminate T.
  - destruct (get_item_list_index xs k c G) as (i & Li & Hn).
    assert (L : i < length xs) by (apply nth_error_Some; congruence).
    cbn. rewrite Li. destruct (list_set_lt_some xs i x L) as [l' ->]. eexists; reflexivity.
  - cbn. eexists; reflexivity.
Qed.

Lemma upd_back : forall p q r f g r1 r12, diverge q p = true ->
  upd r p f = Some r1 -> upd r1 q g = Some r12 -> exists r2, upd r q g = Some r2.
Proof.
  induction p as [|a p IH]; intros q r f g r1 r12 D U1 U2; [destruct q; discriminate|].
  destruct q as [|b q]; [discriminate|]. cbn [diverge] in D.
  apply upd_cons_inv in U1 as (cha & ca & Ga & Ua & Sa).
  apply upd_cons_inv in U2 as (chb & cb & Gb & Ub & Sb).
  destruct (set_item_settable _ _ _ _ Sa) as [T _].
  destruct (pkey_eqb b a) eqn:E.
  - apply DiffFaithful.pkey_eqb_eq in E. subst b. rewrite (get_item_set_item_same _ _ _ _ Sa) in Gb. inversion Gb; subst chb.
    destruct (IH q cha f g ca cb D Ua Ub) as [c2 U2'].
    destruct (set_item_of_get r (key_atom a) cha c2 Ga T) as [r2 S2].
    exists r2. rewrite upd_cons, Ga, U2', S2. destruct r; try discriminate T; reflexivity.
  - rewrite (get_item_set_item_other _ _ _ _ _ Sa D) in Gb.
    destruct (set_item_of_get r (key_atom b) chb cb Gb T) as [r2 S2].
    exists r2. rewrite upd_cons, Gb, Ub, S2. destruct r; try discriminate T; reflexivity.
Qed.

Lemma upd_prefix_settable_src : forall pre suf r f r' o,
  suf <> [] -> upd r (pre ++ suf) f = Some r' -> resolve r pre = Some o -> settable o = true.
Proof.
  induction pre as [|k pre IH]; intros suf r f r' o N U R.
  - cbn in R. inversion R; subst. destruct suf as [|k suf]; [congruence|]. cbn [app] in U.
    apply upd_cons_inv in U as (ch & ch' & G & U' & S). apply (set_item_settable _ _ _ _ S).
  - cbn [app] in U. apply upd_cons_inv in U as (ch & ch' & G & U' & S).
    cbn [resolve] in R. rewrite G in R. eapply IH; eassumption.
Qed.

Lemma ntp_back r q f r' p : upd r q f = Some r' -> diverge p q = true -> ntp r' p -> ntp r p.
Proof.
  intros U D N. destruct p as [|k0 p0]; [exact I|]. unfold ntp in *.
  set (op := removelast (k0 :: p0)) in *.
  destruct (diverge_removelast (k0 :: p0) q D) as [H|(suf & Ns & H)]; fold op in H.
  - rewrite <- (upd_frame q r f r' op U H). exact N.
  - destruct (resolve r op) as [o|] eqn:R; [|exact I].
    rewrite H in U. apply settable_not_tuple. eapply upd_prefix_settable_src; eassumption.
Qed.

(* ---- adjacent writes at diverging paths may be exchanged ---- *)
Lemma wrun_swap w1 w2 L r R :
  diverge (wpath w1) (wpath w2) = true -> wrun (w1 :: w2 :: L) r R -> wrun (w2 :: w1 :: L) r R.
Proof.
  intros D H. destruct w1 as [[p1 e1] x1], w2 as [[p2 e2] x2]. cbn [wpath fst] in D.
  inversion H as [|? ? ? ? ? cur1 r1 ? Hr1 He1 Hn1 Hu1 H2]; subst.
  inversion H2 as [|? ? ? ? ? cur2 r12 ? Hr2 He2 Hn2 Hu2 H3]; subst.
  assert (D' : diverge p2 p1 = true) by (rewrite diverge_sym; exact D).
  destruct (upd_back p1 p2 r (const_w x1) (const_w x2) r1 r12 D' Hu1 Hu2) as [r2 Hu2'].
  destruct (upd_comm p1 p2 r (const_w x1) (const_w x2) r1 r2 D Hu1 Hu2') as (r12' & H12 & H21).
  rewrite Hu2 in H12. inversion H12; subst r12'.
  apply (wrun_cons p2 e2 x2 _ r cur2 r2 R).
  - rewrite <- (upd_frame p1 r (const_w x1) r1 p2 Hu1 D'). exact Hr2.
  - exact He2.
  - eapply ntp_back; [exact Hu1|exact D'|exact Hn2].
  - exact Hu2'.
  - apply (wrun_cons p1 e1 x1 _ r2 cur1 r12 R).
    + rewrite (upd_frame p2 r (const_w x2) r2 p1 Hu2' D). exact Hr1.
    + exact He1.
    + eapply ntp_preserved; [exact Hu2'|exact D|exact Hn1].
    + exact H21.
    + exact H3.
Qed.

Theorem wrun_perm L L' : Permutation L L' ->
  forall r R, pairwise_div (map wpath L) = true -> wrun L r R -> wrun L' r R.
Proof.
  induction 1 as [|w L L' H IH|w1 w2 L|L L' L'' H1 IH1 H2 IH2]; intros r R P Hrun.
  - exact Hrun.
  - inversion Hrun as [|p e x ? ? cur r' ? Hr He Hn Hu Hrest]; subst.
    cbn in P. apply andb_true_iff in P as [_ P].
    econstructor; try eassumption. apply IH; assumption.
  - apply wrun_swap; [|exact Hrun].
    cbn in P. apply andb_true_iff in P as [P _]. apply andb_true_iff in P as [P _].
    exact P.
  - apply IH2; [|apply IH1; assumption].
    eapply pairwise_div_perm; [|exact P]. apply Permutation_map. exact H1.
Qed.

(* ---- on states ---- *)
Lemma wfold_perm_clean L L' s : Permutation L L' ->
  pairwise_div (map wpath L) = true ->
  (forall w, In w L -> ntp (root s) (wpath w)) ->
  errs (fold_left wstep L s) = errs s ->
  fold_left wstep L' s = fold_left wstep L s.
Proof.
  intros HP P N Z.
  pose proof (wrun_of_clean_fold L s P N Z) as Hrun.
  rewrite (wrun_sound _ _ _ Hrun s eq_refl).
  apply (wrun_sound L' (root s) _ (wrun_perm L L' HP _ _ P Hrun) s eq_refl).
Qed.

Definition vcw' (c : vchange) : wr := (vc_path c, ovv (vc_old c), vc_new c).

Lemma vstep_wstep' s c : (exists o, vc_old c = Some o) -> vstep true s c = wstep s (vcw' c).
Proof. intros [o E]. unfold vstep, wstep, vcw'. cbn [fst snd]. rewrite E. reflexivity. Qed.

Lemma values_fold_writes l s : Forall (fun c => exists o, vc_old c = Some o) l ->
  do_values_changed true l s = fold_left wstep (map vcw' l) s.
Proof.
  intros H. rewrite do_values_changed_fold, fold_left_map'. apply fold_left_ext_in.
  intros a x Hx. apply vstep_wstep'. eapply Forall_forall in H; eassumption.
Qed.

(* a clean (error-free), coercion-free bidirectional values_changed pass does
   not depend on the order of its entries *)
Theorem values_changed_perm_clean l l' s :
  Permutation l l' -> pairwise_div (map vc_path l) = true ->
  Forall (fun c => exists o, vc_old c = Some o) l ->
  (forall c, In c l -> ntp (root s) (vc_path c)) ->
  errs (do_values_changed true l s) = errs s ->
  do_values_changed true l' s = do_values_changed true l s.
Proof.
  intros HP P HO N Z.
  assert (HO' : Forall (fun c => exists o, vc_old c = Some o) l').
  { apply Forall_forall. intros c Hc. eapply Forall_forall in HO; [exact HO|]. eapply Permutation_in; [apply Permutation_sym; exact HP|exact Hc]. }
  rewrite (values_fold_writes l s HO) in *. rewrite (values_fold_writes l' s HO').
  apply wfold_perm_clean; try assumption.
  - apply Permutation_map. exact HP.
  - rewrite map_map. exact P.
  - intros w Hw. apply in_map_iff in Hw as (c & <- & Hc). apply N. exact Hc.
Qed.

Section Types.
Variable conv : ty -> value -> option value.

Definition tcw' (c : tchange) : wr := (tc_path c, ovv (tc_old c), ovv (tc_new c)).

Lemma tstep_wstep' s c : (exists o, tc_old c = Some o) -> (exists n, tc_new c = Some n) ->
  tstep conv true s c = wstep s (tcw' c).
Proof.
  intros [o E] [n En]. unfold tstep, wstep, tcw'. cbn [fst snd]. rewrite E, En. cbn [ovv].
  destruct (current_at s (tc_path c)); reflexivity.
Qed.

Theorem type_changes_perm_clean l l' s :
  Permutation l l' -> pairwise_div (map tc_path l) = true ->
  Forall (fun c => (exists o, tc_old c = Some o) /\ exists n, tc_new c = Some n) l ->
  (forall c, In c l -> ntp (root s) (tc_path c)) ->
  errs (do_type_changes conv true l s) = errs s ->
  do_type_changes conv true l' s = do_type_changes conv true l s.
Proof.
  intros HP P HO N Z.
  assert (HO' : Forall (fun c => (exists o, tc_old c = Some o) /\ exists n, tc_new c = Some n) l').
  { apply Forall_forall. intros c Hc. eapply Forall_forall in HO; [exact HO|]. eapply Permutation_in; [apply Permutation_sym; exact HP|exact Hc]. }
  assert (F : forall k, Forall (fun c => (exists o, tc_old c = Some o) /\ exists n, tc_new c = Some n) k ->
            forall s0, do_type_changes conv true k s0 = fold_left wstep (map tcw' k) s0).
  { intros k Hk s0. rewrite do_type_changes_fold, fold_left_map'. apply fold_left_ext_in.
    intros a x Hx. eapply Forall_forall in Hk; [|exact Hx]. destruct Hk as [H1 H2]. apply tstep_wstep'; assumption. }
  rewrite (F l HO) in *. rewrite (F l' HO').
  apply wfold_perm_clean; try assumption.
  - apply Permutation_map. exact HP.
  - rewrite map_map. exact P.
  - intros w Hw. apply in_map_iff in Hw as (c & <- & Hc). apply N. exact Hc.
Qed.
End Types.

(* ---- the unguarded statement is false ---- *)
Definition pr_root : value := VTuple [VAtom (AInt 1); VList [VAtom (AInt 2)]].
Definition pr_c1 : vchange := mkVC [PKey (AInt 0)] None (Some (VAtom (AInt 1))) (VAtom (AInt 7)).
Definition pr_c2 : vchange := mkVC [PKey (AInt 1); PKey (AInt 0)] None (Some (VAtom (AInt 2))) (VAtom (AInt 9)).

Theorem perm_refuted :
  Permutation [pr_c1; pr_c2] [pr_c2; pr_c1] /\
  pairwise_div (map vc_path [pr_c1; pr_c2]) = true /\
  errs (do_values_changed true [pr_c1; pr_c2] (mkSt pr_root [] 0)) = 0 /\
  errs (do_values_changed true [pr_c2; pr_c1] (mkSt pr_root [] 0)) = 1 /\
  root (do_values_changed true [pr_c1; pr_c2] (mkSt pr_root [] 0)) <>
  root (do_values_changed true [pr_c2; pr_c1] (mkSt pr_root [] 0)).
Proof.
  split; [apply perm_swap|]. split; [reflexivity|]. split; [reflexivity|]. split; [reflexivity|].
  vm_compute. discriminate.
Qed.
